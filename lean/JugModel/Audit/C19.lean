import JugModel.Props.C19
import JugModel.Props.KALock
#print axioms Jug.C19.round_live
#print axioms Jug.C19.live_never_failed
#print axioms Jug.C19.start_inv
#print axioms Jug.C19.dead_eventually_failed
#print axioms Jug.C19.terminates_parent_gone
#print axioms Jug.C19.terminates_lock_gone
#print axioms Jug.C19.counter_decreases
#print axioms Jug.C19.constants_safe
#print axioms Jug.C19.loop_matches
#print axioms Jug.C19.exits_match
#print axioms Jug.C19.helper_started_plainly
#print axioms Jug.C19.round_mtime_le_now
#print axioms Jug.C19.run_mtime_le_now
#print axioms Jug.C19.lock_gone_stops
#print axioms Jug.C19.dead_worker_run
#print axioms Jug.C19.stopped_is_final
#print axioms Jug.C19.runEnv_live
#print axioms Jug.C19.live_never_failed_code
#print axioms Jug.C19.dead_worker_code
#print axioms Jug.KALockProps.held_lock_has_helper
#print axioms Jug.KALockProps.get_spec
#print axioms Jug.KALockProps.let_go_stops_helper
#print axioms Jug.KALockProps.no_orphans_without_interference
