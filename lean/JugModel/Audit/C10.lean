import JugModel.Props.C10
#print axioms Jug.C10.cleanup_results
#print axioms Jug.C10.needed_kept
#print axioms Jug.C10.unneeded_removed
#print axioms Jug.C10.keep_locks
#print axioms Jug.C10.locks_only
#print axioms Jug.C10.failed_only
#print axioms Jug.C10.failed_only_cases
#print axioms Jug.C10.default_locks
#print axioms Jug.C10.cleanup_wf
#print axioms Jug.C10.dispatch_matches
