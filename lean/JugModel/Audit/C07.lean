import JugModel.Props.C07
#print axioms Jug.C07.ser_set_perm
#print axioms Jug.C07.ser_fset_perm
#print axioms Jug.C07.ser_dict_perm
#print axioms Jug.C07.taskId_kwargs_perm
#print axioms Jug.C07.ser_same
#print axioms Jug.C07.taskId_same
