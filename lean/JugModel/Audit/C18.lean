import JugModel.Props.C18
#print axioms Jug.C18.cleanup_keeps_compound
#print axioms Jug.C18.collapsed_contributes_one
#print axioms Jug.C18.collapsed_defines_none
#print axioms Jug.C18.compound_counts_for_barrier
#print axioms Jug.C18.compound_value
#print axioms Jug.C18.expanded_defines_inner
