import JugModel.Props.C20
#print axioms Jug.C20.argv_shape
#print axioms Jug.C20.common_options_uniform
#print axioms Jug.C20.expand_default_template
#print axioms Jug.C20.expand_literal
#print axioms Jug.C20.precedence
#print axioms Jug.C20.precedence_all
#print axioms Jug.C20.store_location
#print axioms Jug.C20.store_true_hides_config
#print axioms Jug.C20.table_absent_none
