import JugModel.Props.C13
import JugModel.Props.LoopBridge
import JugModel.Props.WorkerBridge
#print axioms Jug.C13.crash_always_enabled
#print axioms Jug.C13.crash_preserves
#print axioms Jug.C13.crash_keeps_results_correct
#print axioms Jug.C13.residue_is_own_locks
#print axioms Jug.C13.survivors_skip
#print axioms Jug.C13.recovery
#print axioms Jug.C13.recovery_no_rerun
#print axioms Jug.C13.recovered_task_can_be_locked
#print axioms Jug.WorkerBridge.worker_conforms
#print axioms Jug.C13.recovery_completes
#print axioms Jug.C13.recovery_state_ok
#print axioms Jug.LoopBridge.recovery_completes_of_loop_workers
