import JugModel.Props.C08
#print axioms Jug.C08.ser_not_injective
#print axioms Jug.C08.taskId_not_injective
#print axioms Jug.C08.ser_inj
#print axioms Jug.C08.ser_injective_partial
#print axioms Jug.C08.taskId_injective_partial
#print axioms Jug.C08.list_ne_tuple
