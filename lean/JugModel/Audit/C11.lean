import JugModel.Props.C11
import JugModel.Props.LoopBridge
import JugModel.Props.WorkerBridge
#print axioms Jug.C11.cleanup_failed_reenables
#print axioms Jug.C11.dependents_never_start
#print axioms Jug.C11.exit_nonzero_after_failure
#print axioms Jug.C11.exit_zero_without_failure
#print axioms Jug.C11.failedT_iff
#print axioms Jug.C11.failed_cannot_dump
#print axioms Jug.C11.failed_cannot_exit_holding
#print axioms Jug.C11.failed_lock_blocks
#print axioms Jug.C11.failed_lock_no_begin
#print axioms Jug.C11.failed_lock_persists
#print axioms Jug.C11.failed_mark
#print axioms Jug.C11.failed_unlock
#print axioms Jug.C11.failure_stores_nothing
#print axioms Jug.C11.failures_sticky
#print axioms Jug.C11.keep_going_completes_independents
#print axioms Jug.C11.keep_going_continues
#print axioms Jug.C11.publish_needs_normal_return
#print axioms Jug.WorkerBridge.worker_conforms
#print axioms Jug.WorkerBridge.worker_scans_all
#print axioms Jug.LoopBridge.keep_going_completes_of_loop_workers
