import JugModel.Props.C14
#print axioms Jug.C14.barrier_guard
#print axioms Jug.C14.bvalue_exact
#print axioms Jug.C14.check_never_early
#print axioms Jug.C14.load_prefix
#print axioms Jug.C14.phase_progress
#print axioms Jug.C14.progress_from_clean
