import JugModel.Props.C14
#print axioms Jug.C14.barrier_guard
#print axioms Jug.C14.bvalue_exact
#print axioms Jug.C14.check_never_early
#print axioms Jug.C14.load_prefix
#print axioms Jug.C14.phase_progress
#print axioms Jug.C14.progress_from_clean
#print axioms Jug.C14.keeps_reloading
#print axioms Jug.C14.completes
#print axioms Jug.C14.done_only_when_open
#print axioms Jug.C14.gaveUp_general
#print axioms Jug.C14.gaveUp_after_idle
#print axioms Jug.C14.loop_passes_le
