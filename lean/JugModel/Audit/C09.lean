import JugModel.Props.C09
#print axioms Jug.C09.affF_mono
#print axioms Jug.C09.affF_mono'
#print axioms Jug.C09.aff_sound
#print axioms Jug.C09.aff_complete
#print axioms Jug.C09.cli_eq_spec
#print axioms Jug.C09.shell_union_eq_cli
#print axioms Jug.C09.store_after
#print axioms Jug.C09.invalidate_keeps_closed
