import JugModel.Props.C05
#print axioms Jug.C05.after_rename
#print axioms Jug.C05.bad_sticky
#print axioms Jug.C05.dump_sequences_safe
#print axioms Jug.C05.invisible_before_rename
#print axioms Jug.C05.packed_overwrite_order
#print axioms Jug.C05.redis_dump_is_one_set
#print axioms Jug.C05.residue_is_temp_only
#print axioms Jug.C05.visible_implies_complete
#print axioms Jug.C05.old_or_new
#print axioms Jug.C05.failed_write_visible_implies_complete
#print axioms Jug.C05.gave_up_publishes_nothing
#print axioms Jug.C05.failing_writes_safe
