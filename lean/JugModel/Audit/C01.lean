import JugModel.Props.C01
import JugModel.Props.WorkerBridge
import JugModel.Props.LoopBridge
#print axioms Jug.C01.exec_sound
#print axioms Jug.C01.loads_are_reference
#print axioms Jug.C01.load_enabled
#print axioms Jug.C01.rerun_noop
#print axioms Jug.C01.exec_complete_partial
#print axioms Jug.C01.started_tasks_have_reference_value
#print axioms Jug.C01.exec_complete
#print axioms Jug.C01.exec_complete_reference
#print axioms Jug.WorkerBridge.worker_scans_all
#print axioms Jug.WorkerBridge.worker_conforms
#print axioms Jug.LoopBridge.loop_scans_all
#print axioms Jug.LoopBridge.loop_fuel_sufficient
#print axioms Jug.LoopBridge.loop_conforms
#print axioms Jug.LoopBridge.scanRun_of_workers
#print axioms Jug.LoopBridge.exec_complete_of_loop_workers
