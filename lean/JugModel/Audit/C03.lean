import JugModel.Props.C03
import JugModel.Props.WorkerBridge
#print axioms Jug.C03.run_after_deps
#print axioms Jug.C03.blocked_while_dep_missing
#print axioms Jug.C03.args_are_stored_results
#print axioms Jug.C03.result_is_function_of_stored
#print axioms Jug.WorkerBridge.worker_conforms
