import JugModel.Props.C06
#print axioms Jug.C06.wf_empty
#print axioms Jug.C06.get_isSome
#print axioms Jug.C06.disj_none
#print axioms Jug.C06.list_perm
#print axioms Jug.C06.step_refines
#print axioms Jug.C06.specStep_congr
#print axioms Jug.C06.store_refines_map
#print axioms Jug.C06.list_nodup
#print axioms Jug.C06.reopen_id
#print axioms Jug.C06.pack_id
#print axioms Jug.C06.pack_threshold
