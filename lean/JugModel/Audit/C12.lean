import JugModel.Props.C12
import JugModel.Props.LoopBridge
import JugModel.Props.WorkerBridge
#print axioms Jug.C12.stop_leaves_no_lock
#print axioms Jug.C12.stop_always_enabled
#print axioms Jug.C12.stop_changes_nothing_shared
#print axioms Jug.C12.stopping_only_unlocks_and_exits
#print axioms Jug.C12.cannot_exit_holding
#print axioms Jug.C12.interrupted_task_has_no_result
#print axioms Jug.C12.state_after_stop_is_regular
#print axioms Jug.WorkerBridge.worker_conforms
#print axioms Jug.C12.stop_mechanisms_use_known_hooks
#print axioms Jug.C12.continuation_completes
#print axioms Jug.LoopBridge.continuation_completes_of_loop_workers
