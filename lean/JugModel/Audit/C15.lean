import JugModel.Props.C15
import JugModel.Props.Memo
#print axioms Jug.C15.classify_spec
#print axioms Jug.C15.totals_add_up
#print axioms Jug.C15.cached_eq_uncached
#print axioms Jug.C15.recDeps_done
#print axioms Jug.C15.checkWalk_sound
#print axioms Jug.C15.checkWalk_complete
#print axioms Jug.C15.check_iff
#print axioms Jug.C15.classifier_table_matches
#print axioms Jug.C15.graph_classifier_eq
#print axioms Jug.MemoProps.memo_truthful
#print axioms Jug.MemoProps.locked_answers_constant
#print axioms Jug.MemoProps.failed_sticky
#print axioms Jug.MemoProps.canLoad_truthful
#print axioms Jug.C15.short_all_complete_iff
#print axioms Jug.C15.short_all_complete_count
#print axioms Jug.MemoProps.lock_seen_through_wrapper
#print axioms Jug.MemoProps.lock_seen_failed_first
#print axioms Jug.MemoProps.classify_through_wrappers
#print axioms Jug.MemoProps.canLoadRun_truthful
#print axioms Jug.MemoProps.canLoadRun_asks_once
#print axioms Jug.MemoProps.canLoadRun_lookups_le
