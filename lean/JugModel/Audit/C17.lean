import JugModel.Props.C17
#print axioms Jug.C17.map_value
#print axioms Jug.C17.map_index
#print axioms Jug.C17.mapreduce_eq_fold
#print axioms Jug.C17.reduce_eq_fold
#print axioms Jug.C17.currymap_value
#print axioms Jug.C17.each_element_mapped_once
#print axioms Jug.C17.chunks_wellformed
#print axioms Jug.C17.slice_indices_in_bounds
#print axioms Jug.C17.slice_value
#print axioms Jug.C17.slice_rejects_only_zero_step
#print axioms Jug.C17.defaults_in_domain
#print axioms Jug.C17.index_value
