import JugModel.Props.C16
#print axioms Jug.C16.deps_complete
#print axioms Jug.C16.deps_completeKV
#print axioms Jug.C16.deps_completeL
#print axioms Jug.C16.eval_reads_only_deps
#print axioms Jug.C16.eval_reads_only_depsKV
#print axioms Jug.C16.eval_reads_only_depsL
#print axioms Jug.C16.return_tuple_value
#print axioms Jug.C16.view_value
#print axioms Jug.C16.views_have_no_entry
#print axioms Jug.C16.wrap_transparent
