import JugModel.Props.C02
import JugModel.Props.WorkerBridge
#print axioms Jug.C02.mutex_run
#print axioms Jug.C02.mutex_cs
#print axioms Jug.C02.no_rerun_once_stored
#print axioms Jug.C02.result_stable
#print axioms Jug.C02.publish_before_release
#print axioms Jug.C02.at_most_once
#print axioms Jug.C02.stored_never_started
#print axioms Jug.C02.exactly_once_if_stored
#print axioms Jug.WorkerBridge.worker_conforms
#print axioms Jug.C02.at_most_once_general
#print axioms Jug.C02.at_most_once_uninterrupted
