import JugModel.Model.Store
import JugModel.Driver.Util
open Lean
namespace Jug.Drv
open Jug.Store

def natsOf (j : Json) : List Nat := match j with
  | .arr a => a.toList.filterMap (fun x => (fromJson? x : Except String Nat).toOption)
  | _ => []

def smallV (v : String) : Bool := v.startsWith "S:"

def parseOp (j : Json) : Option (Op String) :=
  match j with
  | .arr a =>
    let s (i : Nat) : String := (a.getD i .null).getStr?.toOption.getD ""
    let n (i : Nat) : Nat := ((fromJson? (a.getD i .null) : Except String Nat).toOption).getD 0
    match s 0 with
    | "dump" => some (.dump (n 1) (s 2))
    | "load" => some (.load (n 1))
    | "canLoad" => some (.canLoad (n 1))
    | "remove" => some (.remove (n 1))
    | "removeMany" => some (.removeMany (natsOf (a.getD 1 .null)))
    | "list" => some .list
    | "pack" => some .pack
    | "reopen" => some .reopen
    | "cleanup" => some (.cleanup (natsOf (a.getD 1 .null)) (((fromJson? (a.getD 2 .null) : Except String Bool).toOption).getD false))
    | _ => none
  | _ => none

def ansJson : Ans String → Json
  | .unit => Json.null
  | .val v => Json.mkObj [("val", jOpt Json.str v)]
  | .bool b => Json.bool b
  | .keys ks => Json.mkObj [("keys", jList jNat (ks.mergeSort (· ≤ ·)))]

def lstName : LSt → Json
  | .free => Json.null | .held => Json.str "held" | .failed => Json.str "failed"

def tableOf (j : Json) (k : String) : Nat → Option String :=
  match j.getObjVal? k with
  | .ok (.obj kvs) => fun n => (kvs.toList.find? (fun (p : String × Json) => p.1 == toString n)).bind (fun p => p.2.getStr?.toOption)
  | _ => fun _ => none

def handleStore (op : String) (j : Json) : Option Json :=
  match op with
  | "store" =>
    let U := natsOf (j.getObjValD "U")
    let ops := (getArr j "ops").toList.filterMap parseOp
    let rec go (s : FS String) : List (Op String) → List Json
      | [] => []
      | o :: rest => let r := FS.step smallV U s o; ansJson r.2 :: go r.1 rest
    some (Json.arr (go emptyFS ops).toArray)
  | "cleanup" =>
    let U := natsOf (j.getObjValD "U")
    let files := tableOf j "files"
    let packed := tableOf j "packed"
    let locksT := tableOf j "locks"
    let s : FS String := { files := files, packed := packed, packFile := some packed,
                           locks := fun k => match locksT k with | some "held" => .held | some "failed" => .failed | _ => .free,
                           temps := getNat j "temps" }
    let active := natsOf (j.getObjValD "active")
    let mode := match getStr j "mode" with
      | "keepLocks" => Mode.keepLocks | "locksOnly" => .locksOnly | "failedOnly" => .failedOnly | _ => .default
    let s' := s.cleanupCmd mode (fun k => active.contains k)
    some <| Json.mkObj [("res", Json.mkObj (U.filterMap (fun k => (s'.get k).map (fun v => (toString k, Json.str v))))),
      ("locks", Json.mkObj (U.filterMap (fun k => match s'.locks k with | .free => none | l => some (toString k, lstName l)))),
      ("temps", jNat s'.temps)]
  | _ => none

end Jug.Drv
