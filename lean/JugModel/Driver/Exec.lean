import JugModel.Model.Exec
import JugModel.Model.ExecScan
import JugModel.Driver.Util
open Lean
namespace Jug.Drv
open Jug.Exec

def parseEv (j : Json) : Option (Ev String) :=
  match j with
  | .arr a =>
    let s (i : Nat) : String := (a.getD i .null).getStr?.toOption.getD ""
    let n (i : Nat) : Nat := ((fromJson? (a.getD i .null) : Except String Nat).toOption).getD 0
    let b (i : Nat) : Bool := ((fromJson? (a.getD i .null) : Except String Bool).toOption).getD false
    match s 0 with
    | "canLoad" => some (.canLoad (n 1) (n 2) (b 3))
    | "lock" => some (.lock (n 1) (n 2) (b 3))
    | "load" => some (.load (n 1) (n 2) (s 3))
    | "begin" => some (.begin_ (n 1) (n 2))
    | "endOk" => some (.endOk (n 1) (n 2) (s 3))
    | "endExc" => some (.endExc (n 1) (n 2))
    | "dump" => some (.dump (n 1) (n 2) (s 3))
    | "unlock" => some (.unlock (n 1) (n 2))
    | "markFailed" => some (.markFailed (n 1) (n 2))
    | "stop" => some (.stop (n 1) (if s 2 == "kbdInt" then .kbdInt else .sysExit (n 3)))
    | "exit" => some (.exit (n 1) (n 2))
    | "crash" => some (.crash (n 1))
    | "removeLocks" => some .removeLocks
    | "removeFailedLocks" => some .removeFailedLocks
    | _ => none
  | _ => none

def lockToJson : LockSt → Json
  | .free => Json.null
  | .held w => Json.mkObj [("held", toJson w)]
  | .failed w => Json.mkObj [("failed", toJson w)]

def wkName : WSt String → String
  | .idle => "idle" | .holding _ _ => "holding" | .holdingDone _ => "holdingDone" | .running _ => "running"
  | .ran _ _ _ => "ran" | .failedTask _ => "failedTask" | .raising => "raising" | .stopping _ _ => "stopping"
  | .exited c => s!"exited({c})" | .crashed => "crashed"

def handleExec (op : String) (j : Json) : Option Json :=
  match op with
  | "exec" =>
    let n := getNat j "n"
    let deps := (getArr j "deps").map (fun d => match d with
      | .arr a => a.toList.filterMap (fun x => (fromJson? x : Except String Nat).toOption)
      | _ => [])
    let ref := (getArr j "ref").map (fun x => x.getStr?.toOption.getD "")
    let flags := (getArr j "flags").map (fun f => match f with
      | .arr a => (⟨((fromJson? (a.getD 0 .null) : Except String Bool).toOption).getD false,
                    ((fromJson? (a.getD 1 .null) : Except String Bool).toOption).getD false⟩ : Flags)
      | _ => ⟨false, false⟩)
    let res0 := (getArr j "res0").map (fun x => x.getStr?.toOption)
    let P : Prog String := { n := n, deps := fun t => deps.getD t [], f := fun t _ => ref.getD t "" }
    let fl : Worker → Flags := fun w => flags.getD w ⟨false, false⟩
    let s0 : Sys String := { res := fun t => (res0.getD t none), lock := fun _ => .free, wk := fun _ => .idle,
                             failures := fun _ => false, runs := fun _ => 0 }
    let evs := (getArr j "events").toList
    -- the scan obligation of `C01.exec_complete` (dependencies as the code reports them, if given)
    let sdepsA := (getArr j "sdeps").map (fun d => match d with
      | .arr a => a.toList.filterMap (fun x => (fromJson? x : Except String Nat).toOption)
      | _ => [])
    let sdeps : Task → List Task := fun t => if sdepsA.size = 0 then deps.getD t [] else sdepsA.getD t []
    let rec go (s : Sys String) (sc : Scan) (bad : Option Nat) (i : Nat) : List Json → Except (Nat × String) (Sys String × Option Nat)
      | [] => .ok (s, bad)
      | je :: rest =>
        match parseEv je with
        | none => .error (i, "unparsable event")
        | some e =>
          match accept P fl s e with
          | some s' =>
            let bad' := if bad.isNone && !(scanGuard n sc e) then some i else bad
            go s' (scanStep sdeps (fun w => (fl w).keepGoing) sc e) bad' (i + 1) rest
          | none =>
            let w := (evWorkerD e)
            .error (i, s!"rejected in worker state {wkName (s.wk w)}")
    match go s0 Scan.init none 0 evs with
    | .error (i, why) => some <| Json.mkObj [("ok", Json.bool false), ("at", toJson i), ("why", Json.str why), ("event", evs.getD i .null)]
    | .ok (s, bad) =>
      let ts := List.range n
      some <| Json.mkObj [("ok", Json.bool true),
        ("res", jList (fun t => jOpt Json.str (s.res t)) ts),
        ("locks", jList (fun t => lockToJson (s.lock t)) ts),
        ("runs", jList (fun t => jNat (s.runs t)) ts),
        ("scanViolatedAt", jOpt jNat bad),
        ("workers", jList (fun w => Json.str (wkName (s.wk w))) (List.range flags.size))]
  | _ => none
where
  evWorkerD : Ev String → Worker
    | .canLoad w _ _ => w | .lock w _ _ => w | .load w _ _ => w | .begin_ w _ => w | .endOk w _ _ => w | .endExc w _ => w
    | .dump w _ _ => w | .unlock w _ => w | .markFailed w _ => w | .stop w _ => w | .exit w _ => w | .crash w => w
    | _ => 0

end Jug.Drv
