import JugModel.Model.KeepAliveLock
import JugModel.Driver.Util
open Lean
namespace Jug.Drv
open Jug.KALock

def kaOp : String → Option Op
  | "get" => some .get | "release" => some .release | "fail" => some .fail
  | "extRemove" => some .extRemove | "helperNotices" => some .helperNotices | "otherTakes" => some .otherTakes
  | _ => none

def kaSt (s : St) (r : Bool) : Json :=
  Json.mkObj [("ret", Json.bool r),
    ("file", match s.file with | none => Json.null | some true => Json.str "mine" | some false => Json.str "other"),
    ("failed", Json.bool s.failed),
    ("mon", Json.str (match s.mon with | .none => "none" | .running => "running" | .exited => "exited")),
    ("orphans", toJson s.orphans)]

/-- op "kalock": {"ops": [...]} -> the state and return value after every operation -/
def handleKALock (op : String) (j : Json) : Option Json :=
  match op with
  | "kalock" =>
    let ops := (getArr j "ops").toList.filterMap (fun x => kaOp (x.getStr?.toOption.getD ""))
    let rec go (s : St) : List Op → List Json
      | [] => []
      | o :: os => let r := step s o; kaSt r.1 r.2 :: go r.1 os
    some <| Json.mkObj [("trace", Json.arr (go init ops).toArray)]
  | _ => none

end Jug.Drv
