import JugModel.Model.KeepAliveLock
import JugModel.Model.KeepAlive
import JugModel.Driver.Util
open Lean
namespace Jug.Drv
open Jug.KALock

def kaOp : String → Option Op
  | "get" => some .get | "release" => some .release | "fail" => some .fail
  | "extRemove" => some .extRemove | "helperNotices" => some .helperNotices | "otherTakes" => some .otherTakes
  | _ => none

def kaSt (s : St) (r : Bool) : Json :=
  Json.mkObj [("ret", Json.bool r),
    ("file", match s.file with | none => Json.null | some true => Json.str "mine" | some false => Json.str "other"),
    ("failed", Json.bool s.failed),
    ("mon", Json.str (match s.mon with | .none => "none" | .running => "running" | .exited => "exited")),
    ("orphans", toJson s.orphans)]

/-- op "kalock": {"ops": [...]} -> the state and return value after every operation -/
def handleKALock (op : String) (j : Json) : Option Json :=
  match op with
  | "kalock" =>
    let ops := (getArr j "ops").toList.filterMap (fun x => kaOp (x.getStr?.toOption.getD ""))
    let rec go (s : St) : List Op → List Json
      | [] => []
      | o :: os => let r := step s o; kaSt r.1 r.2 :: go r.1 os
    some <| Json.mkObj [("trace", Json.arr (go init ops).toArray)]
  | _ => none

/-- op "karun": {"period","rounds","expiry","sched":[[δ, "ok"|"parentGone"|"lockGone"], ...]} -> the whole life of the helper
    (Jug.KeepAlive.runEnv) from the state right after `get()`: final now / mtime / counter and whether it is still running -/
def handleKARun (op : String) (j : Json) : Option Json :=
  match op with
  | "karun" =>
    let c : Jug.KeepAlive.Consts := { period := getNat j "period", rounds := getNat j "rounds", expiry := getNat j "expiry" }
    let envOf : String → Option Jug.KeepAlive.Env
      | "ok" => some .ok | "parentGone" => some .parentGone | "lockGone" => some .lockGone | _ => none
    let sched := (getArr j "sched").toList.filterMap fun x =>
      match x.getArr?.toOption.map Array.toList with
      | some [d, e] => (envOf (e.getStr?.toOption.getD "")).map fun env => ((d.getNat?.toOption.getD 0), env)
      | _ => none
    if sched.length != (getArr j "sched").size then some (Json.mkObj [("error", Json.str "bad-sched")]) else
    let r := Jug.KeepAlive.runEnv c { now := 0, mtime := 0, counter := c.rounds } sched
    some <| Json.mkObj [("now", toJson r.1.now), ("mtime", toJson r.1.mtime), ("counter", toJson r.1.counter), ("running", Json.bool r.2),
      ("failedAt", toJson (r.1.mtime + c.expiry))]
  | _ => none

end Jug.Drv
