import JugModel.Model.Graph
import JugModel.Model.Target
import JugModel.Driver.Util
open Lean
namespace Jug.Drv
open Jug.Graph

def stName : Status → String
  | .unknown => "unknown" | .waiting => "waiting" | .ready => "ready" | .running => "running" | .failed => "failed" | .finished => "finished"
def stOf : String → Status
  | "waiting" => .waiting | "ready" => .ready | "running" => .running | "failed" => .failed | "finished" => .finished | _ => .unknown

def handleGraph (op : String) (j : Json) : Option Json :=
  match op with
  | "match" =>
    -- which of the task names a plain-name target names
    let target := (getStr j "target").toList
    let names := (getArr j "names").map (fun x => x.getStr?.toOption.getD "")
    some <| Json.mkObj [("hits", jList Json.bool (names.toList.map (fun nm => Jug.Target.matchesName target nm.toList)))]
  | "graph" =>
    let n := getNat j "n"
    let depsA := (getArr j "deps").map (fun d => match d with
      | .arr a => a.toList.filterMap (fun x => (fromJson? x : Except String Nat).toOption)
      | _ => [])
    let deps : Task → List Task := fun t => depsA.getD t []
    let bools (k : String) : Task → Bool :=
      let a := (getArr j k).map (fun x => ((fromJson? x : Except String Bool).toOption).getD false)
      fun t => a.getD t false
    let strs (k : String) : Task → String :=
      let a := (getArr j k).map (fun x => x.getStr?.toOption.getD "")
      fun t => a.getD t ""
    let hit := bools "hit"
    let res := bools "res"
    let lock : Task → LockSt := fun t => match strs "locks" t with | "held" => .held | "failed" => .failed | _ => .free
    let prev : Task → Status := fun t => stOf (strs "prev" t)
    let ts := List.range n
    -- the shell's invalidate(r) for every matching root r, by the work-list algorithm as coded
    let shellRuns := (ts.filter hit).map (fun r => shellLoop (revEdges deps n) (n * n + n + 2) [r] [])
    let shellAll : Option (List Task) := shellRuns.foldl (fun acc o => match acc, o with
      | some a, some b => some (a ++ b)
      | _, _ => none) (some [])
    -- the one-line summary over the tasks `jug status` counts (the task list of the jugfile)
    let counted : List Task := match j.getObjVal? "counted" with
      | .ok (.arr a) => a.toList.filterMap (fun x => (fromJson? x : Except String Nat).toOption)
      | _ => ts
    let tot (st : Status) : Nat := counted.countP (fun t => classify deps res lock t = st)
    let short : Json := match shortSummary (tot .failed) (tot .waiting) (tot .ready) (tot .finished) (tot .running) with
      | .allComplete k => Json.arr #[Json.str "all", toJson (0 : Nat), toJson (0 : Nat), toJson k, toJson (0 : Nat)]
      | .pending w f c a => Json.arr #[Json.str "pending", toJson f, toJson w, toJson c, toJson (a.getD 0)]
    some <| Json.mkObj [
      ("short", short),
      ("aff", jList jNat (ts.filter (aff deps hit))),
      ("shell", jOpt (fun l => jList jNat (ts.filter (fun t => l.contains t))) shellAll),
      ("status", jList (fun t => Json.str (stName (classify deps res lock t))) ts),
      ("cached", jList (fun t => Json.str (stName (classifyCached deps res lock prev t))) ts),
      ("check", Json.bool (checkWalk deps res n n []))]
  | _ => none

end Jug.Drv
