import JugModel.Model.Options
import JugModel.Generated.OptionTable
import JugModel.Driver.Util
open Lean
namespace Jug.Drv
open Jug.Opt

def valOfJson : Json → Val
  | .null => .none
  | .bool b => .bool b
  | .str s => .str s
  | j => match (fromJson? j : Except String Int) with
    | .ok i => .int i
    | .error _ => .none

def valToJson : Val → Json
  | .none => .null
  | .bool b => .bool b
  | .int i => toJson i
  | .str s => .str s

def lookupJ (j : Json) (k : String) : Option Json :=
  match j.getObjVal? k with
  | .ok v => some v
  | .error _ => none

def dedup (l : List String) : List String := l.foldl (fun acc x => if acc.contains x then acc else acc ++ [x]) []

/-- resolve every option of one subcommand; `none` = the real code raises -/
def resolveAll (sub : String) (given ini : Json) : Option (List (String × Val)) :=
  let decls := Generated.Options.optionTable.filter (fun d => d.sub = sub && d.dest ≠ "help" && d.dest ≠ "user_args")
  let dests := dedup (decls.map (·.dest) ++ Generated.Options.defaults.map (·.1))
  dests.mapM fun dest =>
    let d : OptDecl := (decls.find? (·.dest = dest)).getD ⟨sub, dest, "undeclared", .none⟩
    let g : Option Val := (lookupJ given dest).map valOfJson
    let i : Option String := (lookupJ ini dest).bind (fun j => j.getStr?.toOption)
    let dflt : Val := ((Generated.Options.defaults.find? (·.1 = dest)).map (·.2)).getD .none
    (resolve d g i dflt).map fun v => (dest, v)

def handleOpt (op : String) (j : Json) : Option Json :=
  match op with
  | "opt" =>
    let sub := getStr j "sub"
    let given := j.getObjValD "given"
    let ini := j.getObjValD "ini"
    let date := getStr j "date"
    let pos := (getArr j "positionals").toList.filterMap (·.getStr?.toOption)
    let after : Option (List String) := match j.getObjVal? "after" with
      | .ok (.arr a) => some (a.toList.filterMap (·.getStr?.toOption))
      | _ => none
    let allpos := pos ++ after.getD []
    let given := match allpos with
      | jf :: _ => given.setObjVal! "jugfile" (.str jf)
      | [] => given
    match resolveAll sub given ini with
    | none => some (err "config-conversion")
    | some vals =>
      let get (k : String) : Val := ((vals.find? (·.1 = k)).map (·.2)).getD .none
      match get "jugfile", get "jugdir" with
      | .str jf, .str jd =>
        match expandJugdir jd jf date with
        | none => some (err "jugdir-template")
        | some jdx =>
          let vals := vals.map (fun (k, v) => if k = "jugdir" then (k, Val.str jdx) else (k, v))
          some <| Json.mkObj [("values", Json.mkObj (vals.map (fun (k, v) => (k, valToJson v)))),
            ("argv", jList Json.str (splitArgv jf allpos none))]
      | _, _ => some (err "jugfile-or-jugdir-not-a-string")
  | "expand" =>
    some <| jOpt Json.str (expandJugdir (getStr j "template") (getStr j "jugfile") (getStr j "date"))
  | "storefor" =>
    let ov := match j.getObjVal? "override" with
      | .ok (.str s) => some s
      | _ => none
    some <| jOpt Json.str (storeFor ov (getStr j "template") (getStr j "jugfile") (getStr j "date"))
  | _ => none

end Jug.Drv
