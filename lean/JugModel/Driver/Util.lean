import Lean.Data.Json
/-! JSON helpers for the line-protocol driver. -/
open Lean
namespace Jug.Drv

def getNat (j : Json) (k : String) : Nat := (j.getObjValAs? Nat k).toOption.getD 0
def getInt (j : Json) (k : String) : Int := (j.getObjValAs? Int k).toOption.getD 0
def getStr (j : Json) (k : String) : String := (j.getObjValAs? String k).toOption.getD ""
def getBool (j : Json) (k : String) : Bool := (j.getObjValAs? Bool k).toOption.getD false
def getArr (j : Json) (k : String) : Array Json :=
  match j.getObjVal? k with
  | .ok (.arr a) => a
  | _ => #[]
def getOptInt (j : Json) : Option Int :=
  match j with
  | .null => none
  | _ => (fromJson? j : Except String Int).toOption
def jNat (n : Nat) : Json := toJson n
def jInt (n : Int) : Json := toJson n
def jList {α} (f : α → Json) (l : List α) : Json := Json.arr (l.map f).toArray
def jOpt {α} (f : α → Json) : Option α → Json
  | none => Json.null
  | some a => f a
def err (s : String) : Json := Json.mkObj [("error", Json.str s)]

end Jug.Drv
