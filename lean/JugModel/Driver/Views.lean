import JugModel.Model.Views
import JugModel.Driver.Util
open Lean
namespace Jug.Drv
open Jug.Views

partial def pyvOf (j : Json) : PyV :=
  match j with
  | .null => .none
  | .str s => .str s
  | .obj _ =>
    match j.getObjVal? "l", j.getObjVal? "t", j.getObjVal? "d" with
    | .ok (.arr a), _, _ => .list (a.toList.map pyvOf)
    | _, .ok (.arr a), _ => .tuple (a.toList.map pyvOf)
    | _, _, .ok (.arr a) => .dict (a.toList.map (fun p => match p with
        | .arr kv => ((kv.getD 0 .null).getStr?.toOption.getD "", pyvOf (kv.getD 1 .null))
        | _ => ("", .none)))
    | _, _, _ => .none
  | _ => match (fromJson? j : Except String Int) with
    | .ok i => .int i
    | .error _ => .none

partial def pyvJson : PyV → Json
  | .none => .null
  | .int n => toJson n
  | .str s => .str s
  | .list xs => Json.mkObj [("l", Json.arr (xs.map pyvJson).toArray)]
  | .tuple xs => Json.mkObj [("t", Json.arr (xs.map pyvJson).toArray)]
  | .dict kvs => Json.mkObj [("d", Json.arr (kvs.map (fun (k, v) => Json.arr #[.str k, pyvJson v])).toArray)]

instance : Inhabited Arg := ⟨.const .none⟩

partial def argOf (j : Json) : Arg :=
  let get (k : String) : Option Json := (j.getObjVal? k).toOption
  match get "c", get "task", get "item", get "slice", get "list", get "tuple", get "dict", get "wrap", get "chk" with
  | some v, _, _, _, _, _, _, _, _ => .const (pyvOf v)
  | _, some i, _, _, _, _, _, _, _ => .task (((fromJson? i : Except String Nat).toOption).getD 0)
  | _, _, some (.arr a), _, _, _, _, _, _ => .item (argOf (a.getD 0 .null)) (argOf (a.getD 1 .null))
  | _, _, _, some (.arr a), _, _, _, _, _ => .slice (argOf (a.getD 0 .null)) (getOptInt (a.getD 1 .null)) (getOptInt (a.getD 2 .null))
  | _, _, _, _, some (.arr a), _, _, _, _ => .list (a.toList.map argOf)
  | _, _, _, _, _, some (.arr a), _, _, _ => .tuple (a.toList.map argOf)
  | _, _, _, _, _, _, some (.arr a), _, _ => .dict (a.toList.map (fun p => match p with
      | .arr kv => ((kv.getD 0 .null).getStr?.toOption.getD "", argOf (kv.getD 1 .null))
      | _ => ("", .const .none)))
  | _, _, _, _, _, _, _, some a, _ => .wrap (argOf a)
  | _, _, _, _, _, _, _, _, some (.arr a) => .itemChecked (argOf (a.getD 0 .null)) (((fromJson? (a.getD 1 .null) : Except String Nat).toOption).getD 0)
      (((fromJson? (a.getD 2 .null) : Except String Nat).toOption).getD 0)
  | _, _, _, _, _, _, _, _, _ => .const .none

def handleViews (op : String) (j : Json) : Option Json :=
  match op with
  | "view" =>
    let resA := (getArr j "res").map (fun x => match x.getObjVal? "v" with
      | .ok v => some (pyvOf v)
      | .error _ => none)
    let res : Nat → Option PyV := fun i => (resA.getD i none)
    let a := argOf (j.getObjValD "arg")
    let deps := (argDeps a).mergeSort (· ≤ ·) |>.eraseDups
    match evalArg res a with
    | some v => some <| Json.mkObj [("ok", Json.bool true), ("value", pyvJson v), ("deps", jList jNat deps)]
    | none => some <| Json.mkObj [("ok", Json.bool false), ("deps", jList jNat deps)]
  | _ => none

end Jug.Drv
