import JugModel.Model.Lock
import JugModel.Generated.LockTrees
import JugModel.Driver.Util
open Lean
namespace Jug.Drv
open Jug.Lock

def progsOf (b : String) : Progs :=
  match b with
  | "file" => Generated.Locks.fileProgs
  | "keepalive" => Generated.Locks.keepaliveProgs
  | "redis" => Generated.Locks.redisProgs
  | _ => Generated.Locks.dictProgs

def opOf : String → Op
  | "get" => .get | "release" => .release | "isLocked" => .isLocked | "fail" => .fail | _ => .isFailed
def opName : Op → String
  | .get => "get" | .release => "release" | .isLocked => "isLocked" | .fail => "fail" | .isFailed => "isFailed"
def resJson : Res → Json
  | .bool b => Json.bool b | .none => Json.null | .raised => Json.str "raised"
def memName : Mem → String
  | .free => "free" | .locked => "locked" | .failed => "failed"

/-- start + steps until the operation completes (used for sequential preludes and for atomic backends) -/
def solo (progs : Progs) (s : LSys) (i : Nat) (op : Op) : Option (LSys × List (Nat × Op × Res)) :=
  match lstep progs s (.start i op) with
  | none => none
  | some (s1, some o) => some (s1, [o])
  | some (s1, none) =>
    let rec go (fuel : Nat) (s : LSys) : Option (LSys × List (Nat × Op × Res)) :=
      match fuel with
      | 0 => none
      | f + 1 => match lstep progs s (.step i) with
        | none => none
        | some (s2, some o) => some (s2, [o])
        | some (s2, none) => go f s2
    go 16 s1

def handleLock (op : String) (j : Json) : Option Json :=
  match op with
  | "locks" =>
    let progs := progsOf (getStr j "backend")
    let atomic := getStr j "backend" == "dict"
    let s0 : LSys := { mem := .free, cl := fun _ => .idle, holds := fun _ => false }
    let evs := (getArr j "events").toList
    let rec go (s : LSys) (i : Nat) (acc : List Json) : List Json → Except String (LSys × List Json)
      | [] => .ok (s, acc)
      | je :: rest =>
        match je with
        | .arr a =>
          let kind := (a.getD 0 .null).getStr?.toOption.getD ""
          let c := ((fromJson? (a.getD 1 .null) : Except String Nat).toOption).getD 0
          let o := opOf ((a.getD 2 .null).getStr?.toOption.getD "")
          let r := if kind == "solo" || (kind == "start" && atomic) then solo progs s c o
                   else if kind == "start" then (lstep progs s (.start c o)).map (fun (s1, out) => (s1, out.toList))
                   else (lstep progs s (.step c)).map (fun (s1, out) => (s1, out.toList))
          match r with
          | none => .error s!"event {i} rejected"
          | some (s1, outs) =>
            go s1 (i + 1) (acc ++ outs.map (fun (c, o, r) => Json.arr #[toJson c, Json.str (opName o), resJson r])) rest
        | _ => .error "bad event"
    match go s0 0 [] evs with
    | .error e => some (err e)
    | .ok (s, outs) => some <| Json.mkObj [("outs", Json.arr outs.toArray), ("mem", Json.str (memName s.mem)),
        ("wellTyped", Json.bool (if atomic then WellTypedAtomic progs else WellTyped progs))]
  | _ => none

end Jug.Drv
