import JugModel.Model.MapReduce
import JugModel.Driver.Util
open Lean
namespace Jug.Drv
open Jug.MR

/-- sizes of the successive reducer levels of `mapreduce` (number of tasks per level) -/
def treeLevels (rs : Nat) (fuel : Nat) (n : Nat) : List Nat :=
  match fuel with
  | 0 => []
  | fuel + 1 => if n ≤ 1 ∨ rs < 2 then [] else
      let n' := (n + rs - 1) / rs
      n' :: treeLevels rs fuel n'

def parseSlice (j : Json) : PySlice :=
  match j with
  | .arr a => { start := getOptInt (a.getD 0 .null), stop := getOptInt (a.getD 1 .null), step := getOptInt (a.getD 2 .null) }
  | _ => ⟨none, none, none⟩

def handleMR (op : String) (j : Json) : Option Json :=
  match op with
  | "mr" =>
    let n := getNat j "n"; let ms := getNat j "ms"; let rs := getNat j "rs"
    let xs := List.range n
    let blocks := breakUp ms xs
    let v := mrValue (· ++ ·) (fun x => [x]) ms rs xs
    some <| Json.mkObj [("blocks", jList (jList jNat) blocks), ("value", jOpt (jList jNat) v),
      ("levels", jList jNat (blocks.length :: treeLevels rs (n + 1) blocks.length))]
  | "reduce" =>
    let n := getNat j "n"; let rs := getNat j "rs"
    let xs := (List.range n).map (fun x => [x])
    some <| Json.mkObj [("value", jOpt (jList jNat) (reduceValue (· ++ ·) rs xs))]
  | "map" =>
    let n := getNat j "n"; let ms := getNat j "ms"
    let xs := List.range n
    some <| Json.mkObj [("blocks", jList (jList jNat) (if ms = 1 then xs.map ([·]) else breakUp ms xs)),
      ("value", jList jNat (mapValue (· * 2 + 1) ms xs)),
      ("items", jList (jOpt jNat) (xs.map (fun p => blockGet (mapBlocks (· * 2 + 1) ms xs) ms p))),
      -- integer indices -n-2 .. n+1 (null = IndexError)
      ("int_items", jList (jOpt jNat) ((List.range (2 * n + 4)).map (fun (k : Nat) => baGet (mapValue (· * 2 + 1) ms xs) (Int.ofNat k - Int.ofNat n - 2))))]
  | "currymap" =>
    let n := getNat j "n"; let ms := getNat j "ms"
    let xs := (List.range n).map (fun i => (i, i + 1))
    some <| Json.mkObj [("value", jList jNat (curryValue (· * ·) ms xs))]
  | "pyslice" =>
    let n := getNat j "n"
    let s := parseSlice (j.getObjValD "slice")
    match sliceIndices s n with
    | none => some (err "ValueError")
    | some (a, b, c) => some <| Json.mkObj [("indices", Json.arr #[jInt a, jInt b, jInt c]), ("len", jNat (PyRange.mk a b c).len),
        ("list", jList jInt (PyRange.mk a b c).toList)]
  | "slice" =>
    -- m = map(f, range n)[s0][s1]...[sk] then optionally [index]; f x = 2x+1
    let n := getNat j "n"
    let ys := (List.range n).map (· * 2 + 1)
    let slices := (getArr j "slices").toList.map parseSlice
    match slices with
    | [] => some (err "bad-op")
    | s0 :: rest =>
      match baSlice n s0 with
      | none => some (err "ValueError")
      | some r0 =>
        let r := rest.foldl (fun (acc : Option PyRange) s => acc.bind (·.slice s)) (some r0)
        match r with
        | none => some (err "ValueError")
        | some r =>
          match getOptInt (j.getObjValD "index") with
          | none =>
            match sliceValue ys r with
            | none => some (err "IndexError")
            | some v => some <| Json.mkObj [("value", jList jNat v), ("len", jNat r.len)]
          | some i =>
            match (r.get i).bind (baGet ys) with
            | none => some (err "IndexError")
            | some v => some <| Json.mkObj [("value", jNat v), ("len", jNat r.len)]
  | _ => none

end Jug.Drv
