import JugModel.Model.Hash
import JugModel.Model.Sha1
import JugModel.Driver.Util
open Lean
namespace Jug.Drv
open Jug.Hash

abbrev B := ByteArray

def hexVal (c : Char) : UInt8 :=
  if '0' ≤ c ∧ c ≤ '9' then (c.toNat - 48).toUInt8
  else if 'a' ≤ c ∧ c ≤ 'f' then (c.toNat - 87).toUInt8 else 0

def unhex (s : String) : B := Id.run do
  let cs := s.toList.toArray
  let mut out := ByteArray.empty
  for i in [0:cs.size / 2] do
    out := out.push (hexVal cs[2*i]! * 16 + hexVal cs[2*i+1]!)
  return out

def hex (b : B) : String :=
  String.ofList (b.foldl (fun acc x => acc ++ [Char.ofNat (Sha1.hexDigit (x >>> 4)).toNat, Char.ofNat (Sha1.hexDigit (x &&& 15)).toNat]) [])

def bytesLe (a b : B) : Bool := Id.run do
  let n := min a.size b.size
  for i in [0:n] do
    if a[i]! < b[i]! then return true
    if a[i]! > b[i]! then return false
  return a.size ≤ b.size

def markerBytes : Marker → B
  | .list => "<class 'list'>".toUTF8
  | .tuple => "<class 'tuple'>".toUTF8
  | .set => "set".toUTF8
  | .fset => "frozenset".toUTF8
  | .dict => "dict".toUTF8
  | .ndarray => "np.ndarray".toUTF8
  | .tasklet => "Tasklet".toUTF8

def render : Tok B B → B
  | .atom a => a
  | .mark m => markerBytes m
  | .dig d => d
  | .raw b => b

def mkEnc (j : Json) : Enc B B :=
  let nat := (getArr j "nat").map (fun x => unhex (x.getStr?.toOption.getD ""))
  let strs := j.getObjValD "str"
  let pre := unhex (getStr j "digpre")
  let post := unhex (getStr j "digpost")
  { pkNat := fun k => nat.getD k ("<index-out-of-table>".toUTF8),
    pkStr := fun s => unhex (getStr strs s),
    pkDig := fun d => pre ++ d ++ post,
    sha := fun toks => Sha1.hexdigest (toks.foldl (fun acc t => acc ++ render t) ByteArray.empty),
    le := bytesLe }

instance : Inhabited (PVal B B) := ⟨.atom ByteArray.empty⟩

partial def parsePVal (j : Json) : PVal B B :=
  let xs := fun (k : String) => (getArr j k).toList.map parsePVal
  let kvs := fun (k : String) => (getArr j k).toList.map (fun p => match p with
    | .arr a => (parsePVal (a.getD 0 .null), parsePVal (a.getD 1 .null))
    | _ => (.atom ByteArray.empty, .atom ByteArray.empty))
  match getStr j "t" with
  | "atom" => .atom (unhex (getStr j "p"))
  | "custom" => .custom (unhex (getStr j "d"))
  | "list" => .list (xs "xs")
  | "tuple" => .tuple (xs "xs")
  | "set" => .set (xs "xs")
  | "fset" => .fset (xs "xs")
  | "dict" => .dict (kvs "kvs")
  | "nd" => .nd (unhex (getStr j "dtype")) (unhex (getStr j "shape")) (unhex (getStr j "data"))
  | "ndobj" => .ndobj (unhex (getStr j "dtype")) (unhex (getStr j "shape")) (xs "xs")
  | "task" => .task (unhex (getStr j "name")) (xs "args") (kvs "kwargs")
  | "tasklet" => .tasklet (parsePVal (j.getObjValD "base")) (parsePVal (j.getObjValD "f"))
  | "hashed" => .hashed (parsePVal (j.getObjValD "v"))
  | _ => .atom ByteArray.empty

def handleHash (op : String) (j : Json) : Option Json :=
  match op with
  | "hash" =>
    let enc := mkEnc (j.getObjValD "enc")
    let v := parsePVal (j.getObjValD "v")
    let toks := ser enc v
    let selfId : Json := match toks with
      | [.dig d] => Json.str (String.fromUTF8! d)
      | _ => Json.null
    let base := [("hash_one", Json.str (String.fromUTF8! (hashOne enc v))), ("id", selfId)]
    let extra := if getBool j "toks" then [("toks", jList (fun t => Json.str (hex (render t))) toks)] else []
    some (Json.mkObj (base ++ extra))
  | _ => none

end Jug.Drv
