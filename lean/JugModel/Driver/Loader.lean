import JugModel.Model.Loader
import JugModel.Model.Reload
import JugModel.Driver.Util
open Lean
namespace Jug.Drv
open Jug.Loader

instance : Inhabited (JF String) := ⟨.done⟩

partial def jfOf (j : Json) : JF String :=
  let get (k : String) : Option Json := (j.getObjVal? k).toOption
  let nat (x : Json) : Nat := ((fromJson? x : Except String Nat).toOption).getD 0
  let nats (x : Json) : List Nat := match x with
    | .arr a => a.toList.map nat
    | _ => []
  match get "task", get "barrier", get "bvalue", get "compound" with
  | some (.arr a), _, _, _ => .task (nat (a.getD 0 .null)) (nats (a.getD 1 .null)) (jfOf (j.getObjValD "rest"))
  | _, some b, _, _ => .barrier (jfOf b)
  | _, _, some key, _ =>
    let cases := match j.getObjVal? "cases" with
      | .ok (.obj kvs) => kvs.toList.map (fun (p : String × Json) => (p.1, jfOf p.2))
      | _ => []
    .bvalue (nat key) (fun v => ((cases.find? (·.1 == v)).map (·.2)).getD .done)
  | _, _, _, some (.arr a) =>
    let inner := match a.getD 1 .null with
      | .arr xs => xs.toList.map (fun x => match x with
          | .arr p => (nat (p.getD 0 .null), nats (p.getD 1 .null))
          | _ => (0, []))
      | _ => []
    .compound (nat (a.getD 0 .null)) inner (jfOf (j.getObjValD "rest"))
  | _, _, _, _ => .done

def handleLoader (op : String) (j : Json) : Option Json :=
  match op with
  | "load" =>
    let jf := jfOf (j.getObjValD "jf")
    let resT := match j.getObjVal? "res" with
      | .ok (.obj kvs) => kvs.toList.map (fun (p : String × Json) => (p.1, p.2.getStr?.toOption.getD ""))
      | _ => []
    let res : Key → Option String := fun k => (resT.find? (·.1 == toString k)).map (·.2)
    let r := load res jf []
    some <| Json.mkObj [("tasks", jList jNat r.tasks), ("stopped", Json.bool r.stopped)]
  | "reload" =>
    -- the outer loop of `jug execute`: passes as [[executed, barrier], ...]
    let nat (x : Json) : Nat := ((fromJson? x : Except String Nat).toOption).getD 0
    let passes : List Jug.Reload.Pass := match j.getObjValD "passes" with
      | .arr a => a.toList.map (fun x => match x with
          | .arr p => ⟨nat (p.getD 0 .null), (p.getD 1 .null).getBool?.toOption.getD false⟩
          | _ => ⟨0, false⟩)
      | _ => []
    let r := Jug.Reload.loop (nat (j.getObjValD "n")) 0 passes
    let ex := match r.2 with
      | some .done => "done"
      | some .gaveUp => "gaveUp"
      | none => "out-of-passes"
    some <| Json.mkObj [("passes", jNat r.1), ("exit", Json.str ex)]
  | _ => none

end Jug.Drv
