import JugModel.Model.Loop
import JugModel.Driver.Util
open Lean
namespace Jug.Drv
open Jug.Exec Jug.Loop

def stopJ : StopKind → List Json
  | .sysExit c => [Json.str "sysExit", toJson c]
  | .kbdInt => [Json.str "kbdInt"]

def levToJson : LEv → Json
  | .ev (.canLoad _ t b) => Json.arr #[Json.str "canLoad", toJson t, toJson b]
  | .ev (.lock _ t b) => Json.arr #[Json.str "lock", toJson t, toJson b]
  | .ev (.load _ t _) => Json.arr #[Json.str "load", toJson t]
  | .ev (.begin_ _ t) => Json.arr #[Json.str "begin", toJson t]
  | .ev (.endOk _ t _) => Json.arr #[Json.str "endOk", toJson t]
  | .ev (.endExc _ t) => Json.arr #[Json.str "endExc", toJson t]
  | .ev (.dump _ t _) => Json.arr #[Json.str "dump", toJson t]
  | .ev (.unlock _ t) => Json.arr #[Json.str "unlock", toJson t]
  | .ev (.markFailed _ t) => Json.arr #[Json.str "markFailed", toJson t]
  | .ev (.stop _ k) => Json.arr (Json.str "stop" :: stopJ k).toArray
  | .ev _ => Json.arr #[Json.str "other"]
  | .preExec t => Json.arr #[Json.str "preExec", toJson t]
  | .executed1 t => Json.arr #[Json.str "executed1", toJson t]
  | .ret f => Json.arr #[Json.str "ret", toJson f]
  | .raise (.stopped k) => Json.arr (Json.str "raise" :: stopJ k).toArray
  | .raise .taskException => Json.arr #[Json.str "raise", Json.str "exc"]

def parseLEv (j : Json) : Option LEv :=
  match j with
  | .arr a =>
    let s (i : Nat) : String := (a.getD i .null).getStr?.toOption.getD ""
    let n (i : Nat) : Nat := ((fromJson? (a.getD i .null) : Except String Nat).toOption).getD 0
    let b (i : Nat) : Bool := ((fromJson? (a.getD i .null) : Except String Bool).toOption).getD false
    let k : StopKind := if s 1 == "kbdInt" then .kbdInt else .sysExit (n 2)
    match s 0 with
    | "canLoad" => some (.ev (.canLoad 0 (n 1) (b 2)))
    | "lock" => some (.ev (.lock 0 (n 1) (b 2)))
    | "load" => some (.ev (.load 0 (n 1) ()))
    | "begin" => some (.ev (.begin_ 0 (n 1)))
    | "endOk" => some (.ev (.endOk 0 (n 1) ()))
    | "endExc" => some (.ev (.endExc 0 (n 1)))
    | "dump" => some (.ev (.dump 0 (n 1) ()))
    | "unlock" => some (.ev (.unlock 0 (n 1)))
    | "markFailed" => some (.ev (.markFailed 0 (n 1)))
    | "stop" => some (.ev (.stop 0 k))
    | "preExec" => some (.preExec (n 1))
    | "executed1" => some (.executed1 (n 1))
    | "ret" => some (.ret (b 1))
    | "raise" => if s 1 == "exc" then some (.raise .taskException) else some (.raise (.stopped k))
    | _ => none
  | _ => none

/-- {"op":"loop","deps":[[..],..],"flags":[kg,kf,agg,hx],"nr":n,"answers":[..]} -> {"trace":[..],"scanOK":b,"conforms":b} -/
def handleLoop (op : String) (j : Json) : Option Json :=
  match op with
  | "loop" =>
    let deps := (getArr j "deps").toList.map (fun d => match d with
      | .arr a => a.toList.filterMap (fun x => (fromJson? x : Except String Nat).toOption)
      | _ => [])
    let b (i : Nat) : Bool := ((fromJson? ((getArr j "flags").getD i .null) : Except String Bool).toOption).getD false
    let fl : LFlags := ⟨b 0, b 1, b 2, b 3⟩
    let answers := (getArr j "answers").toList.filterMap (fun x => (fromJson? x : Except String Nat).toOption)
    let tr := loopTrace fl deps (getNat j "nr") answers
    let p : WPath := ⟨⟨fl.keepGoing, fl.keepFailed⟩, deps, tr⟩
    some (Json.mkObj [("trace", jList levToJson tr), ("scanOK", toJson (lscanOK p)), ("conforms", toJson (lconforms p))])
  | "looptrace" =>
    -- the worker-local obligations evaluated on a recorded trace of the real loop
    let deps := (getArr j "deps").toList.map (fun d => match d with
      | .arr a => a.toList.filterMap (fun x => (fromJson? x : Except String Nat).toOption)
      | _ => [])
    let b (i : Nat) : Bool := ((fromJson? ((getArr j "flags").getD i .null) : Except String Bool).toOption).getD false
    let evs := (getArr j "events").toList.filterMap parseLEv
    let p : WPath := ⟨⟨b 0, b 1⟩, deps, evs⟩
    some (Json.mkObj [("parsed", toJson (evs.length == (getArr j "events").size)), ("scanOK", toJson (lscanOK p)), ("conforms", toJson (lconforms p))])
  | _ => none

end Jug.Drv
