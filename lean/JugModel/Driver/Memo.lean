import JugModel.Model.Memo
import JugModel.Driver.Util
open Lean
namespace Jug.Drv
open Jug.Graph Jug.Memo

def lstOf : String → LockSt
  | "held" => .held | "failed" => .failed | _ => .free

/-- op "memo": {"listing": null|true|false, "qs": [[<base state>, "L"|"F"], ...]} -> the answers of the memoizing lock wrapper -/
def handleMemo (op : String) (j : Json) : Option Json :=
  match op with
  | "memo" =>
    let listing : Option Bool := match j.getObjVal? "listing" with
      | .ok (.bool b) => some b
      | _ => none
    let qs := (getArr j "qs").toList.map (fun x => match x with
      | .arr a => (lstOf ((a.getD 0 .null).getStr?.toOption.getD ""), if (a.getD 1 .null).getStr?.toOption.getD "" == "F" then Q.isFailed else Q.isLocked)
      | _ => (.free, .isLocked))
    some <| Json.mkObj [("answers", jList Json.bool (runV (initSt listing) qs))]
  | _ => none

/-- op "canloadrun": {"present": [names the backend can load], "listing": true|false, "names": [...]} -> the answers of a whole run of
    `memoize_store.can_load` calls and the names for which the wrapped backend was asked (Jug.Memo.canLoadRun) -/
def handleCanLoadRun (op : String) (j : Json) : Option Json :=
  match op with
  | "canloadrun" =>
    let nats (k : String) : List Nat := (getArr j k).toList.filterMap fun x => x.getNat?.toOption
    let present := nats "present"
    let listing : Bool := match j.getObjVal? "listing" with | .ok (.bool b) => b | _ => false
    let k : KSt := { listing := if listing then some present else none, cache := [] }
    let r := canLoadRun (fun n => present.contains n) k (nats "names")
    some <| Json.mkObj [("answers", jList Json.bool r.1), ("asked", jList (fun (n : Nat) => toJson n) r.2)]
  | _ => none

end Jug.Drv
