import JugModel.Lemmas.ExecOnce
import JugModel.Lemmas.ExecScan
/-!
# C01 - distributed execution computes what plain sequential Python would compute

`denot P t` is the value plain sequential evaluation gives to task `t` (each task function applied to the
reference values of its dependencies). Workers are `Nat`-indexed (any number), histories are arbitrary lists
of accepted events (any interleaving), aggressive unloading only drops worker-local caches, which are not part
of `Sys` (extra `load` events are always enabled when the result exists: `load_enabled`).
-/
set_option linter.unusedVariables false
namespace Jug.C01
open Jug.Exec
variable {V : Type} [DecidableEq V]

/-- **soundness**: whatever the workers do (any number, any interleaving, failures, stops, crashes, lock cleanup),
    every result in the store is the value sequential Python computes -/
theorem exec_sound (P : Prog V) (wf : WF P) (fl : Worker → Flags) (res₀ : Task → Option V)
    (h₀ : ∀ t v, res₀ t = some v → v = denot P t) (evs : List (Ev V)) (s : Sys V)
    (hr : Steps P fl (initSys res₀) evs s) : ∀ t v, s.res t = some v → v = denot P t :=
  (steps_invV P wf fl evs _ s (invV_init P res₀ h₀) hr).sound

/-- every value a worker loads from the store - in particular the arguments of a task - is the reference value -/
theorem loads_are_reference (P : Prog V) (wf : WF P) (fl : Worker → Flags) (res₀ : Task → Option V)
    (h₀ : ∀ t v, res₀ t = some v → v = denot P t) (evs : List (Ev V)) (s s' : Sys V)
    (hr : Steps P fl (initSys res₀) evs s) (w : Worker) (t : Task) (v : V)
    (ha : accept P fl s (.load w t v) = some s') : v = denot P t := by
  have hs := exec_sound P wf fl res₀ h₀ evs s hr
  simp only [accept] at ha
  split at ha <;> (try simp at ha)
  exact hs t v ha.1

/-- a value that exists can always be (re)loaded: aggressive unloading is harmless -/
theorem load_enabled (P : Prog V) (fl : Worker → Flags) (s : Sys V) (w : Worker) (t : Task) (v : V)
    (hlive : ∀ c, s.wk w ≠ .exited c) (hlive2 : s.wk w ≠ .crashed) (h : s.res t = some v) :
    accept P fl s (.load w t v) = some s := by
  simp only [accept]
  split <;> simp_all

/-- **running execute again executes nothing and changes no value**: from a state in which `t` has a result,
    `t` is never started and its stored value never changes, in every history -/
theorem rerun_noop (P : Prog V) (fl : Worker → Flags) (s₀ s : Sys V) (evs : List (Ev V)) (h₀ : Inv s₀)
    (hr : Steps P fl s₀ evs s) (t : Task) (v : V) (hres : s₀.res t = some v) :
    s.res t = some v ∧ ∀ w, accept P fl s (.begin_ w t) = none := by
  -- value stability
  have stable : ∀ (evs : List (Ev V)) (s₀ s : Sys V), Inv s₀ → Steps P fl s₀ evs s → s₀.res t = some v → s.res t = some v := by
    intro evs
    induction evs with
    | nil => intro s₀ s _ hs h; simp only [Steps] at hs; subst hs; exact h
    | cons e es ih =>
      intro s₀ s hi hs h
      simp only [Steps] at hs
      obtain ⟨hl, s1, ha, hr'⟩ := hs
      apply ih s1 s (accept_inv P fl s₀ s1 e hi hl ha) hr'
      rcases res_of_accept P fl s₀ s1 e ha with h1 | ⟨w, t', v', _, hwk, h1⟩
      · rw [h1]; exact h
      · rw [h1]; simp only [upd]
        split
        · rename_i htt; subst htt
          have := hi.nores w t (by simp [hwk, noRes]); simp [this] at h
        · exact h
  have hv := stable evs s₀ s h₀ hr hres
  refine ⟨hv, ?_⟩
  intro w
  have hi := steps_inv P fl evs s₀ s h₀ hr
  cases hacc : accept P fl s (.begin_ w t) with
  | none => rfl
  | some s' =>
    exfalso
    simp only [accept] at hacc
    split at hacc
    · rename_i t' hwk
      split at hacc
      · rename_i hc
        obtain ⟨htt, _⟩ := hc; subst htt
        have := hi.nores w t' (by simp [hwk, noRes]); simp [this] at hv
      · simp at hacc
    · simp at hacc

/-- **completeness (partial)**: in a failure-, stop- and crash-free history, once no worker is inside a task any more,
    every task that was ever started has its result stored (nothing is lost between `run` and `dump`).
    The full statement "every task of the jugfile ends up stored when all workers have exited" needs the workers' task
    lists and scanning order, which layer A abstracts (a worker may look at any task at any time); it is covered by trace
    validation and the reference-value monitor of the correspondence check, not by a theorem (see DESIGN.md). -/
theorem exec_complete_partial (P : Prog V) (fl : Worker → Flags) (res₀ : Task → Option V) (s : Sys V) (evs : List (Ev V))
    (hr : CleanSteps P fl (initSys res₀) evs s) (hq : ∀ w, isActive (s.wk w) = none) (t : Task) (ht : 1 ≤ s.runs t) :
    s.res t ≠ none := by
  have h2 := cleanSteps_inv2 P fl evs _ s (inv2_init res₀) hr
  rcases h2.ran_acc t ht with h | ⟨w, hw⟩
  · exact h
  · rw [hq w] at hw; simp at hw

/-- ... and with a sound start state its value is the reference value -/
theorem started_tasks_have_reference_value (P : Prog V) (wf : WF P) (fl : Worker → Flags) (s : Sys V) (evs : List (Ev V))
    (hr : CleanSteps P fl (initSys (fun _ => none)) evs s) (hq : ∀ w, isActive (s.wk w) = none) (t : Task) (ht : 1 ≤ s.runs t) :
    s.res t = some (denot P t) := by
  have hne := exec_complete_partial P fl _ s evs hr hq t ht
  -- clean steps are steps
  have toSteps : ∀ (evs : List (Ev V)) (s₀ s : Sys V), CleanSteps P fl s₀ evs s → Steps P fl s₀ evs s := by
    intro evs
    induction evs with
    | nil => intro s₀ s h; simpa [CleanSteps, Steps] using h
    | cons e es ih =>
      intro s₀ s h
      simp only [CleanSteps] at h
      obtain ⟨hc, s1, ha, hr'⟩ := h
      exact ⟨legal_of_clean s₀ e hc, s1, ha, ih s1 s hr'⟩
  have hs := exec_sound P wf fl (fun _ => none) (by simp) evs s (toSteps evs _ s hr)
  cases hres : s.res t with
  | none => exact absurd hres hne
  | some v => rw [hs t v hres]

/-! ### completeness, in full

The worker's scanning order stays abstract; what is needed from it is the *obligation* `scanRun` (Model/ExecScan.lean):
a worker leaves with status 0 only after it has accounted for every task - seen its result, found it locked by another
worker, or (since it last finished a task) seen one of its dependencies without a result. The real loop is tied to this
obligation twice: every extracted path of `execution_loop` satisfies it (`WorkerBridge.worker_scans_all`, by the kernel),
and the driver evaluates `scanRun` on every real multi-worker history it validates. -/

/-- **completeness**: in a failure-, stop- and crash-free history of any number `W ≥ 1` of workers, any interleaving, if every
    worker kept its scan obligation and all of them have left with status 0, every task has a result ... -/
theorem exec_complete (P : Prog V) (fl : Worker → Flags) (res₀ : Task → Option V) (n W : Nat) (hW : 0 < W)
    (sdeps : Task → List Task) (hlt : ∀ t d, d ∈ sdeps t → d < t) (s : Sys V) (evs : List (Ev V))
    (hr : CleanSteps P fl (initSys res₀) evs s)
    (hw : ∀ e ∈ evs, ∀ w, evWorker e = some w → w < W)
    (hscan : scanRun n sdeps (kgOf fl) Scan.init evs = true)
    (hq : ∀ w, w < W → s.wk w = .exited 0) :
    ∀ t, t < n → s.res t ≠ none := by
  have hc := fsteps_cinv P fl n W sdeps evs _ s Scan.init (cinv_init n W hW sdeps fl res₀)
    (fsteps_of_cleanSteps P fl evs _ s hr) hw hscan
  intro t ht
  rcases complete_of_cinv n W sdeps fl hlt s _ hc (fun w hw => Or.inl ⟨0, hq w hw⟩) t ht with h | h
  · exact h
  · -- nothing failed in a failure-free history
    have hf := scanFold_failedT_clean (V := V) sdeps (kgOf fl) evs Scan.init (cleanSteps_all_clean P fl evs _ s hr)
    rw [hf] at h
    exact absurd h (not_blocked_of_none sdeps t)

theorem cleanSteps_steps (P : Prog V) (fl : Worker → Flags) : ∀ (evs : List (Ev V)) (s₀ s : Sys V),
    CleanSteps P fl s₀ evs s → Steps P fl s₀ evs s := by
  intro evs
  induction evs with
  | nil => intro s₀ s h; simpa [CleanSteps, Steps] using h
  | cons e es ih =>
    intro s₀ s h
    simp only [CleanSteps] at h
    obtain ⟨hc, s1, ha, hr'⟩ := h
    exact ⟨legal_of_clean s₀ e hc, s1, ha, ih s1 s hr'⟩

/-- ... **and it is the value of sequential evaluation** (C01 for the execution protocol: soundness + completeness) -/
theorem exec_complete_reference (P : Prog V) (wf : WF P) (fl : Worker → Flags) (res₀ : Task → Option V)
    (h₀ : ∀ t v, res₀ t = some v → v = denot P t) (W : Nat) (hW : 0 < W)
    (sdeps : Task → List Task) (hlt : ∀ t d, d ∈ sdeps t → d < t) (s : Sys V) (evs : List (Ev V))
    (hr : CleanSteps P fl (initSys res₀) evs s)
    (hw : ∀ e ∈ evs, ∀ w, evWorker e = some w → w < W)
    (hscan : scanRun P.n sdeps (kgOf fl) Scan.init evs = true)
    (hq : ∀ w, w < W → s.wk w = .exited 0) :
    ∀ t, t < P.n → s.res t = some (denot P t) := by
  intro t ht
  have hne := exec_complete P fl res₀ P.n W hW sdeps hlt s evs hr hw hscan hq t ht
  have hs := exec_sound P wf fl res₀ h₀ evs s (cleanSteps_steps P fl evs _ s hr)
  cases hres : s.res t with
  | none => exact absurd hres hne
  | some v => rw [hs t v hres]

/-- the obligation is needed: without it a worker may simply leave, and the history is accepted with nothing computed -/
example : ∃ s, run (V := Nat) { n := 1, deps := fun _ => [], f := fun _ _ => 0 } (fun _ => ⟨false, false⟩) (initSys (fun _ => none)) [.exit 0 0] = some s
    ∧ s.wk 0 = .exited 0 ∧ s.res 0 = none ∧ scanRun (V := Nat) 1 (fun _ => []) (fun _ => false) Scan.init [.exit 0 0] = false := ⟨_, rfl, by decide⟩

/-! non-vacuity: a diamond-free chain executed by two workers ends with the reference values -/
section Example
def exP : Prog Nat := { n := 2, deps := fun t => if t = 1 then [0] else [], f := fun t env => if t = 1 then (env 0).getD 0 + 1 else 5 }
def exFl : Worker → Flags := fun _ => ⟨false, false⟩
def exHist : List (Ev Nat) :=
  [.canLoad 0 0 false, .lock 0 0 true, .canLoad 0 0 false, .canLoad 1 0 false, .begin_ 0 0, .endOk 0 0 5, .dump 0 0 5, .unlock 0 0,
   .canLoad 1 0 true, .canLoad 1 1 false, .lock 1 1 true, .canLoad 1 1 false, .load 1 0 5, .begin_ 1 1, .endOk 1 1 6, .dump 1 1 6, .unlock 1 1]
example : ∃ s, run exP exFl (initSys (fun _ => none)) exHist = some s ∧ s.res 1 = some 6 := ⟨_, rfl, by decide⟩
example : denot exP 1 = 6 := by decide
/-- the same history completed by the workers' final scans and exits meets every hypothesis of `exec_complete` -/
def exHist2 : List (Ev Nat) := exHist ++ [.canLoad 0 1 true, .exit 0 0, .canLoad 1 0 true, .exit 1 0]
example : ∃ s, run exP exFl (initSys (fun _ => none)) exHist2 = some s ∧ s.wk 0 = .exited 0 ∧ s.wk 1 = .exited 0 ∧ s.res 0 = some 5 :=
  ⟨_, rfl, by decide⟩
example : scanRun 2 exP.deps (fun _ => false) Scan.init exHist2 = true := by decide
end Example

end Jug.C01
