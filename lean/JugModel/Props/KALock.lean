/-
Whenever a keep-alive lock object holds its lock (the file it created is there and it has not marked it failed) a helper
process it refers to is running - after every history of its owner's calls and of interference by others, in particular
after the file was removed behind its back and it took the lock again.
-/
import JugModel.Model.KeepAliveLock
namespace Jug.KALockProps
open Jug.KALock

def Inv (s : St) : Prop := s.file = some true ∧ s.failed = false → s.mon = .running

theorem inv_step (s : St) (o : Op) (h : Inv s) : Inv (step s o).1 := by
  obtain ⟨file, failed, mon, orphans⟩ := s
  cases o <;> cases file <;> simp_all [Inv, step, stopMonitor]
  all_goals (try split) <;> simp_all

/-- **a held lock is being kept alive**, for every history -/
theorem held_lock_has_helper (ops : List Op) : Inv (run init ops) := by
  suffices ∀ s, Inv s → Inv (run s ops) from this init (by simp [Inv, init])
  induction ops with
  | nil => intro s h; exact h
  | cons o os ih => intro s h; exact ih _ (inv_step s o h)

/-- `get()` answers true exactly when the file was absent, and then the object holds the lock with a running helper -/
theorem get_spec (s : St) : ((step s .get).2 = true ↔ s.file = none) ∧
    ((step s .get).2 = true → (step s .get).1.file = some true ∧ (step s .get).1.mon = .running ∧ (step s .get).1.failed = false) := by
  obtain ⟨file, failed, mon, orphans⟩ := s
  cases file <;> simp [step]

/-- after `release()` or `fail()` the object refers to no helper: nothing of its own goes on refreshing the lock -/
theorem let_go_stops_helper (s : St) : (step s .release).1.mon = .none ∧ (step s .fail).1.mon = .none := by
  obtain ⟨file, failed, mon, orphans⟩ := s
  cases file <;> simp [step, stopMonitor]

/-- helpers the object no longer refers to only arise when somebody removes the lock file behind its back -/
def NoExt (ops : List Op) : Prop := ∀ o ∈ ops, o ≠ .extRemove

def Inv2 (s : St) : Prop := (s.mon = .running → s.file = some true) ∧ s.orphans = 0

theorem inv2_step (s : St) (o : Op) (ho : o ≠ .extRemove) (h : Inv2 s) : Inv2 (step s o).1 := by
  obtain ⟨file, failed, mon, orphans⟩ := s
  cases o <;> cases file <;> cases mon <;> simp_all [Inv2, step, stopMonitor]

theorem no_orphans_without_interference (ops : List Op) (h : NoExt ops) : (run init ops).orphans = 0 := by
  suffices ∀ s, Inv2 s → Inv2 (run s ops) from (this init (by simp [Inv2, init])).2
  induction ops with
  | nil => intro s hs; exact hs
  | cons o os ih =>
    intro s hs
    exact ih (fun o' ho' => h o' (List.mem_cons_of_mem _ ho')) _ (inv2_step s o (h o (List.mem_cons_self ..)) hs)

/-! ### not vacuous: the history of the seventh round (file removed, helper gone, lock taken again) -/
example : run init [.get, .extRemove, .helperNotices, .get] = { file := some true, failed := false, mon := .running, orphans := 0 } := by decide
example : (run init [.get, .extRemove, .get]).orphans = 1 := by decide
example : (run init [.get, .fail]).mon = .none ∧ (run init [.get, .fail]).failed = true := by decide

end Jug.KALockProps
