import JugModel.Model.Views
/-!
# C16 - tasklets and wrappers are transparent views that carry their dependencies
-/
set_option linter.unusedVariables false
namespace Jug.C16
open Jug.Views

/-- **views are transparent**: the value of an indexed / sliced / wrapped argument is the operation applied to the value
    underneath - for any nesting, any index including indices that are themselves tasks -/
theorem view_value (res : Nat → Option PyV) (a idx : Arg) (lo hi : Option Int) :
    evalArg res (.item a idx) = ((evalArg res a).bind fun v => (evalArg res idx).bind fun k => pyIndex v k) ∧
    evalArg res (.slice a lo hi) = ((evalArg res a).bind fun v => pySlice v lo hi) ∧
    evalArg res (.wrap a) = evalArg res a := by
  simp [evalArg]

mutual
/-- **a view carries every task underneath it**: each task occurring anywhere in the argument - as base of a tasklet at any
    depth, as a task-valued index, inside containers or wrappers - is reported as a dependency -/
theorem deps_complete (t : Nat) (a : Arg) (h : occurs t a) : t ∈ argDeps a := by
  match a with
  | .const _ => simp [occurs] at h
  | .task i => simp [occurs] at h; simp [argDeps, h]
  | .item b idx =>
    simp only [occurs] at h; simp only [argDeps, List.mem_append]
    rcases h with h | h
    · left; exact deps_complete t b h
    · right; exact deps_complete t idx h
  | .slice b _ _ => simp only [occurs] at h; simp only [argDeps]; exact deps_complete t b h
  | .list xs => simp only [occurs] at h; simp only [argDeps]; exact deps_completeL t xs h
  | .tuple xs => simp only [occurs] at h; simp only [argDeps]; exact deps_completeL t xs h
  | .dict kvs => simp only [occurs] at h; simp only [argDeps]; exact deps_completeKV t kvs h
  | .wrap b => simp only [occurs] at h; simp only [argDeps]; exact deps_complete t b h
  | .itemChecked b _ _ => simp only [occurs] at h; simp only [argDeps]; exact deps_complete t b h
theorem deps_completeL (t : Nat) (xs : List Arg) (h : occursL t xs) : t ∈ argDepsL xs := by
  match xs with
  | [] => simp [occursL] at h
  | a :: rest =>
    simp only [occursL] at h; simp only [argDepsL, List.mem_append]
    rcases h with h | h
    · left; exact deps_complete t a h
    · right; exact deps_completeL t rest h
theorem deps_completeKV (t : Nat) (kvs : List (String × Arg)) (h : occursKV t kvs) : t ∈ argDepsKV kvs := by
  match kvs with
  | [] => simp [occursKV] at h
  | (k, a) :: rest =>
    simp only [occursKV] at h; simp only [argDepsKV, List.mem_append]
    rcases h with h | h
    · left; exact deps_complete t a h
    · right; exact deps_completeKV t rest h
end

mutual
/-- **the value depends only on the reported dependencies**: two stores that agree on `argDeps a` give the same value, so a
    consumer that waits for (C03), and is invalidated with (C09), its reported dependencies waits for / is invalidated with
    everything its value is computed from -/
theorem eval_reads_only_deps (r₁ r₂ : Nat → Option PyV) (a : Arg) (h : ∀ d ∈ argDeps a, r₁ d = r₂ d) :
    evalArg r₁ a = evalArg r₂ a := by
  match a with
  | .const _ => rfl
  | .task i => simp only [evalArg]; exact h i (by simp [argDeps])
  | .item b idx =>
    simp only [evalArg]
    rw [eval_reads_only_deps r₁ r₂ b (fun d hd => h d (by simp [argDeps, hd])),
        eval_reads_only_deps r₁ r₂ idx (fun d hd => h d (by simp [argDeps, hd]))]
  | .slice b _ _ => simp only [evalArg]; rw [eval_reads_only_deps r₁ r₂ b (fun d hd => h d (by simpa [argDeps] using hd))]
  | .list xs => simp only [evalArg]; rw [eval_reads_only_depsL r₁ r₂ xs (fun d hd => h d (by simpa [argDeps] using hd))]
  | .tuple xs => simp only [evalArg]; rw [eval_reads_only_depsL r₁ r₂ xs (fun d hd => h d (by simpa [argDeps] using hd))]
  | .dict kvs => simp only [evalArg]; rw [eval_reads_only_depsKV r₁ r₂ kvs (fun d hd => h d (by simpa [argDeps] using hd))]
  | .wrap b => simp only [evalArg]; exact eval_reads_only_deps r₁ r₂ b (fun d hd => h d (by simpa [argDeps] using hd))
  | .itemChecked b _ _ => simp only [evalArg]; rw [eval_reads_only_deps r₁ r₂ b (fun d hd => h d (by simpa [argDeps] using hd))]
theorem eval_reads_only_depsL (r₁ r₂ : Nat → Option PyV) (xs : List Arg) (h : ∀ d ∈ argDepsL xs, r₁ d = r₂ d) :
    evalArgs r₁ xs = evalArgs r₂ xs := by
  match xs with
  | [] => rfl
  | a :: rest =>
    simp only [evalArgs]
    rw [eval_reads_only_deps r₁ r₂ a (fun d hd => h d (by simp [argDepsL, hd])),
        eval_reads_only_depsL r₁ r₂ rest (fun d hd => h d (by simp [argDepsL, hd]))]
theorem eval_reads_only_depsKV (r₁ r₂ : Nat → Option PyV) (kvs : List (String × Arg)) (h : ∀ d ∈ argDepsKV kvs, r₁ d = r₂ d) :
    evalKVs r₁ kvs = evalKVs r₂ kvs := by
  match kvs with
  | [] => rfl
  | (k, a) :: rest =>
    simp only [evalKVs]
    rw [eval_reads_only_deps r₁ r₂ a (fun d hd => h d (by simp [argDepsKV, hd])),
        eval_reads_only_depsKV r₁ r₂ rest (fun d hd => h d (by simp [argDepsKV, hd]))]
end

/-- `return_tuple(n)`: element `i` of the result, provided the result really has `n` elements -/
theorem return_tuple_value (res : Nat → Option PyV) (a : Arg) (i n : Nat) :
    evalArg res (.itemChecked a i n) = (evalArg res a).bind fun v => pyIndexChecked v i n := by
  simp [evalArg]

/-- wrappers hand the underlying value to the function unchanged, at any depth of wrapping -/
theorem wrap_transparent (res : Nat → Option PyV) (a : Arg) : evalArg res (.wrap (.wrap a)) = evalArg res a := by
  simp [evalArg]

/-- derived objects are never stored: the only way a store entry appears is `dump` of a *task* (layer A, `res_of_accept`);
    a view has no entry of its own - its value is recomputed from the task's entry: -/
theorem views_have_no_entry (res : Nat → Option PyV) (i : Nat) (idx : Arg) (h : res i = none) :
    evalArg res (.item (.task i) idx) = none := by
  simp [evalArg, h]

/-! non-vacuity: `t0[t1][-1]` with `t0 = [[1,2],[3,4]]`, `t1 = 1` evaluates to 4 and depends on both tasks -/
example : evalArg (fun i => if i = 0 then some (.list [.list [.int 1, .int 2], .list [.int 3, .int 4]]) else some (.int 1))
    (.item (.item (.task 0) (.task 1)) (.const (.int (-1)))) = some (.int 4) := by
  simp [evalArg, pyIndex, seqGet]
example : argDeps (.item (.item (.task 0) (.task 1)) (.const (.int (-1)))) = [0, 1] := by decide

end Jug.C16
