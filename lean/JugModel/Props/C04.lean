import JugModel.Lemmas.Lock
import JugModel.Generated.LockTrees
/-!
# C04 - locks are mutually exclusive on every backend; failed locks stay failed

The lock operations are not modelled by hand: `Generated.Locks.*Progs` are the decision trees of the *real*
lock classes over the shared-state primitives, re-extracted on every run. The bridge theorems below check
(by kernel evaluation) that the extracted programs are well typed; the generic theorems then give the
property for **any number of clients and any interleaving of the primitives**.
-/
set_option linter.unusedVariables false
namespace Jug.C04
open Jug.Lock Jug.Generated.Locks

/-! ### bridge: the code as it is now is well typed -/
theorem file_wellTyped : WellTyped fileProgs = true := by decide
theorem keepalive_wellTyped : WellTyped keepaliveProgs = true := by decide
theorem redis_wellTyped : WellTyped redisProgs = true := by decide
/-- the in-memory dict store lives in one process: its operations do not interleave -/
theorem dict_wellTyped : WellTypedAtomic dictProgs = true := by decide

/-- `fail()` on a name that is not locked has no effect (jug calls it on a lock that `jug cleanup --locks-only` removed while the
    task ran): run alone on a free lock, the extracted `fail` program of every interleaving backend leaves it free -/
def failOnFreeNoop (progs : Progs) : Bool := (runSolo 8 (progs .fail) .free).2 == .free
theorem file_fail_on_free : failOnFreeNoop fileProgs = true := by decide
theorem keepalive_fail_on_free : failOnFreeNoop keepaliveProgs = true := by decide
theorem redis_fail_on_free : failOnFreeNoop redisProgs = true := by decide

/-! ### histories -/

/-- run a history, collecting the results of completed operations (most recent first) -/
def lrun (progs : Progs) : LSys → List LEv → Option (LSys × List (Nat × Op × Res))
  | s, [] => some (s, [])
  | s, e :: es =>
    match lstep progs s e with
    | none => none
    | some (s1, out) =>
      match lrun progs s1 es with
      | none => none
      | some (s2, outs) => some (s2, outs ++ out.toList)

def initL (m : Mem) : LSys := { mem := m, cl := fun _ => .idle, holds := fun _ => false }

theorem lrun_inv {progs : Progs} (wt : WellTyped progs = true) (evs : List LEv) (s s' : LSys) (outs : List (Nat × Op × Res))
    (hi : LInv2 s) (hr : lrun progs s evs = some (s', outs)) : LInv2 s' := by
  induction evs generalizing s outs with
  | nil => simp only [lrun, Option.some.injEq, Prod.mk.injEq] at hr; rw [← hr.1]; exact hi
  | cons e es ih =>
    simp only [lrun] at hr
    split at hr <;> (try simp at hr)
    rename_i s1 out hstep
    split at hr <;> (try simp at hr)
    rename_i s2 outs2 hrest
    obtain ⟨rfl, _⟩ := hr
    exact ih s1 outs2 (lstep_inv2 wt s s1 e out hi hstep).1 hrest

/-- **mutual exclusion**: in every reachable state at most one client holds the lock
    (any number of clients, any interleaving of primitives, any histories obeying the owner discipline) -/
theorem mutex {progs : Progs} (wt : WellTyped progs = true) (m : Mem) (evs : List LEv) (s : LSys) (outs : List (Nat × Op × Res))
    (hr : lrun progs (initL m) evs = some (s, outs)) (i j : Nat) (hi : s.holds i = true) (hj : s.holds j = true) : i = j :=
  (lrun_inv wt evs _ s outs (linv2_init m) hr).one i j hi hj

/-- from the moment a client's `get` returned True until it calls `release`, every other `get` returns False -/
theorem held_excludes {progs : Progs} (wt : WellTyped progs = true) (s s' : LSys) (hinv : LInv2 s) (i : Nat) (hi : s.holds i = true)
    (ev : LEv) (j : Nat) (r : Res) (hs : lstep progs s ev = some (s', some (j, .get, r))) : r ≠ .bool true := by
  intro hr; subst hr
  have := ((lstep_inv2 wt s s' ev _ hinv hs).2.1 j rfl).1 i
  simp [hi] at this

/-- a `get` answers True only on a free lock and False only on a taken one -/
theorem get_truthful {progs : Progs} (wt : WellTyped progs = true) (s s' : LSys) (hinv : LInv2 s) (ev : LEv) (j : Nat) (r : Res)
    (hs : lstep progs s ev = some (s', some (j, .get, r))) :
    (r = .bool true → s.mem = .free ∧ s'.mem = .locked ∧ s'.holds j = true) ∧ (r ≠ .bool true → s.mem ≠ .free) := by
  have h := lstep_inv2 wt s s' ev _ hinv hs
  constructor
  · intro hr; subst hr
    have := h.2.1 j rfl
    exact ⟨this.2.1, this.2.2.2, this.2.2.1⟩
  · intro hr; exact h.2.2 j r rfl hr

/-- **a failed lock stays failed**: while some client `h` holds the lock and it is marked failed, no event of another
    client changes the shared state, and no `get` succeeds -/
theorem failed_stays {progs : Progs} (wt : WellTyped progs = true) (s s' : LSys) (hinv : LInv2 s) (h : Nat) (hh : s.holds h = true)
    (hf : s.mem = .failed) (ev : LEv) (out : Option (Nat × Op × Res)) (hne : ∀ op, ev ≠ .start h op) (hne2 : ev ≠ .step h)
    (hs : lstep progs s ev = some (s', out)) : s'.mem = .failed ∧ s'.holds h = true ∧ ∀ j r, out = some (j, .get, r) → r ≠ .bool true := by
  have hinv' := lstep_inv2 wt s s' ev out hinv hs
  have hget : ∀ j r, out = some (j, .get, r) → r ≠ .bool true := by
    intro j r ho hr; subst hr; subst ho
    have := (hinv'.2.1 j rfl).1 h; simp [hh] at this
  refine ⟨?_, ?_, hget⟩
  · -- the shared state
    cases ev with
    | start i op =>
      simp only [lstep] at hs
      split at hs <;> (try simp at hs)
      obtain ⟨hall, hs⟩ := hs
      have hmem : (startState s i op).mem = s.mem := by simp only [startState]; split <;> rfl
      cases hp : progs op with
      | ret r => rw [hp] at hs; simp only [advance, Prod.mk.injEq] at hs; rw [← hs.1]; simp [finish, hmem, hf]
      | prim p next => rw [hp] at hs; simp only [advance, Prod.mk.injEq] at hs; rw [← hs.1]; simp [hmem, hf]
    | step i =>
      have hih : i ≠ h := fun e => hne2 (by rw [e])
      simp only [lstep] at hs
      split at hs <;> (try simp at hs)
      rename_i op p next hcl
      have ht := hinv.typed i op _ hcl
      have hm' : (sem p s.mem).2 = .failed := by
        cases op with
        | get =>
          simp only [opTyped, getOK, Bool.and_eq_true, Bool.or_eq_true] at ht
          rcases ht.1.1 with hr | ha
          · rw [sem_readOnly p s.mem hr, hf]
          · rw [(sem_acquire_taken p s.mem ha (by rw [hf]; simp)).1, hf]
        | release =>
          simp only [opTyped] at ht
          have := ht.2.1 h; simp [hh] at this
        | isLocked =>
          simp only [opTyped, primsAll, Bool.and_eq_true] at ht
          rw [sem_readOnly p s.mem ht.1, hf]
        | fail =>
          simp only [opTyped] at ht
          exact absurd (hinv.one i h ht.2 hh) hih
        | isFailed =>
          simp only [opTyped, primsAll, Bool.and_eq_true] at ht
          rw [sem_readOnly p s.mem ht.1, hf]
      split at hs
      · simp only [Option.some.injEq, Prod.mk.injEq] at hs; rw [← hs.1]; simp [finish, hm']
      · rename_i t _
        simp only [Option.some.injEq] at hs
        cases t with
        | ret r => simp only [advance, Prod.mk.injEq] at hs; rw [← hs.1]; simp [finish, hm']
        | prim q n => simp only [advance, Prod.mk.injEq] at hs; rw [← hs.1]; simp [hm']
  · -- `h` keeps holding: only its own `release` ends that
    cases ev with
    | start i op =>
      have hih : i ≠ h := fun e => hne op (by rw [e])
      simp only [lstep] at hs
      split at hs <;> (try simp at hs)
      obtain ⟨hall, hs⟩ := hs
      have hhold : (startState s i op).holds h = true := by
        simp only [startState]; split
        · simp only [updc]; split
          · rename_i e; exact absurd e.symm hih
          · exact hh
        · exact hh
      cases hp : progs op with
      | ret r =>
        rw [hp] at hs; simp only [advance, Prod.mk.injEq] at hs; rw [← hs.1]
        simp only [finish]; split
        · simp only [updc]; split <;> simp_all
        · exact hhold
      | prim p next => rw [hp] at hs; simp only [advance, Prod.mk.injEq] at hs; rw [← hs.1]; exact hhold
    | step i =>
      simp only [lstep] at hs
      split at hs <;> (try simp at hs)
      split at hs
      · simp only [Option.some.injEq, Prod.mk.injEq] at hs; rw [← hs.1]
        simp only [finish]; split
        · simp only [updc]; split <;> simp_all
        · exact hh
      · rename_i t _
        simp only [Option.some.injEq] at hs
        cases t with
        | ret r =>
          simp only [advance, Prod.mk.injEq] at hs; rw [← hs.1]
          simp only [finish]; split
          · simp only [updc]; split <;> simp_all
          · exact hh
        | prim q n => simp only [advance, Prod.mk.injEq] at hs; rw [← hs.1]; exact hh

/-! ### racing for a free lock: exactly one winner -/

def OnlyGets (evs : List LEv) : Prop := ∀ e ∈ evs, ∀ i op, e = .start i op → op = .get
def GetClients (s : LSys) : Prop := ∀ i op t, s.cl i = .run op t → op = .get
def isWin (o : Nat × Op × Res) : Bool := o.2.1 == .get && o.2.2 == .bool true
def isGet (o : Nat × Op × Res) : Bool := o.2.1 == .get
def wins (outs : List (Nat × Op × Res)) : Nat := (outs.filter isWin).length
def gets (outs : List (Nat × Op × Res)) : Nat := (outs.filter isGet).length

/-- one event of a `get`-only history: the shared state changes only when somebody wins -/
theorem get_event {progs : Progs} (wt : WellTyped progs = true) (s s' : LSys) (hinv : LInv2 s) (hg : GetClients s) (ev : LEv)
    (hev : ∀ i op, ev = .start i op → op = .get) (out : Option (Nat × Op × Res)) (hs : lstep progs s ev = some (s', out)) :
    GetClients s' ∧ (∀ o, out = some o → o.2.1 = .get) ∧
    ((s'.mem = s.mem ∧ ∀ j, out ≠ some (j, .get, .bool true)) ∨ (s.mem = .free ∧ s'.mem = .locked ∧ ∃ j, out = some (j, .get, .bool true))) := by
  cases ev with
  | start i op =>
    have hop := hev i op rfl; subst hop
    simp only [lstep] at hs
    split at hs <;> (try simp at hs)
    obtain ⟨_, hs⟩ := hs
    have hst : startState s i .get = s := by simp [startState]
    rw [hst] at hs
    cases hp : progs .get with
    | ret r => have := wt_get wt; rw [hp] at this; simp [getOK] at this
    | prim p next =>
      rw [hp] at hs; simp only [advance, Prod.mk.injEq] at hs
      obtain ⟨rfl, rfl⟩ := hs
      refine ⟨?_, by simp, Or.inl ⟨rfl, by simp⟩⟩
      intro a op t hcl
      simp only [updc] at hcl
      split at hcl
      · simp only [CState.run.injEq] at hcl; exact hcl.1.symm
      · exact hg a op t hcl
  | step i =>
    have h3 := lstep_inv2 wt s s' (.step i) out hinv hs
    simp only [lstep] at hs
    split at hs <;> (try simp at hs)
    rename_i op p next hcl
    have hop := hg i op _ hcl; subst hop
    have ht := hinv.typed i .get _ hcl
    simp only [opTyped, getOK, Bool.and_eq_true, Bool.or_eq_true] at ht
    have hgc : ∀ (s2 : LSys), s2.cl = updc s.cl i .idle ∨ (∃ t, s2.cl = updc s.cl i (.run .get t)) → GetClients s2 := by
      intro s2 h a op t hcl2
      rcases h with h | ⟨t', h⟩ <;> rw [h] at hcl2 <;> simp only [updc] at hcl2 <;> split at hcl2
      · simp at hcl2
      · exact hg a op t hcl2
      · simp only [CState.run.injEq] at hcl2; exact hcl2.1.symm
      · exact hg a op t hcl2
    -- memory effect
    have hmem : (sem p s.mem).2 = s.mem ∨ (s.mem = .free ∧ (sem p s.mem).2 = .locked ∧ acquireSuccess p (sem p s.mem).1 = true) := by
      rcases ht.1.1 with hr | ha
      · left; exact sem_readOnly p s.mem hr
      · by_cases hm : s.mem = .free
        · right; rw [hm]; exact ⟨rfl, (sem_acquire_free p ha).2, (sem_acquire_free p ha).1⟩
        · left; exact (sem_acquire_taken p s.mem ha hm).1
    split at hs
    · -- no branch: impossible for a total tree, but harmless here
      simp only [Option.some.injEq, Prod.mk.injEq] at hs
      obtain ⟨rfl, rfl⟩ := hs
      have := h3.2.2 i .raised rfl (by simp)
      refine ⟨hgc _ (Or.inl rfl), by simp, ?_⟩
      rcases hmem with hm | ⟨hm, _, _⟩
      · left; exact ⟨by simp [finish, hm], by simp⟩
      · exact absurd hm this
    · rename_i t hlk
      simp only [Option.some.injEq] at hs
      have hb := getBranchesOK_mem ht.1.2 (lookup_mem hlk)
      cases t with
      | ret r =>
        simp only [advance, Prod.mk.injEq] at hs
        obtain ⟨rfl, rfl⟩ := hs
        refine ⟨hgc _ (Or.inl rfl), by simp, ?_⟩
        simp only [getBranchOK, leafOK] at hb
        rcases hmem with hm | ⟨hm, hl, hsucc⟩
        · left; refine ⟨by simp [finish, hm], ?_⟩
          intro j ho
          simp only [Option.some.injEq, Prod.mk.injEq] at ho
          obtain ⟨_, _, hr⟩ := ho
          have := (h3.2.1 i (by rw [hr])).2.2.2
          have h2 := (h3.2.1 i (by rw [hr])).2.1
          simp only [finish] at this
          rw [hm, h2] at this; simp at this
        · right; refine ⟨hm, by simp [finish, hl], i, ?_⟩
          simp only [hsucc, ↓reduceIte, beq_iff_eq] at hb
          rw [hb]
      | prim q n =>
        simp only [advance, Prod.mk.injEq] at hs
        obtain ⟨rfl, rfl⟩ := hs
        refine ⟨hgc _ (Or.inr ⟨_, rfl⟩), by simp, ?_⟩
        simp only [getBranchOK] at hb
        rcases hmem with hm | ⟨hm, hl, hsucc⟩
        · left; exact ⟨hm, by simp⟩
        · rw [hsucc] at hb; simp at hb

theorem race_gen {progs : Progs} (wt : WellTyped progs = true) (evs : List LEv) :
    ∀ (s s' : LSys) (outs : List (Nat × Op × Res)), LInv2 s → GetClients s → OnlyGets evs → lrun progs s evs = some (s', outs) →
      (s.mem ≠ .free → wins outs = 0) ∧ (s.mem = .free → wins outs ≤ 1 ∧ (wins outs = 0 → gets outs = 0)) := by
  induction evs with
  | nil =>
    intro s s' outs _ _ _ hr
    simp only [lrun, Option.some.injEq, Prod.mk.injEq] at hr
    rw [← hr.2]; simp [wins, gets]
  | cons e es ih =>
    intro s s' outs hinv hg hog hr
    simp only [lrun] at hr
    split at hr <;> (try simp at hr)
    rename_i s1 out hstep
    split at hr <;> (try simp at hr)
    rename_i s2 outs2 hrest
    obtain ⟨_, rfl⟩ := hr
    have hinv1 := (lstep_inv2 wt s s1 e out hinv hstep).1
    have h3 := lstep_inv2 wt s s1 e out hinv hstep
    obtain ⟨hg1, hoget, hmem⟩ := get_event wt s s1 hinv hg e (fun i op he => hog e (by simp) i op he) out hstep
    have ih' := ih s1 s2 outs2 hinv1 hg1 (fun e' he' => hog e' (by simp [he'])) hrest
    have hw : wins (outs2 ++ out.toList) = wins outs2 + wins out.toList := by simp [wins, List.filter_append]
    have hgt : gets (outs2 ++ out.toList) = gets outs2 + gets out.toList := by simp [gets, List.filter_append]
    rcases hmem with ⟨hsame, hnowin⟩ | ⟨hfree, hlocked, j, hwin⟩
    · have hw0 : wins out.toList = 0 := by
        cases out with
        | none => simp [wins]
        | some o =>
          obtain ⟨j, op, r⟩ := o
          simp only [Option.toList, wins, List.filter_cons, List.filter_nil]
          have hopg := hoget _ rfl; simp only at hopg; subst hopg
          have : r ≠ .bool true := fun hr => hnowin j (by rw [hr])
          simp [isWin, this]
      constructor
      · intro hm; rw [hw, hw0, (ih'.1 (by rw [hsame]; exact hm))]
      · intro hm
        have := ih'.2 (by rw [hsame]; exact hm)
        refine ⟨by rw [hw, hw0]; omega, ?_⟩
        intro hz
        rw [hw, hw0] at hz
        rw [hgt, this.2 (by omega)]
        -- while the lock is free no `get` can complete with False
        cases out with
        | none => simp [gets]
        | some o =>
          obtain ⟨j, op, r⟩ := o
          have hopg := hoget _ rfl; simp only at hopg; subst hopg
          have hr : r ≠ .bool true := fun hr => hnowin j (by rw [hr])
          exact absurd hm (h3.2.2 j r rfl hr)
    · constructor
      · intro hm; exact absurd hfree hm
      · intro _
        have h0 := ih'.1 (by rw [hlocked]; simp)
        have hw1 : wins out.toList = 1 := by rw [hwin]; simp [wins, isWin]
        refine ⟨by rw [hw, hw1, h0]; omega, ?_⟩
        intro hz; rw [hw, hw1] at hz; omega

/-- **of any set of clients racing for a free lock exactly one succeeds**: in a history of `get`s only, starting from a
    free lock, at most one `get` answers True, and as soon as one `get` has completed exactly one has answered True -/
theorem race_one_winner {progs : Progs} (wt : WellTyped progs = true) (evs : List LEv) (s : LSys) (outs : List (Nat × Op × Res))
    (hog : OnlyGets evs) (hr : lrun progs (initL .free) evs = some (s, outs)) :
    wins outs ≤ 1 ∧ (1 ≤ gets outs → wins outs = 1) := by
  have h := (race_gen wt evs (initL .free) s outs (linv2_init .free) (by intro i op t h; simp [initL] at h) hog hr).2 rfl
  refine ⟨h.1, ?_⟩
  intro hg
  have := h.2
  omega

/-- what an operation answers when nothing interferes while it runs (in particular: between `fail` and `release`, where
    by `failed_stays` nothing can interfere): a failed lock is reported locked and failed and cannot be acquired;
    a free lock can be acquired; after `release` the lock is free again (so it can be re-acquired) -/
theorem solo_behaviour {progs : Progs} (wt : WellTyped progs = true) :
    (runSolo 8 (progs .get) .failed = (.bool false, .failed)) ∧
    (runSolo 8 (progs .isLocked) .failed = (.bool true, .failed)) ∧
    (runSolo 8 (progs .isFailed) .failed = (.bool true, .failed)) ∧
    (runSolo 8 (progs .isLocked) .locked = (.bool true, .locked)) ∧
    (runSolo 8 (progs .isFailed) .locked = (.bool false, .locked)) ∧
    (runSolo 8 (progs .get) .locked = (.bool false, .locked)) ∧
    (runSolo 8 (progs .fail) .locked = (.bool true, .failed)) ∧
    (runSolo 8 (progs .get) .free = (.bool true, .locked)) ∧
    (∀ m, (runSolo 8 (progs .release) m).2 = .free) := by
  have h := wt_solo wt
  simp only [soloSpec, List.all_cons, List.all_nil, Bool.and_true, Bool.and_eq_true, beq_iff_eq, Bool.or_eq_true] at h
  obtain ⟨⟨⟨⟨⟨g0, r0⟩, l0⟩, f0⟩, _⟩, ⟨⟨⟨⟨g1, r1⟩, l1⟩, f1⟩, k1⟩, ⟨⟨⟨⟨g2, r2⟩, l2⟩, f2⟩, k2⟩⟩ := h
  refine ⟨g2.trans rfl, l2.trans rfl, f2.trans rfl, l1.trans rfl, f1.trans rfl, g1.trans rfl, ?_, g0.trans rfl, ?_⟩
  · rcases k1 with k | k
    · simp at k
    · exact k
  · intro m; cases m <;> assumption

/-! ### the failed window: what others are told between `fail` and `release`, under any interleaving -/

/-- what an observer must be told while the lock is marked failed -/
def expected : Op → Option Res
  | .get => some (.bool false)
  | .isLocked => some (.bool true)
  | .isFailed => some (.bool true)
  | _ => none

theorem expected_ne_raised {op : Op} {r : Res} (h : expected op = some r) : r ≠ .raised := by
  cases op <;> simp [expected] at h <;> subst h <;> simp

/-- every client other than `h` that is in the middle of an observing operation is on course to the right answer:
    run alone from here on a failed lock, its remaining program gives it -/
def OnCourse (s : LSys) (h : Nat) : Prop :=
  ∀ j op t r, j ≠ h → s.cl j = .run op t → expected op = some r → ∃ k, runSolo k t .failed = (r, .failed)

theorem solo_expected {progs : Progs} (wt : WellTyped progs = true) (op : Op) (r : Res) (h : expected op = some r) :
    runSolo 8 (progs op) .failed = (r, .failed) := by
  have hs := solo_behaviour wt
  cases op <;> simp [expected] at h <;> subst h
  · exact hs.1
  · exact hs.2.1
  · exact hs.2.2.1

/-- one event inside the failed window -/
theorem window_step {progs : Progs} (wt : WellTyped progs = true) (s s' : LSys) (hinv : LInv2 s) (h : Nat) (hh : s.holds h = true)
    (hf : s.mem = .failed) (hoc : OnCourse s h) (ev : LEv) (out : Option (Nat × Op × Res))
    (hne : ∀ op, ev ≠ .start h op) (hne2 : ev ≠ .step h) (hs : lstep progs s ev = some (s', out)) :
    OnCourse s' h ∧ ∀ j op r r', out = some (j, op, r') → expected op = some r → r' = r := by
  have hst := failed_stays wt s s' hinv h hh hf ev out hne hne2 hs
  cases ev with
  | start i op =>
    have hih : i ≠ h := fun e => hne op (by rw [e])
    simp only [lstep] at hs
    split at hs <;> (try simp at hs)
    rename_i hidle
    obtain ⟨hall, hs⟩ := hs
    have hcl : (startState s i op).cl = s.cl := by simp only [startState]; split <;> rfl
    cases hp : progs op with
    | ret r0 =>
      rw [hp] at hs; simp only [advance, Prod.mk.injEq] at hs
      obtain ⟨hs1, hs2⟩ := hs
      constructor
      · intro j op' t r hj hclj hex
        rw [← hs1] at hclj
        simp only [finish, updc, hcl] at hclj
        split at hclj
        · simp at hclj
        · exact hoc j op' t r hj hclj hex
      · intro j op' r r' ho hex
        rw [← hs2] at ho
        simp only [Option.some.injEq, Prod.mk.injEq] at ho
        obtain ⟨_, rfl, rfl⟩ := ho
        have := solo_expected wt op r hex
        rw [hp] at this; simp only [runSolo, Prod.mk.injEq] at this
        exact this.1
    | prim p next =>
      rw [hp] at hs; simp only [advance, Prod.mk.injEq] at hs
      obtain ⟨hs1, hs2⟩ := hs
      constructor
      · intro j op' t r hj hclj hex
        rw [← hs1] at hclj
        simp only [updc, hcl] at hclj
        split at hclj
        · simp only [CState.run.injEq] at hclj
          obtain ⟨rfl, rfl⟩ := hclj
          exact ⟨8, by rw [← hp]; exact solo_expected wt op r hex⟩
        · exact hoc j op' t r hj hclj hex
      · intro j op' r r' ho; rw [← hs2] at ho; simp at ho
  | step i =>
    have hih : i ≠ h := fun e => hne2 (by rw [e])
    simp only [lstep] at hs
    split at hs <;> (try simp at hs)
    rename_i op p next hcl
    -- what the solo run from here says, if the operation is an observing one
    have hsolo : ∀ r, expected op = some r →
        (lookup (sem p .failed).1 next = none → r = .raised) ∧
        (∀ t', lookup (sem p .failed).1 next = some t' → ∃ k, runSolo k t' (sem p .failed).2 = (r, .failed)) := by
      intro r hex
      obtain ⟨k, hk⟩ := hoc i op _ r hih hcl hex
      cases k with
      | zero => simp only [runSolo, Prod.mk.injEq] at hk; exact absurd hk.1.symm (expected_ne_raised hex)
      | succ k =>
        simp only [runSolo] at hk
        constructor
        · intro hl; rw [hl] at hk; simp only [Prod.mk.injEq] at hk; exact hk.1.symm
        · intro t' hl; rw [hl] at hk; exact ⟨k, hk⟩
    rw [hf] at hs
    have hmem' : s'.mem = (sem p .failed).2 := by
      split at hs
      · simp only [Option.some.injEq, Prod.mk.injEq] at hs; rw [← hs.1]; simp [finish]
      · rename_i t _
        simp only [Option.some.injEq] at hs
        cases t with
        | ret r => simp only [advance, Prod.mk.injEq] at hs; rw [← hs.1]; simp [finish]
        | prim q n => simp only [advance, Prod.mk.injEq] at hs; rw [← hs.1]
    have hm' : (sem p .failed).2 = .failed := by rw [← hmem']; exact hst.1
    split at hs
    · rename_i hl
      simp only [Option.some.injEq, Prod.mk.injEq] at hs
      obtain ⟨hs1, hs2⟩ := hs
      constructor
      · intro j op' t r hj hclj hex
        rw [← hs1] at hclj
        simp only [finish, updc] at hclj
        split at hclj
        · simp at hclj
        · exact hoc j op' t r hj hclj hex
      · intro j op' r r' ho hex
        rw [← hs2] at ho
        simp only [Option.some.injEq, Prod.mk.injEq] at ho
        obtain ⟨_, rfl, rfl⟩ := ho
        exact ((hsolo r hex).1 hl).symm
    · rename_i t' hl
      simp only [Option.some.injEq] at hs
      cases t' with
      | ret r0 =>
        simp only [advance, Prod.mk.injEq] at hs
        obtain ⟨hs1, hs2⟩ := hs
        constructor
        · intro j op' t r hj hclj hex
          rw [← hs1] at hclj
          simp only [finish, updc] at hclj
          split at hclj
          · simp at hclj
          · exact hoc j op' t r hj hclj hex
        · intro j op' r r' ho hex
          rw [← hs2] at ho
          simp only [Option.some.injEq, Prod.mk.injEq] at ho
          obtain ⟨_, rfl, rfl⟩ := ho
          obtain ⟨k, hk⟩ := (hsolo r hex).2 _ hl
          cases k <;> simp only [runSolo, Prod.mk.injEq] at hk <;> exact hk.1
      | prim q n =>
        simp only [advance, Prod.mk.injEq] at hs
        obtain ⟨hs1, hs2⟩ := hs
        constructor
        · intro j op' t r hj hclj hex
          rw [← hs1] at hclj
          simp only [updc] at hclj
          split at hclj
          · simp only [CState.run.injEq] at hclj
            obtain ⟨rfl, rfl⟩ := hclj
            obtain ⟨k, hk⟩ := (hsolo r hex).2 _ hl
            rw [hm'] at hk
            exact ⟨k, hk⟩
          · exact hoc j op' t r hj hclj hex
        · intro j op' r r' ho; rw [← hs2] at ho; simp at ho

/-- events of the window: anything but the holder's own -/
def NotBy (h : Nat) (evs : List LEv) : Prop := ∀ e ∈ evs, (∀ op, e ≠ .start h op) ∧ e ≠ .step h

/-- **failed stays failed, for every observer and every interleaving**: from a state in which `h` holds the lock marked
    failed (and nobody else is half-way through an operation begun earlier), along any history of the other clients'
    primitives - operations overlapping each other in any way - every completed `is_locked()` and `is_failed()` answers
    True and every completed `get()` answers False; the shared state stays failed and `h` keeps holding -/
theorem failed_window {progs : Progs} (wt : WellTyped progs = true) (h : Nat) (evs : List LEv) :
    ∀ (s s' : LSys) (outs : List (Nat × Op × Res)), LInv2 s → s.holds h = true → s.mem = .failed → OnCourse s h → NotBy h evs →
      lrun progs s evs = some (s', outs) →
      s'.mem = .failed ∧ s'.holds h = true ∧ ∀ j op r r', (j, op, r') ∈ outs → expected op = some r → r' = r := by
  induction evs with
  | nil =>
    intro s s' outs _ hh hf _ _ hr
    simp only [lrun, Option.some.injEq, Prod.mk.injEq] at hr
    obtain ⟨rfl, rfl⟩ := hr
    exact ⟨hf, hh, by intro j op r r' hm; simp at hm⟩
  | cons e es ih =>
    intro s s' outs hinv hh hf hoc hnb hr
    simp only [lrun] at hr
    split at hr <;> (try simp at hr)
    rename_i s1 out hstep
    split at hr <;> (try simp at hr)
    rename_i s2 outs2 hrest
    obtain ⟨rfl, rfl⟩ := hr
    have hne := hnb e (by simp)
    have h1 := failed_stays wt s s1 hinv h hh hf e out hne.1 hne.2 hstep
    have h2 := window_step wt s s1 hinv h hh hf hoc e out hne.1 hne.2 hstep
    have h3 := ih s1 s2 outs2 (lstep_inv2 wt s s1 e out hinv hstep).1 h1.2.1 h1.1 h2.1 (fun e' he' => hnb e' (by simp [he'])) hrest
    refine ⟨h3.1, h3.2.1, ?_⟩
    intro j op r r' hm hex
    simp only [List.mem_append, Option.mem_toList] at hm
    rcases hm with hm | hm
    · exact h3.2.2 j op r r' hm hex
    · exact h2.2 j op r r' hm hex

/-- in particular from the moment `fail()` has completed with every other client idle -/
theorem failed_window_idle {progs : Progs} (wt : WellTyped progs = true) (h : Nat) (evs : List LEv) (s s' : LSys)
    (outs : List (Nat × Op × Res)) (hinv : LInv2 s) (hh : s.holds h = true) (hf : s.mem = .failed)
    (hidle : ∀ j, j ≠ h → s.cl j = .idle) (hnb : NotBy h evs) (hr : lrun progs s evs = some (s', outs)) :
    ∀ j r', ((j, .isFailed, r') ∈ outs → r' = .bool true) ∧ ((j, .isLocked, r') ∈ outs → r' = .bool true) ∧
            ((j, .get, r') ∈ outs → r' = .bool false) := by
  have hoc : OnCourse s h := by
    intro j op t r hj hcl _; rw [hidle j hj] at hcl; simp at hcl
  have hw := (failed_window wt h evs s s' outs hinv hh hf hoc hnb hr).2.2
  intro j r'
  exact ⟨fun hm => hw j .isFailed _ r' hm rfl, fun hm => hw j .isLocked _ r' hm rfl, fun hm => hw j .get _ r' hm rfl⟩

/-- non-vacuity on the extracted file-lock programs: client 0 acquires and marks failed; then clients 1 and 2 run
    `is_failed()` (two primitives) and `get()` interleaved primitive by primitive inside the window -/
example : ∃ s outs, lrun fileProgs (initL .free)
      [.start 0 .get, .step 0, .step 0, .start 0 .fail, .step 0] = some (s, outs) ∧
      s.mem = .failed ∧ s.holds 0 = true := ⟨_, _, rfl, by decide⟩
example : ∃ s outs, lrun fileProgs { mem := .failed, cl := fun _ => .idle, holds := fun j => j == 0 }
      [.start 1 .isFailed, .start 2 .get, .step 1, .step 2, .start 3 .isLocked, .step 1, .step 3] = some (s, outs) ∧
      outs = [(3, .isLocked, .bool true), (1, .isFailed, .bool true), (2, .get, .bool false)] := ⟨_, _, rfl, by decide⟩

/-- the same for the atomic in-memory backend -/
theorem solo_behaviour_dict :
    (runSolo 8 (dictProgs .get) .free = (.bool true, .locked)) ∧ (runSolo 8 (dictProgs .get) .locked = (.bool false, .locked)) ∧
    (runSolo 8 (dictProgs .get) .failed = (.bool false, .failed)) ∧ (runSolo 8 (dictProgs .fail) .locked = (.bool true, .failed)) ∧
    (runSolo 8 (dictProgs .isFailed) .failed = (.bool true, .failed)) ∧ (runSolo 8 (dictProgs .isLocked) .failed = (.bool true, .failed)) ∧
    (runSolo 8 (dictProgs .release) .locked).2 = .free ∧ (runSolo 8 (dictProgs .release) .failed).2 = .free := by decide

/-! ### the instances for the code as it is now -/
theorem file_mutex (m : Mem) (evs : List LEv) (s : LSys) (outs : List (Nat × Op × Res))
    (hr : lrun fileProgs (initL m) evs = some (s, outs)) (i j : Nat) (hi : s.holds i = true) (hj : s.holds j = true) : i = j :=
  mutex file_wellTyped m evs s outs hr i j hi hj
theorem keepalive_mutex (m : Mem) (evs : List LEv) (s : LSys) (outs : List (Nat × Op × Res))
    (hr : lrun keepaliveProgs (initL m) evs = some (s, outs)) (i j : Nat) (hi : s.holds i = true) (hj : s.holds j = true) : i = j :=
  mutex keepalive_wellTyped m evs s outs hr i j hi hj
theorem redis_mutex (m : Mem) (evs : List LEv) (s : LSys) (outs : List (Nat × Op × Res))
    (hr : lrun redisProgs (initL m) evs = some (s, outs)) (i j : Nat) (hi : s.holds i = true) (hj : s.holds j = true) : i = j :=
  mutex redis_wellTyped m evs s outs hr i j hi hj

/-! non-vacuity and sharpness: two clients racing on the file backend, both past the `exists` check: one winner;
    the same race with `open(..., 'w')` instead of `O_EXCL` (a typical breaking change) has two winners and is not well typed -/
example : (lrun fileProgs (initL .free) [.start 0 .get, .start 1 .get, .step 0, .step 1, .step 0, .step 1]).map (·.2) =
    some [(1, .get, .bool false), (0, .get, .bool true)] := by decide
def brokenGet : Progs := fun op => match op with
  | .get => .prim .exists_ [(.yes, .ret (.bool false)), (.no, .prim .openTrunc [(.ok, .ret (.bool true))])]
  | o => fileProgs o
example : WellTyped brokenGet = false := by decide
example : (lrun brokenGet (initL .free) [.start 0 .get, .start 1 .get, .step 0, .step 1, .step 0, .step 1]).map (·.2) =
    some [(1, .get, .bool true), (0, .get, .bool true)] := by decide

end Jug.C04
