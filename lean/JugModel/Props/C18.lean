import JugModel.Model.Loader
/-!
# C18 - a compound task equals its expansion and collapses once computed
-/
set_option linter.unusedVariables false
namespace Jug.C18
open Jug.Loader

variable {V : Type}

/-- **collapsed once computed**: when the compound's value is stored, loading creates the compound task alone - no inner tasks -/
theorem collapsed_defines_none (res : Key → Option V) (key : Key) (inner : List (Key × List Key)) (rest : JF V) (d : List Key)
    (h : res key ≠ none) :
    (load res (.compound key inner rest) d).tasks = key :: (load res rest (key :: d)).tasks ∧
    (load res (.compound key inner rest) d).stopped = (load res rest (key :: d)).stopped := by
  have : (res key).isSome = true := by cases hr : res key <;> simp_all
  simp [load, this]

/-- **expanded before that**: the inner tasks are ordinary entries of the task list (scheduled, locked and counted like any
    other: layer A is indifferent to where a task comes from), followed by the compound task itself under the same key -/
theorem expanded_defines_inner (res : Key → Option V) (key : Key) (inner : List (Key × List Key)) (rest : JF V) (d : List Key)
    (h : res key = none) :
    (load res (.compound key inner rest) d).tasks = inner.map (·.1) ++ key :: (load res rest (key :: ((inner.map (·.1)).reverse ++ d))).tasks := by
  simp [load, h]

/-- **same identity either way**: expanded or collapsed, the compound is the entry `key` of the task list, so `value()` reads the
    same store entry; in a sound store that entry is the value the expansion computes (`ref key`), so both readings agree -/
theorem compound_value (ref : Key → V) (res : Key → Option V) (hs : ∀ k v, res k = some v → v = ref k)
    (key : Key) (inner : List (Key × List Key)) (rest : JF V) (d : List Key) :
    key ∈ (load res (.compound key inner rest) d).tasks ∧ ∀ v, res key = some v → v = ref key := by
  refine ⟨?_, hs key⟩
  simp only [load]
  split <;> simp

/-- the rest of the file sees the compound as created in both cases (a later `barrier()` waits for it) -/
theorem compound_counts_for_barrier (res : Key → Option V) (key : Key) (inner : List (Key × List Key)) (rest : JF V) (d : List Key)
    (h : res key = none) :
    (load res (.compound key inner (.barrier rest)) d).stopped = true := by
  simp [load, h]

/-- **cleanup may discard every inner result**: once collapsed, the loaded task list (= the active set of `jug cleanup`, C10)
    contains the compound's key and none of the inner keys (unless the rest of the file defines them again) -/
theorem cleanup_keeps_compound (res : Key → Option V) (key : Key) (inner : List (Key × List Key)) (rest : JF V) (d : List Key)
    (h : res key ≠ none) (ik : Key) (hik : ik ∈ inner.map (·.1)) (hne : ik ≠ key)
    (hrest : ik ∉ (load res rest (key :: d)).tasks) :
    key ∈ (load res (.compound key inner rest) d).tasks ∧ ik ∉ (load res (.compound key inner rest) d).tasks := by
  rw [(collapsed_defines_none res key inner rest d h).1]
  simp [hne, hrest]

/-- execute runs nothing once collapsed: the only task the compound contributes already has its result (C02.no_rerun_once_stored) -/
theorem collapsed_contributes_one (res : Key → Option V) (key : Key) (inner : List (Key × List Key)) (d : List Key) (h : res key ≠ none) :
    (load res (.compound key inner .done) d).tasks = [key] := by
  rw [(collapsed_defines_none res key inner .done d h).1]; simp [load]

example : load (V := Nat) (fun _ => none) (.compound 9 [(1, []), (2, [1])] .done) [] = ⟨[1, 2, 9], false⟩ := by decide
example : load (V := Nat) (fun k => if k = 9 then some 5 else none) (.compound 9 [(1, []), (2, [1])] .done) [] = ⟨[9], false⟩ := by decide

end Jug.C18
