import JugModel.Lemmas.Hash
/-!
# C07 - a task's identifier is a deterministic function of its name and argument values

`ser`/`taskId` are pure functions of the model value: the same in every process, for any order of
computation - by construction. What needs proof is that the *representation* of a value (iteration order of
sets and frozensets, insertion order of dicts and keyword arguments, at any nesting depth) does not
influence the stream. Memory layout of arrays is not an input of the model at all (an array is its dtype,
shape and logical C-order bytes); that the code really ignores layout, object identity and the hash seed is
established by the correspondence check (model identifier = real identifier for every generated value in
several layouts / insertion orders / interpreter processes).
-/
set_option linter.unusedVariables false
namespace Jug.C07
open Jug.Hash List

variable {A D : Type}

/-- a set is hashed independently of its iteration order (no hypothesis on the hash function) -/
theorem ser_set_perm (enc : Enc A D) (ho : TotalOrder enc) {xs ys : List (PVal A D)} (hp : xs ~ ys) :
    ser enc (.set xs) = ser enc (.set ys) := by
  simp only [ser, hashAll_eq_map]
  rw [sortDigests_perm enc ho (hp.map _)]

theorem ser_fset_perm (enc : Enc A D) (ho : TotalOrder enc) {xs ys : List (PVal A D)} (hp : xs ~ ys) :
    ser enc (.fset xs) = ser enc (.fset ys) := by
  simp only [ser, hashAll_eq_map]
  rw [sortDigests_perm enc ho (hp.map _)]

/-- a dict is hashed independently of its insertion order (keys with distinct digests) -/
theorem ser_dict_perm (enc : Enc A D) (ho : TotalOrder enc) {kvs kvs' : List (PVal A D × PVal A D)} (hp : kvs ~ kvs')
    (hd : KeysDistinct enc kvs') : ser enc (.dict kvs) = ser enc (.dict kvs') := by
  simp only [ser]
  rw [sortByDigest_perm enc ho _ hd]
  rw [serKVs_eq_map, serKVs_eq_map]
  exact hp.map _

/-- the identifier of a task does not depend on the order in which keyword arguments were given -/
theorem taskId_kwargs_perm (enc : Enc A D) (ho : TotalOrder enc) (name : A) (args : List (PVal A D))
    {kw kw' : List (PVal A D × PVal A D)} (hp : kw ~ kw') (hd : KeysDistinct enc kw') :
    taskId enc name args kw = taskId enc name args kw' := by
  unfold taskId taskStream
  rw [sortByDigest_perm enc ho (l₁ := serKVs enc kw) (l₂ := serKVs enc kw') _ hd]
  rw [serKVs_eq_map, serKVs_eq_map]
  exact hp.map _

/-! ### the full statement: same value (up to representation) at any depth ⇒ same stream -/

mutual
/-- `Same a b`: `a` and `b` are the same Python value, possibly represented with different iteration /
    insertion orders of the unordered containers inside, at any depth -/
def Same (enc : Enc A D) : PVal A D → PVal A D → Prop
  | .atom a, .atom b => a = b
  | .custom d, .custom e => d = e
  | .list xs, .list ys => SameSeq enc xs ys
  | .tuple xs, .tuple ys => SameSeq enc xs ys
  | .set xs, .set ys => ∃ zs, zs ~ ys ∧ SameSeq enc xs zs
  | .fset xs, .fset ys => ∃ zs, zs ~ ys ∧ SameSeq enc xs zs
  | .dict kvs, .dict kvs' => ∃ zs, zs ~ kvs' ∧ SameKVs enc kvs zs ∧ KeysDistinct enc kvs'
  | .nd dt sh data, .nd dt' sh' data' => dt = dt' ∧ sh = sh' ∧ data = data'
  | .ndobj dt sh xs, .ndobj dt' sh' ys => dt = dt' ∧ sh = sh' ∧ SameSeq enc xs ys
  | .task n a k, .task n' a' k' => n = n' ∧ SameSeq enc a a' ∧ ∃ zs, zs ~ k' ∧ SameKVs enc k zs ∧ KeysDistinct enc k'
  | .tasklet b f, .tasklet b' f' => Same enc b b' ∧ Same enc f f'
  | .hashed v, .hashed w => Same enc v w
  | _, _ => False
def SameSeq (enc : Enc A D) : List (PVal A D) → List (PVal A D) → Prop
  | [], [] => True
  | x :: xs, y :: ys => Same enc x y ∧ SameSeq enc xs ys
  | _, _ => False
def SameKVs (enc : Enc A D) : List (PVal A D × PVal A D) → List (PVal A D × PVal A D) → Prop
  | [], [] => True
  | (k, v) :: xs, (k', v') :: ys => Same enc k k' ∧ Same enc v v' ∧ SameKVs enc xs ys
  | _, _ => False
end

mutual
/-- **C07, full statement**: values that are the same up to representation are hashed to the same stream,
    hence tasks taking them get the same identifier -/
theorem ser_same (enc : Enc A D) (ho : TotalOrder enc) (a b : PVal A D) (h : Same enc a b) :
    ser enc a = ser enc b := by
  match a, b, h with
  | .atom x, .atom y, h => simp only [Same] at h; rw [h]
  | .custom x, .custom y, h => simp only [Same] at h; rw [h]
  | .list xs, .list ys, h => simp only [Same] at h; simp only [ser]; rw [serSeq_same enc ho 0 xs ys h]
  | .tuple xs, .tuple ys, h => simp only [Same] at h; simp only [ser]; rw [serSeq_same enc ho 0 xs ys h]
  | .set xs, .set ys, h =>
    simp only [Same] at h; obtain ⟨zs, hp, hs⟩ := h
    simp only [ser]
    rw [hashAll_same enc ho xs zs hs, hashAll_eq_map, hashAll_eq_map, sortDigests_perm enc ho (hp.map _)]
  | .fset xs, .fset ys, h =>
    simp only [Same] at h; obtain ⟨zs, hp, hs⟩ := h
    simp only [ser]
    rw [hashAll_same enc ho xs zs hs, hashAll_eq_map, hashAll_eq_map, sortDigests_perm enc ho (hp.map _)]
  | .dict kvs, .dict kvs', h =>
    simp only [Same] at h; obtain ⟨zs, hp, hs, hd⟩ := h
    simp only [ser]
    rw [serKVs_same enc ho kvs zs hs, sortByDigest_perm enc ho _ hd]
    rw [serKVs_eq_map, serKVs_eq_map]; exact hp.map _
  | .nd dt sh data, .nd dt' sh' data', h => simp only [Same] at h; obtain ⟨h1, h2, h3⟩ := h; subst h1 h2 h3; rfl
  | .ndobj dt sh xs, .ndobj dt' sh' ys, h =>
    simp only [Same] at h; obtain ⟨h1, h2, h3⟩ := h; subst h1 h2
    simp only [ser]; rw [serSeq_same enc ho 0 xs ys h3]
  | .task n a k, .task n' a' k', h =>
    simp only [Same] at h; obtain ⟨h1, h2, zs, hp, hs, hd⟩ := h; subst h1
    simp only [ser]
    rw [serSeq_same enc ho 0 a a' h2, serKVs_same enc ho k zs hs, sortByDigest_perm enc ho (l₁ := serKVs enc zs) (l₂ := serKVs enc k') _ hd]
    rw [serKVs_eq_map, serKVs_eq_map]; exact hp.map _
  | .tasklet b f, .tasklet b' f', h =>
    simp only [Same] at h
    simp only [ser]; rw [ser_same enc ho b b' h.1, ser_same enc ho f f' h.2]
  | .hashed v, .hashed w, h => simp only [Same] at h; simp only [ser]; rw [ser_same enc ho v w h]
theorem serSeq_same (enc : Enc A D) (ho : TotalOrder enc) (k : Nat) (xs ys : List (PVal A D)) (h : SameSeq enc xs ys) :
    serSeq enc k xs = serSeq enc k ys := by
  match xs, ys, h with
  | [], [], _ => rfl
  | x :: xs, y :: ys, h =>
    simp only [SameSeq] at h
    simp only [serSeq]; rw [ser_same enc ho x y h.1, serSeq_same enc ho (k + 1) xs ys h.2]
theorem hashAll_same (enc : Enc A D) (ho : TotalOrder enc) (xs ys : List (PVal A D)) (h : SameSeq enc xs ys) :
    hashAll enc xs = hashAll enc ys := by
  match xs, ys, h with
  | [], [], _ => rfl
  | x :: xs, y :: ys, h =>
    simp only [SameSeq] at h
    simp only [hashAll]; rw [ser_same enc ho x y h.1, hashAll_same enc ho xs ys h.2]
theorem serKVs_same (enc : Enc A D) (ho : TotalOrder enc) (xs ys : List (PVal A D × PVal A D)) (h : SameKVs enc xs ys) :
    serKVs enc xs = serKVs enc ys := by
  match xs, ys, h with
  | [], [], _ => rfl
  | (k, v) :: xs, (k', v') :: ys, h =>
    simp only [SameKVs] at h
    simp only [serKVs]; rw [ser_same enc ho k k' h.1, ser_same enc ho v v' h.2.1, serKVs_same enc ho xs ys h.2.2]
end

/-- corollary for identifiers -/
theorem taskId_same (enc : Enc A D) (ho : TotalOrder enc) (n : A) (a a' : List (PVal A D)) (k k' : List (PVal A D × PVal A D))
    (h : Same enc (.task n a k) (.task n a' k')) : taskId enc n a k = taskId enc n a' k' := by
  have := ser_same enc ho _ _ h
  simp only [ser_task, List.cons.injEq, Tok.dig.injEq, and_true] at this
  exact this

/-! non-vacuity: a concrete encoder (digests = token streams themselves, ordered by length) and two
    different representations of one value -/
section Example
def exEnc : Enc Nat (List (Tok Nat Nat)) where
  pkNat := fun k => k
  pkStr := fun s => 1000 + s.length
  pkDig := fun d => 2000 + d.length
  sha := fun toks => toks.map (fun _ => Tok.mark Marker.list)     -- keeps only the length (a legal, if poor, hash)
  le := fun a b => a.length ≤ b.length
example : Same exEnc (.set [.atom 1, .list [.atom 2]]) (.set [.list [.atom 2], .atom 1]) := by
  simp only [Same]
  exact ⟨[.atom 1, .list [.atom 2]], Perm.swap _ _ _, by simp [SameSeq, Same]⟩
end Example

end Jug.C07
