import JugModel.Lemmas.ExecOnce
import JugModel.Lemmas.ExecRetry
/-!
# C02 - a task is executed at most once and never by two workers at the same time
(all worker counts, all interleavings: workers are `Nat`-indexed, histories are arbitrary event lists)
-/
set_option linter.unusedVariables false
namespace Jug.C02
open Jug.Exec
variable {V : Type} [DecidableEq V]

/-- inside the task function (between `begin` and the return of the function) -/
def executing (x : WSt V) (t : Task) : Prop := x = .running t

/-- **never concurrently**: in every reachable state at most one worker is executing `t`
    (any history, including failures, stops, crashes and - legally performed - lock removal) -/
theorem mutex_run (P : Prog V) (fl : Worker → Flags) (s₀ s : Sys V) (evs : List (Ev V)) (h₀ : Inv s₀)
    (hr : Steps P fl s₀ evs s) (w₁ w₂ : Worker) (t : Task)
    (h1 : executing (s.wk w₁) t) (h2 : executing (s.wk w₂) t) : w₁ = w₂ := by
  have hi := steps_inv P fl evs s₀ s h₀ hr
  exact mutex_of_inv hi w₁ w₂ t (by simp [executing] at h1; simp [h1, csTask]) (by simp [executing] at h2; simp [h2, csTask])

/-- the whole critical section (lock held ... lock released) is exclusive, not only the function body -/
theorem mutex_cs (P : Prog V) (fl : Worker → Flags) (s₀ s : Sys V) (evs : List (Ev V)) (h₀ : Inv s₀)
    (hr : Steps P fl s₀ evs s) (w₁ w₂ : Worker) (t : Task)
    (h1 : csTask (s.wk w₁) = some t) (h2 : csTask (s.wk w₂) = some t) : w₁ = w₂ :=
  mutex_of_inv (steps_inv P fl evs s₀ s h₀ hr) w₁ w₂ t h1 h2

/-- **never again once stored**: in a reachable state where `t` has a result, no worker can start `t`
    (any history whatsoever; results are removed only by invalidation, which is not an event of execution) -/
theorem no_rerun_once_stored (P : Prog V) (fl : Worker → Flags) (s₀ s : Sys V) (evs : List (Ev V)) (h₀ : Inv s₀)
    (hr : Steps P fl s₀ evs s) (t : Task) (hres : s.res t ≠ none) (w : Worker) :
    accept P fl s (.begin_ w t) = none := by
  have hi := steps_inv P fl evs s₀ s h₀ hr
  cases hacc : accept P fl s (.begin_ w t) with
  | none => rfl
  | some s' =>
    exfalso
    simp only [accept] at hacc
    split at hacc
    · rename_i t' hwk
      split at hacc
      · rename_i hc
        obtain ⟨htt, _⟩ := hc; subst htt
        exact hres (hi.nores w t' (by simp [hwk, noRes]))
      · simp at hacc
    · simp at hacc

/-- a stored result is never removed or changed by execution -/
theorem result_stable (P : Prog V) (fl : Worker → Flags) (s₀ s : Sys V) (evs : List (Ev V)) (h₀ : Inv s₀)
    (hr : Steps P fl s₀ evs s) (t : Task) (v : V) (hres : s₀.res t = some v) : s.res t = some v := by
  induction evs generalizing s₀ with
  | nil => simp only [Steps] at hr; subst hr; exact hres
  | cons e es ih =>
    simp only [Steps] at hr
    obtain ⟨hl, s1, ha, hr'⟩ := hr
    apply ih s1 (accept_inv P fl s₀ s1 e h₀ hl ha) hr'
    rcases res_of_accept P fl s₀ s1 e ha with h1 | ⟨w, t', v', _, hwk, h1⟩
    · rw [h1]; exact hres
    · rw [h1]; simp only [upd]
      split
      · rename_i htt; subst htt
        have := h₀.nores w t (by simp [hwk, noRes]); simp [this] at hres
      · exact hres

/-- **publish before release**: after a successful run the lock is released only when the result is in the store -/
theorem publish_before_release (P : Prog V) (fl : Worker → Flags) (s s' : Sys V) (hi : Inv s) (w : Worker) (t : Task) (v : V) (b : Bool)
    (hwk : s.wk w = .ran t v b) (ha : accept P fl s (.unlock w t) = some s') : b = true ∧ s.res t = some v := by
  simp only [accept, hwk] at ha
  cases b with
  | false => simp at ha
  | true => exact ⟨rfl, hi.stored w t v hwk⟩

/-- **at most once**: along histories without failures, stops, crashes and lock removal, starting with no task begun,
    every task function is started at most once, for any number of workers and any interleaving -/
theorem at_most_once (P : Prog V) (fl : Worker → Flags) (res₀ : Task → Option V) (s : Sys V) (evs : List (Ev V))
    (hr : CleanSteps P fl (initSys res₀) evs s) (t : Task) : s.runs t ≤ 1 :=
  (cleanSteps_inv2 P fl evs _ s (inv2_init res₀) hr).once t

/-- ... and a task that already had a result is not started at all -/
theorem stored_never_started (P : Prog V) (fl : Worker → Flags) (res₀ : Task → Option V) (s : Sys V) (evs : List (Ev V))
    (hr : CleanSteps P fl (initSys res₀) evs s) (t : Task) (h : res₀ t ≠ none) : s.runs t = 0 :=
  stored_never_started_gen P fl t evs _ (inv2_init res₀) h rfl s hr

/-- **exactly once at completion**: in a clean history from an empty store, a task that ends up stored was started exactly once -/
theorem exactly_once_if_stored (P : Prog V) (fl : Worker → Flags) (s : Sys V) (evs : List (Ev V))
    (hr : CleanSteps P fl (initSys (fun _ => none)) evs s) (t : Task) (hres : s.res t ≠ none) : s.runs t = 1 := by
  have h3 := cleanSteps_inv3 P fl evs _ s inv3_init hr
  have h1 := h3.stored_runs t hres
  have h2 := h3.once t
  omega

/-- **at most once, in general**: along *any* history - failing tasks, stop requests, killed workers, lock clean-up, any number
    of workers, any interleaving - a task function is started again only after an attempt was interrupted (the function raised,
    or the worker running it was stopped or killed before the result was stored): `runs t ≤ 1 + interruptions of t` -/
theorem at_most_once_general (P : Prog V) (fl : Worker → Flags) (res₀ : Task → Option V) (s : Sys V) (evs : List (Ev V))
    (hr : Steps P fl (initSys res₀) evs s) (t : Task) :
    s.runs t ≤ 1 + interruptions P fl (initSys res₀) evs t := by
  have h := counted_steps P fl t evs (initSys res₀) s 0 (inv_init res₀) hr (Or.inl (by simp [initSys]))
  rcases h with h | ⟨h, _⟩ <;> omega

/-- in particular: no interruption of `t`, at most one start - whatever else fails, stops or dies in the history -/
theorem at_most_once_uninterrupted (P : Prog V) (fl : Worker → Flags) (res₀ : Task → Option V) (s : Sys V) (evs : List (Ev V))
    (hr : Steps P fl (initSys res₀) evs s) (t : Task) (h0 : interruptions P fl (initSys res₀) evs t = 0) : s.runs t ≤ 1 := by
  have := at_most_once_general P fl res₀ s evs hr t
  omega

/-- the bound is tight: a failed attempt released without --keep-failed is followed by a second, successful one -/
example : ∃ s, run (V := Nat) { n := 1, deps := fun _ => [], f := fun _ _ => 7 } (fun _ => ⟨true, false⟩) (initSys (fun _ => none))
    [.lock 0 0 true, .canLoad 0 0 false, .begin_ 0 0, .endExc 0 0, .unlock 0 0,
     .lock 1 0 true, .canLoad 1 0 false, .begin_ 1 0, .endOk 1 0 7, .dump 1 0 7, .unlock 1 0] = some s ∧ s.runs 0 = 2 :=
  ⟨_, rfl, by decide⟩

/-! non-vacuity: a two-worker history in which both workers go for the same task; the loser is told "locked" -/
section Example
def exP : Prog Nat := { n := 1, deps := fun _ => [], f := fun _ _ => 7 }
def exFl : Worker → Flags := fun _ => ⟨false, false⟩
def exHist : List (Ev Nat) :=
  [.canLoad 0 0 false, .canLoad 1 0 false, .lock 0 0 true, .lock 1 0 false, .canLoad 0 0 false, .begin_ 0 0,
   .canLoad 1 0 false, .endOk 0 0 7, .dump 0 0 7, .unlock 0 0, .lock 1 0 true, .canLoad 1 0 true, .unlock 1 0, .exit 0 0, .exit 1 0]
example : ∃ s, run exP exFl (initSys (fun _ => none)) exHist = some s ∧ s.runs 0 = 1 ∧ s.res 0 = some 7 := by
  refine ⟨_, rfl, ?_, ?_⟩ <;> decide
/-- the same history with the loser starting the task anyway is rejected by the model -/
example : run exP exFl (initSys (fun _ => none))
    [.canLoad 0 0 false, .lock 0 0 true, .canLoad 0 0 false, .begin_ 0 0, .lock 1 0 false, .begin_ 1 0] = none := by decide
end Example

end Jug.C02
