import JugModel.Lemmas.ExecOnce
import JugModel.Lemmas.ExecScan
import JugModel.Generated.StopTable
/-!
# C12 - a worker asked to stop exits without leaving locks or partial results
-/
set_option linter.unusedVariables false
namespace Jug.C12
open Jug.Exec
variable {V : Type} [DecidableEq V]

/-- an exited worker holds no lock (any history: stops at any moment, failures, other workers crashing) -/
theorem stop_leaves_no_lock (P : Prog V) (fl : Worker → Flags) (s₀ s : Sys V) (evs : List (Ev V)) (h₀ : Inv s₀)
    (hr : Steps P fl s₀ evs s) (w : Worker) (c : Nat) (hw : s.wk w = .exited c) (t : Task) : s.lock t ≠ .held w := by
  intro hl
  have hi := steps_inv P fl evs s₀ s h₀ hr
  rcases hi.held_cs w t hl with h | h <;> simp [hw, csTask] at h

/-- a stop request can surface in every state of a live worker (signals arrive at any moment) -/
theorem stop_always_enabled (P : Prog V) (fl : Worker → Flags) (s : Sys V) (w : Worker) (k : StopKind)
    (h1 : ∀ c, s.wk w ≠ .exited c) (h2 : s.wk w ≠ .crashed) (h3 : ∀ t k', s.wk w ≠ .stopping t k') :
    ∃ s', accept P fl s (.stop w k) = some s' := by
  cases h : s.wk w <;> simp_all [accept]

/-- the stop itself changes neither the store nor any lock -/
theorem stop_changes_nothing_shared (P : Prog V) (fl : Worker → Flags) (s s' : Sys V) (w : Worker) (k : StopKind)
    (ha : accept P fl s (.stop w k) = some s') : s'.res = s.res ∧ s'.lock = s.lock := by
  simp only [accept] at ha
  split at ha <;> simp_all <;> subst ha <;> simp

/-- once stopping, the worker can only release the lock it holds and exit: it never publishes, never starts anything -/
theorem stopping_only_unlocks_and_exits (P : Prog V) (fl : Worker → Flags) (s s' : Sys V) (w : Worker) (ot : Option Task) (k : StopKind)
    (e : Ev V) (hw : s.wk w = .stopping ot k) (he : evWorker e = some w) (ha : accept P fl s e = some s') :
    s'.res = s.res ∧
    ((∃ t, ot = some t ∧ e = .unlock w t ∧ s'.wk w = .stopping none k ∧ s'.lock t = .free) ∨
     (ot = none ∧ e = .exit w (stopCode k)) ∨ e = .crash w ∨ s'.wk w = s.wk w) := by
  cases e <;> simp only [accept] at ha <;> simp_all [evWorker] <;> (try subst_vars) <;> (repeat' split at ha) <;>
    simp_all <;> (try subst_vars) <;> (try simp [upd]) <;> grind

/-- it cannot exit while still holding the lock -/
theorem cannot_exit_holding (P : Prog V) (fl : Worker → Flags) (s : Sys V) (w : Worker) (t : Task) (c : Nat)
    (hw : csTask (s.wk w) = some t) : accept P fl s (.exit w c) = none := by
  simp only [accept]
  split <;> simp_all [csTask]

/-- the interrupted task has no result unless its `dump` had already completed:
    if `w` was inside the function of `t` when the stop arrived, `t` still has no result afterwards -/
theorem interrupted_task_has_no_result (P : Prog V) (fl : Worker → Flags) (s s' : Sys V) (hi : Inv s) (w : Worker) (t : Task) (k : StopKind)
    (hw : s.wk w = .running t) (ha : accept P fl s (.stop w k) = some s') : s'.res t = none ∧ s'.wk w = .stopping (some t) k := by
  have := hi.nores w t (by simp [hw, noRes])
  simp only [accept, hw] at ha
  simp only [Option.some.injEq] at ha; subst ha; simp [this, upd]

/-- **continuation**: the state left behind satisfies the protocol invariant, so all theorems of C01-C03 apply to any
    other or later worker (they quantify over arbitrary histories from a state satisfying `Inv`) -/
theorem state_after_stop_is_regular (P : Prog V) (fl : Worker → Flags) (s₀ s : Sys V) (evs : List (Ev V)) (h₀ : Inv s₀)
    (hr : Steps P fl s₀ evs s) : Inv s := steps_inv P fl evs s₀ s h₀ hr

/-- **any other or later worker runs the remaining tasks to completion**: a stopped worker leaves no lock
    (`stop_leaves_no_lock`); from the state in which the stopped workers are gone, a failure-free execute by fresh workers
    ends with a result for every task (the premises on the start state are exactly what stops leave behind) -/
theorem continuation_completes (P : Prog V) (fl : Worker → Flags) (n W : Nat) (sdeps : Task → List Task)
    (hlt : ∀ t d, d ∈ sdeps t → d < t) (s₀ s : Sys V) (evs : List (Ev V))
    (hi : Inv s₀) (hfree : ∀ t, s₀.lock t = .free)
    (hwk : ∀ w, s₀.wk w = .idle ∨ s₀.wk w = .crashed ∨ ∃ c, s₀.wk w = .exited c)
    (hout : ∀ w, W ≤ w → s₀.wk w = .idle) (w₀ : Worker) (hw₀ : w₀ < W) (hidle : s₀.wk w₀ = .idle)
    (hr : CleanSteps P fl s₀ evs s)
    (hw : ∀ e ∈ evs, ∀ w, evWorker e = some w → w < W)
    (hscan : scanRun n sdeps (kgOf fl) Scan.init evs = true)
    (hq : ∀ w, w < W → (∃ c, s.wk w = .exited c) ∨ s.wk w = .crashed) :
    ∀ t, t < n → s.res t ≠ none := by
  have h0 := cinv_init_gen n W sdeps fl s₀ hi hfree hwk hout w₀ hw₀ hidle
  have hc := fsteps_cinv P fl n W sdeps evs s₀ s Scan.init h0 (fsteps_of_cleanSteps P fl evs s₀ s hr) hw hscan
  intro t ht
  rcases complete_of_cinv n W sdeps fl hlt s _ hc hq t ht with h | h
  · exact h
  · have hf := scanFold_failedT_clean (V := V) sdeps (kgOf fl) evs Scan.init (cleanSteps_all_clean P fl evs s₀ s hr)
    rw [hf] at h
    exact absurd h (not_blocked_of_none sdeps t)

/-- bridge (regenerated from jug/hooks/exit_checks.py and jug/subcommands/execute.py on every run): every exit condition
    (stop file, predicate, task-count limit, time limit) is raised from one of the two hooks that run *inside* the worker's
    try/finally (`task-pre-execute`: state `holding t true`, `task-executed1`: state `ran t v true`), where `stop` is followed
    by `unlock`; and the SIGTERM handler is installed unconditionally and raises SystemExit -/
theorem stop_mechanisms_use_known_hooks :
    (∀ p ∈ Generated.Stop.exitHooks, p.2 ≠ [] ∧ ∀ h ∈ p.2, h = "execute.task-pre-execute" ∨ h = "execute.task-executed1") ∧
    Generated.Stop.exitHooks.length = 4 ∧
    Generated.Stop.sigtermInstalledUnconditionally = true ∧ Generated.Stop.sigtermRaisesSystemExit = true := by decide +kernel

/-! non-vacuity: SIGTERM inside a task function; lock released, nothing stored, exit status 1; a second worker finishes -/
example : ∃ s, run (V := Nat) { n := 1, deps := fun _ => [], f := fun _ _ => 3 } (fun _ => ⟨false, false⟩) (initSys (fun _ => none))
    [.lock 0 0 true, .canLoad 0 0 false, .begin_ 0 0, .stop 0 (.sysExit 1), .unlock 0 0, .exit 0 1,
     .lock 1 0 true, .canLoad 1 0 false, .begin_ 1 0, .endOk 1 0 3, .dump 1 0 3, .unlock 1 0, .exit 1 0] = some s
    ∧ s.lock 0 = .free ∧ s.res 0 = some 3 := ⟨_, rfl, by decide, by decide⟩

end Jug.C12
