/-
The memoizing read-only wrapper of `jug status` (Model/Memo.lean) tells the truth about a lock that does not change while the
status is computed, for every order and number of queries and with or without an initial listing; and it never changes an answer
it has given for `is_locked()`, whatever the base does in between (one status table is computed from one look at each lock).
-/
import JugModel.Model.Memo
namespace Jug.MemoProps
open Jug.Graph Jug.Memo

/-- what the wrapper believes is compatible with the base -/
def Coherent (b : LockSt) : CSt → Prop
  | .unknown => True
  | .notLocked => b = .free
  | .locked => b ≠ .free
  | .failed => b = .failed

theorem step_truthful (b : LockSt) (c : CSt) (q : Q) (h : Coherent b c) :
    (step b c q).2 = truth b q ∧ Coherent b (step b c q).1 := by
  cases b <;> cases c <;> cases q <;> simp_all [Coherent, step, askLocked, askFailed, truth, baseIsLocked, baseIsFailed]

/-- every query of every sequence is answered truthfully (unchanging base) -/
theorem run_truthful (b : LockSt) (c : CSt) (qs : List Q) (h : Coherent b c) : run b c qs = qs.map (truth b) := by
  induction qs generalizing c with
  | nil => rfl
  | cons q qs ih =>
    obtain ⟨h1, h2⟩ := step_truthful b c q h
    simp only [run, List.map_cons, h1, ih _ h2]

/-- the two ways a wrapper starts are coherent: nothing known, or a listing that names exactly the held and failed locks -/
theorem init_coherent (b : LockSt) : Coherent b (initSt none) ∧ Coherent b (initSt (some (baseIsLocked b))) := by
  cases b <;> simp [Coherent, initSt, baseIsLocked]

/-- **status sees the lock as it is**: with or without `list_base`, any sequence of `is_locked()` / `is_failed()` -/
theorem memo_truthful (b : LockSt) (qs : List Q) :
    run b (initSt none) qs = qs.map (truth b) ∧ run b (initSt (some (baseIsLocked b))) qs = qs.map (truth b) :=
  ⟨run_truthful b _ qs (init_coherent b).1, run_truthful b _ qs (init_coherent b).2⟩

/-- once known, the `locked / not locked` belief never changes, whatever the base does -/
theorem belief_stable (b : LockSt) (c : CSt) (q : Q) (h : c ≠ .unknown) :
    (step b c q).1 ≠ .unknown ∧ ((step b c q).1 = .notLocked ↔ c = .notLocked) := by
  cases b <;> cases c <;> cases q <;> simp_all [step, askLocked, askFailed, baseIsFailed]

/-- **never repeats a lookup**: all `is_locked()` answers of one wrapper are equal, even while other processes take, fail and
    release the lock in between -/
theorem locked_answers_constant (c : CSt) (h : c ≠ .unknown) (qs : List (LockSt × Q)) :
    ∀ p ∈ (qs.zip (runV c qs)), p.1.2 = .isLocked → p.2 = (c != .notLocked) := by
  induction qs generalizing c with
  | nil => simp [runV]
  | cons bq qs ih =>
    obtain ⟨b, q⟩ := bq
    intro p hp hq
    simp only [runV, List.zip_cons_cons, List.mem_cons] at hp
    have hs := belief_stable b c q h
    rcases hp with rfl | hp
    · simp only at hq
      subst hq
      cases b <;> cases c <;> simp_all [step, askLocked]
    · rw [ih (step b c q).1 hs.1 p hp hq]
      by_cases hc : c = .notLocked
      · rw [hs.2.2 hc, hc]
      · have h' : (step b c q).1 ≠ .notLocked := fun e => hc (hs.2.1 e)
        rw [bne_iff_ne.mpr h', bne_iff_ne.mpr hc]

/-- a `failed` answer is never taken back, and is only given for a lock believed locked -/
theorem failed_sticky (b : LockSt) (q : Q) : (step b .failed q).1 = .failed := by
  cases b <;> cases q <;> simp [step, askLocked, askFailed]

/-! ### what `jug status` does with the answers -/

/-- the lock state the status code derives from its two questions (`is_locked()`, then `is_failed()` for a locked one) -/
def lockFromAnswers (locked failed : Bool) : LockSt := if !locked then .free else if failed then .failed else .held

/-- asked through a wrapper in any coherent state - fresh, initialised from a listing, or after any earlier questions -
    the status code reconstructs the lock state as it is -/
theorem lock_seen_through_wrapper (b : LockSt) (c : CSt) (h : Coherent b c) :
    lockFromAnswers (step b c .isLocked).2 (step b (step b c .isLocked).1 .isFailed).2 = b := by
  cases b <;> cases c <;> simp_all [Coherent, lockFromAnswers, step, askLocked, askFailed, baseIsLocked, baseIsFailed]

/-- ... also when `is_failed()` is asked first, or alone (it asks `is_locked()` itself) -/
theorem lock_seen_failed_first (b : LockSt) (c : CSt) (h : Coherent b c) :
    lockFromAnswers (step b (step b c .isFailed).1 .isLocked).2 (step b c .isFailed).2 = b := by
  cases b <;> cases c <;> simp_all [Coherent, lockFromAnswers, step, askLocked, askFailed, baseIsLocked, baseIsFailed]

/-- so the classification computed through wrappers is the classification of the store as it is (`classify` of Model/Graph.lean
    is what `cached_eq_uncached` and `classifier_table_matches` are about) -/
theorem classify_through_wrappers (deps : Task → List Task) (res : Task → Bool) (lock : Task → LockSt) (cs : Task → CSt)
    (h : ∀ t, Coherent (lock t) (cs t)) (t : Task) :
    classify deps res (fun u => lockFromAnswers (step (lock u) (cs u) .isLocked).2 (step (lock u) (step (lock u) (cs u) .isLocked).1 .isFailed).2) t
      = classify deps res lock t := by
  have : (fun u => lockFromAnswers (step (lock u) (cs u) .isLocked).2 (step (lock u) (step (lock u) (cs u) .isLocked).1 .isFailed).2) = lock := by
    funext u; exact lock_seen_through_wrapper (lock u) (cs u) (h u)
  rw [this]

/-! ### can_load -/

def KCoherent (base : Nat → Bool) (k : KSt) : Prop :=
  (∀ ks, k.listing = some ks → ∀ n, ks.contains n = base n) ∧ ∀ n a, k.cache.lookup n = some a → a = base n

theorem canLoad_truthful (base : Nat → Bool) (k : KSt) (n : Nat) (h : KCoherent base k) :
    (canLoad base k n).2 = base n ∧ KCoherent base (canLoad base k n).1 := by
  unfold canLoad
  cases hl : k.listing with
  | some ks => exact ⟨h.1 ks hl n, h⟩
  | none =>
    cases hc : k.cache.lookup n with
    | some a => exact ⟨h.2 n a hc, h⟩
    | none =>
      refine ⟨rfl, ?_, ?_⟩
      · intro ks hks; simp at hks
      · intro m a hm
        simp only [List.lookup_cons] at hm
        by_cases hmn : m = n
        · subst hmn; simp at hm; exact hm.symm
        · have : (m == n) = false := by simpa using hmn
          simp only [this] at hm
          exact h.2 m a hm

/-- every answer of a whole run of `can_load` calls is the backend's -/
theorem canLoadRun_truthful (base : Nat → Bool) (ns : List Nat) (k : KSt) (h : KCoherent base k) :
    (canLoadRun base k ns).1 = ns.map base := by
  induction ns generalizing k with
  | nil => rfl
  | cons n ns ih =>
    have hs := canLoad_truthful base k n h
    simp only [canLoadRun, List.map_cons, hs.1, ih _ hs.2]

/-- **the wrapper never repeats a lookup**: over a whole run, whatever names are asked and however often, the wrapped backend is
    asked at most once per name, never for a name already in the cache, and never at all when there is a listing -/
theorem canLoadRun_asks_once (base : Nat → Bool) (ns : List Nat) (k : KSt) :
    (canLoadRun base k ns).2.Nodup ∧
    ∀ m ∈ (canLoadRun base k ns).2, k.cache.lookup m = none ∧ k.listing = none ∧ m ∈ ns := by
  induction ns generalizing k with
  | nil => simp [canLoadRun]
  | cons n ns ih =>
    obtain ⟨listing, cache⟩ := k
    simp only [canLoadRun]
    cases listing with
    | some ks =>
      have hk : (canLoad base ⟨some ks, cache⟩ n).1 = ⟨some ks, cache⟩ := by simp [canLoad]
      have := ih ⟨some ks, cache⟩
      simp only [consults, Option.isNone_some, Bool.false_and, Bool.false_eq_true, ↓reduceIte, hk]
      refine ⟨this.1, fun m hm => ?_⟩
      have := (this.2 m hm).2.1
      simp at this
    | none =>
      cases hc : cache.lookup n with
      | some a =>
        have hk : (canLoad base ⟨none, cache⟩ n).1 = ⟨none, cache⟩ := by simp [canLoad, hc]
        have := ih ⟨none, cache⟩
        simp only [consults, hc, Option.isNone_some, Bool.and_false, Bool.false_eq_true, ↓reduceIte, hk]
        exact ⟨this.1, fun m hm => ⟨(this.2 m hm).1, trivial, by simp [(this.2 m hm).2.2]⟩⟩
      | none =>
        have hk : (canLoad base ⟨none, cache⟩ n).1 = ⟨none, (n, base n) :: cache⟩ := by simp [canLoad, hc]
        have := ih ⟨none, (n, base n) :: cache⟩
        simp only [consults, hc, Option.isNone_none, Bool.and_self, ↓reduceIte, hk]
        have hn : n ∉ (canLoadRun base ⟨none, (n, base n) :: cache⟩ ns).2 := by
          intro hmem
          have := (this.2 n hmem).1
          simp [List.lookup_cons] at this
        refine ⟨List.nodup_cons.mpr ⟨hn, this.1⟩, fun m hm => ?_⟩
        rcases List.mem_cons.mp hm with rfl | hm'
        · exact ⟨hc, trivial, by simp⟩
        · have h3 := this.2 m hm'
          have hmn : m ≠ n := fun e => hn (e ▸ hm')
          have hb : (m == n) = false := by simpa using hmn
          have h4 := h3.1
          simp only [List.lookup_cons, hb] at h4
          exact ⟨h4, trivial, by simp [h3.2.2]⟩

/-- so the number of backend lookups of a run is at most the number of distinct names asked -/
theorem canLoadRun_lookups_le (base : Nat → Bool) (ns : List Nat) (k : KSt) :
    (canLoadRun base k ns).2.length ≤ ns.eraseDups.length := by
  have h := canLoadRun_asks_once base ns k
  have hsub : (canLoadRun base k ns).2 ⊆ ns.eraseDups := fun m hm => List.mem_eraseDups.mpr (h.2 m hm).2.2
  exact h.1.length_le_of_subset hsub

example : canLoadRun (fun n => n % 2 == 0) ⟨none, []⟩ [4, 5, 4, 4, 5, 6] = ([true, false, true, true, false, true], [4, 5, 6]) := by decide
example : (canLoadRun (fun n => n % 2 == 0) ⟨some [4, 6], []⟩ [4, 5, 4]).2 = [] := by decide

/-! ### not vacuous -/
example : run .failed (initSt none) [.isFailed, .isLocked, .isFailed] = [true, true, true] := by decide
example : run .held (initSt (some true)) [.isFailed, .isLocked] = [false, true] := by decide
example : runV .unknown [(.free, .isLocked), (.held, .isLocked), (.failed, .isFailed)] = [false, false, false] := by decide

end Jug.MemoProps
