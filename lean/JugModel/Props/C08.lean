import JugModel.Lemmas.Hash
/-!
# C08 - different task invocations never share an identifier

Full statement: `ser` (hence the identifier, for an injective hash) is injective on values without
custom-hashed parts. It is **false** for the scheme jug uses: nested sequences are not delimited
(`ser_not_injective`, valid for *every* encoder - known finding K1). What is proved instead
(`ser_injective_partial`, `taskId_injective_partial`): injectivity on the class `Safe` - every nested
container is followed by a token that cannot be read as its own continuation label - which still
covers names, order, types, list-vs-tuple, positional-vs-keyword, keyword names, dtype/shape, item
indices, tasklet operations and operands.
-/
set_option linter.unusedVariables false
namespace Jug.C08
open Jug.Hash List

variable {A D : Type}

/-! ### the full statement is false -/

/-- K1: `f([1], 2)` and `f([1, 2])` feed the same stream to the hash, whatever the encoders and the hash are -/
theorem ser_not_injective (enc : Enc A D) :
    let a : PVal A D := .tuple [.list [.atom (enc.pkNat 1)], .atom (enc.pkNat 2)]
    let b : PVal A D := .tuple [.list [.atom (enc.pkNat 1), .atom (enc.pkNat 2)]]
    ser enc a = ser enc b ∧ a ≠ b := by
  constructor
  · simp [ser, serSeq]
  · intro h; simp at h

/-- the same for whole task invocations: `Task(f, [1], 2)` and `Task(f, [1, 2])` get the same identifier -/
theorem taskId_not_injective (enc : Enc A D) (name : A) :
    taskId enc name [.list [.atom (enc.pkNat 1)], .atom (enc.pkNat 2)] [] =
    taskId enc name [.list [.atom (enc.pkNat 1), .atom (enc.pkNat 2)]] [] := by
  simp [taskId, taskStream, ser, serSeq]

/-! ### what does hold -/

/-- assumptions on the encoders: pickling is injective per label kind, label kinds do not overlap,
    the hash function is collision free -/
structure EncOK (enc : Enc A D) : Prop where
  nat_inj : ∀ i j, enc.pkNat i = enc.pkNat j → i = j
  str_inj : ∀ s t, enc.pkStr s = enc.pkStr t → s = t
  dig_inj : ∀ d e, enc.pkDig d = enc.pkDig e → d = e
  sha_inj : ∀ s t, enc.sha s = enc.sha t → s = t
  nat_dig : ∀ i d, enc.pkNat i ≠ enc.pkDig d
  str_nat : ∀ s i, enc.pkStr s ≠ enc.pkNat i
  str_dig : ∀ s d, enc.pkStr s ≠ enc.pkDig d

abbrev Nxt (A D : Type) := Option (Tok A D)

def notNat (enc : Enc A D) (k : Nat) (h : Nxt A D) : Prop := h ≠ some (.atom (enc.pkNat k))
def notDig (enc : Enc A D) (h : Nxt A D) : Prop := ∀ d, h ≠ some (.atom (enc.pkDig d))
def notRaw (h : Nxt A D) : Prop := ∀ b, h ≠ some (.raw b)

/-- the token that follows element `k-1` of a sequence whose remaining elements are `xs` -/
def nextOf (enc : Enc A D) (k : Nat) (xs : List (PVal A D)) (h : Nxt A D) : Nxt A D :=
  match xs with
  | [] => h
  | _ :: _ => some (.atom (enc.pkNat k))

/-- dict / kwargs given in the order the hash uses (every dict has such a representation: C07) -/
def Canonical (enc : Enc A D) (kvs : List (PVal A D × PVal A D)) : Prop :=
  sortByDigest enc (serKVs enc kvs) = serKVs enc kvs
def CanonicalSet (enc : Enc A D) (xs : List (PVal A D)) : Prop :=
  sortDigests enc (hashAll enc xs) = hashAll enc xs

mutual
/-- `Safe v h`: when `v` is followed by token `h` (or nothing), the end of `v` and of every container
    inside it is unambiguous; `v` has no custom-hashed part -/
def Safe (enc : Enc A D) : PVal A D → Nxt A D → Prop
  | .atom _, _ => True
  | .custom _, _ => False
  | .list xs, h => SafeSeq enc 0 xs h
  | .tuple xs, h => SafeSeq enc 0 xs h
  | .set xs, h => SafeEls enc xs ∧ CanonicalSet enc xs ∧ notNat enc xs.length h
  | .fset xs, h => SafeEls enc xs ∧ CanonicalSet enc xs ∧ notNat enc xs.length h
  | .dict kvs, h => SafeKVs enc kvs h ∧ Canonical enc kvs ∧ notDig enc h
  | .nd _ _ _, _ => True
  | .ndobj _ _ xs, h => SafeSeq enc 0 xs h ∧ notRaw h
  | .task _ a kw, _ => SafeSeq enc 0 a (some (.atom (enc.pkStr "kwargs"))) ∧ SafeKVs enc kw none ∧ Canonical enc kw
  | .tasklet b f, _ => Safe enc b (some (.atom (enc.pkStr "f"))) ∧ Safe enc f none
  | .hashed v, _ => Safe enc v none
def SafeSeq (enc : Enc A D) : Nat → List (PVal A D) → Nxt A D → Prop
  | k, [], h => notNat enc k h
  | k, x :: xs, h => Safe enc x (nextOf enc (k + 1) xs h) ∧ SafeSeq enc (k + 1) xs h
def SafeEls (enc : Enc A D) : List (PVal A D) → Prop
  | [] => True
  | x :: xs => Safe enc x none ∧ SafeEls enc xs
def SafeKVs (enc : Enc A D) : List (PVal A D × PVal A D) → Nxt A D → Prop
  | [], _ => True
  | (k, v) :: rest, h => Safe enc k none ∧ (∀ d, Safe enc v (some (.atom (enc.pkDig d)))) ∧ Safe enc v h ∧ SafeKVs enc rest h
end

theorem head_serSeq (enc : Enc A D) (k : Nat) (xs : List (PVal A D)) (r : List (Tok A D)) :
    (serSeq enc k xs ++ r).head? = nextOf enc k xs r.head? := by
  cases xs <;> simp [serSeq, nextOf]

theorem head_entries (enc : Enc A D) (kvs : List (PVal A D × PVal A D)) (r : List (Tok A D)) :
    (serEntries enc (serKVs enc kvs) ++ r).head? = r.head? ∨
    ∃ d, (serEntries enc (serKVs enc kvs) ++ r).head? = some (.atom (enc.pkDig d)) := by
  cases kvs with
  | nil => left; simp [serKVs, serEntries]
  | cons kv rest =>
    obtain ⟨k, v⟩ := kv; right
    exact ⟨enc.sha (.atom (enc.pkStr "hash1") :: ser enc k), by simp [serKVs, serEntries]⟩

theorem safe_of_head (enc : Enc A D) (v : PVal A D) (kvs : List (PVal A D × PVal A D)) (r : List (Tok A D))
    (h1 : ∀ d, Safe enc v (some (.atom (enc.pkDig d)))) (h2 : Safe enc v r.head?) :
    Safe enc v (serEntries enc (serKVs enc kvs) ++ r).head? := by
  rcases head_entries enc kvs r with h | ⟨d, h⟩
  · rw [h]; exact h2
  · rw [h]; exact h1 d

mutual
/-- prefix-freeness of the stream on safe values: the heart of unique decodability -/
theorem ser_inj (enc : Enc A D) (ok : EncOK enc) (a b : PVal A D) (r1 r2 : List (Tok A D))
    (sa : Safe enc a r1.head?) (sb : Safe enc b r2.head?) (h : ser enc a ++ r1 = ser enc b ++ r2) :
    a = b ∧ r1 = r2 := by
  match a with
  | .atom x =>
    cases b <;> simp [ser, Safe] at h sb ⊢
    · exact h
  | .custom d => simp [Safe] at sa
  | .list xs =>
    cases b <;> simp [ser, Safe] at h sb sa ⊢
    · rename_i ys; exact serSeq_inj enc ok 0 xs ys r1 r2 sa sb h
  | .tuple xs =>
    cases b <;> simp [ser, Safe] at h sb sa ⊢
    · rename_i ys; exact serSeq_inj enc ok 0 xs ys r1 r2 sa sb h
  | .set xs =>
    cases b <;> simp [ser, Safe] at h sb sa ⊢
    · rename_i ys
      rw [sa.2.1, sb.2.1] at h
      exact els_inj enc ok 0 xs ys r1 r2 sa.1 sb.1 (by simpa using sa.2.2) (by simpa using sb.2.2) h
  | .fset xs =>
    cases b <;> simp [ser, Safe] at h sb sa ⊢
    · rename_i ys
      rw [sa.2.1, sb.2.1] at h
      exact els_inj enc ok 0 xs ys r1 r2 sa.1 sb.1 (by simpa using sa.2.2) (by simpa using sb.2.2) h
  | .dict kvs =>
    cases b <;> simp [ser, Safe] at h sb sa ⊢
    · rename_i kvs'
      rw [sa.2.1, sb.2.1] at h
      exact kvs_inj enc ok kvs kvs' r1 r2 sa.1 sb.1 sa.2.2 sb.2.2 h
  | .nd dt sh data =>
    cases b <;> simp [ser, Safe] at h sb sa ⊢
    · exact ⟨⟨h.1, h.2.1, h.2.2.1⟩, h.2.2.2⟩
    · rename_i dt' sh' ys
      obtain ⟨_, _, h3⟩ := h
      cases ys with
      | nil => simp [serSeq] at h3; exact absurd (by rw [← h3]; rfl) (sb.2 data)
      | cons y ys => simp [serSeq] at h3
  | .ndobj dt sh xs =>
    cases b <;> simp [ser, Safe] at h sb sa ⊢
    · rename_i dt' sh' data'
      obtain ⟨_, _, h3⟩ := h
      cases xs with
      | nil => simp [serSeq] at h3; exact absurd (by rw [h3]; rfl) (sa.2 data')
      | cons y ys => simp [serSeq] at h3
    · rename_i dt' sh' ys
      obtain ⟨h1, h2, h3⟩ := h
      have := serSeq_inj enc ok 0 xs ys r1 r2 sa.1 sb.1 h3
      exact ⟨⟨h1, h2, this.1⟩, this.2⟩
  | .task n args kw =>
    cases b <;> simp [ser, Safe] at h sb sa ⊢
    · -- task / task
      rename_i n' args' kw'
      obtain ⟨hd, hr⟩ := h
      have hs := ok.sha_inj _ _ hd
      simp only [List.cons.injEq, Tok.atom.injEq, true_and] at hs
      obtain ⟨hn, hs⟩ := hs
      have h1 := serSeq_inj enc ok 0 args args' _ _ (by simpa using sa.1) (by simpa using sb.1) hs
      obtain ⟨ha, hrest⟩ := h1
      simp only [List.cons.injEq, true_and] at hrest
      rw [sa.2.2, sb.2.2] at hrest
      have h2 := kvs_inj enc ok kw kw' [] [] (by simpa using sa.2.1) (by simpa using sb.2.1) (by intro d; simp) (by intro d; simp) (by simpa using hrest)
      exact ⟨⟨hn, ha, h2.1⟩, hr⟩
    · -- task / tasklet
      have hs := ok.sha_inj _ _ h.1
      simp at hs
    · -- task / hashed
      have hs := ok.sha_inj _ _ h.1
      simp only [List.cons.injEq, Tok.atom.injEq] at hs
      have := ok.str_inj _ _ hs.1
      simp at this
  | .tasklet base f =>
    cases b <;> simp [ser, Safe] at h sb sa ⊢
    · have hs := ok.sha_inj _ _ h.1
      simp at hs
    · rename_i base' f'
      obtain ⟨hd, hr⟩ := h
      have hs := ok.sha_inj _ _ hd
      simp only [List.cons.injEq, true_and] at hs
      have h1 := ser_inj enc ok base base' _ _ (by simpa using sa.1) (by simpa using sb.1) hs
      obtain ⟨hb, hrest⟩ := h1
      simp only [List.cons.injEq, true_and] at hrest
      have h2 := ser_inj enc ok f f' [] [] (by simpa using sa.2) (by simpa using sb.2) (by simpa using hrest)
      exact ⟨⟨hb, h2.1⟩, hr⟩
    · have hs := ok.sha_inj _ _ h.1
      simp at hs
  | .hashed v =>
    cases b <;> simp [ser, Safe] at h sb sa ⊢
    · have hs := ok.sha_inj _ _ h.1
      simp only [List.cons.injEq, Tok.atom.injEq] at hs
      have := ok.str_inj _ _ hs.1
      simp at this
    · have hs := ok.sha_inj _ _ h.1
      simp at hs
    · rename_i w
      obtain ⟨hd, hr⟩ := h
      have hs := ok.sha_inj _ _ hd
      simp only [List.cons.injEq, true_and] at hs
      have h1 := ser_inj enc ok v w [] [] (by simpa using sa) (by simpa using sb) (by simpa using hs)
      exact ⟨h1.1, hr⟩
theorem serSeq_inj (enc : Enc A D) (ok : EncOK enc) (k : Nat) (xs ys : List (PVal A D)) (r1 r2 : List (Tok A D))
    (sa : SafeSeq enc k xs r1.head?) (sb : SafeSeq enc k ys r2.head?)
    (h : serSeq enc k xs ++ r1 = serSeq enc k ys ++ r2) : xs = ys ∧ r1 = r2 := by
  match xs with
  | [] =>
    cases ys with
    | nil => simpa [serSeq] using h
    | cons y ys =>
      simp only [serSeq, List.nil_append, List.cons_append] at h
      simp only [SafeSeq, notNat] at sa
      rw [h] at sa; simp at sa
  | x :: xs =>
    cases ys with
    | nil =>
      simp only [serSeq, List.nil_append, List.cons_append] at h
      simp only [SafeSeq, notNat] at sb
      rw [← h] at sb; simp at sb
    | cons y ys =>
      simp only [serSeq, List.cons_append, List.cons.injEq, true_and, List.append_assoc] at h
      simp only [SafeSeq] at sa sb
      have h1 := ser_inj enc ok x y _ _ (by rw [head_serSeq]; exact sa.1) (by rw [head_serSeq]; exact sb.1) h
      have h2 := serSeq_inj enc ok (k + 1) xs ys r1 r2 sa.2 sb.2 h1.2
      exact ⟨by rw [h1.1, h2.1], h2.2⟩
theorem els_inj (enc : Enc A D) (ok : EncOK enc) (k : Nat) (xs ys : List (PVal A D)) (r1 r2 : List (Tok A D))
    (sa : SafeEls enc xs) (sb : SafeEls enc ys) (n1 : notNat enc (k + xs.length) r1.head?) (n2 : notNat enc (k + ys.length) r2.head?)
    (h : serDigests enc k (hashAll enc xs) ++ r1 = serDigests enc k (hashAll enc ys) ++ r2) : xs = ys ∧ r1 = r2 := by
  match xs with
  | [] =>
    cases ys with
    | nil => simpa [hashAll, serDigests] using h
    | cons y ys =>
      simp only [hashAll, serDigests, List.nil_append, List.cons_append] at h
      simp only [notNat, List.length_nil, Nat.add_zero] at n1
      rw [h] at n1; simp at n1
  | x :: xs =>
    cases ys with
    | nil =>
      simp only [hashAll, serDigests, List.nil_append, List.cons_append] at h
      simp only [notNat, List.length_nil, Nat.add_zero] at n2
      rw [← h] at n2; simp at n2
    | cons y ys =>
      simp only [hashAll, serDigests, List.cons_append, List.cons.injEq, Tok.atom.injEq, true_and] at h
      simp only [SafeEls] at sa sb
      obtain ⟨hd, hrest⟩ := h
      have hs := ok.sha_inj _ _ (ok.dig_inj _ _ hd)
      simp only [List.cons.injEq, true_and] at hs
      have h1 := ser_inj enc ok x y [] [] (by simpa using sa.1) (by simpa using sb.1) (by simpa using hs)
      have h2 := els_inj enc ok (k + 1) xs ys r1 r2 sa.2 sb.2
        (by simp only [List.length_cons] at n1; rw [Nat.add_assoc, Nat.add_comm 1]; exact n1)
        (by simp only [List.length_cons] at n2; rw [Nat.add_assoc, Nat.add_comm 1]; exact n2) hrest
      exact ⟨by rw [h1.1, h2.1], h2.2⟩
theorem kvs_inj (enc : Enc A D) (ok : EncOK enc) (xs ys : List (PVal A D × PVal A D)) (r1 r2 : List (Tok A D))
    (sa : SafeKVs enc xs r1.head?) (sb : SafeKVs enc ys r2.head?) (n1 : notDig enc r1.head?) (n2 : notDig enc r2.head?)
    (h : serEntries enc (serKVs enc xs) ++ r1 = serEntries enc (serKVs enc ys) ++ r2) : xs = ys ∧ r1 = r2 := by
  match xs with
  | [] =>
    cases ys with
    | nil => simpa [serKVs, serEntries] using h
    | cons y ys =>
      obtain ⟨k', v'⟩ := y
      simp only [serKVs, serEntries, List.nil_append, List.cons_append] at h
      have := n1 (enc.sha (.atom (enc.pkStr "hash1") :: ser enc k'))
      rw [h] at this; simp at this
  | (k, v) :: xs =>
    cases ys with
    | nil =>
      simp only [serKVs, serEntries, List.nil_append, List.cons_append] at h
      have := n2 (enc.sha (.atom (enc.pkStr "hash1") :: ser enc k))
      rw [← h] at this; simp at this
    | cons y ys =>
      obtain ⟨k', v'⟩ := y
      simp only [serKVs, serEntries, List.cons_append, List.cons.injEq, Tok.atom.injEq, List.append_assoc] at h
      simp only [SafeKVs] at sa sb
      obtain ⟨hd, hrest⟩ := h
      have hs := ok.sha_inj _ _ (ok.dig_inj _ _ hd)
      simp only [List.cons.injEq, true_and] at hs
      have hk := ser_inj enc ok k k' [] [] (by simpa using sa.1) (by simpa using sb.1) (by simpa using hs)
      have hv := ser_inj enc ok v v' _ _ (safe_of_head enc v xs r1 sa.2.1 sa.2.2.1) (safe_of_head enc v' ys r2 sb.2.1 sb.2.2.1) hrest
      have h2 := kvs_inj enc ok xs ys r1 r2 sa.2.2.2 sb.2.2.2 n1 n2 hv.2
      exact ⟨by rw [hk.1, hv.1, h2.1], h2.2⟩
end

/-- **C08 (partial)**: on safe values the stream - hence, for a collision-free hash, the identifier - determines the value -/
theorem ser_injective_partial (enc : Enc A D) (ok : EncOK enc) (a b : PVal A D)
    (sa : Safe enc a none) (sb : Safe enc b none) (h : ser enc a = ser enc b) : a = b :=
  (ser_inj enc ok a b [] [] (by simpa using sa) (by simpa using sb) (by simpa using h)).1

/-- two task invocations with the same identifier have the same name, the same positional arguments (values,
    types, order, nesting) and the same keyword arguments (names and values) -/
theorem taskId_injective_partial (enc : Enc A D) (ok : EncOK enc) (n n' : A) (a a' : List (PVal A D))
    (kw kw' : List (PVal A D × PVal A D))
    (sa : Safe enc (.task n a kw) none) (sb : Safe enc (.task n' a' kw') none)
    (h : taskId enc n a kw = taskId enc n' a' kw') : n = n' ∧ a = a' ∧ kw = kw' := by
  have := ser_injective_partial enc ok (.task n a kw) (.task n' a' kw') sa sb (by rw [ser_task, ser_task, h])
  simpa using this

/-- in particular: positional versus keyword placement, list versus tuple, index `i` versus `j` -/
theorem list_ne_tuple (enc : Enc A D) (xs : List (PVal A D)) : ser enc (.list xs) ≠ ser enc (.tuple xs) := by
  simp [ser]

/-! non-vacuity: the safe class contains nested containers, tasks with keyword arguments, tasklets -/
section Example
def exEnc : Enc Nat Nat where
  pkNat := fun k => 3 * k
  pkStr := fun s => 3 * s.length + 1
  pkDig := fun d => 3 * d + 2
  sha := fun toks => toks.length
  le := fun a b => a ≤ b
example : Safe exEnc (.task 7 [.list [.atom 100, .tuple [.atom 5, .atom 6]], .atom 4] [(.atom 50, .atom 51)]) none := by
  simp [Safe, SafeSeq, SafeKVs, nextOf, notNat, Canonical, sortByDigest, serKVs, exEnc]
  decide
end Example

end Jug.C08
