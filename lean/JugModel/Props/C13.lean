import JugModel.Lemmas.ExecOnce
import JugModel.Lemmas.ExecScan
/-!
# C13 - after a hard crash, completed work survives and the computation can be finished
(`crash w` is enabled in every state of a live worker: between any two store operations)
-/
set_option linter.unusedVariables false
namespace Jug.C13
open Jug.Exec
variable {V : Type} [DecidableEq V]

theorem crash_always_enabled (P : Prog V) (fl : Worker → Flags) (s : Sys V) (w : Worker)
    (h1 : ∀ c, s.wk w ≠ .exited c) (h2 : s.wk w ≠ .crashed) : ∃ s', accept P fl s (.crash w) = some s' := by
  cases h : s.wk w <;> simp_all [accept]

/-- a crash changes nothing shared: every complete result stays, locks stay (the residue), other workers are untouched -/
theorem crash_preserves (P : Prog V) (fl : Worker → Flags) (s s' : Sys V) (w : Worker)
    (ha : accept P fl s (.crash w) = some s') :
    s'.res = s.res ∧ s'.lock = s.lock ∧ s'.wk w = .crashed ∧ ∀ w', w' ≠ w → s'.wk w' = s.wk w' := by
  simp only [accept] at ha
  split at ha <;> simp_all <;> subst ha <;> simp [upd] <;> intro w' h <;> simp [h]

/-- results stay correct (sound) across crashes, at any point, of any number of workers -/
theorem crash_keeps_results_correct (P : Prog V) (wf : WF P) (fl : Worker → Flags) (res₀ : Task → Option V)
    (h₀ : ∀ t v, res₀ t = some v → v = denot P t) (evs : List (Ev V)) (s : Sys V)
    (hr : Steps P fl (initSys res₀) evs s) : ∀ t v, s.res t = some v → v = denot P t :=
  (steps_invV P wf fl evs _ s (invV_init P res₀ h₀) hr).sound

/-- **the only residue is the dead worker's locks**: every held lock belongs to a worker that is inside its critical
    section for that task or has crashed -/
theorem residue_is_own_locks (P : Prog V) (fl : Worker → Flags) (s₀ s : Sys V) (evs : List (Ev V)) (h₀ : Inv s₀)
    (hr : Steps P fl s₀ evs s) (w : Worker) (t : Task) (hl : s.lock t = .held w) :
    csTask (s.wk w) = some t ∨ s.wk w = .crashed :=
  (steps_inv P fl evs s₀ s h₀ hr).held_cs w t hl

/-- **survivors are unaffected except that they skip the locked task**: a held lock makes `lock` answer False and leaves the
    asking worker idle, free to take any other task -/
theorem survivors_skip (P : Prog V) (fl : Worker → Flags) (s s' : Sys V) (t : Task) (w₀ w : Worker) (b : Bool)
    (hl : s.lock t = .held w₀) (ha : accept P fl s (.lock w t b) = some s') : b = false ∧ s' = s := by
  simp only [accept] at ha
  split at ha <;> (try simp at ha)
  simp only [hl] at ha
  cases b <;> simp_all

/-- **recovery**: `cleanup --locks-only` (performed when no live worker is inside a critical section) frees every lock,
    keeps every result and re-establishes the protocol invariant ... -/
theorem recovery (P : Prog V) (fl : Worker → Flags) (s s' : Sys V) (hi : Inv s) (hlegal : Legal s (.removeLocks : Ev V))
    (ha : accept P fl s .removeLocks = some s') : Inv s' ∧ s'.res = s.res ∧ ∀ t, s'.lock t = .free := by
  refine ⟨accept_inv P fl s s' _ hi hlegal ha, ?_, ?_⟩ <;>
    (simp only [accept, Option.some.injEq] at ha; subst ha; simp)

/-- ... so that afterwards (Inv holds again) a fresh execute can only start tasks that have no result:
    nothing that had completed is run again (`C02.no_rerun_once_stored`), and what it stores is correct (`C01.exec_sound`) -/
theorem recovery_no_rerun (P : Prog V) (fl : Worker → Flags) (s : Sys V) (hi : Inv s) (t : Task) (hres : s.res t ≠ none) (w : Worker) :
    accept P fl s (.begin_ w t) = none := by
  cases hacc : accept P fl s (.begin_ w t) with
  | none => rfl
  | some s' =>
    exfalso
    simp only [accept] at hacc
    split at hacc <;> (try simp at hacc)
    rename_i t' hwk
    obtain ⟨⟨htt, _⟩, _⟩ := hacc
    subst htt
    exact hres (hi.nores w t' (by simp [hwk, noRes]))

/-- the task whose worker died can be acquired again after recovery -/
theorem recovered_task_can_be_locked (P : Prog V) (fl : Worker → Flags) (s : Sys V) (t : Task) (w : Worker)
    (hfree : s.lock t = .free) (hidle : s.wk w = .idle) : ∃ s', accept P fl s (.lock w t true) = some s' ∧ s'.lock t = .held w := by
  simp [accept, hidle, hfree, upd]

/-- **the recovery run completes the whole computation**: from any regular state in which every worker is idle, dead or
    gone and no lock is left (what `cleanup --locks-only` re-establishes after any number of kills, by `recovery`), a
    failure-free execute by any number of fresh workers `< W` (any interleaving; each keeps its scan obligation and leaves
    with status 0; the dead stay dead) ends with a result for **every** task - and by `recovery_no_rerun` /
    `C01.exec_sound` without re-running anything and with the sequential values. -/
theorem recovery_completes (P : Prog V) (fl : Worker → Flags) (n W : Nat) (sdeps : Task → List Task)
    (hlt : ∀ t d, d ∈ sdeps t → d < t) (s₀ s : Sys V) (evs : List (Ev V))
    (hi : Inv s₀) (hfree : ∀ t, s₀.lock t = .free)
    (hwk : ∀ w, s₀.wk w = .idle ∨ s₀.wk w = .crashed ∨ ∃ c, s₀.wk w = .exited c)
    (hout : ∀ w, W ≤ w → s₀.wk w = .idle) (w₀ : Worker) (hw₀ : w₀ < W) (hidle : s₀.wk w₀ = .idle)
    (hr : CleanSteps P fl s₀ evs s)
    (hw : ∀ e ∈ evs, ∀ w, evWorker e = some w → w < W)
    (hscan : scanRun n sdeps (kgOf fl) Scan.init evs = true)
    (hq : ∀ w, w < W → (∃ c, s.wk w = .exited c) ∨ s.wk w = .crashed) :
    ∀ t, t < n → s.res t ≠ none := by
  have h0 := cinv_init_gen n W sdeps fl s₀ hi hfree hwk hout w₀ hw₀ hidle
  have hc := fsteps_cinv P fl n W sdeps evs s₀ s Scan.init h0 (fsteps_of_cleanSteps P fl evs s₀ s hr) hw hscan
  intro t ht
  rcases complete_of_cinv n W sdeps fl hlt s _ hc hq t ht with h | h
  · exact h
  · have hf := scanFold_failedT_clean (V := V) sdeps (kgOf fl) evs Scan.init (cleanSteps_all_clean P fl evs s₀ s hr)
    rw [hf] at h
    exact absurd h (not_blocked_of_none sdeps t)

/-- the state after kills and `cleanup --locks-only` meets the premises of `recovery_completes` as far as locks and the
    invariant are concerned (the workers' states are what they are: killed ones dead, the others idle or gone) -/
theorem recovery_state_ok (P : Prog V) (fl : Worker → Flags) (s s' : Sys V) (hi : Inv s) (hlegal : Legal s (.removeLocks : Ev V))
    (ha : accept P fl s .removeLocks = some s') : Inv s' ∧ (∀ t, s'.lock t = .free) ∧ s'.wk = s.wk := by
  have h := recovery P fl s s' hi hlegal ha
  refine ⟨h.1, h.2.2, ?_⟩
  simp only [accept, Option.some.injEq] at ha; subst ha; rfl

/-! non-vacuity: worker 0 is killed inside task 0; worker 1 skips it; after lock removal worker 1 completes it; task 1's
    earlier result is untouched and not re-run -/
example : ∃ s, run (V := Nat) { n := 2, deps := fun _ => [], f := fun t _ => t + 3 } (fun _ => ⟨false, false⟩) (initSys (fun _ => none))
    [.lock 1 1 true, .canLoad 1 1 false, .begin_ 1 1, .endOk 1 1 4, .dump 1 1 4, .unlock 1 1,
     .lock 0 0 true, .canLoad 0 0 false, .begin_ 0 0, .crash 0, .lock 1 0 false, .removeLocks,
     .lock 1 0 true, .canLoad 1 0 false, .begin_ 1 0, .endOk 1 0 3, .dump 1 0 3, .unlock 1 0] = some s
    ∧ s.res 0 = some 3 ∧ s.res 1 = some 4 ∧ s.runs 1 = 1 ∧ s.runs 0 = 2 := ⟨_, rfl, by decide, by decide, by decide, by decide⟩

end Jug.C13
