import JugModel.Lemmas.ExecOnce
/-!
# C03 - no task starts before all its dependencies are complete; it sees their results

`P.deps t` are the tasks underneath `t`'s arguments however they are embedded (tasklets, task-valued indices,
containers, keyword arguments, mapped sequences and slices): that `Task.dependencies()`/`can_run()` of the code
really report that set for every embedding is the correspondence part of this check (and layer F, C16).
-/
set_option linter.unusedVariables false
namespace Jug.C03
open Jug.Exec
variable {V : Type} [DecidableEq V]

/-- the task function is entered only when every dependency has a stored result -/
theorem run_after_deps (P : Prog V) (fl : Worker → Flags) (s s' : Sys V) (w : Worker) (t : Task)
    (ha : accept P fl s (.begin_ w t) = some s') : ∀ d ∈ P.deps t, s.res d ≠ none := by
  simp only [accept] at ha
  split at ha <;> (try simp at ha)
  obtain ⟨⟨_, hd⟩, _⟩ := ha
  simp only [depsDone, List.all_eq_true] at hd
  intro d hdm hnone
  have := hd d hdm
  simp [hnone] at this

/-- a dependency that is missing, still running or locked elsewhere blocks the dependent for every worker -/
theorem blocked_while_dep_missing (P : Prog V) (fl : Worker → Flags) (s : Sys V) (w : Worker) (t d : Task)
    (hd : d ∈ P.deps t) (hnone : s.res d = none) : accept P fl s (.begin_ w t) = none := by
  cases h : accept P fl s (.begin_ w t) with
  | none => rfl
  | some s' => exact absurd hnone (run_after_deps P fl s s' w t h d hd)

/-- while the function runs, and at the moment it returns, its dependencies are (still) all stored, with the
    reference values: the arguments it received are exactly the stored results -/
theorem args_are_stored_results (P : Prog V) (wf : WF P) (fl : Worker → Flags) (res₀ : Task → Option V)
    (h₀ : ∀ t v, res₀ t = some v → v = denot P t) (evs : List (Ev V)) (s : Sys V)
    (hr : Steps P fl (initSys res₀) evs s) (w : Worker) (t : Task) (hw : s.wk w = .running t) :
    ∀ d ∈ P.deps t, s.res d = some (denot P d) := by
  have hi := steps_invV P wf fl evs _ s (invV_init P res₀ h₀) hr
  have hd := hi.running_deps w t hw
  simp only [depsDone, List.all_eq_true] at hd
  intro d hdm
  have := hd d hdm
  cases hres : s.res d with
  | none => simp [hres] at this
  | some v => rw [hi.sound d v hres]

/-- the value the function returns is the function applied to the stored results of its dependencies -/
theorem result_is_function_of_stored (P : Prog V) (fl : Worker → Flags) (s s' : Sys V) (w : Worker) (t : Task) (v : V)
    (ha : accept P fl s (.endOk w t v) = some s') : v = P.f t s.res := by
  simp only [accept] at ha
  split at ha <;> (try simp at ha)
  exact ha.1.2

/-- non-vacuity: the dependent is refused while its dependency is locked and running elsewhere -/
example : run (V := Nat) { n := 2, deps := fun t => if t = 1 then [0] else [], f := fun _ _ => 0 } (fun _ => ⟨false, false⟩)
    (initSys (fun _ => none))
    [.lock 0 0 true, .canLoad 0 0 false, .begin_ 0 0, .lock 1 1 true, .canLoad 1 1 false, .begin_ 1 1] = none := by decide

end Jug.C03
