import JugModel.Model.KeepAlive
import JugModel.Generated.KeepAliveConsts
/-!
# C19 - keep-alive locks: live workers never reported dead, dead ones eventually are
-/
set_option linter.unusedVariables false
namespace Jug.C19
open Jug.KeepAlive

/-- the invariant of a live monitor: the age of the lock plus the worst-case time until the next refresh is bounded -/
def LiveInv (c : Consts) (Δ bound : Nat) (s : MonSt) : Prop :=
  1 ≤ s.counter ∧ s.counter ≤ c.rounds ∧ s.mtime ≤ s.now ∧ (s.now - s.mtime) + s.counter * (c.period + Δ) ≤ bound

theorem round_live (c : Consts) (Δ bound δ : Nat) (s : MonSt) (hδ : δ ≤ Δ) (hr : 1 ≤ c.rounds)
    (hb : c.rounds * (c.period + Δ) ≤ bound) (h : LiveInv c Δ bound s) :
    LiveInv c Δ bound (round c δ .ok s).1 ∧ (round c δ .ok s).2.1 = true ∧
    -- the largest age anybody can observe during this round (just before a possible refresh)
    (s.now + c.period + δ) - s.mtime ≤ bound := by
  obtain ⟨h1, h2, h3, h4⟩ := h
  have hq : s.counter * (c.period + Δ) = (s.counter - 1) * (c.period + Δ) + (c.period + Δ) := by
    have : s.counter = (s.counter - 1) + 1 := by omega
    conv => lhs; rw [this, Nat.add_mul, Nat.one_mul]
  have hage : (s.now + c.period + δ) - s.mtime ≤ bound := by
    have : 0 ≤ (s.counter - 1) * (c.period + Δ) := Nat.zero_le _
    omega
  refine ⟨?_, ?_, hage⟩
  · unfold round
    simp only [show (Env.ok = Env.parentGone) = False by simp, ↓reduceIte]
    split
    · simp only [show (Env.ok = Env.lockGone) = False by simp, ↓reduceIte]
      exact ⟨hr, Nat.le_refl _, Nat.le_refl _, by simp; exact hb⟩
    · rename_i hc
      refine ⟨by simp; omega, by simp; omega, by simp; omega, ?_⟩
      simp only
      have : 0 ≤ (s.counter - 1) * (c.period + Δ) := Nat.zero_le _
      omega
  · unfold round
    simp only [show (Env.ok = Env.parentGone) = False by simp, ↓reduceIte]
    split <;> simp

/-- **a live worker's lock is never reported failed**: if `σ` (delay until the monitor's first round starts) plus one refresh
    interval in the worst case stays below the expiry, then at every instant of every round, for every sequence of round
    overshoots `δ ≤ Δ` and any run length, the lock's age is below the expiry -/
theorem live_never_failed (c : Consts) (Δ σ : Nat) (hr : 1 ≤ c.rounds) (hsafe : σ + c.rounds * (c.period + Δ) < c.expiry)
    (δs : List Nat) (hδ : ∀ δ ∈ δs, δ ≤ Δ) (s : MonSt) (h : LiveInv c Δ (σ + c.rounds * (c.period + Δ)) s) :
    LiveInv c Δ (σ + c.rounds * (c.period + Δ)) (runLive c s δs) ∧
    ∀ (pre : List Nat) (δ : Nat) (post : List Nat), δs = pre ++ δ :: post →
      ∀ t, t ≤ (runLive c s pre).now + c.period + δ → isFailed c t (runLive c s pre).mtime = false := by
  induction δs generalizing s with
  | nil => exact ⟨h, by intro pre δ post he; simp at he⟩
  | cons d ds ih =>
    have hd : d ≤ Δ := hδ d (by simp)
    have hstep := round_live c Δ _ d s hd hr (by omega) h
    have ih' := ih (fun x hx => hδ x (by simp [hx])) (round c d .ok s).1 hstep.1
    refine ⟨by simpa [runLive] using ih'.1, ?_⟩
    intro pre δ post he t ht
    cases pre with
    | nil =>
      simp only [List.nil_append, List.cons.injEq] at he
      obtain ⟨rfl, rfl⟩ := he
      simp only [runLive] at ht ⊢
      simp only [isFailed, decide_eq_false_iff_not, Nat.not_le]
      have := hstep.2.2
      obtain ⟨_, _, h3, _⟩ := h
      omega
    | cons p ps =>
      simp only [List.cons_append, List.cons.injEq] at he
      obtain ⟨rfl, rfl⟩ := he
      simp only [runLive] at ht ⊢
      exact ih'.2 ps δ post rfl t ht

/-- the start state right after `get()` created the lock at time `t₀` and the monitor's first round starts `σ` later -/
theorem start_inv (c : Consts) (Δ σ t₀ σ' : Nat) (hσ : σ' ≤ σ) (hr : 1 ≤ c.rounds) :
    LiveInv c Δ (σ + c.rounds * (c.period + Δ)) { now := t₀ + σ', mtime := t₀, counter := c.rounds } := by
  refine ⟨hr, Nat.le_refl _, by simp, ?_⟩
  simp only; omega

/-- **a dead worker's lock is eventually reported failed**: once the monitor wakes up and finds its parent gone it stops
    without refreshing; so the lock's mtime is never later than that wake-up, and from `expiry` later on the lock is failed -/
theorem dead_eventually_failed (c : Consts) (δ : Nat) (s : MonSt) (hm : s.mtime ≤ s.now) :
    (round c δ .parentGone s).2.1 = false ∧ (round c δ .parentGone s).1.mtime = s.mtime ∧
    (round c δ .parentGone s).2.2 = [.sleep c.period, .parentCheck] ∧
    ∀ t, s.now + c.expiry ≤ t → isFailed c t (round c δ .parentGone s).1.mtime = true := by
  unfold round
  simp only [↓reduceIte, true_and]
  intro t ht
  simp only [isFailed, decide_eq_true_eq]
  omega

/-- the monitor ends within one round of the worker's disappearance ... -/
theorem terminates_parent_gone (c : Consts) (δ : Nat) (s : MonSt) :
    (round c δ .parentGone s).2.1 = false ∧ (round c δ .parentGone s).1.now = s.now + c.period + δ := by
  unfold round; simp

/-- ... and at the next refresh attempt when the lock file was removed (at most `rounds` rounds later) -/
theorem terminates_lock_gone (c : Consts) (δ : Nat) (s : MonSt) (h : s.counter ≤ 1) :
    (round c δ .lockGone s).2.1 = false := by
  unfold round
  simp only [show (Env.lockGone = Env.parentGone) = False by simp, ↓reduceIte]
  have : s.counter - 1 = 0 := by omega
  simp [this]

theorem counter_decreases (c : Consts) (δ : Nat) (s : MonSt) (h : 2 ≤ s.counter) :
    (round c δ .lockGone s).1.counter = s.counter - 1 ∧ (round c δ .lockGone s).2.1 = true := by
  unfold round
  simp only [show (Env.lockGone = Env.parentGone) = False by simp, ↓reduceIte]
  have : ¬ (s.counter - 1 = 0) := by omega
  simp [this]

/-! ### whole lives of the helper: any environment, any overshoots, any length -/

/-- the lock is never dated in the future, whatever the helper saw -/
theorem round_mtime_le_now (c : Consts) (δ : Nat) (env : Env) (s : MonSt) (h : s.mtime ≤ s.now) :
    (round c δ env s).1.mtime ≤ (round c δ env s).1.now ∧ s.now ≤ (round c δ env s).1.now ∧
    s.mtime ≤ (round c δ env s).1.mtime := by
  by_cases hc : s.counter - 1 = 0 <;> cases env <;> simp [round, hc] <;> omega

theorem run_mtime_le_now (c : Consts) (es : List (Nat × Env)) (s : MonSt) (h : s.mtime ≤ s.now) :
    (runEnv c s es).1.mtime ≤ (runEnv c s es).1.now ∧ s.now ≤ (runEnv c s es).1.now := by
  induction es generalizing s with
  | nil => simp [runEnv, h]
  | cons e es ih =>
    obtain ⟨δ, env⟩ := e
    have hr := round_mtime_le_now c δ env s h
    simp only [runEnv]
    split
    · have := ih (round c δ env s).1 hr.1
      exact ⟨this.1, by omega⟩
    · exact ⟨hr.1, hr.2.1⟩

/-- **the helper never outlives its lock by more than one refresh interval**: once the lock file is gone (or the worker is),
    in every later round, the helper has stopped after at most `counter` rounds - for every schedule of overshoots -/
theorem lock_gone_stops (c : Consts) (es : List (Nat × Env)) (s : MonSt) (hne : ∀ e ∈ es, e.2 ≠ .ok)
    (hlen : s.counter ≤ es.length) (hpos : 1 ≤ es.length) : (runEnv c s es).2 = false := by
  induction es generalizing s with
  | nil => simp at hpos
  | cons e es ih =>
    obtain ⟨δ, env⟩ := e
    have henv : env ≠ .ok := hne (δ, env) (by simp)
    simp only [runEnv]
    split
    · rename_i hgo
      -- the round went on: so it was a lock-gone round with counter ≥ 2
      cases env with
      | ok => exact absurd rfl henv
      | parentGone => simp [round] at hgo
      | lockGone =>
        by_cases hc : s.counter ≤ 1
        · have := terminates_lock_gone c δ s hc
          simp [this] at hgo
        · have hd := counter_decreases c δ s (by omega)
          refine ih _ (fun e he => hne e (by simp [he])) (by rw [hd.1]; simp at hlen; omega) ?_
          simp at hlen; omega
    · rfl

/-- a dead worker is noticed at the helper's next wake-up, whatever came before: the life ends there, nothing after it in the
    schedule matters, the lock is not refreshed, and from `expiry` after that wake-up on everybody reports the lock failed -/
theorem dead_worker_run (c : Consts) (pre post : List (Nat × Env)) (δ : Nat) (s : MonSt) (hm : s.mtime ≤ s.now)
    (hrun : (runEnv c s pre).2 = true) :
    (runEnv c s (pre ++ (δ, .parentGone) :: post)).2 = false ∧
    (runEnv c s (pre ++ (δ, .parentGone) :: post)).1.mtime = (runEnv c s pre).1.mtime ∧
    ∀ t, (runEnv c s pre).1.now + c.expiry ≤ t →
      isFailed c t (runEnv c s (pre ++ (δ, .parentGone) :: post)).1.mtime = true := by
  induction pre generalizing s with
  | nil =>
    have hd := dead_eventually_failed c δ s hm
    simp only [List.nil_append, runEnv, hd.1]
    exact ⟨by simp, by simpa using hd.2.1, by simpa using hd.2.2.2⟩
  | cons e pre ih =>
    obtain ⟨δ', env⟩ := e
    have hr := round_mtime_le_now c δ' env s hm
    simp only [List.cons_append, runEnv] at hrun ⊢
    split
    · rename_i hgo
      simp only [hgo, ↓reduceIte] at hrun
      exact ih (round c δ' env s).1 hr.1 hrun
    · rename_i hstop
      simp [hstop] at hrun

/-- a helper that has stopped stays stopped: a longer schedule changes nothing -/
theorem stopped_is_final (c : Consts) (es more : List (Nat × Env)) (s : MonSt) (h : (runEnv c s es).2 = false) :
    runEnv c s (es ++ more) = runEnv c s es := by
  induction es generalizing s with
  | nil => simp [runEnv] at h
  | cons e es ih =>
    obtain ⟨δ, env⟩ := e
    simp only [List.cons_append, runEnv] at h ⊢
    split
    · rename_i hgo
      simp only [hgo, ↓reduceIte] at h
      exact ih _ h
    · rfl

/-- live rounds of a whole life are the live runs of `live_never_failed` -/
theorem runEnv_live (c : Consts) (δs : List Nat) (s : MonSt) :
    runEnv c s (δs.map fun δ => (δ, Env.ok)) = (runLive c s δs, true) := by
  induction δs generalizing s with
  | nil => simp [runEnv, runLive]
  | cons d ds ih =>
    have : (round c d .ok s).2.1 = true := by
      unfold round
      simp only [show (Env.ok = Env.parentGone) = False by simp, ↓reduceIte]
      split <;> simp
    simp only [List.map_cons, runEnv, this, ↓reduceIte, runLive]
    exact ih _

example : (runEnv ⟨5, 3, 100⟩ ⟨0, 0, 3⟩ [(0, .ok), (1, .lockGone), (0, .lockGone), (0, .ok)]) = (⟨16, 0, 3⟩, false) := by decide

/-! ### bridge: the constants and the loop of the code as it is now -/
open Jug.Generated.KeepAlive

/-- the environment assumption of the property is stated once, here: a wake-up of the helper is late by at most 10 s and the helper
    starts within 59 s.  The constants of the code as it is now leave room for that (today: 60 * (5 + 10) + 59 < 1800; they would
    tolerate up to 24 s).  The bound is a fact about the environment, not about today's constants: a retuning of period and
    rounds that still tolerates 10 s keeps this theorem -/
theorem constants_safe : 59 + consts.rounds * (consts.period + 10) < consts.expiry ∧ 1 ≤ consts.rounds := by decide

/-- the order of the primitive calls of the real `main()` over 125 live rounds is the model's -/
theorem loop_matches : liveTrace = liveCalls consts 125 { now := 0, mtime := 0, counter := consts.rounds } := by decide +kernel

/-- parent gone: the real loop stops after the parent check without touching the lock; lock gone: it stops at the refresh -/
theorem exits_match : parentGoneTrace = (round consts 0 .parentGone { now := 0, mtime := 0, counter := consts.rounds }).2.2 ∧
    lockGoneTrace = (round consts 0 .lockGone { now := 0, mtime := 0, counter := 1 }).2.2 := by decide

/-- the helper is started with the lock path exactly as the lock uses it and inherits the worker's working directory -/
theorem helper_started_plainly : popenExtraKwargs = [] ∧ popenPathIsLockPath = true ∧ releaseKillsHelper = true ∧ failKillsHelper = true ∧
    failMarkSurvivesRacingRefresh = true := by decide

/-- the state of the helper of the code as it is now, `σ'` seconds after `get()` created the lock at `t₀` -/
def codeStart (t₀ σ' : Nat) : MonSt := { now := t₀ + σ', mtime := t₀, counter := consts.rounds }

/-- **C19, first half, for the code as it is now** - no hypothesis left but the environment's: the helper starts within 59 s and
    wakes up at most 10 s late. Then at every instant of every round of a live worker's helper, however long the task runs,
    `is_failed()` is false -/
theorem live_never_failed_code (t₀ σ' : Nat) (hσ : σ' ≤ 59) (δs : List Nat) (hδ : ∀ δ ∈ δs, δ ≤ 10)
    (pre : List Nat) (δ : Nat) (post : List Nat) (he : δs = pre ++ δ :: post) (t : Nat)
    (ht : t ≤ (runLive consts (codeStart t₀ σ') pre).now + consts.period + δ) :
    isFailed consts t (runLive consts (codeStart t₀ σ') pre).mtime = false :=
  (live_never_failed consts 10 59 constants_safe.2 constants_safe.1 δs hδ (codeStart t₀ σ')
    (start_inv consts 10 59 t₀ σ' hσ constants_safe.2)).2 pre δ post he t ht

/-- **C19, second half, for the code as it is now**: a worker that lives through any number of rounds and is then gone - the
    helper's life ends at its next wake-up, whatever the overshoots were and whatever would have come after, and from `expiry`
    after that wake-up on the lock is reported failed -/
theorem dead_worker_code (t₀ σ' : Nat) (δs : List Nat) (δ : Nat) (post : List (Nat × Env)) :
    (runEnv consts (codeStart t₀ σ') ((δs.map fun d => (d, Env.ok)) ++ (δ, .parentGone) :: post)).2 = false ∧
    ∀ t, (runLive consts (codeStart t₀ σ') δs).now + consts.expiry ≤ t →
      isFailed consts t (runEnv consts (codeStart t₀ σ') ((δs.map fun d => (d, Env.ok)) ++ (δ, .parentGone) :: post)).1.mtime = true := by
  have h := dead_worker_run consts (δs.map fun d => (d, Env.ok)) post δ (codeStart t₀ σ') (by simp [codeStart])
    (by rw [runEnv_live])
  rw [runEnv_live] at h
  exact ⟨h.1, h.2.2⟩

example : isFailed consts 1800 0 = true ∧ isFailed consts 1799 0 = false := by decide

end Jug.C19
