import JugModel.Model.KeepAlive
import JugModel.Generated.KeepAliveConsts
/-!
# C19 - keep-alive locks: live workers never reported dead, dead ones eventually are
-/
set_option linter.unusedVariables false
namespace Jug.C19
open Jug.KeepAlive

/-- the invariant of a live monitor: the age of the lock plus the worst-case time until the next refresh is bounded -/
def LiveInv (c : Consts) (Δ bound : Nat) (s : MonSt) : Prop :=
  1 ≤ s.counter ∧ s.counter ≤ c.rounds ∧ s.mtime ≤ s.now ∧ (s.now - s.mtime) + s.counter * (c.period + Δ) ≤ bound

theorem round_live (c : Consts) (Δ bound δ : Nat) (s : MonSt) (hδ : δ ≤ Δ) (hr : 1 ≤ c.rounds)
    (hb : c.rounds * (c.period + Δ) ≤ bound) (h : LiveInv c Δ bound s) :
    LiveInv c Δ bound (round c δ .ok s).1 ∧ (round c δ .ok s).2.1 = true ∧
    -- the largest age anybody can observe during this round (just before a possible refresh)
    (s.now + c.period + δ) - s.mtime ≤ bound := by
  obtain ⟨h1, h2, h3, h4⟩ := h
  have hq : s.counter * (c.period + Δ) = (s.counter - 1) * (c.period + Δ) + (c.period + Δ) := by
    have : s.counter = (s.counter - 1) + 1 := by omega
    conv => lhs; rw [this, Nat.add_mul, Nat.one_mul]
  have hage : (s.now + c.period + δ) - s.mtime ≤ bound := by
    have : 0 ≤ (s.counter - 1) * (c.period + Δ) := Nat.zero_le _
    omega
  refine ⟨?_, ?_, hage⟩
  · unfold round
    simp only [show (Env.ok = Env.parentGone) = False by simp, ↓reduceIte]
    split
    · simp only [show (Env.ok = Env.lockGone) = False by simp, ↓reduceIte]
      exact ⟨hr, Nat.le_refl _, Nat.le_refl _, by simp; exact hb⟩
    · rename_i hc
      refine ⟨by simp; omega, by simp; omega, by simp; omega, ?_⟩
      simp only
      have : 0 ≤ (s.counter - 1) * (c.period + Δ) := Nat.zero_le _
      omega
  · unfold round
    simp only [show (Env.ok = Env.parentGone) = False by simp, ↓reduceIte]
    split <;> simp

/-- **a live worker's lock is never reported failed**: if `σ` (delay until the monitor's first round starts) plus one refresh
    interval in the worst case stays below the expiry, then at every instant of every round, for every sequence of round
    overshoots `δ ≤ Δ` and any run length, the lock's age is below the expiry -/
theorem live_never_failed (c : Consts) (Δ σ : Nat) (hr : 1 ≤ c.rounds) (hsafe : σ + c.rounds * (c.period + Δ) < c.expiry)
    (δs : List Nat) (hδ : ∀ δ ∈ δs, δ ≤ Δ) (s : MonSt) (h : LiveInv c Δ (σ + c.rounds * (c.period + Δ)) s) :
    LiveInv c Δ (σ + c.rounds * (c.period + Δ)) (runLive c s δs) ∧
    ∀ (pre : List Nat) (δ : Nat) (post : List Nat), δs = pre ++ δ :: post →
      ∀ t, t ≤ (runLive c s pre).now + c.period + δ → isFailed c t (runLive c s pre).mtime = false := by
  induction δs generalizing s with
  | nil => exact ⟨h, by intro pre δ post he; simp at he⟩
  | cons d ds ih =>
    have hd : d ≤ Δ := hδ d (by simp)
    have hstep := round_live c Δ _ d s hd hr (by omega) h
    have ih' := ih (fun x hx => hδ x (by simp [hx])) (round c d .ok s).1 hstep.1
    refine ⟨by simpa [runLive] using ih'.1, ?_⟩
    intro pre δ post he t ht
    cases pre with
    | nil =>
      simp only [List.nil_append, List.cons.injEq] at he
      obtain ⟨rfl, rfl⟩ := he
      simp only [runLive] at ht ⊢
      simp only [isFailed, decide_eq_false_iff_not, Nat.not_le]
      have := hstep.2.2
      obtain ⟨_, _, h3, _⟩ := h
      omega
    | cons p ps =>
      simp only [List.cons_append, List.cons.injEq] at he
      obtain ⟨rfl, rfl⟩ := he
      simp only [runLive] at ht ⊢
      exact ih'.2 ps δ post rfl t ht

/-- the start state right after `get()` created the lock at time `t₀` and the monitor's first round starts `σ` later -/
theorem start_inv (c : Consts) (Δ σ t₀ σ' : Nat) (hσ : σ' ≤ σ) (hr : 1 ≤ c.rounds) :
    LiveInv c Δ (σ + c.rounds * (c.period + Δ)) { now := t₀ + σ', mtime := t₀, counter := c.rounds } := by
  refine ⟨hr, Nat.le_refl _, by simp, ?_⟩
  simp only; omega

/-- **a dead worker's lock is eventually reported failed**: once the monitor wakes up and finds its parent gone it stops
    without refreshing; so the lock's mtime is never later than that wake-up, and from `expiry` later on the lock is failed -/
theorem dead_eventually_failed (c : Consts) (δ : Nat) (s : MonSt) (hm : s.mtime ≤ s.now) :
    (round c δ .parentGone s).2.1 = false ∧ (round c δ .parentGone s).1.mtime = s.mtime ∧
    (round c δ .parentGone s).2.2 = [.sleep c.period, .parentCheck] ∧
    ∀ t, s.now + c.expiry ≤ t → isFailed c t (round c δ .parentGone s).1.mtime = true := by
  unfold round
  simp only [↓reduceIte, true_and]
  intro t ht
  simp only [isFailed, decide_eq_true_eq]
  omega

/-- the monitor ends within one round of the worker's disappearance ... -/
theorem terminates_parent_gone (c : Consts) (δ : Nat) (s : MonSt) :
    (round c δ .parentGone s).2.1 = false ∧ (round c δ .parentGone s).1.now = s.now + c.period + δ := by
  unfold round; simp

/-- ... and at the next refresh attempt when the lock file was removed (at most `rounds` rounds later) -/
theorem terminates_lock_gone (c : Consts) (δ : Nat) (s : MonSt) (h : s.counter ≤ 1) :
    (round c δ .lockGone s).2.1 = false := by
  unfold round
  simp only [show (Env.lockGone = Env.parentGone) = False by simp, ↓reduceIte]
  have : s.counter - 1 = 0 := by omega
  simp [this]

theorem counter_decreases (c : Consts) (δ : Nat) (s : MonSt) (h : 2 ≤ s.counter) :
    (round c δ .lockGone s).1.counter = s.counter - 1 ∧ (round c δ .lockGone s).2.1 = true := by
  unfold round
  simp only [show (Env.lockGone = Env.parentGone) = False by simp, ↓reduceIte]
  have : ¬ (s.counter - 1 = 0) := by omega
  simp [this]

/-! ### bridge: the constants and the loop of the code as it is now -/
open Jug.Generated.KeepAlive

/-- the environment assumption of the property is stated once, here: a wake-up of the helper is late by at most 10 s and the helper
    starts within 59 s.  The constants of the code as it is now leave room for that (today: 60 * (5 + 10) + 59 < 1800; they would
    tolerate up to 24 s).  The bound is a fact about the environment, not about today's constants: a retuning of period and
    rounds that still tolerates 10 s keeps this theorem -/
theorem constants_safe : 59 + consts.rounds * (consts.period + 10) < consts.expiry ∧ 1 ≤ consts.rounds := by decide

/-- the order of the primitive calls of the real `main()` over 125 live rounds is the model's -/
theorem loop_matches : liveTrace = liveCalls consts 125 { now := 0, mtime := 0, counter := consts.rounds } := by decide +kernel

/-- parent gone: the real loop stops after the parent check without touching the lock; lock gone: it stops at the refresh -/
theorem exits_match : parentGoneTrace = (round consts 0 .parentGone { now := 0, mtime := 0, counter := consts.rounds }).2.2 ∧
    lockGoneTrace = (round consts 0 .lockGone { now := 0, mtime := 0, counter := 1 }).2.2 := by decide

/-- the helper is started with the lock path exactly as the lock uses it and inherits the worker's working directory -/
theorem helper_started_plainly : popenExtraKwargs = [] ∧ popenPathIsLockPath = true ∧ releaseKillsHelper = true ∧ failKillsHelper = true ∧
    failMarkSurvivesRacingRefresh = true := by decide

example : isFailed consts 1800 0 = true ∧ isFailed consts 1799 0 = false := by decide

end Jug.C19
