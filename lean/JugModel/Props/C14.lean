import JugModel.Model.Loader
import JugModel.Model.Reload
/-!
# C14 - nothing after a barrier runs before everything before it is complete
-/
set_option linter.unusedVariables false
namespace Jug.C14
open Jug.Loader

variable {V : Type}

/-- `barrier()` lets the import continue only if every task created so far has a stored result -/
theorem barrier_guard (res : Key → Option V) (rest : JF V) (defined : List Key) :
    (∀ t ∈ defined, res t ≠ none) ∧ load res (.barrier rest) defined = load res rest defined ∨
    (∃ t ∈ defined, res t = none) ∧ load res (.barrier rest) defined = ⟨[], true⟩ := by
  simp only [load]
  by_cases h : defined.all (fun t => (res t).isSome) = true
  · left
    refine ⟨?_, by simp [h]⟩
    intro t ht
    have := (List.all_eq_true.mp h) t ht
    cases hr : res t <;> simp_all
  · right
    have hf : defined.all (fun t => (res t).isSome) = false := by simpa using h
    obtain ⟨t, ht, hn⟩ := List.all_eq_false.mp hf
    refine ⟨⟨t, ht, by cases hr : res t <;> simp_all⟩, by simp [h]⟩

/-- `bvalue(t)` returns the stored value of `t` or stops the import at that point - there is no third outcome -/
theorem bvalue_exact (res : Key → Option V) (key : Key) (k : V → JF V) (defined : List Key) :
    (∃ v, res key = some v ∧ load res (.bvalue key k) defined = load res (k v) defined) ∨
    (res key = none ∧ load res (.bvalue key k) defined = ⟨[], true⟩) := by
  simp only [load]
  cases h : res key with
  | none => right; simp
  | some v => left; exact ⟨v, rfl, by simp⟩

/-- jugfiles without compound tasks whose `bvalue` arguments are tasks created earlier in the file -/
def WFJ : JF V → List Key → Prop
  | .done, _ => True
  | .task key _ rest, d => WFJ rest (key :: d)
  | .barrier rest, d => WFJ rest d
  | .bvalue key k, d => key ∈ d ∧ ∀ v, WFJ (k v) d
  | .compound _ _ _, _ => False

/-- **what is loaded is a prefix of the sequential program**: against any sound store the loaded task list is a prefix of the
    task list of the complete run (the part of the file after a closed barrier simply has not happened yet) -/
theorem load_prefix (ref : Key → V) (res : Key → Option V) (hs : ∀ k v, res k = some v → v = ref k) (J : JF V) (d : List Key)
    (hw : WFJ J d) : (load res J d).tasks <+: (loadFull ref J d).tasks := by
  induction J generalizing d with
  | done => simp [load, loadFull]
  | task key deps rest ih =>
    simp only [load, loadFull]
    have := ih (key :: d) hw
    simp only [loadFull] at this
    exact List.prefix_cons_inj key |>.mpr this
  | barrier rest ih =>
    simp only [load, loadFull]
    have hall : d.all (fun t => (some (ref t)).isSome) = true := by simp
    simp only [Option.isSome_some, List.all_eq_true, implies_true, ↓reduceIte]
    split
    · have := ih d hw; simpa [loadFull] using this
    · exact List.nil_prefix
  | bvalue key k ih =>
    simp only [load, loadFull]
    cases h : res key with
    | none => exact List.nil_prefix
    | some v =>
      have hv := hs key v h
      subst hv
      have := ih (ref key) d (hw.2 (ref key))
      simpa [loadFull] using this
  | compound key inner rest ih => exact absurd hw (by simp [WFJ])

/-- when everything created so far is complete, loading makes progress: it defines a new task or reaches the end of the file -/
theorem progress_from_clean (res : Key → Option V) (J : JF V) (d : List Key) (hw : WFJ J d) (hd : ∀ t ∈ d, res t ≠ none) :
    (load res J d).tasks ≠ [] ∨ (load res J d).stopped = false := by
  induction J generalizing d with
  | done => right; simp [load]
  | task key deps rest ih => left; simp [load]
  | barrier rest ih =>
    have hall : d.all (fun t => (res t).isSome) = true := by
      simp only [List.all_eq_true]; intro t ht; have := hd t ht; cases hr : res t <;> simp_all
    simp only [load, hall, ↓reduceIte]
    exact ih d hw hd
  | bvalue key k ih =>
    simp only [load]
    have := hd key hw.1
    cases h : res key with
    | none => exact absurd h this
    | some v => exact ih v d (hw.2 v) hd
  | compound key inner rest ih => exact absurd hw (by simp [WFJ])

/-- **every phase makes progress**: if loading stopped at a closed barrier, and later every loaded task has a result (nothing
    removed, values unchanged), then reloading defines strictly more tasks or reaches the end of the file. With C01 (each phase's
    tasks get completed) the reload loop of `jug execute` therefore terminates with the complete program. -/
theorem phase_progress (res res' : Key → Option V) (hmono : ∀ k v, res k = some v → res' k = some v) (J : JF V) (d : List Key)
    (hw : WFJ J d) (hstop : (load res J d).stopped = true)
    (hdone : ∀ t ∈ (load res J d).tasks ++ d, res' t ≠ none) :
    (load res J d).tasks.length < (load res' J d).tasks.length ∨ (load res' J d).stopped = false := by
  induction J generalizing d with
  | done => simp [load] at hstop
  | task key deps rest ih =>
    simp only [load] at hstop hdone ⊢
    have := ih (key :: d) hw hstop (by
      intro t ht
      apply hdone t
      simp only [List.mem_append, List.mem_cons] at ht ⊢
      rcases ht with h | h | h
      · left; right; exact h
      · left; left; exact h
      · right; exact h)
    rcases this with h | h
    · left; simp only [List.length_cons]; omega
    · right; exact h
  | barrier rest ih =>
    simp only [load] at hstop hdone ⊢
    by_cases hall : d.all (fun t => (res t).isSome) = true
    · have hall' : d.all (fun t => (res' t).isSome) = true := by
        simp only [List.all_eq_true] at hall ⊢
        intro t ht
        have := hall t ht
        cases hr : res t with
        | none => simp [hr] at this
        | some v => simp [hmono t v hr]
      simp only [hall, ↓reduceIte] at hstop hdone
      simp only [hall, hall', ↓reduceIte]
      exact ih d hw hstop hdone
    · simp only [hall, Bool.false_eq_true, ↓reduceIte, List.nil_append] at hdone
      have hall' : d.all (fun t => (res' t).isSome) = true := by
        simp only [List.all_eq_true]
        intro t ht; have := hdone t ht; cases hr : res' t <;> simp_all
      simp only [hall, hall', Bool.false_eq_true, ↓reduceIte, List.length_nil]
      rcases progress_from_clean res' rest d hw hdone with h | h
      · left; exact List.length_pos_iff.mpr h
      · right; exact h
  | bvalue key k ih =>
    simp only [load] at hstop hdone ⊢
    cases h : res key with
    | some v =>
      simp only [h] at hstop hdone
      simp only [hmono key v h]
      exact ih v d (hw.2 v) hstop hdone
    | none =>
      simp only [h, List.nil_append] at hdone
      have hk := hdone key hw.1
      cases h' : res' key with
      | none => exact absurd h' hk
      | some v' =>
        simp only [List.length_nil]
        rcases progress_from_clean res' (k v') d (hw.2 v') hdone with hp | hp
        · left; exact List.length_pos_iff.mpr hp
        · right; exact hp
  | compound key inner rest ih => exact absurd hw (by simp [WFJ])

/-- **`jug check` never reports completion while a barrier is closed**: if loading stopped, some loaded task has no result - and
    `check` walks exactly the loaded tasks (C15.check_iff), so it exits 1 -/
theorem check_never_early (res : Key → Option V) (J : JF V) (d : List Key) (hw : WFJ J d) (hstop : (load res J d).stopped = true) :
    ∃ t ∈ (load res J d).tasks ++ d, res t = none := by
  induction J generalizing d with
  | done => simp [load] at hstop
  | task key deps rest ih =>
    simp only [load] at hstop ⊢
    obtain ⟨t, ht, hn⟩ := ih (key :: d) hw hstop
    refine ⟨t, ?_, hn⟩
    simp only [List.mem_append, List.mem_cons] at ht ⊢
    rcases ht with h | h | h
    · left; right; exact h
    · left; left; exact h
    · right; exact h
  | barrier rest ih =>
    simp only [load] at hstop ⊢
    by_cases hall : d.all (fun t => (res t).isSome) = true
    · simp only [hall, ↓reduceIte] at hstop ⊢
      exact ih d hw hstop
    · have hf : d.all (fun t => (res t).isSome) = false := by simpa using hall
      obtain ⟨t, ht, hn⟩ := List.all_eq_false.mp hf
      simp only [hall, Bool.false_eq_true, ↓reduceIte, List.nil_append]
      exact ⟨t, ht, by cases hr : res t <;> simp_all⟩
  | bvalue key k ih =>
    simp only [load] at hstop ⊢
    cases h : res key with
    | none => simp only [List.nil_append]; exact ⟨key, hw.1, h⟩
    | some v => simp only [h] at hstop; exact ih v d (hw.2 v) hstop
  | compound key inner rest ih => exact absurd hw (by simp [WFJ])

/-! non-vacuity: two phases whose second shape depends on the value of task 0 -/
section Example
def exJ : JF Nat := .task 0 [] (.task 1 [0] (.barrier (.bvalue 0 (fun v => if v = 2 then .task 2 [1] (.task 3 [1] .done) else .task 2 [1] .done))))
example : load (fun _ => none) exJ [] = ⟨[0, 1], true⟩ := by decide
example : load (fun k => if k ≤ 1 then some 2 else none) exJ [] = ⟨[0, 1, 2, 3], false⟩ := by decide
example : WFJ exJ [] := by simp [exJ, WFJ]; intro v; split <;> simp [WFJ]
end Example

/-! ### the reload loop of `jug execute` (Model/Reload.lean): it keeps reloading as long as this worker makes progress -/
section ReloadLoop
open Jug.Reload

theorem loop_passes_le (n : Nat) (ps : List Pass) : ∀ np, (loop n np ps).1 ≤ ps.length := by
  induction ps with
  | nil => intro np; simp [loop]
  | cons p rest ih =>
    intro np
    simp only [loop]
    split
    · split
      · simp
      · simp only [List.length_cons]; exact Nat.succ_le_succ (ih _)
    · simp

/-- **any number of barrier phases**: while every pass executes something, the loop goes on - however long the list of phases
    and whatever `--nr-wait-cycles` (> 0) is -/
theorem keeps_reloading (n : Nat) (ps : List Pass) (hp : ∀ p ∈ ps, p.executed ≠ 0 ∧ p.barrier = true) :
    ∀ np, np < n → loop n np ps = (ps.length, none) := by
  induction ps with
  | nil => intro np h; simp [loop, h]
  | cons p rest ih =>
    intro np h
    have hp0 := hp p (by simp)
    have hn : 0 < n := by omega
    simp only [loop, h, if_true, hp0.2, Bool.not_true, Bool.false_eq_true, if_false, hp0.1, List.length_cons]
    rw [ih (fun q hq => hp q (by simp [hq])) 0 hn]

/-- ... and it stops with the complete program at the first pass that loads the jugfile to its end -/
theorem completes (n : Nat) (pre : List Pass) (last : Pass) (hp : ∀ p ∈ pre, p.executed ≠ 0 ∧ p.barrier = true)
    (hl : last.barrier = false) : ∀ np, np < n → loop n np (pre ++ [last]) = (pre.length + 1, some .done) := by
  induction pre with
  | nil => intro np h; simp [loop, h, hl]
  | cons p rest ih =>
    intro np h
    have hp0 := hp p (by simp)
    have hn : 0 < n := by omega
    simp only [List.cons_append, loop, h, if_true, hp0.2, Bool.not_true, Bool.false_eq_true, if_false, hp0.1, List.length_cons]
    rw [ih (fun q hq => hp q (by simp [hq])) 0 hn]

/-- the loop ends by `break` only at a pass without pending barrier, all earlier passes having stopped at one -/
theorem done_only_when_open (n : Nat) (ps : List Pass) : ∀ np k, loop n np ps = (k, some .done) →
    ∃ pre last post, ps = pre ++ last :: post ∧ k = pre.length + 1 ∧ last.barrier = false ∧ ∀ p ∈ pre, p.barrier = true := by
  induction ps with
  | nil => intro np k h; simp only [loop] at h; split at h <;> simp at h
  | cons p rest ih =>
    intro np k h
    simp only [loop] at h
    split at h
    · split at h
      · rename_i hb
        simp only [Prod.mk.injEq, and_true] at h
        exact ⟨[], p, rest, rfl, by simp [← h], by simpa using hb, by simp⟩
      · rename_i hb
        simp only [Prod.mk.injEq] at h
        obtain ⟨pre, last, post, h1, h2, h3, h4⟩ := ih _ (loop n (if p.executed = 0 then np + 1 else 0) rest).1 (Prod.ext rfl h.2)
        refine ⟨p :: pre, last, post, by simp [h1], by simp [← h.1, h2], h3, ?_⟩
        intro q hq
        rcases List.mem_cons.mp hq with rfl | hq
        · simpa using hb
        · exact h4 q hq
    · simp at h

/-- **giving up needs `--nr-wait-cycles` consecutive idle passes**: when the loop ends with "No tasks can be run!" after `k`
    passes, the last `m` of them (for some `m`) were all idle - nothing executed, barrier pending - and `m` (plus the initial
    count, if every pass was idle) reaches `n` -/
theorem gaveUp_general (n : Nat) (ps : List Pass) : ∀ np k, loop n np ps = (k, some .gaveUp) →
    ∃ m, m ≤ k ∧ (∀ p ∈ (ps.take k).drop (k - m), p.idle = true) ∧ n ≤ m + (if m = k then np else 0) := by
  induction ps with
  | nil =>
    intro np k h
    simp only [loop] at h
    split at h
    · simp at h
    · simp only [Prod.mk.injEq, and_true] at h
      exact ⟨0, by omega, by simp, by simp [← h]; omega⟩
  | cons p rest ih =>
    intro np k h
    simp only [loop] at h
    split at h
    · split at h
      · simp at h
      · rename_i hlt hb
        simp only [Prod.mk.injEq] at h
        have hb' : p.barrier = true := by simpa using hb
        obtain ⟨m', hm', hall, hn⟩ := ih _ (loop n (if p.executed = 0 then np + 1 else 0) rest).1 (Prod.ext rfl h.2)
        generalize hk' : (loop n (if p.executed = 0 then np + 1 else 0) rest).1 = k' at *
        have hk : k = k' + 1 := h.1.symm
        subst hk
        by_cases hmk : m' = k'
        · subst hmk
          simp only [if_true] at hn
          by_cases he : p.executed = 0
          · simp only [he, if_true] at hn
            refine ⟨m' + 1, Nat.le_refl _, ?_, by simp; omega⟩
            intro q hq
            simp only [Nat.sub_self, List.drop_zero, List.take_succ_cons, List.mem_cons] at hq hall
            rcases hq with rfl | hq
            · simp [Pass.idle, he, hb']
            · exact hall q hq
          · simp only [he, if_false, Nat.add_zero] at hn
            refine ⟨m', by omega, ?_, by simp; omega⟩
            intro q hq
            have : m' + 1 - m' = 1 := by omega
            simp only [this, List.take_succ_cons, List.drop_succ_cons, List.drop_zero] at hq
            simp only [Nat.sub_self, List.drop_zero] at hall
            exact hall q hq
        · simp only [hmk, if_false, Nat.add_zero] at hn
          have hne : m' ≠ k' + 1 := by omega
          refine ⟨m', by omega, ?_, by simp only [hne, if_false]; omega⟩
          intro q hq
          have : k' + 1 - m' = (k' - m') + 1 := by omega
          simp only [this, List.take_succ_cons, List.drop_succ_cons] at hq
          exact hall q hq
    · rename_i hge
      simp only [Prod.mk.injEq, and_true] at h
      exact ⟨0, by omega, by simp, by simp [← h]; omega⟩

/-- from a fresh start: the last `n` passes (at least) were all idle -/
theorem gaveUp_after_idle (n : Nat) (ps : List Pass) (k : Nat) (h : loop n 0 ps = (k, some .gaveUp)) :
    ∃ m, n ≤ m ∧ m ≤ k ∧ ∀ p ∈ (ps.take k).drop (k - m), p.idle = true := by
  obtain ⟨m, h1, h2, h3⟩ := gaveUp_general n ps 0 k h
  refine ⟨m, ?_, h1, h2⟩
  split at h3 <;> omega

/-! non-vacuity: 5 progressing phases with `--nr-wait-cycles 2`; and giving up after two idle passes -/
example : loop 2 0 ((List.replicate 5 ⟨1, true⟩) ++ [⟨1, false⟩]) = (6, some .done) := by decide
example : loop 2 0 [⟨1, true⟩, ⟨0, true⟩, ⟨3, true⟩, ⟨0, true⟩, ⟨0, true⟩, ⟨1, true⟩] = (5, some .gaveUp) := by decide
end ReloadLoop

end Jug.C14
