import JugModel.Lemmas.MapReduce
import JugModel.Generated.MapReduceConsts
/-!
# C17 - map, mapreduce, reduce, currymap agree with the Python built-ins for all splits

Property theorems (kept apart from the helper lemmas in `Lemmas/MapReduce.lean`).
All statements are for *every* input list, every `map_step ≥ 1`, every `reduce_step ≥ 2` and every
associative reducer (no commutativity assumed, so order errors would falsify them).
-/
set_option linter.unusedVariables false
namespace Jug.C17
open Jug.MR

/-- `value(map(m, xs, step)) = [m(x) for x in xs]` for every step ≥ 1 -/
theorem map_value {α β} (m : α → β) (step : Nat) (hs : 1 ≤ step) (xs : List α) :
    mapValue m step xs = xs.map m := by
  unfold mapValue mapBlocks
  split
  · rfl
  · rw [← List.map_flatten, breakUp_flatten step (by omega)]

/-- `value(map(m, xs, step)[p]) = m(xs[p])`: the block/offset arithmetic `blocks[p // s][p % s]` -/
theorem map_index {α β} (m : α → β) (step : Nat) (hs : 1 ≤ step) (xs : List α) (p : Nat) (hp : p < xs.length) :
    blockGet (mapBlocks m step xs) step p = (xs.map m)[p]? := by
  unfold blockGet mapBlocks
  rw [List.getElem?_map, breakUp_getElem? step (by omega)]
  have h1 : p / step * step ≤ p := Nat.div_mul_le_self p step
  have h2 : p / step * step < xs.length := by omega
  simp only [h2, ↓reduceIte, Option.map_some, Option.bind_some]
  have h3 : p % step < step := Nat.mod_lt _ (by omega)
  have h4 : p / step * step + p % step = p := by
    have := Nat.div_add_mod p step; rw [Nat.mul_comm] at this; exact this
  rw [List.getElem?_map, List.getElem?_take, if_pos h3, List.getElem?_drop, h4, List.getElem?_map]

/-- `value(mapreduce(r, m, xs, ms, rs)) = functools.reduce(r, map(m, xs))` for every associative `r`,
    every `map_step ≥ 1`, `reduce_step ≥ 2` and every list (both sides are `none` = "empty" for `[]`,
    where jug returns `identity([])` and the built-in raises). -/
theorem mapreduce_eq_fold {α β : Type} (r : β → β → β) (assoc : ∀ a b c, r (r a b) c = r a (r b c))
    (m : α → β) (ms rs : Nat) (hms : 1 ≤ ms) (hrs : 2 ≤ rs) (xs : List α) :
    mrValue r m ms rs xs = fold1 r (xs.map m) := by
  unfold mrValue
  rw [treeReduce_eq_fold1 r assoc rs hrs]
  have : (breakUp ms xs).filterMap (fun c => fold1 r (c.map m)) = ((breakUp ms xs).map (·.map m)).filterMap (fold1 r) := by
    rw [List.filterMap_map]; rfl
  rw [this, fold1_chunks r assoc]
  · rw [← List.map_flatten, breakUp_flatten ms (by omega)]
  · intro c hc
    simp only [List.mem_map] at hc
    obtain ⟨d, hd, rfl⟩ := hc
    have := breakUp_ne_nil ms xs d hd
    simpa using this

/-- `value(reduce(r, xs, rs)) = functools.reduce(r, xs)` -/
theorem reduce_eq_fold {β : Type} (r : β → β → β) (assoc : ∀ a b c, r (r a b) c = r a (r b c))
    (rs : Nat) (hrs : 2 ≤ rs) (xs : List β) :
    reduceValue r rs xs = fold1 r xs := by
  unfold reduceValue
  rw [mapreduce_eq_fold r assoc id 4 rs (by omega) hrs]; simp

/-- `value(currymap(f, xs, step)) = [f(*x) for x in xs]` -/
theorem currymap_value {α₁ α₂ β} (f : α₁ → α₂ → β) (step : Nat) (hs : 1 ≤ step) (xs : List (α₁ × α₂)) :
    curryValue f step xs = xs.map (fun e => f e.1 e.2) := by
  unfold curryValue
  split
  · rfl
  · rw [← List.map_flatten, breakUp_flatten step (by omega)]

/-- every input element is handed to the mapper exactly once (even in the original order) -/
theorem each_element_mapped_once {α} (step : Nat) (hs : 1 ≤ step) (xs : List α) :
    mapperCalls step xs = xs := breakUp_flatten step (by omega) xs

/-- the first level of mapreduce never creates an empty task, and no chunk exceeds the step -/
theorem chunks_wellformed {α} (step : Nat) (xs : List α) :
    ∀ c ∈ breakUp step xs, c ≠ [] ∧ c.length ≤ step :=
  fun c hc => ⟨breakUp_ne_nil step xs c hc, breakUp_len_le step xs c hc⟩

/-- bridge: the default steps of the code as it is now lie in the domain of the theorems above
    (`reduce_step < 2` would make `mapreduce` loop forever, `map_step = 0` likewise) -/
theorem defaults_in_domain :
    1 ≤ Generated.MapReduce.mapStepDefault ∧ 1 ≤ Generated.MapReduce.currymapStepDefault ∧
    1 ≤ Generated.MapReduce.mrMapStepDefault ∧ 2 ≤ Generated.MapReduce.mrReduceStepDefault ∧
    2 ≤ Generated.MapReduce.reduceStepDefault := by decide

/-! non-vacuity: the hypotheses are met by concrete non-trivial instances -/
example : mrValue (· ++ ·) (fun x => [x]) 2 3 (List.range 13) = some (List.range 13) := by
  rw [mapreduce_eq_fold (· ++ ·) (by intro a b c; simp [List.append_assoc]) _ 2 3 (by decide) (by decide)]; decide
example : mapValue (· * 2) 3 (List.range 11) = (List.range 11).map (· * 2) := map_value _ 3 (by decide) _
example : blockGet (mapBlocks (· * 2) 3 (List.range 11)) 3 7 = some 14 := by
  rw [map_index _ 3 (by decide) _ 7 (by decide)]; decide

/-! ### slices of mapped sequences -/

theorem allSome_map_of_isSome {γ β} (l : List γ) (f : γ → Option β) (h : ∀ x ∈ l, (f x).isSome) :
    allSome (l.map f) = some (l.filterMap f) := by
  induction l with
  | nil => rfl
  | cons a t ih =>
    have ha := h a (by simp)
    have ih' := ih (fun x hx => h x (by simp [hx]))
    cases hfa : f a with
    | none => simp [hfa] at ha
    | some v => simp [List.map_cons, allSome, hfa, ih', List.filterMap_cons]

/-- every index produced by `slice.indices(n)` lies inside the sequence:
    so `block_access.__getitem__` never raises while a slice is evaluated -/
theorem slice_indices_in_bounds (s : PySlice) (n : Nat) (a b c : Int)
    (h : sliceIndices s n = some (a, b, c)) (i : Nat) (hi : i < (PyRange.mk a b c).len) :
    0 ≤ a + (i : Int) * c ∧ a + (i : Int) * c < n := by
  unfold sliceIndices at h
  simp only at h
  split at h
  · simp at h
  · rename_i hc0
    simp only [Option.some.injEq, Prod.mk.injEq] at h
    obtain ⟨ha, hb, hc⟩ := h
    subst hc
    generalize hstep : s.step.getD 1 = c at *
    unfold PyRange.len at hi
    simp only at hi
    rcases Int.lt_trichotomy c 0 with hneg | hz | hpos
    · -- negative step
      have hnp : ¬ c > 0 := by omega
      simp only [hnp, ↓reduceIte, hneg] at hi ha hb
      split at hi
      · rename_i hba
        have ha1 : -1 ≤ a ∧ a ≤ n - 1 := by
          subst ha; cases s.start with
          | none => simp; omega
          | some v => simp only; split <;> omega
        have hb1 : -1 ≤ b := by
          subst hb; cases s.stop with
          | none => simp
          | some v => simp only; split <;> omega
        have hq : (a - b - 1) / (-c) * (-c) ≤ a - b - 1 := Int.ediv_mul_le _ (by omega)
        have hqn : 0 ≤ (a - b - 1) / (-c) := Int.ediv_nonneg (by omega) (by omega)
        have hi' : (i : Int) ≤ (a - b - 1) / (-c) := by omega
        have hm : (i : Int) * (-c) ≤ (a - b - 1) / (-c) * (-c) := Int.mul_le_mul_of_nonneg_right hi' (by omega)
        have hin : 0 ≤ (i : Int) * (-c) := Int.mul_nonneg (by omega) (by omega)
        have e : (i : Int) * c = - ((i : Int) * (-c)) := by rw [Int.mul_neg, Int.neg_neg]
        omega
      · omega
    · exact absurd hz hc0
    · have hp : c > 0 := hpos
      have hnn : ¬ c < 0 := by omega
      simp only [hp, ↓reduceIte, hnn] at hi ha hb
      split at hi
      · rename_i hab
        have ha1 : 0 ≤ a := by
          subst ha; cases s.start with
          | none => simp
          | some v => simp only; split <;> omega
        have hb1 : b ≤ n := by
          subst hb; cases s.stop with
          | none => simp
          | some v => simp only; split <;> omega
        have hq : (b - a - 1) / c * c ≤ b - a - 1 := Int.ediv_mul_le _ (by omega)
        have hqn : 0 ≤ (b - a - 1) / c := Int.ediv_nonneg (by omega) (by omega)
        have hi' : (i : Int) ≤ (b - a - 1) / c := by omega
        have hm : (i : Int) * c ≤ (b - a - 1) / c * c := Int.mul_le_mul_of_nonneg_right hi' (by omega)
        have hin : 0 ≤ (i : Int) * c := Int.mul_nonneg (by omega) (by omega)
        omega
      · omega

theorem range_get_of_lt (r : PyRange) (i : Nat) (h : i < r.len) :
    r.get (i : Int) = some (r.start + (i : Int) * r.step) := by
  simp only [PyRange.get]
  have e1 : ¬ ((i : Int) < 0) := by omega
  rw [if_neg e1, if_neg (by omega)]

theorem baGet_of_bounds {β} (ys : List β) (p : Int) (h0 : 0 ≤ p) (h1 : p < ys.length) :
    baGet ys p = ys[p.toNat]? := by
  have : ¬ p < 0 := by omega
  simp [baGet, h0, h1, this]

/-- **integer indices of a mapped sequence behave like list indices**, negative ones included: the same element, or
    IndexError in exactly the same cases -/
theorem index_value {β} (ys : List β) (p : Int) : baGet ys p = listGet ys p := by
  simp only [baGet, listGet]
  generalize hq : (if p < 0 then p + (ys.length : Int) else p) = q
  by_cases h2 : 0 ≤ q ∧ q < (ys.length : Int)
  · have h3 : ¬ (q < 0 ∨ q ≥ (ys.length : Int)) := by omega
    rw [if_pos h2, if_neg h3]
  · have h3 : (q < 0 ∨ q ≥ (ys.length : Int)) := by omega
    rw [if_neg h2, if_pos h3]

/-- `value(map(m, xs)[sl]) = [m(x) for x in xs][sl]` for every Python slice (any start/stop/step,
    negative or out of range): evaluating the slice object of jug element by element
    (`block_access_slice.__jug_value__`) never raises and yields exactly the list slice. -/
theorem slice_value {β} (ys : List β) (s : PySlice) (r : PyRange) (h : baSlice ys.length s = some r) :
    sliceValue ys r = listSlice ys s := by
  unfold baSlice at h
  cases hsi : sliceIndices s ys.length with
  | none => simp [hsi] at h
  | some t =>
    obtain ⟨a, b, c⟩ := t
    simp only [hsi, Option.map_some, Option.some.injEq] at h
    subst h
    unfold sliceValue listSlice baSlice
    simp only [hsi, Option.map_some, PyRange.toList, List.filterMap_map]
    have key : ∀ i ∈ List.range (PyRange.mk a b c).len,
        ((PyRange.mk a b c).get (i : Int)).bind (baGet ys) = ys[(a + (i : Int) * c).toNat]? ∧
        (ys[(a + (i : Int) * c).toNat]?).isSome := by
      intro i hi
      have hi' : i < (PyRange.mk a b c).len := List.mem_range.mp hi
      obtain ⟨h0, h1⟩ := slice_indices_in_bounds s ys.length a b c hsi i hi'
      rw [range_get_of_lt _ i hi', Option.bind_some, baGet_of_bounds ys _ h0 h1]
      have : (a + (i : Int) * c).toNat < ys.length := by omega
      simp [this]
    rw [← allSome_map_of_isSome]
    · congr 1
      apply List.map_congr_left
      intro i hi
      exact (key i hi).1
    · intro i hi
      exact (key i hi).2

/-- a zero step is rejected (ValueError), nothing else is -/
theorem slice_rejects_only_zero_step (s : PySlice) (n : Nat) :
    (sliceIndices s n = none ↔ s.step = some 0) := by
  unfold sliceIndices
  simp only
  constructor
  · intro h
    split at h
    · rename_i h0
      cases hs : s.step with
      | none => simp [hs] at h0
      | some v => simp [hs] at h0; simp [h0]
    · simp at h
  · intro h; simp [h]

example : listSlice (List.range 11) ⟨some 9, some 1, some (-3)⟩ = some [9, 6, 3] := by decide
example : (baSlice 11 ⟨none, none, some 2⟩).map PyRange.len = some 6 := by decide
example : sliceValue (List.range 11) ⟨2, 9, 1⟩ = some [2,3,4,5,6,7,8] := by decide

end Jug.C17
