import JugModel.Props.C06
import JugModel.Generated.CleanupDispatch
/-!
# C10 - cleanup never deletes a needed result, and lock-only variants touch only locks
-/
set_option linter.unusedVariables false
namespace Jug.C10
open Jug.Store Jug.C06

variable {V : Type}

/-- default and --keep-locks: exactly the results of tasks the jugfile defines survive - packed or not -/
theorem cleanup_results (s : FS V) (m : Mode) (hm : m = .default ∨ m = .keepLocks) (active : Key → Bool) (k : Key) :
    abs (s.cleanupCmd m active) k = if active k then abs s k else none := by
  rcases hm with rfl | rfl <;> simp only [FS.cleanupCmd, FS.cleanup, abs, FS.get] <;> split <;> simp

/-- ... in particular no needed result is ever deleted, and every result the jugfile does not define is removed -/
theorem needed_kept (s : FS V) (m : Mode) (active : Key → Bool) (k : Key) (ha : active k = true) :
    abs (s.cleanupCmd m active) k = abs s k := by
  cases m <;> simp [FS.cleanupCmd, FS.cleanup, FS.removeLocks, FS.removeFailed, abs, FS.get, ha]

theorem unneeded_removed (s : FS V) (m : Mode) (hm : m = .default ∨ m = .keepLocks) (active : Key → Bool) (k : Key)
    (ha : active k = false) : abs (s.cleanupCmd m active) k = none := by
  rw [cleanup_results s m hm active k]; simp [ha]

/-- `--keep-locks` touches no lock -/
theorem keep_locks (s : FS V) (active : Key → Bool) : (s.cleanupCmd .keepLocks active).locks = s.locks := by
  simp [FS.cleanupCmd, FS.cleanup]

/-- `--locks-only` removes all locks and nothing else -/
theorem locks_only (s : FS V) (active : Key → Bool) :
    (∀ k, (s.cleanupCmd .locksOnly active).locks k = .free) ∧ (s.cleanupCmd .locksOnly active).files = s.files ∧
    (s.cleanupCmd .locksOnly active).packed = s.packed ∧ (s.cleanupCmd .locksOnly active).packFile = s.packFile ∧
    (s.cleanupCmd .locksOnly active).temps = s.temps := by
  simp [FS.cleanupCmd, FS.removeLocks]

/-- `--failed-only` removes exactly the locks marked failed and nothing else -/
theorem failed_only (s : FS V) (active : Key → Bool) :
    (∀ k, (s.cleanupCmd .failedOnly active).locks k = if s.locks k = .failed then .free else s.locks k) ∧
    (s.cleanupCmd .failedOnly active).files = s.files ∧ (s.cleanupCmd .failedOnly active).packed = s.packed ∧
    (s.cleanupCmd .failedOnly active).packFile = s.packFile := by
  simp [FS.cleanupCmd, FS.removeFailed]

/-- a held (not failed) lock survives --failed-only; a failed one does not -/
theorem failed_only_cases (s : FS V) (active : Key → Bool) (k : Key) :
    (s.locks k = .held → (s.cleanupCmd .failedOnly active).locks k = .held) ∧
    (s.locks k = .failed → (s.cleanupCmd .failedOnly active).locks k = .free) := by
  constructor <;> intro h <;> simp [FS.cleanupCmd, FS.removeFailed, h]

/-- the default mode removes every lock (and stray temporary files) -/
theorem default_locks (s : FS V) (active : Key → Bool) :
    (∀ k, (s.cleanupCmd .default active).locks k = .free) ∧ (s.cleanupCmd .default active).temps = 0 := by
  simp [FS.cleanupCmd, FS.cleanup]

/-- the store stays well formed (so C06 keeps applying after cleanup) -/
theorem cleanup_wf (s : FS V) (hw : Wf s) (m : Mode) (active : List Key) : Wf (s.cleanupCmd m (fun k => active.contains k)) := by
  cases m
  · exact (step_refines (fun _ => true) [] s hw (.cleanup active false)).2.2
  · exact (step_refines (fun _ => true) [] s hw (.cleanup active true)).2.2
  · exact ⟨hw.disjoint, hw.packsync⟩
  · exact ⟨hw.disjoint, hw.packsync⟩

/-! ### bridge: the mode dispatch of `jug cleanup` as the code performs it now -/

/-- which store methods the model's modes correspond to -/
def dispatch (locksOnly failedOnly keepLocks : Bool) : List String :=
  if locksOnly then ["remove_locks"]
  else if failedOnly then ["listlocks", "is_failed:F", "release:F", "is_failed:H"]
  else [if keepLocks then "cleanup:keeplocks=True" else "cleanup:keeplocks=False"]

/-- for all 8 combinations of the three options the real command calls exactly the store methods of the model's mode
    (scripted store with one failed lock F and one held lock H) -/
theorem dispatch_matches :
    ∀ row ∈ Generated.Cleanup.dispatchTable, dispatch row.1 row.2.1 row.2.2.1 = row.2.2.2 := by decide

example : Generated.Cleanup.dispatchTable.length = 8 := by decide

end Jug.C10
