import JugModel.Model.Options
import JugModel.Generated.OptionTable
/-!
# C20 - every command resolves options and the store location the same way
-/
namespace Jug.C20
open Jug.Opt Jug.Generated.Options

/-- the rule of the property, for one option: if argparse stores `None` when the option is absent, the value
    `parse()` resolves is: command line, else configuration file coerced to the default's type, else default -/
theorem precedence (d : OptDecl) (h : d.absent = .none) (given : Option Val) (hg : given ≠ some .none)
    (ini : Option String) (dflt : Val) :
    resolve d given ini dflt = spec given ini dflt := by
  unfold resolve spec nsValue
  cases given with
  | none => cases ini <;> simp [h] <;> (cases coerce dflt _ <;> simp)
  | some v => cases v <;> cases ini <;> simp_all <;> (cases coerce dflt _ <;> simp)

/-- bridge (regenerated on every run): every argparse action of every subcommand of the code as it is now
    leaves `None` in the namespace when its option is absent (`user_args`, whose value is not an option, and the
    help action are the only exceptions). A `store_true`, or a `default=`, makes this theorem fail. -/
theorem table_absent_none :
    ∀ d ∈ optionTable, d.dest ≠ "user_args" → d.dest ≠ "help" → d.absent = .none := by decide +kernel

/-- hence: for every option of every subcommand, command line > configuration file > default -/
theorem precedence_all (d : OptDecl) (hd : d ∈ optionTable) (h1 : d.dest ≠ "user_args") (h2 : d.dest ≠ "help")
    (given : Option Val) (hg : given ≠ some .none) (ini : Option String) (dflt : Val) :
    resolve d given ini dflt = spec given ini dflt :=
  precedence d (table_absent_none d hd h1 h2) given hg ini dflt

/-- why the bridge matters: with a `store_true` action (absent ↦ False) the configuration file is ignored -/
theorem store_true_hides_config :
    resolve ⟨"execute", "debug", "StoreTrueAction", .bool false⟩ none (some "1") (.bool false) = some (.bool false) ∧
    spec none (some "1") (.bool false) = some (.bool true) := by decide

/-- the common options (jugfile, jugdir, ...) are declared identically by every subcommand, so the store location
    is resolved the same way whichever command runs -/
theorem common_options_uniform :
    ∀ s ∈ subcommands, ∀ dest ∈ ["jugfile", "jugdir", "aggressive_unload", "verbose", "short", "pdb", "debug", "will_cite"],
      ∃ d ∈ optionTable, d.sub = s ∧ d.dest = dest ∧ d.absent = .none ∧
        ∀ d' ∈ optionTable, d'.dest = dest → d'.action = d.action := by decide +kernel

/-- `sys.argv` = jugfile name followed by the extra arguments -/
theorem argv_shape (dflt jf : String) (extra : List String) (after : Option (List String)) :
    splitArgv dflt (jf :: extra) after = jf :: (extra ++ after.getD []) ∧
    splitArgv dflt [] none = [dflt] := by
  constructor <;> simp [splitArgv]

/-- a template without `%` is used literally -/
theorem expand_literal (jf date : String) (cs : List Char) (h : '%' ∉ cs) (fuel : Nat) (hf : cs.length < fuel) :
    expandChars jf date fuel cs = some cs := by
  induction cs generalizing fuel with
  | nil => cases fuel <;> simp_all [expandChars]
  | cons c cs ih =>
    cases fuel with
    | zero => simp at hf
    | succ f =>
      have hc : c ≠ '%' := by intro e; apply h; simp [e]
      have ht : '%' ∉ cs := by intro e; apply h; simp [e]
      have := ih ht f (by simp at hf; omega)
      unfold expandChars
      split <;> simp_all

/-- the built-in template `%(jugfile)s.jugdata` expands to the jugfile name without its `.py` plus `.jugdata`,
    whatever the jugfile name -/
theorem expand_default_template (jf date : String) :
    expandChars jf date 20 "%(jugfile)s.jugdata".toList =
      some ((jf.toList.take (jf.length - 3)) ++ ".jugdata".toList) := by
  simp [expandChars, lookupVar, List.takeWhile, List.dropWhile]

/-- all commands of one project address the same store: the location is a function of the resolved template, the jugfile name,
    the date and what the jugfile itself selects - and `jugdir`/`jugfile` resolve identically for every subcommand
    (`common_options_uniform`); a jugfile that selects its store wins in every command, otherwise it is the expanded template -/
theorem store_location (ov : Option String) (t jf date e : String) (h : expandJugdir t jf date = some e) :
    storeFor ov t jf date = some (ov.getD e) ∧ storeFor none t jf date = some e ∧ (∀ s, storeFor (some s) t jf date = some s) := by
  simp [storeFor, h]

/-- non-vacuity: the generated table is not empty and contains the options the property is about -/
example : (optionTable.filter (·.dest = "execute_keep_going")).length = 1 ∧ 100 < optionTable.length := by decide +kernel

end Jug.C20
