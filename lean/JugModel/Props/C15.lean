import JugModel.Model.Graph
import JugModel.Generated.StatusTable
/-!
# C15 - status and check tell the truth about every task
-/
set_option linter.unusedVariables false
namespace Jug.C15
open Jug.Graph

variable (deps : Task → List Task)

/-- `jug graph` labels every node with the same five counters: its copy of the classifier is the classifier -/
theorem graph_classifier_eq (res : Task → Bool) (lock : Task → LockSt) (t : Task) :
    classifyGraph deps res lock t = classify deps res lock t := by
  unfold classifyGraph classify lockClass
  cases lock t <;> rfl

/-- the five categories are mutually exclusive and exhaustive by construction (`classify` is a function);
    what each one means: -/
theorem classify_spec (res : Task → Bool) (lock : Task → LockSt) (t : Task) :
    (classify deps res lock t = .finished ↔ res t = true) ∧
    (classify deps res lock t = .waiting ↔ res t = false ∧ ∃ d ∈ deps t, res d = false) ∧
    (classify deps res lock t = .failed ↔ res t = false ∧ (∀ d ∈ deps t, res d = true) ∧ lock t = .failed) ∧
    (classify deps res lock t = .running ↔ res t = false ∧ (∀ d ∈ deps t, res d = true) ∧ lock t = .held) ∧
    (classify deps res lock t = .ready ↔ res t = false ∧ (∀ d ∈ deps t, res d = true) ∧ lock t = .free) ∧
    classify deps res lock t ≠ .unknown := by
  unfold classify
  by_cases hr : res t = true
  · simp [hr]
  · simp only [hr, Bool.false_eq_true, ↓reduceIte]
    by_cases hd : (deps t).all res = true
    · have hd' : ∀ d ∈ deps t, res d = true := by simpa using hd
      have hne : ¬ ∃ d ∈ deps t, res d = false := by
        rintro ⟨d, hdm, hf⟩; have := hd' d hdm; simp [hf] at this
      simp only [hd, ↓reduceIte]
      cases hl : lock t <;> simp [lockClass, hne] <;> exact hd'
    · have hex : ∃ d ∈ deps t, res d = false := by
        have hf : (deps t).all res = false := by simpa using hd
        obtain ⟨d, hdm, hf⟩ := List.all_eq_false.mp hf
        exact ⟨d, hdm, by simpa using hf⟩
      have hnall : ¬ ∀ d ∈ deps t, res d = true := by
        intro h; obtain ⟨d, hdm, hf⟩ := hex; have := h d hdm; simp [hf] at this
      simp [hd, hex, hnall, hr]

/-- totals: every task is counted in exactly one of the five columns, per set of tasks (per name or overall) -/
theorem totals_add_up (res : Task → Bool) (lock : Task → LockSt) (ts : List Task) :
    ts.countP (fun t => classify deps res lock t = .finished) + ts.countP (fun t => classify deps res lock t = .waiting) +
    ts.countP (fun t => classify deps res lock t = .ready) + ts.countP (fun t => classify deps res lock t = .running) +
    ts.countP (fun t => classify deps res lock t = .failed) = ts.length := by
  induction ts with
  | nil => rfl
  | cons t ts ih =>
    have hne := (classify_spec deps res lock t).2.2.2.2.2
    simp only [List.countP_cons, List.length_cons]
    cases h : classify deps res lock t <;> simp_all <;> omega

/-- **cached = uncached**: if the cache holds, for every task, either nothing or the truthful status of an earlier state
    from which results have only been added (and the task list is the same), the cached computation gives exactly the
    uncached classification of the current state -/
theorem cached_eq_uncached (resOld res : Task → Bool) (lockOld lock : Task → LockSt) (prev : Task → Status)
    (hmono : ∀ t, resOld t = true → res t = true)
    (hprev : ∀ t, prev t = .unknown ∨ prev t = classify deps resOld lockOld t) (t : Task) :
    classifyCached deps res lock prev t = classify deps res lock t := by
  have hfin : ∀ u, prev u = .finished → res u = true := by
    intro u hu
    rcases hprev u with h | h
    · rw [h] at hu; simp at hu
    · rw [h] at hu
      exact hmono u (((classify_spec deps resOld lockOld u).1).mp hu)
  have hready : prev t = .ready → (deps t).all res = true := by
    intro hu
    rcases hprev t with h | h
    · rw [h] at hu; simp at hu
    · rw [h] at hu
      have := ((classify_spec deps resOld lockOld t).2.2.2.2.1).mp hu
      simp only [List.all_eq_true]
      intro d hd; exact hmono d (this.2.1 d hd)
  have hall : (deps t).all (fun d => decide (prev d = .finished) || res d) = (deps t).all res := by
    apply List.all_congr rfl
    intro d
    by_cases hp : prev d = .finished
    · simp [hp, hfin d hp]
    · simp [hp]
  unfold classifyCached classify
  by_cases hr : res t = true
  · simp [hr]
  · have hpf : prev t ≠ .finished := fun h => hr (hfin t h)
    simp only [hpf, decide_false, hr, Bool.or_self, Bool.false_eq_true, ↓reduceIte]
    by_cases hpr : prev t = .ready
    · simp [hpr, hready hpr]
    · simp only [hpr, ↓reduceIte, hall]

/-! ### check -/

/-- a result is present only if the results it was computed from are (what execute, invalidate and cleanup maintain) -/
def Closed (res : Task → Bool) : Prop := ∀ t, res t = true → ∀ d ∈ deps t, res d = true

theorem recDeps_done (res : Task → Bool) (hc : Closed deps res) (f : Nat) (t : Task) (ht : res t = true) :
    ∀ u ∈ recDepsF deps f t, res u = true := by
  induction f generalizing t with
  | zero => simp [recDepsF]
  | succ f ih =>
    intro u hu
    simp only [recDepsF, List.mem_flatMap, List.mem_cons] at hu
    obtain ⟨d, hd, hu⟩ := hu
    have hdres := hc t ht d hd
    rcases hu with rfl | hu
    · exact hdres
    · exact ih d hdres u hu

theorem checkWalk_sound (res : Task → Bool) (n : Nat) (hc : Closed deps res) (k : Nat) (skip : List Task)
    (hs : ∀ u ∈ skip, res u = true) (h : checkWalk deps res n k skip = true) : ∀ t, t < k → res t = true := by
  induction k generalizing skip with
  | zero => intro t ht; omega
  | succ k ih =>
    intro t ht
    simp only [checkWalk] at h
    split at h
    · rename_i hsk
      rcases Nat.lt_or_ge t k with hlt | hge
      · exact ih skip hs h t hlt
      · have : t = k := by omega
        subst this; exact hs t (by simpa using hsk)
    · split at h
      · rename_i hrk
        rcases Nat.lt_or_ge t k with hlt | hge
        · refine ih _ ?_ h t hlt
          intro u hu
          simp only [List.mem_append] at hu
          rcases hu with hu | hu
          · exact recDeps_done deps res hc n k hrk u hu
          · exact hs u hu
        · have : t = k := by omega
          subst this; exact hrk
      · simp at h

theorem checkWalk_complete (res : Task → Bool) (n : Nat) (k : Nat) (skip : List Task) (h : ∀ t, t < k → res t = true) :
    checkWalk deps res n k skip = true := by
  induction k generalizing skip with
  | zero => rfl
  | succ k ih =>
    simp only [checkWalk]
    split
    · exact ih skip (fun t ht => h t (by omega))
    · simp only [h k (by omega), ↓reduceIte]
      exact ih _ (fun t ht => h t (by omega))

/-- **`jug check` exits 0 iff every task is complete** (for closed stores) -/
theorem check_iff (res : Task → Bool) (n : Nat) (hc : Closed deps res) :
    checkWalk deps res n n [] = true ↔ ∀ t, t < n → res t = true :=
  ⟨checkWalk_sound deps res n hc n [] (by simp), checkWalk_complete deps res n n []⟩

/-- without the closure hypothesis `check` can be fooled: a loadable task hides a missing dependency -/
example : checkWalk (fun t => if t = 1 then [0] else []) (fun t => t == 1) 2 2 [] = true := by decide

/-! ### bridge: the classifier of the code as it is now -/
open Jug.Generated.Status

/-! ### the one-line summary (`--short`) -/
section Short
variable (deps : Task → List Task)

/-- the five totals of a task list -/
def total (res : Task → Bool) (lock : Task → LockSt) (ts : List Task) (st : Status) : Nat :=
  ts.countP (fun t => classify deps res lock t = st)

/-- **"All tasks complete" is printed exactly when every task is complete**, and then with the number of tasks; in every other
    case the line carries the totals themselves (waiting and ready folded into "waiting to be run") -/
theorem short_all_complete_iff (res : Task → Bool) (lock : Task → LockSt) (ts : List Task) :
    (∃ n, shortSummary (total deps res lock ts .failed) (total deps res lock ts .waiting) (total deps res lock ts .ready)
        (total deps res lock ts .finished) (total deps res lock ts .running) = .allComplete n) ↔ ∀ t ∈ ts, res t = true := by
  have hsum := totals_add_up deps res lock ts
  unfold total shortSummary
  constructor
  · rintro ⟨n, h⟩
    split at h
    · rename_i hz
      obtain ⟨hw, ha, hf, hr⟩ := hz
      intro t ht
      have hfin : ts.countP (fun t => classify deps res lock t = .finished) = ts.length := by omega
      have := (List.countP_eq_length.mp hfin) t ht
      have hc := ((classify_spec deps res lock t).1).mp (by simpa using this)
      exact hc
    · split at h <;> cases h
  · intro hall
    have hfin : ∀ t ∈ ts, classify deps res lock t = .finished := fun t ht => ((classify_spec deps res lock t).1).mpr (hall t ht)
    have hz : ∀ st, st ≠ Status.finished → ts.countP (fun t => classify deps res lock t = st) = 0 := by
      intro st hst
      rw [List.countP_eq_zero]
      intro t ht
      simp [hfin t ht, Ne.symm hst]
    refine ⟨ts.countP (fun t => classify deps res lock t = .finished), ?_⟩
    simp [hz .waiting (by decide), hz .running (by decide), hz .failed (by decide), hz .ready (by decide)]

theorem short_all_complete_count (res : Task → Bool) (lock : Task → LockSt) (ts : List Task) (n : Nat)
    (h : shortSummary (total deps res lock ts .failed) (total deps res lock ts .waiting) (total deps res lock ts .ready)
        (total deps res lock ts .finished) (total deps res lock ts .running) = .allComplete n) : n = ts.length := by
  have hsum := totals_add_up deps res lock ts
  unfold total shortSummary at h
  split at h
  · rename_i hz
    cases h
    omega
  · split at h <;> cases h

example : shortSummary 1 0 0 6 0 = .pending 0 1 6 none ∧ shortSummary 0 0 0 6 0 = .allComplete 6 ∧ shortSummary 0 2 1 3 2 = .pending 3 0 3 (some 2) := by decide

end Short


def statusOf : String → Status
  | "unknown" => .unknown | "waiting" => .waiting | "ready" => .ready | "running" => .running | "failed" => .failed | _ => .finished
def lockOf : String → LockSt
  | "held" => .held | "failed" => .failed | _ => .free

/-- one row of the exhaustively extracted behaviour of `update_status` on a task 2 with dependencies among {0, 1} -/
def rowOK (r : Row) : Bool :=
  let deps : Task → List Task := fun t => if t = 2 then r.deps else []
  let res : Task → Bool := fun t => r.res.getD t false
  let lock : Task → LockSt := fun t => if t = 2 then lockOf r.lock else .free
  let prev : Task → Status := fun t => statusOf (r.prev.getD t "unknown")
  classifyCached deps res lock prev 2 == statusOf r.out

set_option maxRecDepth 100000 in
theorem classifier_table_matches : ∀ r ∈ table, rowOK r = true := by decide +kernel

example : 500 < table.length := by decide +kernel

end Jug.C15
