import JugModel.Model.Store
import JugModel.Generated.StoreConsts
/-!
# C06 - the store is a faithful key-value map for every history

Refinement: the file store with its pack (`FS`: loose files, in-memory pack, pack file; dump / load / can_load / remove /
remove_many / list / pack / close+reopen / cleanup) answers every operation of every history exactly like a plain
map `Key → Option V`. (dict_store and redis_store *are* such maps: their correspondence is checked directly.)
That encoding/decoding returns an equal value for every value of the universe is the correspondence part.
-/
set_option linter.unusedVariables false
namespace Jug.C06
open Jug.Store List

variable {V : Type}

/-- well-formedness of a file store state: a key is packed or loose, never both; the pack file is what this object has in memory -/
structure Wf (s : FS V) : Prop where
  disjoint : ∀ k, ¬ ((s.packed k).isSome = true ∧ (s.files k).isSome = true)
  packsync : ∀ k, (s.packFile.getD (fun _ => none)) k = s.packed k

/-- the abstraction: what the store holds for each key -/
def abs (s : FS V) : Key → Option V := s.get

theorem wf_empty : Wf (emptyFS : FS V) := by
  constructor <;> intros <;> simp [emptyFS]

theorem get_isSome (s : FS V) (k : Key) : (s.get k).isSome = ((s.packed k).isSome || (s.files k).isSome) := by
  simp only [FS.get]
  cases s.packed k <;> simp

/-- answers agree: equal, except that `list` may enumerate the keys in another order (without duplicates, see below) -/
def AnsEq : Ans V → Ans V → Prop
  | .unit, .unit => True
  | .val a, .val b => a = b
  | .bool a, .bool b => a = b
  | .keys a, .keys b => a ~ b
  | _, _ => False

theorem disj_none {a b : Option V} (h : ¬ (a.isSome = true ∧ b.isSome = true)) : a.isSome = true → b = none := by
  cases a <;> cases b <;> simp_all

theorem list_perm (s : FS V) (hd : ∀ k, ¬ ((s.packed k).isSome = true ∧ (s.files k).isSome = true)) (U : List Key) :
    U.filter (fun k => (s.packed k).isSome) ++ U.filter (fun k => (s.files k).isSome) ~
    U.filter (fun k => (s.packed k).isSome || (s.files k).isSome) := by
  induction U with
  | nil => simp
  | cons u us ih =>
    have hdu := hd u
    cases h1 : (s.packed u).isSome <;> cases h2 : (s.files u).isSome
    · simp [List.filter_cons, h1, h2]; exact ih
    · simp only [List.filter_cons, h1, h2, Bool.false_eq_true, ↓reduceIte, Bool.or_true]
      exact perm_middle.trans (Perm.cons u ih)
    · simp only [List.filter_cons, h1, h2, ↓reduceIte, Bool.false_eq_true, Bool.or_false, List.cons_append]
      exact Perm.cons u ih
    · simp_all

/-- **one step**: same answer as the map, the abstraction commutes, well-formedness is kept -/
theorem step_refines (small : V → Bool) (U : List Key) (s : FS V) (hw : Wf s) (op : Op V) :
    AnsEq (FS.step small U s op).2 (specStep U (abs s) op).2 ∧
    (∀ k, abs (FS.step small U s op).1 k = (specStep U (abs s) op).1 k) ∧
    Wf (FS.step small U s op).1 := by
  obtain ⟨hd, hp⟩ := hw
  cases op with
  | dump k v =>
    refine ⟨trivial, ?_, ?_⟩
    · intro j
      simp only [FS.step, specStep, abs, FS.dump]
      by_cases hk : (s.packed k).isSome = true
      · simp only [hk, ↓reduceIte, FS.resave, FS.get, updk]
        by_cases hj : j = k
        · subst hj; simp
        · simp [hj]
      · simp only [hk, Bool.false_eq_true, ↓reduceIte, FS.get, updk]
        by_cases hj : j = k
        · subst hj
          have : s.packed j = none := by cases h : s.packed j <;> simp_all
          simp [this]
        · simp [hj]
    · simp only [FS.step, FS.dump]
      by_cases hk : (s.packed k).isSome = true
      · simp only [hk, ↓reduceIte, FS.resave]
        constructor
        · intro j
          show ¬ ((updk s.packed k none j).isSome = true ∧ (updk s.files k (some v) j).isSome = true)
          simp only [updk]
          by_cases hj : j = k
          · simp [hj]
          · simp only [hj, ↓reduceIte]; exact hd j
        · intro j; simp
      · simp only [hk, Bool.false_eq_true, ↓reduceIte]
        constructor
        · intro j
          show ¬ ((s.packed j).isSome = true ∧ (updk s.files k (some v) j).isSome = true)
          simp only [updk]
          by_cases hj : j = k
          · subst hj; simp [hk]
          · simp only [hj, ↓reduceIte]; exact hd j
        · exact hp
  | load k => exact ⟨rfl, fun _ => rfl, ⟨hd, hp⟩⟩
  | canLoad k =>
    refine ⟨?_, fun _ => rfl, ⟨hd, hp⟩⟩
    simp only [FS.step, specStep, AnsEq, FS.canLoad, abs, get_isSome]
  | remove k =>
    refine ⟨?_, ?_, ?_⟩
    · simp only [FS.step, specStep, AnsEq, FS.remove, FS.removeMany, abs, get_isSome]
      simp only [List.filter_cons, List.filter_nil]
      split <;> simp_all
    · intro j
      simp only [FS.step, specStep, FS.remove, FS.removeMany, abs, FS.resave, FS.get, updk]
      by_cases hj : j = k <;> simp [hj]
    · simp only [FS.step, FS.remove, FS.removeMany, FS.resave]
      constructor
      · intro j
        show ¬ ((if [k].contains j then none else s.packed j).isSome = true ∧ (if [k].contains j then none else s.files j).isSome = true)
        by_cases hj : [k].contains j = true
        · simp_all
        · simp only [hj, Bool.false_eq_true, ↓reduceIte]; exact hd j
      · intro j; simp
  | removeMany ks =>
    refine ⟨?_, ?_, ?_⟩
    · simp only [FS.step, specStep, AnsEq, FS.removeMany, abs, get_isSome]
      exact Perm.refl _
    · intro j
      simp only [FS.step, specStep, FS.removeMany, abs, FS.resave, FS.get]
      split <;> simp
    · simp only [FS.step, FS.removeMany, FS.resave]
      constructor
      · intro j
        show ¬ ((if ks.contains j then none else s.packed j).isSome = true ∧ (if ks.contains j then none else s.files j).isSome = true)
        by_cases hj : ks.contains j = true
        · simp_all
        · simp only [hj, Bool.false_eq_true, ↓reduceIte]; exact hd j
      · intro j; simp
  | list =>
    refine ⟨?_, fun _ => rfl, ⟨hd, hp⟩⟩
    simp only [FS.step, specStep, AnsEq, FS.list, abs, get_isSome]
    exact list_perm s hd U
  | pack =>
    have key : ∀ j, (match s.files j with | some v => small v | none => false) = true → s.packed j = none := by
      intro j hj
      cases hf : s.files j with
      | none => simp [hf] at hj
      | some v =>
        have := hd j
        cases hpk : s.packed j <;> simp_all
    refine ⟨trivial, ?_, ?_⟩
    · intro j
      simp only [FS.step, specStep, abs, FS.pack, FS.resave, FS.get]
      rcases Option.eq_none_or_eq_some (s.files j) with hf | ⟨v, hf⟩
      · simp [hf]
      · have hk := key j
        simp only [hf] at hk ⊢
        by_cases hsm : small v = true
        · simp [hsm, hk hsm]
        · simp [hsm]
    · simp only [FS.step, FS.pack, FS.resave]
      constructor
      · intro j
        show ¬ ((if (match s.files j with | some v => small v | none => false) = true then s.files j else s.packed j).isSome = true ∧
                (if (match s.files j with | some v => small v | none => false) = true then none else s.files j).isSome = true)
        by_cases hm : (match s.files j with | some v => small v | none => false) = true
        · simp [hm]
        · simp only [hm, Bool.false_eq_true, ↓reduceIte]; exact hd j
      · intro j; simp
  | reopen =>
    refine ⟨trivial, ?_, ?_⟩
    · intro j; simp only [FS.step, specStep, abs, FS.reopen, FS.get, hp j]
    · simp only [FS.step, FS.reopen]
      constructor
      · intro j
        show ¬ (((s.packFile.getD fun _ => none) j).isSome = true ∧ (s.files j).isSome = true)
        rw [hp j]; exact hd j
      · intro j; simp [hp j]
  | cleanup act kl =>
    refine ⟨trivial, ?_, ?_⟩
    · intro j
      simp only [FS.step, specStep, abs, FS.cleanup, FS.get]
      split <;> simp
    · simp only [FS.step, FS.cleanup]
      constructor
      · intro j
        show ¬ ((if act.contains j then s.packed j else none).isSome = true ∧ (if act.contains j then s.files j else none).isSome = true)
        by_cases hj : act.contains j = true
        · simp only [hj, ↓reduceIte]; exact hd j
        · simp_all
      · intro j; simp

/-- run a history on the file store / on the map -/
def runFS (small : V → Bool) (U : List Key) : FS V → List (Op V) → List (Ans V)
  | _, [] => []
  | s, op :: ops => (FS.step small U s op).2 :: runFS small U (FS.step small U s op).1 ops
def runSpec (U : List Key) : (Key → Option V) → List (Op V) → List (Ans V)
  | _, [] => []
  | m, op :: ops => (specStep U m op).2 :: runSpec U (specStep U m op).1 ops

theorem specStep_congr (U : List Key) (m m' : Key → Option V) (h : ∀ k, m k = m' k) (op : Op V) :
    specStep U m op = specStep U m' op := by
  have : m = m' := funext h
  rw [this]

/-- answer lists agree position by position -/
def AnsListEq : List (Ans V) → List (Ans V) → Prop
  | [], [] => True
  | a :: as, b :: bs => AnsEq a b ∧ AnsListEq as bs
  | _, _ => False

/-- **any history**: after any sequence of dump / load / can_load / remove / remove_many / list / pack / close+reopen / cleanup,
    the file store has given exactly the answers of a plain map (a key is loadable iff stored and not since removed or cleaned
    up; load returns the last value stored; listing enumerates exactly the live keys; removal reports truthfully; reopening and
    packing change nothing) -/
theorem store_refines_map (small : V → Bool) (U : List Key) (ops : List (Op V)) (s : FS V) (hw : Wf s) :
    AnsListEq (runFS small U s ops) (runSpec U (abs s) ops) := by
  induction ops generalizing s with
  | nil => trivial
  | cons op ops ih =>
    obtain ⟨h1, h2, h3⟩ := step_refines small U s hw op
    simp only [runFS, runSpec, AnsListEq]
    refine ⟨h1, ?_⟩
    have := ih (FS.step small U s op).1 h3
    have hm : (specStep U (abs s) op).1 = abs (FS.step small U s op).1 := funext (fun k => (h2 k).symm)
    rw [hm]; exact this

/-- listing has no duplicates -/
theorem list_nodup (s : FS V) (hw : Wf s) (U : List Key) (hU : U.Nodup) : (s.list U).Nodup := by
  simp only [FS.list]
  rw [List.nodup_append]
  refine ⟨hU.filter _, hU.filter _, ?_⟩
  intro a ha b hb hab
  subst hab
  simp only [List.mem_filter] at ha hb
  exact hw.disjoint a ⟨ha.2, hb.2⟩

/-- `reopen_id`, `pack_id`: closing and reopening the store, or packing it, changes no answer -/
theorem reopen_id (s : FS V) (hw : Wf s) : ∀ k, abs s.reopen k = abs s k :=
  fun k => by simpa [FS.step, specStep] using (step_refines (fun _ => true) [] s hw .reopen).2.1 k
theorem pack_id (small : V → Bool) (s : FS V) (hw : Wf s) : ∀ k, abs (s.pack small) k = abs s k :=
  fun k => by simpa [FS.step, specStep] using (step_refines small [] s hw .pack).2.1 k

/-- bridge: the pack threshold of the code is a plain size limit (the model's `small` is any predicate on values) -/
theorem pack_threshold : 0 < Generated.Store.maxFilesizeInPack := by decide

/-! non-vacuity: a history that moves a key into the pack, reopens, overwrites it and removes it -/
example : (runFS (V := Nat) (fun _ => true) [0, 1] emptyFS
    [Op.dump 0 7, Op.dump 1 8, Op.pack, Op.reopen, Op.load 0, Op.dump 0 9, Op.load 0, Op.list, Op.remove 0, Op.remove 0, Op.canLoad 0]).length = 11 := rfl

end Jug.C06
