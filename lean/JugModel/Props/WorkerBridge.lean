import JugModel.Lemmas.ExecLocal
import JugModel.Model.ExecScan
import JugModel.Generated.WorkerPaths
/-!
# Bridge: the real worker loop keeps the worker-local guards of the execution model

`Generated.Worker.paths` is re-extracted from `/repo/jug/jug.py` on every run: every root-to-leaf path of the real
`execution_loop` over the task lists [t], [d, t(d)], [t, u] under all 8 flag settings and every consistent
sequence of answers of store, locks, task functions and hooks (returns / raises / SystemExit / KeyboardInterrupt).
The kernel checks that each path is a legal run of `lstep`: lock before run, re-check under the lock, dependencies
observed before `begin`, `dump` after a normal return and before `unlock`, `unlock` in every exit path (unless failed
and --keep-failed), `fail()` only with --keep-failed, truthful `failures`, no exit while holding.
-/
namespace Jug.WorkerBridge
open Jug.Exec

set_option maxRecDepth 100000 in
theorem worker_conforms : ∀ p ∈ Generated.Worker.paths, lconforms p = true := by decide +kernel

/-- the real loop returns "no failures" only after it has accounted for every task of its list: seen its result, found it
    locked by another worker, or - since it last finished a task - seen one of its dependencies without a result
    (the hypothesis `scanRun` of `C01.exec_complete`, checked here on every extracted path) -/
theorem worker_scans_all : ∀ p ∈ Generated.Worker.paths, lscanOK p = true := by
  set_option maxRecDepth 100000 in decide +kernel

/-- non-vacuity: the paths include complete executions, failures and stop requests -/
example : 500 < Generated.Worker.paths.length := by decide +kernel

end Jug.WorkerBridge
