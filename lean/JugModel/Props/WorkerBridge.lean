import JugModel.Lemmas.ExecLocal
import JugModel.Generated.WorkerPaths
/-!
# Bridge: the real worker loop keeps the worker-local guards of the execution model

`Generated.Worker.paths` is re-extracted from `/repo/jug/jug.py` on every run: every root-to-leaf path of the real
`execution_loop` over the task lists [t], [d, t(d)], [t, u] under all 8 flag settings and every consistent
sequence of answers of store, locks, task functions and hooks (returns / raises / SystemExit / KeyboardInterrupt).
The kernel checks that each path is a legal run of `lstep`: lock before run, re-check under the lock, dependencies
observed before `begin`, `dump` after a normal return and before `unlock`, `unlock` in every exit path (unless failed
and --keep-failed), `fail()` only with --keep-failed, truthful `failures`, no exit while holding.
-/
namespace Jug.WorkerBridge
open Jug.Exec

set_option maxRecDepth 100000 in
theorem worker_conforms : ∀ p ∈ Generated.Worker.paths, lconforms p = true := by decide +kernel

/-- non-vacuity: the paths include complete executions, failures and stop requests -/
example : 500 < Generated.Worker.paths.length := by decide +kernel

end Jug.WorkerBridge
