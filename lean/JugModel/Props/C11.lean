import JugModel.Lemmas.ExecOnce
import JugModel.Lemmas.ExecScan
/-!
# C11 - a failing task stores nothing, blocks only its dependents, and is accounted for
-/
set_option linter.unusedVariables false
namespace Jug.C11
open Jug.Exec
variable {V : Type} [DecidableEq V]

/-- when the task function raises, the store is unchanged, the failure is recorded ... -/
theorem failure_stores_nothing (P : Prog V) (fl : Worker → Flags) (s s' : Sys V) (w : Worker) (t : Task)
    (ha : accept P fl s (.endExc w t) = some s') :
    s'.res = s.res ∧ s'.failures w = true ∧ s'.wk w = .failedTask t := by
  simp only [accept] at ha
  split at ha <;> (try simp at ha)
  obtain ⟨_, hs⟩ := ha
  subst hs; simp [upd]

/-- ... and the failed execution can never publish: `dump` by `w` for `t` is refused in state `failedTask`
    and in every state that follows until `w` starts the function again -/
theorem failed_cannot_dump (P : Prog V) (fl : Worker → Flags) (s : Sys V) (w : Worker) (t : Task) (v : V)
    (hw : ∀ v', s.wk w ≠ .ran t v' false) : accept P fl s (.dump w t v) = none := by
  simp only [accept]
  split
  · rename_i t' v' hwk
    split
    · rename_i hc; obtain ⟨h1, h2⟩ := hc; subst h1; exact absurd hwk (hw v')
    · rfl
  · rfl

/-- a `ran` state (the only one that can publish) is entered only through a normal return of the function -/
theorem publish_needs_normal_return (P : Prog V) (fl : Worker → Flags) (s s' : Sys V) (e : Ev V) (hs : accept P fl s e = some s')
    (w : Worker) (t : Task) (v : V) (b : Bool) (hw : s'.wk w = .ran t v b) :
    (∃ b', s.wk w = .ran t v b') ∨ e = .endOk w t v :=
  match ran_origin P fl s s' e hs w t v b hw with
  | .inl h => .inl h
  | .inr h => .inr h.1

/-- no task depending on a task without result is ever started (a failed task has no result: nothing was stored) -/
theorem dependents_never_start (P : Prog V) (fl : Worker → Flags) (s : Sys V) (w : Worker) (t d : Task)
    (hd : d ∈ P.deps t) (hnone : s.res d = none) : accept P fl s (.begin_ w t) = none := by
  cases h : accept P fl s (.begin_ w t) with
  | none => rfl
  | some s' =>
    exfalso
    simp only [accept] at h
    split at h <;> (try simp at h)
    obtain ⟨⟨_, hdd⟩, _⟩ := h
    simp only [depsDone, List.all_eq_true] at hdd
    have := hdd d hd
    simp [hnone] at this

/-- exit status: a worker that recorded a failure and ends by itself (not on a stop request) exits non-zero -/
theorem exit_nonzero_after_failure (P : Prog V) (fl : Worker → Flags) (s s' : Sys V) (w : Worker) (code : Nat)
    (hf : s.failures w = true) (hns : ∀ k, s.wk w ≠ .stopping none k)
    (ha : accept P fl s (.exit w code) = some s') : code ≠ 0 := by
  simp only [accept] at ha
  split at ha <;> simp_all

/-- ... and a worker without failures that ends by itself exits 0 -/
theorem exit_zero_without_failure (P : Prog V) (fl : Worker → Flags) (s s' : Sys V) (w : Worker) (code : Nat)
    (hf : s.failures w = false) (hidle : s.wk w = .idle)
    (ha : accept P fl s (.exit w code) = some s') : code = 0 := by
  simp only [accept, hidle] at ha
  split at ha <;> simp_all

/-- the `failures` flag is never reset -/
theorem failures_sticky (P : Prog V) (fl : Worker → Flags) (s s' : Sys V) (e : Ev V) (w : Worker)
    (hf : s.failures w = true) (ha : accept P fl s e = some s') : s'.failures w = true := by
  cases e <;> simp only [accept] at ha <;> (repeat' split at ha) <;> simp_all <;> (try subst_vars) <;> (try simp [upd]) <;> grind

/-- after a failure the worker cannot leave while still holding the lock ... -/
theorem failed_cannot_exit_holding (P : Prog V) (fl : Worker → Flags) (s : Sys V) (w : Worker) (t : Task) (c : Nat)
    (hw : s.wk w = .failedTask t) : accept P fl s (.exit w c) = none := by
  simp [accept, hw]

/-- ... it releases the lock exactly when --keep-failed is off ... -/
theorem failed_unlock (P : Prog V) (fl : Worker → Flags) (s s' : Sys V) (w : Worker) (t : Task)
    (hw : s.wk w = .failedTask t) (ha : accept P fl s (.unlock w t) = some s') :
    (fl w).keepFailed = false ∧ s'.lock t = .free := by
  simp only [accept, hw] at ha
  split at ha <;> simp_all
  subst ha; simp [upd]

/-- ... and marks it failed (keeping it) exactly when --keep-failed is on -/
theorem failed_mark (P : Prog V) (fl : Worker → Flags) (s s' : Sys V) (w : Worker) (t : Task)
    (hw : s.wk w = .failedTask t) (ha : accept P fl s (.markFailed w t) = some s') :
    (fl w).keepFailed = true ∧ s'.lock t = .failed w := by
  simp only [accept, hw] at ha
  split at ha <;> simp_all
  subst ha; simp [upd]

/-- with `--keep-going`, after releasing or marking, the worker is back in its loop; without it, the exception propagates -/
theorem keep_going_continues (P : Prog V) (fl : Worker → Flags) (s s' : Sys V) (w : Worker) (t : Task)
    (hw : s.wk w = .failedTask t) (ha : accept P fl s (.unlock w t) = some s' ∨ accept P fl s (.markFailed w t) = some s') :
    s'.wk w = (if (fl w).keepGoing then .idle else .raising) := by
  rcases ha with ha | ha <;> simp only [accept, hw] at ha <;> (split at ha) <;> simp_all <;> (try subst_vars) <;> simp [upd]

/-- while a lock is marked failed nobody can acquire it, hence nobody can start the task -/
theorem failed_lock_blocks (P : Prog V) (fl : Worker → Flags) (s s' : Sys V) (t : Task) (w₀ w : Worker) (b : Bool)
    (hl : s.lock t = .failed w₀) (ha : accept P fl s (.lock w t b) = some s') : b = false ∧ s' = s := by
  simp only [accept] at ha
  split at ha <;> (try simp at ha)
  simp only [hl] at ha
  cases b <;> simp_all

theorem failed_lock_no_begin (P : Prog V) (fl : Worker → Flags) (s : Sys V) (hi : Inv s) (t : Task) (w₀ w : Worker)
    (hl : s.lock t = .failed w₀) : accept P fl s (.begin_ w t) = none := by
  cases h : accept P fl s (.begin_ w t) with
  | none => rfl
  | some s' =>
    exfalso
    simp only [accept] at h
    split at h <;> (try simp at h)
    rename_i t' hwk
    obtain ⟨⟨htt, _⟩, _⟩ := h
    subst htt
    have := hi.lock_cs w t' (by simp [hwk, csTask])
    rw [hl] at this; simp at this

/-- a failed lock stays failed until `cleanup --failed-only` / `--locks-only`: no worker event changes it -/
theorem failed_lock_persists (P : Prog V) (fl : Worker → Flags) (s s' : Sys V) (hi : Inv s) (e : Ev V) (t : Task) (w₀ : Worker)
    (hl : s.lock t = .failed w₀) (he : evWorker e ≠ none) (ha : accept P fl s e = some s') : s'.lock t = .failed w₀ := by
  have hcs : ∀ w, csTask (s.wk w) ≠ some t := by
    intro w hc; have := hi.lock_cs w t hc; rw [hl] at this; simp at this
  have hlock : s'.lock t = s.lock t := by
    cases e <;> simp only [accept] at ha <;> (repeat' split at ha) <;> simp_all [evWorker] <;> (try subst_vars) <;>
      (try simp only [upd]) <;> grind [csTask]
  rw [hlock, hl]

/-- after `cleanup --failed-only` the task can be acquired again -/
theorem cleanup_failed_reenables (P : Prog V) (fl : Worker → Flags) (s s' : Sys V) (t : Task) (w₀ : Worker)
    (hl : s.lock t = .failed w₀) (ha : accept P fl s .removeFailedLocks = some s') : s'.lock t = .free := by
  simp only [accept, Option.some.injEq] at ha
  subst ha; simp [hl]

/-! ### with --keep-going every independent task still completes -/

/-- **keep-going completes everything that is not behind a failure**: in a history without stop requests and crashes, in
    which tasks may fail in --keep-going workers (with or without --keep-failed), any number `W ≥ 1` of workers, any
    interleaving: if every worker kept its scan obligation and all of them have left, then every task has a result or is
    *blocked* - its own function raised, or (transitively) one of its dependencies is blocked. -/
theorem keep_going_completes_independents (P : Prog V) (fl : Worker → Flags) (res₀ : Task → Option V) (n W : Nat) (hW : 0 < W)
    (sdeps : Task → List Task) (hlt : ∀ t d, d ∈ sdeps t → d < t) (s : Sys V) (evs : List (Ev V))
    (hr : FSteps P fl (initSys res₀) evs s)
    (hw : ∀ e ∈ evs, ∀ w, evWorker e = some w → w < W)
    (hscan : scanRun n sdeps (kgOf fl) Scan.init evs = true)
    (hq : ∀ w, w < W → ∃ c, s.wk w = .exited c) :
    ∀ t, t < n → s.res t ≠ none ∨ Blocked sdeps (scanFold sdeps (kgOf fl) Scan.init evs).failedT t := by
  have hc := fsteps_cinv P fl n W sdeps evs _ s Scan.init (cinv_init n W hW sdeps fl res₀) hr hw hscan
  exact complete_of_cinv n W sdeps fl hlt s _ hc (fun w hw => Or.inl (hq w hw))

/-- the ghost `failedT` is what it says: set exactly by the `endExc` events of the history -/
theorem failedT_iff (sdeps : Task → List Task) (kg : Worker → Bool) : ∀ (evs : List (Ev V)) (sc : Scan) (t : Task),
    (scanFold sdeps kg sc evs).failedT t = true ↔ sc.failedT t = true ∨ ∃ w, Ev.endExc w t ∈ evs := by
  intro evs
  induction evs with
  | nil => intro sc t; simp [scanFold]
  | cons e es ih =>
    intro sc t
    simp only [scanFold, ih, List.mem_cons]
    have key : (scanStep sdeps kg sc e).failedT t = true ↔ sc.failedT t = true ∨ ∃ w, Ev.endExc w t = e := by
      cases e with
      | canLoad w0 t0 b => cases b <;> simp [scanStep, Scan.setDone]
      | lock w0 t0 b => cases b <;> simp [scanStep, Scan.setDone]
      | endExc w0 t0 =>
        simp only [scanStep]
        split <;> simp [Scan.setDone, Scan.exempt] <;> (constructor <;> intro h <;> rcases h with h | h <;> simp_all)
      | load w0 t0 v => simp [scanStep, Scan.setDone]
      | dump w0 t0 v => simp [scanStep, Scan.setDone]
      | unlock w0 t0 => simp [scanStep]
      | markFailed w0 t0 => simp [scanStep]
      | stop w0 k => simp [scanStep, Scan.exempt]
      | begin_ w0 t0 => simp [scanStep]
      | endOk w0 t0 v => simp [scanStep]
      | exit w0 c => simp [scanStep]
      | crash w0 => simp [scanStep]
      | removeLocks => simp [scanStep]
      | removeFailedLocks => simp [scanStep]
    rw [key]
    constructor
    · rintro ((h | ⟨w, h⟩) | ⟨w, h⟩)
      · exact Or.inl h
      · exact Or.inr ⟨w, Or.inl h⟩
      · exact Or.inr ⟨w, Or.inr h⟩
    · rintro (h | ⟨w, h | h⟩)
      · exact Or.inl (Or.inl h)
      · exact Or.inl (Or.inr ⟨w, h⟩)
      · exact Or.inr ⟨w, h⟩

/-! non-vacuity: a failure under --keep-going --keep-failed, an independent task still completes, exit status 1 -/
example : ∃ s, run (V := Nat) { n := 2, deps := fun _ => [], f := fun _ _ => 3 } (fun _ => ⟨true, true⟩) (initSys (fun _ => none))
    [.lock 0 0 true, .canLoad 0 0 false, .begin_ 0 0, .endExc 0 0, .markFailed 0 0,
     .lock 0 1 true, .canLoad 0 1 false, .begin_ 0 1, .endOk 0 1 3, .dump 0 1 3, .unlock 0 1, .lock 1 0 false, .exit 0 1] = some s
    ∧ s.lock 0 = .failed 0 ∧ s.res 1 = some 3 ∧ s.res 0 = none := ⟨_, rfl, by decide, by decide, by decide⟩
/-- ... and the same history (both workers leaving) keeps the scan obligation: the failed task counts as accounted for -/
example : scanRun (V := Nat) 2 (fun _ => []) (fun _ => true) Scan.init
    [.lock 0 0 true, .canLoad 0 0 false, .begin_ 0 0, .endExc 0 0, .markFailed 0 0,
     .lock 0 1 true, .canLoad 0 1 false, .begin_ 0 1, .endOk 0 1 3, .dump 0 1 3, .unlock 0 1, .lock 1 0 false, .exit 0 1,
     .canLoad 1 1 true, .exit 1 0] = true := by decide

end Jug.C11
