import JugModel.Lemmas.Loop
import JugModel.Lemmas.LoopConf
/-!
# The scheduling loop of one worker, for task lists of any length

`Jug.Loop.loopTrace` (Model/Loop.lean) is `jug/jug.py execution_loop` written as a deterministic program over an answer
stream: the initial skip of loadable tasks, the wait cycles with the rotation of at most 128 not-yet-runnable tasks, the
batch of runnable tasks, the full scan for a first runnable one, the per-task protocol with every exit path, the in-memory
result cache with aggressive unloading. It is tied to the code by running both on the same task lists (0 .. 300 tasks),
flags, wait-cycle counts and answer streams and comparing the event lists (harness/jugverif/loopcheck.py, every run of the
checks of C01 and C03).

`worker_scans_all` (WorkerBridge) establishes the scan obligation of `C01.exec_complete` on every *extracted* path of the
real loop over lists of one and two tasks. The theorems here establish it - and the per-task protocol
of `worker_conforms` - for every run of the loop program: any list length, any dependency structure, any flags, any number of
wait cycles (>= 1 for the scan obligation), any answers of the environment.
-/
namespace Jug.LoopBridge
open Jug.Exec Jug.Loop

/-- **the loop returns only when every task is accounted for** (seen complete, found locked by another worker, failed, or -
    since the worker last finished a task - seen waiting for a dependency) -/
theorem loop_scans_all (fl : LFlags) (deps : List (List Task)) (nr : Nat) (hnr : 1 ≤ nr) (answers : List Nat) :
    lscanOK ⟨⟨fl.keepGoing, fl.keepFailed⟩, deps, loopTrace fl deps nr answers⟩ = true :=
  Jug.Loop.loop_scans_all fl deps nr hnr answers

/-- **the loop keeps the per-task protocol on every list**: every event of a run is a legal step of the worker-local transition function
    `lstep` (lock before run, re-check under the lock, `dump` after a normal return and before `unlock`, `unlock` on every exit path
    unless failed and kept, `fail()` only with --keep-failed), a task function is entered only after each of its dependencies was observed
    complete, and the loop ends holding nothing with a truthful `failures` value or the right exception. This is `worker_conforms`
    (the kernel check of the extracted paths over lists of one and two tasks) for task lists of any length. -/
theorem loop_conforms (fl : LFlags) (deps : List (List Task)) (nr : Nat) (answers : List Nat) :
    lconforms ⟨⟨fl.keepGoing, fl.keepFailed⟩, deps, loopTrace fl deps nr answers⟩ = true :=
  Jug.Loop.loop_conforms fl deps nr answers

/-- the loop program's fuel is sufficient: giving `outer` more passes than there are tasks changes nothing -/
theorem loop_fuel_sufficient (fl : LFlags) (dp : Task → List Task) (nr f : Nat) (prev : Option Task) (e : Env) (failures : Bool)
    (ts : List Task) (h : ts.length < f) : outer fl dp nr f prev e failures ts = outer fl dp nr (f + 1) prev e failures ts :=
  Jug.Loop.outer_fuel dp fl nr f prev e failures ts h

/-- the hypothesis on the wait cycles is needed: with `--nr-wait-cycles 0` the loop gives up without looking at anything -/
example : lscanOK ⟨⟨false, false⟩, [[]], loopTrace ⟨false, false, false, false⟩ [[]] 0 []⟩ = false := by decide

/-- non-vacuity: a chain of three tasks, everything answered favourably (not stored, lock obtained, function returns) - the
    run executes and stores all three in order and returns "no failures" -/
example : loopTrace ⟨false, false, false, false⟩ [[], [0], [1]] 1 [0, 0, 0, 1, 0, 0, 0, 0, 1, 0, 0, 0, 1, 0, 0] =
    [.ev (.canLoad 0 0 false), .ev (.canLoad 0 0 false), .ev (.canLoad 0 0 false), .ev (.lock 0 0 true), .ev (.canLoad 0 0 false),
     .preExec 0, .ev (.begin_ 0 0), .ev (.endOk 0 0 ()), .ev (.dump 0 0 ()), .executed1 0, .ev (.unlock 0 0),
     .ev (.canLoad 0 1 false), .ev (.canLoad 0 1 false), .ev (.lock 0 1 true), .ev (.canLoad 0 1 false),
     .preExec 1, .ev (.begin_ 0 1), .ev (.endOk 0 1 ()), .ev (.dump 0 1 ()), .executed1 1, .ev (.unlock 0 1),
     .ev (.canLoad 0 2 false), .ev (.lock 0 2 true), .ev (.canLoad 0 2 false),
     .preExec 2, .ev (.begin_ 0 2), .ev (.endOk 0 2 ()), .ev (.dump 0 2 ()), .executed1 2, .ev (.unlock 0 2), .ret false] := by rfl

/-- ... and a run in which nothing can be done: the first task is locked by someone else, the second waits for it -/
example : loopTrace ⟨false, false, false, false⟩ [[], [0]] 1 [0, 0, 0, 0] =
    [.ev (.canLoad 0 0 false), .ev (.canLoad 0 0 false), .ev (.canLoad 0 0 false), .ev (.lock 0 0 false), .ev (.canLoad 0 0 false),
     .ev (.canLoad 0 0 false), .ev (.canLoad 0 0 false), .ev (.canLoad 0 0 false), .ret false] := by rfl

end Jug.LoopBridge
