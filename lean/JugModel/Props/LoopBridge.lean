import JugModel.Lemmas.Loop
import JugModel.Lemmas.LoopConf
import JugModel.Lemmas.LoopGlobal
import JugModel.Props.C01
import JugModel.Props.C11
import JugModel.Props.C12
import JugModel.Props.C13
/-!
# The scheduling loop of one worker, for task lists of any length

`Jug.Loop.loopTrace` (Model/Loop.lean) is `jug/jug.py execution_loop` written as a deterministic program over an answer
stream: the initial skip of loadable tasks, the wait cycles with the rotation of at most 128 not-yet-runnable tasks, the
batch of runnable tasks, the full scan for a first runnable one, the per-task protocol with every exit path, the in-memory
result cache with aggressive unloading. It is tied to the code by running both on the same task lists (0 .. 300 tasks),
flags, wait-cycle counts and answer streams and comparing the event lists (harness/jugverif/loopcheck.py, every run of the
checks of C01 and C03).

`worker_scans_all` (WorkerBridge) establishes the scan obligation of `C01.exec_complete` on every *extracted* path of the
real loop over lists of one and two tasks. The theorems here establish it - and the per-task protocol
of `worker_conforms` - for every run of the loop program: any list length, any dependency structure, any flags, any number of
wait cycles (>= 1 for the scan obligation), any answers of the environment.
-/
namespace Jug.LoopBridge
open Jug.Exec Jug.Loop

/-- **the loop returns only when every task is accounted for** (seen complete, found locked by another worker, failed, or -
    since the worker last finished a task - seen waiting for a dependency) -/
theorem loop_scans_all (fl : LFlags) (deps : List (List Task)) (nr : Nat) (hnr : 1 ≤ nr) (answers : List Nat) :
    lscanOK ⟨⟨fl.keepGoing, fl.keepFailed⟩, deps, loopTrace fl deps nr answers⟩ = true :=
  Jug.Loop.loop_scans_all fl deps nr hnr answers

/-- **the loop keeps the per-task protocol on every list**: every event of a run is a legal step of the worker-local transition function
    `lstep` (lock before run, re-check under the lock, `dump` after a normal return and before `unlock`, `unlock` on every exit path
    unless failed and kept, `fail()` only with --keep-failed), a task function is entered only after each of its dependencies was observed
    complete, and the loop ends holding nothing with a truthful `failures` value or the right exception. This is `worker_conforms`
    (the kernel check of the extracted paths over lists of one and two tasks) for task lists of any length. -/
theorem loop_conforms (fl : LFlags) (deps : List (List Task)) (nr : Nat) (answers : List Nat) :
    lconforms ⟨⟨fl.keepGoing, fl.keepFailed⟩, deps, loopTrace fl deps nr answers⟩ = true :=
  Jug.Loop.loop_conforms fl deps nr answers

/-- **composition**: the scan ghost of a history of any number of workers is, worker by worker, the ghost of that worker's own events; if
    every worker's projection keeps the obligation wherever its process ends, the whole history satisfies `scanRun` -/
theorem scanRun_of_workers {V : Type} (deps : List (List Task)) (kg : Worker → Bool) (evs : List (Ev V))
    (h : ∀ w, (G (kg w) deps (Scan.init, true) (proj w evs)).2 = true) :
    scanRun deps.length (fun t => deps.getD t []) kg Scan.init evs = true :=
  scanRun_of_local deps kg evs Scan.init (fun _ => (Scan.init, true)) (fun w t => ⟨rfl, rfl⟩) h

/-- every worker either takes no part in the history or its events END with those of one run of the loop program over the whole task list (any flags with
    the worker's --keep-going setting, any number >= 1 of wait cycles, any answers; hook marks have no counterpart in a history) up to the end of its process.
    What it did `before` that last pass is arbitrary - in particular earlier passes over the shorter task lists of a jugfile whose barriers were still closed -/
def LoopWorkers {V : Type} (fl : Worker → Flags) (deps : List (List Task)) (evs : List (Ev V)) : Prop :=
  ∀ w, proj w evs = [] ∨ ∃ (lf : LFlags) (nr : Nat) (answers : List Nat) (before : Tr), 1 ≤ nr ∧ lf.keepGoing = (fl w).keepGoing ∧ NoRet before ∧
    proj w evs = before ++ strip (loopTrace lf deps nr answers)

/-- workers that run the loop program keep the scan obligation of the global history: `loop_scans_all` per worker, `scanRun_of_workers` together -/
theorem scanRun_of_loopWorkers {V : Type} (fl : Worker → Flags) (deps : List (List Task)) (evs : List (Ev V)) (h : LoopWorkers fl deps evs) :
    scanRun deps.length (fun t => deps.getD t []) (kgOf fl) Scan.init evs = true := by
  apply scanRun_of_workers deps (kgOf fl) evs
  intro w
  rcases h w with h | ⟨lf, nr, answers, before, hnr, hkg, hnb, h⟩
  · rw [h]; rfl
  · rw [h, G_append, G_strip]
    simp only [kgOf, ← hkg]
    apply Jug.Loop.loop_scans_all_from lf deps nr hnr answers
    rw [ok_noRet _ _ before hnb]

/-- **completeness for workers that run the loop program** (C01, the whole chain): a failure-, stop- and crash-free history of any number
    `W >= 1` of such workers under any interleaving, all of which have left with status 0, ends with a result for every task. No scan
    obligation is assumed any more. -/
theorem exec_complete_of_loop_workers {V : Type} [DecidableEq V] (P : Prog V) (fl : Worker → Flags) (res₀ : Task → Option V) (W : Nat) (hW : 0 < W)
    (deps : List (List Task)) (hlt : ∀ t d, d ∈ deps.getD t [] → d < t) (s : Sys V) (evs : List (Ev V))
    (hr : CleanSteps P fl (initSys res₀) evs s)
    (hw : ∀ e ∈ evs, ∀ w, evWorker e = some w → w < W)
    (hloop : LoopWorkers fl deps evs)
    (hq : ∀ w, w < W → s.wk w = .exited 0) :
    ∀ t, t < deps.length → s.res t ≠ none :=
  Jug.C01.exec_complete P fl res₀ deps.length W hW (fun t => deps.getD t []) hlt s evs hr hw (scanRun_of_loopWorkers fl deps evs hloop) hq

/-- **with failing tasks** (C11): --keep-going workers that run the loop program complete everything that is not blocked by a failed task -/
theorem keep_going_completes_of_loop_workers {V : Type} [DecidableEq V] (P : Prog V) (fl : Worker → Flags) (res₀ : Task → Option V) (W : Nat) (hW : 0 < W)
    (deps : List (List Task)) (hlt : ∀ t d, d ∈ deps.getD t [] → d < t) (s : Sys V) (evs : List (Ev V))
    (hr : FSteps P fl (initSys res₀) evs s)
    (hw : ∀ e ∈ evs, ∀ w, evWorker e = some w → w < W)
    (hloop : LoopWorkers fl deps evs)
    (hq : ∀ w, w < W → ∃ c, s.wk w = .exited c) :
    ∀ t, t < deps.length → s.res t ≠ none ∨
      Blocked (fun t => deps.getD t []) (scanFold (fun t => deps.getD t []) (kgOf fl) Scan.init evs).failedT t :=
  Jug.C11.keep_going_completes_independents P fl res₀ deps.length W hW (fun t => deps.getD t []) hlt s evs hr hw (scanRun_of_loopWorkers fl deps evs hloop) hq

/-- **after kills and `cleanup --locks-only`** (C13): fresh workers that run the loop program complete the whole computation -/
theorem recovery_completes_of_loop_workers {V : Type} [DecidableEq V] (P : Prog V) (fl : Worker → Flags) (W : Nat) (deps : List (List Task))
    (hlt : ∀ t d, d ∈ deps.getD t [] → d < t) (s₀ s : Sys V) (evs : List (Ev V))
    (hi : Inv s₀) (hfree : ∀ t, s₀.lock t = .free)
    (hwk : ∀ w, s₀.wk w = .idle ∨ s₀.wk w = .crashed ∨ ∃ c, s₀.wk w = .exited c)
    (hout : ∀ w, W ≤ w → s₀.wk w = .idle) (w₀ : Worker) (hw₀ : w₀ < W) (hidle : s₀.wk w₀ = .idle)
    (hr : CleanSteps P fl s₀ evs s)
    (hw : ∀ e ∈ evs, ∀ w, evWorker e = some w → w < W)
    (hloop : LoopWorkers fl deps evs)
    (hq : ∀ w, w < W → (∃ c, s.wk w = .exited c) ∨ s.wk w = .crashed) :
    ∀ t, t < deps.length → s.res t ≠ none :=
  Jug.C13.recovery_completes P fl deps.length W (fun t => deps.getD t []) hlt s₀ s evs hi hfree hwk hout w₀ hw₀ hidle hr hw
    (scanRun_of_loopWorkers fl deps evs hloop) hq

/-- **after stop requests** (C12): any other or later workers that run the loop program finish the remaining tasks -/
theorem continuation_completes_of_loop_workers {V : Type} [DecidableEq V] (P : Prog V) (fl : Worker → Flags) (W : Nat) (deps : List (List Task))
    (hlt : ∀ t d, d ∈ deps.getD t [] → d < t) (s₀ s : Sys V) (evs : List (Ev V))
    (hi : Inv s₀) (hfree : ∀ t, s₀.lock t = .free)
    (hwk : ∀ w, s₀.wk w = .idle ∨ s₀.wk w = .crashed ∨ ∃ c, s₀.wk w = .exited c)
    (hout : ∀ w, W ≤ w → s₀.wk w = .idle) (w₀ : Worker) (hw₀ : w₀ < W) (hidle : s₀.wk w₀ = .idle)
    (hr : CleanSteps P fl s₀ evs s)
    (hw : ∀ e ∈ evs, ∀ w, evWorker e = some w → w < W)
    (hloop : LoopWorkers fl deps evs)
    (hq : ∀ w, w < W → (∃ c, s.wk w = .exited c) ∨ s.wk w = .crashed) :
    ∀ t, t < deps.length → s.res t ≠ none :=
  Jug.C12.continuation_completes P fl deps.length W (fun t => deps.getD t []) hlt s₀ s evs hi hfree hwk hout w₀ hw₀ hidle hr hw
    (scanRun_of_loopWorkers fl deps evs hloop) hq

/-- the loop program's fuel is sufficient: giving `outer` more passes than there are tasks changes nothing -/
theorem loop_fuel_sufficient (fl : LFlags) (dp : Task → List Task) (nr f : Nat) (prev : Option Task) (e : Env) (failures : Bool)
    (ts : List Task) (h : ts.length < f) : outer fl dp nr f prev e failures ts = outer fl dp nr (f + 1) prev e failures ts :=
  Jug.Loop.outer_fuel dp fl nr f prev e failures ts h

/-- the hypothesis on the wait cycles is needed: with `--nr-wait-cycles 0` the loop gives up without looking at anything -/
example : lscanOK ⟨⟨false, false⟩, [[]], loopTrace ⟨false, false, false, false⟩ [[]] 0 []⟩ = false := by decide

/-- non-vacuity: a chain of three tasks, everything answered favourably (not stored, lock obtained, function returns) - the
    run executes and stores all three in order and returns "no failures" -/
example : loopTrace ⟨false, false, false, false⟩ [[], [0], [1]] 1 [0, 0, 0, 1, 0, 0, 0, 0, 1, 0, 0, 0, 1, 0, 0] =
    [.ev (.canLoad 0 0 false), .ev (.canLoad 0 0 false), .ev (.canLoad 0 0 false), .ev (.lock 0 0 true), .ev (.canLoad 0 0 false),
     .preExec 0, .ev (.begin_ 0 0), .ev (.endOk 0 0 ()), .ev (.dump 0 0 ()), .executed1 0, .ev (.unlock 0 0),
     .ev (.canLoad 0 1 false), .ev (.canLoad 0 1 false), .ev (.lock 0 1 true), .ev (.canLoad 0 1 false),
     .preExec 1, .ev (.begin_ 0 1), .ev (.endOk 0 1 ()), .ev (.dump 0 1 ()), .executed1 1, .ev (.unlock 0 1),
     .ev (.canLoad 0 2 false), .ev (.lock 0 2 true), .ev (.canLoad 0 2 false),
     .preExec 2, .ev (.begin_ 0 2), .ev (.endOk 0 2 ()), .ev (.dump 0 2 ()), .executed1 2, .ev (.unlock 0 2), .ret false] := by rfl

/-- ... and a run in which nothing can be done: the first task is locked by someone else, the second waits for it -/
example : loopTrace ⟨false, false, false, false⟩ [[], [0]] 1 [0, 0, 0, 0] =
    [.ev (.canLoad 0 0 false), .ev (.canLoad 0 0 false), .ev (.canLoad 0 0 false), .ev (.lock 0 0 false), .ev (.canLoad 0 0 false),
     .ev (.canLoad 0 0 false), .ev (.canLoad 0 0 false), .ev (.canLoad 0 0 false), .ret false] := by rfl

/-- non-vacuity of the composition: one worker, one task - the global history is accepted by the execution model, its projection is the
    (hook-free) trace of the loop program, and the worker leaves with status 0 -/
example : proj (V := Nat) 0 [.canLoad 0 0 false, .canLoad 0 0 false, .lock 0 0 true, .canLoad 0 0 false, .begin_ 0 0, .endOk 0 0 5, .dump 0 0 5, .unlock 0 0, .exit 0 0]
    = strip (loopTrace ⟨false, false, false, false⟩ [[]] 1 [0, 0, 1, 0, 0]) := by rfl

example : ∃ s, run (V := Nat) { n := 1, deps := fun _ => [], f := fun _ _ => 5 } (fun _ => ⟨false, false⟩) (initSys (fun _ => none))
      [.canLoad 0 0 false, .canLoad 0 0 false, .lock 0 0 true, .canLoad 0 0 false, .begin_ 0 0, .endOk 0 0 5, .dump 0 0 5, .unlock 0 0, .exit 0 0] = some s
    ∧ s.wk 0 = .exited 0 ∧ s.res 0 = some 5 := ⟨_, rfl, by decide⟩

end Jug.LoopBridge
