import JugModel.Model.FS
import JugModel.Generated.DumpSeqs
/-!
# C05 - a result is visible completely or not at all, under crashes and concurrent reads
-/
set_option linter.unusedVariables false
namespace Jug.C05
open Jug.FS

/-- `bad` is sticky -/
theorem bad_sticky (s : St) (ops : List FOp) (h : s.bad = true) : (run s ops).bad = true := by
  induction ops generalizing s with
  | nil => exact h
  | cons op ops ih =>
    apply ih
    cases op <;> simp only [step] <;> (try split) <;> simp_all

/-- once visible, nothing more is written (or the run is bad) -/
theorem after_rename (s : St) (ops : List FOp) (hr : s.renamed = true) (hd : s.durable = s.total) (ho : s.oscache = s.total)
    (hp : s.pybuf = 0) (hnb : (run s ops).bad = false) :
    (run s ops).total = s.total ∧ (run s ops).renamed = true ∧ (run s ops).durable = s.total ∧ (run s ops).oscache = s.total := by
  induction ops generalizing s with
  | nil => exact ⟨rfl, hr, hd, ho⟩
  | cons op ops ih =>
    simp only [run] at hnb ⊢
    have hstep : (step s op).bad = false := by
      cases hb : (step s op).bad with
      | false => rfl
      | true => rw [bad_sticky _ ops hb] at hnb; simp at hnb
    have key : (step s op).renamed = true ∧ (step s op).durable = (step s op).total ∧ (step s op).oscache = (step s op).total ∧
        (step s op).pybuf = 0 ∧ (step s op).total = s.total := by
      cases op <;> simp only [step] at hstep ⊢ <;> (try split at hstep) <;> (try split) <;> simp_all
    obtain ⟨k1, k2, k3, k4, k5⟩ := key
    have := ih (step s op) k1 k2 k3 k4 hnb
    rw [k5] at this
    exact this

/-- **visible implies complete**: for every safe write sequence, at every point at which the writer can be interrupted (every
    prefix of the sequence): if the final name resolves, then what a concurrent reader or a fresh process after a kill sees
    (OS cache) and what survives a power loss (disk) is the complete value -/
theorem visible_implies_complete (ops : List FOp) (hs : safeSeq ops = true) (pre post : List FOp) (hsplit : ops = pre ++ post)
    (hv : (run {} pre).renamed = true) :
    (run {} pre).oscache = valueSize ops ∧ (run {} pre).durable = valueSize ops := by
  simp only [safeSeq, Bool.and_eq_true, Bool.not_eq_true'] at hs
  -- generalise over the start state
  suffices H : ∀ (s : St) (pre post : List FOp), s.bad = false → (s.renamed = true → s.durable = s.total ∧ s.oscache = s.total ∧ s.pybuf = 0) →
      (run s (pre ++ post)).bad = false → (run s pre).renamed = true →
      (run s pre).oscache = (run s (pre ++ post)).total ∧ (run s pre).durable = (run s (pre ++ post)).total by
    subst hsplit
    exact H {} pre post rfl (by simp) hs.1 hv
  intro s pre
  induction pre generalizing s with
  | nil =>
    intro post hb hinv hnb hr
    simp only [run, List.nil_append] at hr hnb ⊢
    obtain ⟨h1, h2, h3⟩ := hinv hr
    have := after_rename s post hr h1 h2 h3 hnb
    rw [this.1]; exact ⟨h2, h1⟩
  | cons op pre ih =>
    intro post hb hinv hnb hr
    simp only [run, List.cons_append] at hr hnb ⊢
    have hstep : (step s op).bad = false := by
      cases hb' : (step s op).bad with
      | false => rfl
      | true => rw [bad_sticky _ _ hb'] at hnb; simp at hnb
    refine ih (step s op) post hstep ?_ hnb hr
    intro hr'
    cases op <;> simp only [step] at hstep hr' ⊢ <;> (try split at hstep) <;> (try split at hr') <;> (try split) <;> simp_all

/-- **an interrupted write leaves at most a stray temporary file**: in a safe sequence the only file created lives under
    tempfiles/ (never where readers look for results), and before `rename` the final name is untouched -/
theorem residue_is_temp_only (ops : List FOp) (hs : safeSeq ops = true) :
    FOp.mkTempElsewhere ∉ ops ∧ FOp.openFinal ∉ ops := by
  simp only [safeSeq, Bool.and_eq_true, Bool.not_eq_true'] at hs
  have H : ∀ (op : FOp), (op = .mkTempElsewhere ∨ op = .openFinal) → ∀ (s : St) (ops : List FOp), op ∈ ops → (run s ops).bad = true := by
    intro op hop s ops
    induction ops generalizing s with
    | nil => intro h; simp at h
    | cons o os ih =>
      intro h
      simp only [List.mem_cons] at h
      simp only [run]
      rcases h with h | h
      · subst h
        apply bad_sticky
        rcases hop with rfl | rfl <;> simp [step]
      · exact ih (step s o) h
  constructor
  · intro h; have := H _ (Or.inl rfl) {} ops h; simp [hs.1] at this
  · intro h; have := H _ (Or.inr rfl) {} ops h; simp [hs.1] at this

/-- before the rename nothing is visible: a reader can only see the previous value of the key (or none) -/
theorem invisible_before_rename (ops : List FOp) (hs : safeSeq ops = true) (pre post : List FOp) (hsplit : ops = pre ++ post)
    (hn : FOp.rename ∉ pre) : (run {} pre).renamed = false := by
  have H : ∀ (s : St) (pre : List FOp), s.renamed = false → FOp.rename ∉ pre → (run s pre).renamed = false := by
    intro s pre
    induction pre generalizing s with
    | nil => intro h _; exact h
    | cons op pre ih =>
      intro h hn
      simp only [List.mem_cons, not_or] at hn
      simp only [run]
      apply ih _ _ hn.2
      cases op <;> simp only [step] <;> (try split) <;> simp_all
  exact H {} pre rfl hn

/-- what is found under the final name at a cut point, for a reader / after a kill (`cache := true`) or after a power loss
    (`cache := false`): the new file once the rename has happened, otherwise whatever was there before (`old`, a complete value or
    nothing - a safe sequence performs no operation on the final name before the rename) -/
def finalView (old : Option Nat) (s : St) (cache : Bool) : Option Nat :=
  if s.renamed then some (if cache then s.oscache else s.durable) else old

/-- **old or new, never a mixture**: at every cut point of a safe write (in particular of an overwrite), under both crash
    adversaries, the key shows its previous complete value or the complete new value -/
theorem old_or_new (ops : List FOp) (hs : safeSeq ops = true) (pre post : List FOp) (hsplit : ops = pre ++ post)
    (old : Option Nat) (cache : Bool) :
    finalView old (run {} pre) cache = old ∨ finalView old (run {} pre) cache = some (valueSize ops) := by
  unfold finalView
  cases hr : (run {} pre).renamed with
  | false => left; simp
  | true =>
    right
    have h := visible_implies_complete ops hs pre post hsplit hr
    cases cache <;> simp [h.1, h.2]

/-! ### writes during which a primitive fails (disk full, I/O error, a value that cannot be pickled) -/

/-- in a run that stays inside the discipline, a visible file never holds a failed attempt, and a write that has handed its error to the caller has
    published nothing (and vice versa) -/
def FInv (s : St) : Prop := s.bad = false → (s.renamed = true → s.tainted = false ∧ s.gaveUp = false)

theorem finv_step (s : St) (op : FOp) (h : FInv s) : FInv (step s op) := by
  unfold FInv at *
  cases op <;> simp only [step] <;> (try split) <;> simp_all

theorem finv_run (ops : List FOp) : ∀ s : St, FInv s → FInv (run s ops) := by
  induction ops with
  | nil => intro s h; exact h
  | cons op ops ih => intro s h; exact ih _ (finv_step s op h)

theorem not_bad_prefix (pre post : List FOp) (s : St) (h : (run s (pre ++ post)).bad = false) : (run s pre).bad = false := by
  cases hb : (run s pre).bad with
  | false => rfl
  | true =>
    have : run s (pre ++ post) = run (run s pre) post := by
      induction pre generalizing s with
      | nil => rfl
      | cons o os ih => simp only [List.cons_append, run]; exact ih _ (by simpa [run] using h) (by simpa [run] using hb)
    rw [this, bad_sticky _ post hb] at h; simp at h

theorem run_append (pre post : List FOp) : ∀ s : St, run s (pre ++ post) = run (run s pre) post := by
  induction pre with
  | nil => intro s; rfl
  | cons o os ih => intro s; simp only [List.cons_append, run]; exact ih _

theorem renamed_sticky (ops : List FOp) : ∀ s : St, s.renamed = true → (run s ops).bad = false → (run s ops).renamed = true := by
  induction ops with
  | nil => intro s h _; exact h
  | cons op ops ih =>
    intro s h hnb
    simp only [run] at hnb ⊢
    have hstep : (step s op).bad = false := by
      cases hb : (step s op).bad with
      | false => rfl
      | true => rw [bad_sticky _ ops hb] at hnb; simp at hnb
    apply ih _ _ hnb
    cases op <;> simp only [step] at hstep ⊢ <;> (try split at hstep) <;> (try split) <;> simp_all

/-- **a write that fails publishes nothing partial**: in every write sequence that stays inside the discipline - whatever fails in it, however often the
    write starts again -, at every cut point: if the final name resolves to the new file, the file is one complete attempt (no bytes of a failed one in
    front of it), complete in the OS cache and on disk -/
theorem failed_write_visible_implies_complete (ops : List FOp) (hnb : (run {} ops).bad = false) (pre post : List FOp) (hsplit : ops = pre ++ post)
    (hv : (run {} pre).renamed = true) :
    (run {} pre).tainted = false ∧ (run {} pre).oscache = (run {} pre).total ∧ (run {} pre).durable = (run {} pre).total := by
  subst hsplit
  have hp := not_bad_prefix pre post {} hnb
  have hi := finv_run pre {} (by intro _ h; simp at h) hp hv
  refine ⟨hi.1, ?_⟩
  -- the byte counters: the invariant of `visible_implies_complete`, which needs only that the run is not bad
  have H : ∀ (pre : List FOp) (s : St), (s.renamed = true → s.durable = s.total ∧ s.oscache = s.total ∧ s.pybuf = 0) → (run s pre).bad = false →
      (run s pre).renamed = true → (run s pre).oscache = (run s pre).total ∧ (run s pre).durable = (run s pre).total := by
    intro pre
    induction pre with
    | nil => intro s hinv _ hr; obtain ⟨a, b, _⟩ := hinv hr; exact ⟨b, a⟩
    | cons op pre ih =>
      intro s hinv hnb' hr
      simp only [run] at hnb' hr ⊢
      have hstep : (step s op).bad = false := by
        cases hb : (step s op).bad with
        | false => rfl
        | true => rw [bad_sticky _ pre hb] at hnb'; simp at hnb'
      apply ih (step s op) _ hnb' hr
      intro hr'
      cases op <;> simp only [step] at hstep hr' ⊢ <;> (try split at hstep) <;> (try split at hr') <;> (try split) <;> simp_all
  exact H pre {} (by simp) hp hv

/-- **a write that reports its failure has published nothing**: if the sequence ends with the exception handed to the caller, the final name was never
    touched - at no cut point does it resolve to the new file -/
theorem gave_up_publishes_nothing (ops : List FOp) (hnb : (run {} ops).bad = false) (hg : (run {} ops).gaveUp = true)
    (pre post : List FOp) (hsplit : ops = pre ++ post) : (run {} pre).renamed = false := by
  subst hsplit
  cases hr : (run {} pre).renamed with
  | false => rfl
  | true =>
    rw [run_append] at hnb hg
    have h1 := renamed_sticky post _ hr hnb
    have hi := finv_run post (run {} pre) (finv_run pre {} (by intro _ h; simp at h)) hnb h1
    rw [hi.2] at hg; simp at hg

/-! ### bridge: the write sequences of the code as it is now are safe -/
open Jug.Generated.Dump

/-- every recorded sequence - pickled values small and large, `None`, plain / object / datetime arrays (raw .npy path),
    compressed arrays, the pack rewrite - obeys the discipline: temp file under tempfiles/, all data flushed and fsynced and the
    file closed before the rename, nothing written afterwards, nothing else touched -/
theorem dump_sequences_safe : ∀ p ∈ sequences, safeSeq p.2 = true := by decide +kernel

/-- every recorded write during which a primitive fails - small and large pickles, raw and compressed arrays, for each position of the failure - stays inside the
    discipline and either hands the error to its caller without having published anything or publishes one complete attempt (the raw-array path starts its temporary
    file again before it falls back to the generic encoding) -/
theorem failing_writes_safe : ∀ p ∈ failingSequences, safeFailSeq p.2 = true := by decide +kernel

/-- non-vacuity: writes with a failing primitive were recorded, among them ones that recover and ones that give up -/
example : 10 ≤ failingSequences.length := by decide +kernel

/-- sharpness: appending the fallback encoding to a partly written attempt is rejected; starting the file again is accepted -/
example : safeFailSeq [.mkstemp, .write 128, .failed, .write 2, .write 4345, .flush, .fsync, .close, .fsyncDir, .rename] = false := by decide
example : safeFailSeq [.mkstemp, .write 128, .failed, .truncate, .write 2, .write 4345, .flush, .fsync, .close, .fsyncDir, .rename] = true := by decide
example : safeFailSeq [.mkstemp, .write 128, .failed, .raised] = true := by decide
example : safeFailSeq [.mkstemp, .write 128, .flush, .failed, .close, .fsyncDir, .rename, .raised] = false := by decide

/-- overwriting a packed key: the new file is in place before the stale packed copy is dropped; dropping it is itself a safe pack rewrite -/
theorem packed_overwrite_order : packedOverwritePublishesFirst = true := by decide

/-- redis: a write is one `SET` of the fully encoded value and nothing else (single-command atomicity is the server's) -/
theorem redis_dump_is_one_set : ∀ p ∈ redisDumpCommands, p.2 = ["SET"] := by decide +kernel

/-- sharpness: the same sequence with the flush before fsync removed, or with the temp file next to its destination, is rejected -/
example : safeSeq [.mkstemp, .write 10, .fsync, .close, .fsyncDir, .rename] = false := by decide
example : safeSeq [.mkTempElsewhere, .write 10, .flush, .fsync, .close, .fsyncDir, .rename] = false := by decide
example : safeSeq [.mkstemp, .write 10, .flush, .fsync, .close, .fsyncDir, .rename] = true := by decide

end Jug.C05
