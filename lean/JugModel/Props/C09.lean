import JugModel.Model.Graph
/-!
# C09 - invalidation removes exactly the results that depend on the target
-/
set_option linter.unusedVariables false
namespace Jug.C09
open Jug.Graph

variable (deps : Task → List Task) (hit : Task → Bool)

/-- more fuel never hurts -/
theorem affF_mono (f : Nat) (t : Task) (h : affF deps hit f t = true) : affF deps hit (f + 1) t = true := by
  induction f generalizing t with
  | zero => simp [affF] at h
  | succ f ih =>
    simp only [affF, Bool.or_eq_true, List.any_eq_true] at h ⊢
    rcases h with h | ⟨d, hd, h⟩
    · left; exact h
    · right; exact ⟨d, hd, by simpa [affF] using ih d h⟩

theorem affF_mono' (f g : Nat) (hfg : f ≤ g) (t : Task) (h : affF deps hit f t = true) : affF deps hit g t = true := by
  induction hfg with
  | refl => exact h
  | step _ ih => exact affF_mono deps hit _ t ih

/-- soundness: what the command marks invalid is affected -/
theorem aff_sound (f : Nat) (t : Task) (h : affF deps hit f t = true) : Affected deps hit t := by
  induction f generalizing t with
  | zero => simp [affF] at h
  | succ f ih =>
    simp only [affF, Bool.or_eq_true, List.any_eq_true] at h
    rcases h with h | ⟨d, hd, h⟩
    · exact .hit h
    · exact .dep hd (ih d h)

/-- completeness: everything affected is marked (dependencies are created before their dependents) -/
theorem aff_complete (wf : ∀ t d, d ∈ deps t → d < t) (t : Task) (h : Affected deps hit t) : aff deps hit t = true := by
  induction h with
  | hit h => simp [aff, affF, h]
  | @dep t d hd _ ih =>
    simp only [aff, affF, Bool.or_eq_true, List.any_eq_true]
    right
    refine ⟨d, hd, ?_⟩
    exact affF_mono' deps hit (d + 1) t (wf t d hd) d ih

/-- **the command marks exactly the affected tasks**: matching name, or depending on one directly or transitively -/
theorem cli_eq_spec (wf : ∀ t d, d ∈ deps t → d < t) (t : Task) : aff deps hit t = true ↔ Affected deps hit t :=
  ⟨aff_sound deps hit _ t, aff_complete deps hit wf t⟩

/-- the interactive-shell invalidation of a task `r` removes `r` and everything depending on it: the same closure with
    `hit = (· = r)`; shell-invalidating every matching task therefore removes the same set as the command line -/
theorem shell_union_eq_cli (t : Task) :
    Affected deps hit t ↔ ∃ r, hit r = true ∧ Affected deps (fun x => x == r) t := by
  constructor
  · intro h
    induction h with
    | @hit t h => exact ⟨t, h, .hit (by simp)⟩
    | dep hd _ ih => obtain ⟨r, hr, h⟩ := ih; exact ⟨r, hr, .dep hd h⟩
  · rintro ⟨r, hr, h⟩
    induction h with
    | @hit t h => simp at h; subst h; exact .hit hr
    | dep hd _ ih => exact .dep hd ih

/-- **exactly the dependents lose their result, every other result is untouched** -/
theorem store_after {V} (res : Task → Option V) (t : Task) :
    (aff deps hit t = true → invalidateStore res (aff deps hit) t = none) ∧
    (aff deps hit t = false → invalidateStore res (aff deps hit) t = res t) := by
  constructor <;> intro h <;> simp [invalidateStore, h]

/-- the store stays closed under dependencies (a result is present only if the results it was computed from are), so
    `check` stays truthful (C15) and the following execute re-runs exactly the invalidated tasks (C01/C02: a task with a
    result is never started, one without is) -/
theorem invalidate_keeps_closed {V} (wf : ∀ t d, d ∈ deps t → d < t) (res : Task → Option V)
    (hc : ∀ t, res t ≠ none → ∀ d ∈ deps t, res d ≠ none) :
    ∀ t, invalidateStore res (aff deps hit) t ≠ none → ∀ d ∈ deps t, invalidateStore res (aff deps hit) d ≠ none := by
  intro t ht d hd
  simp only [invalidateStore] at ht ⊢
  split at ht
  · simp at ht
  · rename_i hna
    split
    · rename_i hda
      exfalso; apply hna
      exact (cli_eq_spec deps hit wf t).mpr (.dep hd ((cli_eq_spec deps hit wf d).mp hda))
    · exact hc t ht d hd

/-! non-vacuity: a diamond 0 → 1,2 → 3 with an unrelated task 4; invalidating task 1's name removes 1 and 3 only -/
example : (List.range 5).filter (aff (fun t => if t = 1 ∨ t = 2 then [0] else if t = 3 then [1, 2] else []) (fun t => t == 1)) = [1, 3] := by decide

end Jug.C09
