import JugModel.Model.Graph
import JugModel.Model.Target
/-!
# C09 - invalidation removes exactly the results that depend on the target
-/
set_option linter.unusedVariables false
namespace Jug.C09
open Jug.Graph

variable (deps : Task → List Task) (hit : Task → Bool)

/-- more fuel never hurts -/
theorem affF_mono (f : Nat) (t : Task) (h : affF deps hit f t = true) : affF deps hit (f + 1) t = true := by
  induction f generalizing t with
  | zero => simp [affF] at h
  | succ f ih =>
    simp only [affF, Bool.or_eq_true, List.any_eq_true] at h ⊢
    rcases h with h | ⟨d, hd, h⟩
    · left; exact h
    · right; exact ⟨d, hd, by simpa [affF] using ih d h⟩

theorem affF_mono' (f g : Nat) (hfg : f ≤ g) (t : Task) (h : affF deps hit f t = true) : affF deps hit g t = true := by
  induction hfg with
  | refl => exact h
  | step _ ih => exact affF_mono deps hit _ t ih

/-- soundness: what the command marks invalid is affected -/
theorem aff_sound (f : Nat) (t : Task) (h : affF deps hit f t = true) : Affected deps hit t := by
  induction f generalizing t with
  | zero => simp [affF] at h
  | succ f ih =>
    simp only [affF, Bool.or_eq_true, List.any_eq_true] at h
    rcases h with h | ⟨d, hd, h⟩
    · exact .hit h
    · exact .dep hd (ih d h)

/-- completeness: everything affected is marked (dependencies are created before their dependents) -/
theorem aff_complete (wf : ∀ t d, d ∈ deps t → d < t) (t : Task) (h : Affected deps hit t) : aff deps hit t = true := by
  induction h with
  | hit h => simp [aff, affF, h]
  | @dep t d hd _ ih =>
    simp only [aff, affF, Bool.or_eq_true, List.any_eq_true]
    right
    refine ⟨d, hd, ?_⟩
    exact affF_mono' deps hit (d + 1) t (wf t d hd) d ih

/-- **the command marks exactly the affected tasks**: matching name, or depending on one directly or transitively -/
theorem cli_eq_spec (wf : ∀ t d, d ∈ deps t → d < t) (t : Task) : aff deps hit t = true ↔ Affected deps hit t :=
  ⟨aff_sound deps hit _ t, aff_complete deps hit wf t⟩

/-- the interactive-shell invalidation of a task `r` removes `r` and everything depending on it: the same closure with
    `hit = (· = r)`; shell-invalidating every matching task therefore removes the same set as the command line -/
theorem shell_union_eq_cli (t : Task) :
    Affected deps hit t ↔ ∃ r, hit r = true ∧ Affected deps (fun x => x == r) t := by
  constructor
  · intro h
    induction h with
    | @hit t h => exact ⟨t, h, .hit (by simp)⟩
    | dep hd _ ih => obtain ⟨r, hr, h⟩ := ih; exact ⟨r, hr, .dep hd h⟩
  · rintro ⟨r, hr, h⟩
    induction h with
    | @hit t h => simp at h; subst h; exact .hit hr
    | dep hd _ ih => exact .dep hd ih

/-! ### the shell's work-list algorithm as coded -/

/-- reachability along reverse edges -/
inductive Reach (rev : Task → List Task) (r : Task) : Task → Prop
  | refl : Reach rev r r
  | step {x u} : Reach rev r x → u ∈ rev x → Reach rev r u

/-- loop invariant of `shellLoop`: everything seen or queued is a dependent of the root; the root is seen or queued;
    every dependent of a seen task is seen or queued -/
structure WInv (rev : Task → List Task) (r : Task) (q seen : List Task) : Prop where
  sound : ∀ x, x ∈ seen ∨ x ∈ q → Reach rev r x
  root : r ∈ seen ∨ r ∈ q
  closed : ∀ s, s ∈ seen → ∀ u, u ∈ rev s → u ∈ seen ∨ u ∈ q

theorem mem_dropLast_or_last {α} (l : List α) (h : l ≠ []) (x : α) : x ∈ l ↔ x ∈ l.dropLast ∨ x = l.getLast h := by
  have := List.dropLast_concat_getLast h
  constructor
  · intro hx
    rw [← this] at hx
    simpa using hx
  · intro hx
    rw [← this]
    simpa using hx

/-- **the work list computes exactly the dependents of the root** (whenever it terminates within the fuel) -/
theorem shellLoop_spec (rev : Task → List Task) (r : Task) : ∀ (fuel : Nat) (q seen out : List Task), WInv rev r q seen →
    shellLoop rev fuel q seen = some out → ∀ t, t ∈ out ↔ Reach rev r t := by
  intro fuel
  induction fuel with
  | zero =>
    intro q seen out hi h t
    cases q with
    | nil =>
      simp only [shellLoop, Option.some.injEq] at h; subst h
      constructor
      · intro ht; exact hi.sound t (Or.inl ht)
      · intro hr
        induction hr with
        | refl => rcases hi.root with h | h; exact h; simp at h
        | step _ hu ih => rcases hi.closed _ ih _ hu with h | h; exact h; simp at h
    | cons a as => simp [shellLoop] at h
  | succ fuel ih =>
    intro q seen out hi h t
    cases q with
    | nil =>
      simp only [shellLoop, Option.some.injEq] at h; subst h
      constructor
      · intro ht; exact hi.sound t (Or.inl ht)
      · intro hr
        induction hr with
        | refl => rcases hi.root with h | h; exact h; simp at h
        | step _ hu ih => rcases hi.closed _ ih _ hu with h | h; exact h; simp at h
    | cons a as =>
      have hne : (a :: as) ≠ [] := by simp
      have hmem := mem_dropLast_or_last (a :: as) hne
      simp only [shellLoop] at h
      split at h
      · -- already seen: skip
        rename_i hseen
        have hseen' : (a :: as).getLast hne ∈ seen := by simpa using hseen
        refine ih _ seen out ⟨?_, ?_, ?_⟩ h t
        · intro x hx
          rcases hx with hx | hx
          · exact hi.sound x (Or.inl hx)
          · exact hi.sound x (Or.inr ((hmem x).mpr (Or.inl hx)))
        · rcases hi.root with hr | hr
          · exact Or.inl hr
          · rcases (hmem r).mp hr with hr | hr
            · exact Or.inr hr
            · left; rw [hr]; exact hseen'
        · intro s hs u hu
          rcases hi.closed s hs u hu with h1 | h1
          · exact Or.inl h1
          · rcases (hmem u).mp h1 with h2 | h2
            · exact Or.inr h2
            · left; rw [h2]; exact hseen'
      · -- new: mark, invalidate, push the unseen dependents
        rename_i hseen
        have hlast : Reach rev r ((a :: as).getLast hne) := hi.sound _ (Or.inr ((hmem _).mpr (Or.inr rfl)))
        refine ih _ _ out ⟨?_, ?_, ?_⟩ h t
        · intro x hx
          rcases hx with hx | hx
          · simp only [List.mem_cons] at hx
            rcases hx with hx | hx
            · rw [hx]; exact hlast
            · exact hi.sound x (Or.inl hx)
          · simp only [List.mem_append, List.mem_filter] at hx
            rcases hx with hx | ⟨hx, _⟩
            · exact hi.sound x (Or.inr ((hmem x).mpr (Or.inl hx)))
            · exact .step hlast hx
        · rcases hi.root with hr | hr
          · left; simp [hr]
          · rcases (hmem r).mp hr with hr | hr
            · right; simp [hr]
            · left; simp [hr]
        · intro s hs u hu
          simp only [List.mem_cons] at hs
          by_cases hin : (((a :: as).getLast hne) :: seen).contains u = true
          · left; simpa using hin
          · rcases hs with hs | hs
            · right
              simp only [List.mem_append, List.mem_filter]
              right
              refine ⟨by rw [← hs]; exact hu, ?_⟩
              simpa using hin
            · rcases hi.closed s hs u hu with h1 | h1
              · left; simp [h1]
              · rcases (hmem u).mp h1 with h2 | h2
                · right; simp [h2]
                · left; simp [h2]

theorem mem_revEdges (n : Nat) (d t : Task) : t ∈ revEdges deps n d ↔ t < n ∧ d ∈ deps t := by
  simp [revEdges]

/-- dependents along the reverse edges of tasks `< n` = the specification with `hit = (· = r)` -/
theorem reach_iff_affected (wf : ∀ t d, d ∈ deps t → d < t) (n r : Nat) (t : Task) (ht : t < n) :
    Reach (revEdges deps n) r t ↔ Affected deps (fun x => x == r) t := by
  constructor
  · intro h
    clear ht
    induction h with
    | refl => exact .hit (by simp)
    | step _ hu ih => exact .dep ((mem_revEdges deps n _ _).mp hu).2 ih
  · intro h
    induction h with
    | @hit t h => simp at h; subst h; exact .refl
    | @dep t d hd _ ih =>
      have hdt : d < t := wf t d hd
      exact .step (ih (Nat.lt_trans hdt ht)) ((mem_revEdges deps n d t).mpr ⟨ht, hd⟩)

/-- **the shell's `invalidate(r)` as coded (reverse-edge table + work list) invalidates exactly `r` and its dependents**,
    i.e. the same set as the command line restricted to that root (`shell_union_eq_cli`, `cli_eq_spec`) -/
theorem shell_eq_spec (wf : ∀ t d, d ∈ deps t → d < t) (n r : Nat) (hr : r < n) (fuel : Nat) (out : List Task)
    (h : shellLoop (revEdges deps n) fuel [r] [] = some out) (t : Task) (ht : t < n) :
    t ∈ out ↔ Affected deps (fun x => x == r) t := by
  have hi : WInv (revEdges deps n) r [r] [] := ⟨by intro x hx; simp at hx; subst hx; exact .refl, by simp, by intro s hs; simp at hs⟩
  rw [shellLoop_spec (revEdges deps n) r fuel [r] [] out hi h t]
  exact reach_iff_affected deps wf n r t ht

/-- nothing outside the task list is touched -/
theorem shell_in_range (n r : Nat) (hr : r < n) (fuel : Nat) (out : List Task)
    (h : shellLoop (revEdges deps n) fuel [r] [] = some out) (t : Task) (ht : t ∈ out) : t < n := by
  have hi : WInv (revEdges deps n) r [r] [] := ⟨by intro x hx; simp at hx; subst hx; exact .refl, by simp, by intro s hs; simp at hs⟩
  have := (shellLoop_spec (revEdges deps n) r fuel [r] [] out hi h t).mp ht
  cases this with
  | refl => exact hr
  | step _ hu => exact ((mem_revEdges deps n _ _).mp hu).1

/-! termination: the fuel the driver uses is enough -/

/-- remaining work: the not yet seen tasks of the universe, each weighted by its out-degree + 1 -/
def wsum (w : Task → Nat) (univ seen : List Task) : Nat := ((univ.filter (fun u => !seen.contains u)).map w).sum

theorem wsum_notin (w : Task → Nat) (univ seen : List Task) (t : Task) (ht : t ∉ univ) :
    wsum w univ (t :: seen) = wsum w univ seen := by
  simp only [wsum]
  congr 2
  apply List.filter_congr
  intro u hu
  have : ¬ u = t := fun h => ht (h ▸ hu)
  simp [this]

theorem wsum_head (w : Task → Nat) (a : Task) (us seen : List Task) :
    wsum w (a :: us) seen = (if seen.contains a then 0 else w a) + wsum w us seen := by
  simp only [wsum, List.filter_cons]
  cases h : seen.contains a <;> simp

theorem wsum_cons (w : Task → Nat) (univ seen : List Task) (t : Task) (hn : univ.Nodup) (ht : t ∈ univ) (hs : t ∉ seen) :
    wsum w univ (t :: seen) + w t = wsum w univ seen := by
  induction univ with
  | nil => simp at ht
  | cons a us ih =>
    simp only [List.nodup_cons] at hn
    rw [wsum_head, wsum_head]
    by_cases hat : a = t
    · subst hat
      rw [wsum_notin w us seen a hn.1]
      have hc : seen.contains a = false := by simpa using hs
      have h1 : (a :: seen).contains a = true := by simp
      rw [h1, hc]
      simp only [if_true, Bool.false_eq_true, if_false]
      omega
    · have htu : t ∈ us := by
        simp only [List.mem_cons] at ht
        rcases ht with h | h
        · exact absurd h.symm hat
        · exact h
      have ih' := ih hn.2 htu
      have hc : (t :: seen).contains a = seen.contains a := by
        simp [hat]
      rw [hc]
      omega

/-- **the work list ends**: with fuel at least `|queue| + Σ_{unseen u} (outdegree u + 1)` the loop returns -/
theorem shellLoop_terminates (rev : Task → List Task) (univ : List Task) (hn : univ.Nodup)
    (hrev : ∀ x u, u ∈ rev x → u ∈ univ) : ∀ (fuel : Nat) (q seen : List Task), (∀ x, x ∈ q → x ∈ univ) →
      q.length + wsum (fun u => (rev u).length + 1) univ seen ≤ fuel → (shellLoop rev fuel q seen).isSome = true := by
  intro fuel
  induction fuel with
  | zero =>
    intro q seen hq hm
    cases q with
    | nil => simp [shellLoop]
    | cons a as => simp at hm
  | succ fuel ih =>
    intro q seen hq hm
    cases q with
    | nil => simp [shellLoop]
    | cons a as =>
      have hne : (a :: as) ≠ [] := by simp
      have hmem := mem_dropLast_or_last (a :: as) hne
      have hlen : (a :: as).dropLast.length + 1 = (a :: as).length := by simp
      simp only [shellLoop]
      split
      · apply ih
        · intro x hx; exact hq x ((hmem x).mpr (Or.inl hx))
        · simp only [List.length_cons] at hm hlen ⊢; omega
      · rename_i hseen
        have hts : (a :: as).getLast hne ∉ seen := by simpa using hseen
        have htu : (a :: as).getLast hne ∈ univ := hq _ ((hmem _).mpr (Or.inr rfl))
        have hw := wsum_cons (fun u => (rev u).length + 1) univ seen _ hn htu hts
        apply ih
        · intro x hx
          simp only [List.mem_append, List.mem_filter] at hx
          rcases hx with hx | ⟨hx, _⟩
          · exact hq x ((hmem x).mpr (Or.inl hx))
          · exact hrev _ x hx
        · have hfl := List.length_filter_le (fun u => !(((a :: as).getLast hne) :: seen).contains u) (rev ((a :: as).getLast hne))
          simp only [List.length_append, List.length_cons] at hm hlen ⊢
          omega

/-- for the reverse-edge table of `n` tasks the driver's fuel `n*n + n + 2` is enough, whatever the root -/
theorem shell_terminates (n r : Nat) (hr : r < n) : (shellLoop (revEdges deps n) (n * n + n + 2) [r] []).isSome = true := by
  apply shellLoop_terminates (revEdges deps n) (List.range n) List.nodup_range
  · intro x u hu; simp only [revEdges, List.mem_filter, List.mem_range] at hu; simpa using hu.1
  · intro x hx; simp at hx; subst hx; simpa using hr
  · -- Σ_{u < n} (|rev u| + 1) ≤ n * (n + 1)
    have hb : ∀ (l : List Task), ((l.map (fun u => (revEdges deps n u).length + 1)).sum) ≤ l.length * (n + 1) := by
      intro l
      induction l with
      | nil => simp
      | cons a l ih =>
        have ha : (revEdges deps n a).length ≤ n := by
          simp only [revEdges]
          exact Nat.le_trans (List.length_filter_le _ _) (by simp)
        simp only [List.map_cons, List.sum_cons, List.length_cons]
        have : (l.length + 1) * (n + 1) = l.length * (n + 1) + (n + 1) := by rw [Nat.add_mul]; simp
        omega
    have h1 := hb ((List.range n).filter (fun u => !([] : List Task).contains u))
    have h2 : ((List.range n).filter (fun u => !([] : List Task).contains u)).length ≤ n := by
      exact Nat.le_trans (List.length_filter_le _ _) (by simp)
    have h3 : ((List.range n).filter (fun u => !([] : List Task).contains u)).length * (n + 1) ≤ n * (n + 1) :=
      Nat.mul_le_mul_right _ h2
    have h4 : n * (n + 1) = n * n + n := by rw [Nat.mul_add]; simp
    simp only [wsum, List.length_cons, List.length_nil]
    omega

/-- **total correctness of the shell's `invalidate(r)`**: it ends, and has then invalidated exactly `r` and its dependents -/
theorem shell_total (wf : ∀ t d, d ∈ deps t → d < t) (n r : Nat) (hr : r < n) :
    ∃ out, shellLoop (revEdges deps n) (n * n + n + 2) [r] [] = some out ∧
      ∀ t, t < n → (t ∈ out ↔ Affected deps (fun x => x == r) t) := by
  have ht := shell_terminates deps n r hr
  cases h : shellLoop (revEdges deps n) (n * n + n + 2) [r] [] with
  | none => rw [h] at ht; simp at ht
  | some out => exact ⟨out, rfl, fun t htn => shell_eq_spec deps wf n r hr _ out h t htn⟩

/-- the example -/
example : shellLoop (revEdges (fun t => if t = 1 ∨ t = 2 then [0] else if t = 3 then [1, 2] else []) 5) 40 [0] [] = some [1, 3, 2, 0] := by decide

/-- **exactly the dependents lose their result, every other result is untouched** -/
theorem store_after {V} (res : Task → Option V) (t : Task) :
    (aff deps hit t = true → invalidateStore res (aff deps hit) t = none) ∧
    (aff deps hit t = false → invalidateStore res (aff deps hit) t = res t) := by
  constructor <;> intro h <;> simp [invalidateStore, h]

/-- the store stays closed under dependencies (a result is present only if the results it was computed from are), so
    `check` stays truthful (C15) and the following execute re-runs exactly the invalidated tasks (C01/C02: a task with a
    result is never started, one without is) -/
theorem invalidate_keeps_closed {V} (wf : ∀ t d, d ∈ deps t → d < t) (res : Task → Option V)
    (hc : ∀ t, res t ≠ none → ∀ d ∈ deps t, res d ≠ none) :
    ∀ t, invalidateStore res (aff deps hit) t ≠ none → ∀ d ∈ deps t, invalidateStore res (aff deps hit) d ≠ none := by
  intro t ht d hd
  simp only [invalidateStore] at ht ⊢
  split at ht
  · simp at ht
  · rename_i hna
    split
    · rename_i hda
      exfalso; apply hna
      exact (cli_eq_spec deps hit wf t).mpr (.dep hd ((cli_eq_spec deps hit wf d).mp hda))
    · exact hc t ht d hd

/-! non-vacuity: a diamond 0 → 1,2 → 3 with an unrelated task 4; invalidating task 1's name removes 1 and 3 only -/
example : (List.range 5).filter (aff (fun t => if t = 1 ∨ t = 2 then [0] else if t = 3 then [1, 2] else []) (fun t => t == 1)) = [1, 3] := by decide


/-! ### which tasks a target names (Model/Target.lean) -/
section TargetMatching
open Jug.Target

theorem occursIn_iff (p : List Char) : ∀ s : List Char, occursIn p s = true ↔ ∃ a b, s = a ++ p ++ b := by
  intro s
  induction s with
  | nil =>
    simp only [occursIn, List.isEmpty_iff]
    constructor
    · intro h; exact ⟨[], [], by simp [h]⟩
    · rintro ⟨a, b, h⟩
      have := congrArg List.length h
      simp at this
      exact List.eq_nil_of_length_eq_zero (by omega)
  | cons c s ih =>
    simp only [occursIn, Bool.or_eq_true, List.isPrefixOf_iff_prefix, ih]
    constructor
    · rintro (⟨t, ht⟩ | ⟨a, b, h⟩)
      · exact ⟨[], t, by simp [ht]⟩
      · exact ⟨c :: a, b, by simp [h]⟩
    · rintro ⟨a, b, h⟩
      cases a with
      | nil => left; exact ⟨b, by simpa using h.symm⟩
      | cons x a' =>
        right
        simp only [List.cons_append, List.cons.injEq] at h
        exact ⟨a', b, h.2⟩

/-- a bare target names every task whose function is called like it, in whatever module -/
theorem bare_hits_function (target modname : List Char) (hb : target.contains '.' = false) :
    matchesName target (modname ++ '.' :: target) = true := by
  simp only [matchesName, hb, Bool.false_eq_true, if_false]
  exact (occursIn_iff _ _).mpr ⟨modname, [], by simp⟩

/-- ... and only tasks in whose qualified name it begins a dotted component after the first: never a task just because its
    module (the jugfile) is called like the target -/
theorem bare_needs_component (target name : List Char) (hb : target.contains '.' = false) (h : matchesName target name = true) :
    ∃ a b, name = a ++ '.' :: target ++ b := by
  simp only [matchesName, hb, Bool.false_eq_true, if_false] at h
  obtain ⟨a, b, hab⟩ := (occursIn_iff _ _).mp h
  exact ⟨a, b, by simpa using hab⟩

/-- a dotted target names exactly the tasks in whose qualified name it occurs -/
theorem dotted_iff (target name : List Char) (hd : target.contains '.' = true) :
    matchesName target name = true ↔ ∃ a b, name = a ++ target ++ b := by
  simp only [matchesName, hd, if_true]
  exact occursIn_iff _ _

example : matchesName "mk".toList "jugverif.lib.mk".toList = true := by decide
example : matchesName "jugverif".toList "jugverif.lib.mk".toList = false := by decide
example : matchesName "lib.mk".toList "jugverif.lib.mk".toList = true := by decide
end TargetMatching

end Jug.C09
