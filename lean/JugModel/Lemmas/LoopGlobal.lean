import JugModel.Lemmas.Loop
/-!
From the workers' own loops to the obligation on the global history: the scan ghost of a history of any number of workers is, worker
by worker, the ghost of that worker's own events. So if every worker's events (its projection of the history) keep the obligation -
which `loop_scans_all` proves for the loop program - the global history satisfies `scanRun`, the hypothesis of `C01.exec_complete`.
-/
set_option linter.unusedVariables false
namespace Jug.Loop
open Jug.Exec

variable {V : Type}

/-- the events of worker `w` in a global history, as that worker's local trace (worker index 0, values erased; the end of the process
    is where the loop has returned) -/
def projEv (w : Worker) : Ev V → Option LEv
  | .canLoad w' t b => if w' = w then some (.ev (.canLoad 0 t b)) else none
  | .lock w' t b => if w' = w then some (.ev (.lock 0 t b)) else none
  | .load w' t _ => if w' = w then some (.ev (.load 0 t ())) else none
  | .begin_ w' t => if w' = w then some (.ev (.begin_ 0 t)) else none
  | .endOk w' t _ => if w' = w then some (.ev (.endOk 0 t ())) else none
  | .endExc w' t => if w' = w then some (.ev (.endExc 0 t)) else none
  | .dump w' t _ => if w' = w then some (.ev (.dump 0 t ())) else none
  | .unlock w' t => if w' = w then some (.ev (.unlock 0 t)) else none
  | .markFailed w' t => if w' = w then some (.ev (.markFailed 0 t)) else none
  | .stop w' k => if w' = w then some (.ev (.stop 0 k)) else none
  | .exit w' code => if w' = w then some (.ret (code != 0)) else none
  | .crash _ => none
  | .removeLocks => none
  | .removeFailedLocks => none

def proj (w : Worker) (evs : List (Ev V)) : Tr := evs.filterMap (projEv w)

/-- the global ghost, seen from worker `w`, is the local ghost -/
def Rel (w : Worker) (sc lsc : Scan) : Prop := ∀ t, sc.done w t = lsc.done 0 t ∧ sc.stuck w t = lsc.stuck 0 t

theorem ne_of_proj_none {w w' : Worker} {x : LEv} (hp : (if w' = w then some x else none) = none) : ¬ w = w' := by
  intro h; subst h; simp at hp

theorem rel_step_none (sdeps : Task → List Task) (kg : Worker → Bool) (w : Worker) (sc lsc : Scan) (e : Ev V)
    (h : Rel w sc lsc) (hp : projEv w e = none) : Rel w (scanStep sdeps kg sc e) lsc := by
  intro t
  obtain ⟨h1, h2⟩ := h t
  cases e with
  | canLoad w' d b =>
    have hne := ne_of_proj_none hp
    cases b <;> simp [scanStep, Scan.setDone, hne, h1, h2]
  | lock w' d b =>
    have hne := ne_of_proj_none hp
    cases b <;> simp [scanStep, Scan.setDone, hne, h1, h2]
  | load w' d v => have hne := ne_of_proj_none hp; simp [scanStep, Scan.setDone, hne, h1, h2]
  | begin_ w' d => simp [scanStep, h1, h2]
  | endOk w' d v => simp [scanStep, h1, h2]
  | endExc w' d =>
    have hne := ne_of_proj_none hp
    simp only [scanStep]; split <;> simp [Scan.setDone, Scan.exempt, hne, h1, h2]
  | dump w' d v => have hne := ne_of_proj_none hp; simp [scanStep, Scan.setDone, hne, h1, h2]
  | unlock w' d => have hne := ne_of_proj_none hp; simp [scanStep, hne, h1, h2]
  | markFailed w' d => have hne := ne_of_proj_none hp; simp [scanStep, hne, h1, h2]
  | stop w' k => have hne := ne_of_proj_none hp; simp [scanStep, Scan.exempt, hne, h1, h2]
  | exit w' c => simp [scanStep, h1, h2]
  | crash w' => simp [scanStep, h1, h2]
  | removeLocks => simp [scanStep, h1, h2]
  | removeFailedLocks => simp [scanStep, h1, h2]

theorem eq_of_proj_some {w w' : Worker} {x y : LEv} (hp : (if w' = w then some x else none) = some y) : w' = w ∧ x = y := by
  by_cases h : w' = w
  · simp [h] at hp; exact ⟨h, hp⟩
  · simp [h] at hp

theorem rel_step_some (deps : List (List Task)) (kg : Worker → Bool) (w : Worker) (sc lsc : Scan) (ok : Bool) (e : Ev V) (x : LEv)
    (h : Rel w sc lsc) (hp : projEv w e = some x) :
    Rel w (scanStep (fun t => deps.getD t []) kg sc e) (lscan (kg w) deps (lsc, ok) x).1 := by
  intro t
  obtain ⟨h1, h2⟩ := h t
  cases e with
  | canLoad w' d b =>
    obtain ⟨rfl, rfl⟩ := eq_of_proj_some hp
    cases b <;> simp [lscan, scanStep, Scan.setDone, h1, h2]
  | lock w' d b =>
    obtain ⟨rfl, rfl⟩ := eq_of_proj_some hp
    cases b <;> simp [lscan, scanStep, Scan.setDone, h1, h2]
  | load w' d v => obtain ⟨rfl, rfl⟩ := eq_of_proj_some hp; simp [lscan, scanStep, Scan.setDone, h1, h2]
  | begin_ w' d => obtain ⟨rfl, rfl⟩ := eq_of_proj_some hp; simp [lscan, scanStep, h1, h2]
  | endOk w' d v => obtain ⟨rfl, rfl⟩ := eq_of_proj_some hp; simp [lscan, scanStep, h1, h2]
  | endExc w' d =>
    obtain ⟨rfl, rfl⟩ := eq_of_proj_some hp
    simp only [lscan, scanStep]; split <;> simp [Scan.setDone, Scan.exempt, h1, h2]
  | dump w' d v => obtain ⟨rfl, rfl⟩ := eq_of_proj_some hp; simp [lscan, scanStep, Scan.setDone, h1, h2]
  | unlock w' d => obtain ⟨rfl, rfl⟩ := eq_of_proj_some hp; simp [lscan, scanStep, h1, h2]
  | markFailed w' d => obtain ⟨rfl, rfl⟩ := eq_of_proj_some hp; simp [lscan, scanStep, h1, h2]
  | stop w' k => obtain ⟨rfl, rfl⟩ := eq_of_proj_some hp; simp [lscan, scanStep, Scan.exempt, h1, h2]
  | exit w' c => obtain ⟨rfl, rfl⟩ := eq_of_proj_some hp; simp [lscan, scanStep, h1, h2]
  | crash w' => simp [projEv] at hp
  | removeLocks => simp [projEv] at hp
  | removeFailedLocks => simp [projEv] at hp

theorem G_ok_le (kg : Bool) (deps : List (List Task)) (tr : Tr) : ∀ s : Scan × Bool, (G kg deps s tr).2 = true → s.2 = true := by
  induction tr with
  | nil => intro s h; exact h
  | cons x xs ih =>
    intro s h
    have := ih _ h
    obtain ⟨sc, ok⟩ := s
    cases x <;> simp_all [lscan]

/-- **composition**: if the events of every worker, taken by themselves, keep the scan obligation (everything flagged wherever the
    worker's process ends), the global history of all workers satisfies `scanRun` -/
theorem scanRun_of_local (deps : List (List Task)) (kg : Worker → Bool) (evs : List (Ev V)) :
    ∀ (sc : Scan) (lsc : Worker → Scan × Bool),
      (∀ w, Rel w sc (lsc w).1) →
      (∀ w, (G (kg w) deps (lsc w) (proj w evs)).2 = true) →
      scanRun deps.length (fun t => deps.getD t []) kg sc evs = true := by
  induction evs with
  | nil => intro sc lsc _ _; rfl
  | cons e es ih =>
    intro sc lsc hrel hok
    simp only [scanRun, Bool.and_eq_true]
    constructor
    · -- the guard: only where a worker's process ends
      cases e with
      | exit w code =>
        have hw := hok w
        have hp : projEv w (Ev.exit (V := V) w code) = some (.ret (code != 0)) := by simp [projEv]
        simp only [proj, List.filterMap_cons, hp] at hw
        rw [G_cons] at hw
        have h2 := G_ok_le (kg w) deps _ _ hw
        cases hl : lsc w with
        | mk l ok =>
          rw [hl] at h2
          simp only [lscan, Bool.and_eq_true, List.all_eq_true, List.mem_range] at h2
          simp only [scanGuard, List.all_eq_true, List.mem_range]
          intro t ht
          have hr := hrel w t
          rw [hl] at hr
          have := h2.2 t ht
          simp only [Scan.flagged] at this ⊢
          rw [hr.1, hr.2]; exact this
      | _ => rfl
    · -- the rest of the history, with every worker's local ghost advanced by its own event (if the event is its own)
      apply ih (scanStep (fun t => deps.getD t []) kg sc e)
        (fun w => match projEv w e with
          | some x => lscan (kg w) deps (lsc w) x
          | none => lsc w)
      · intro w
        cases hp : projEv w e with
        | none => simp only []; exact rel_step_none _ kg w sc (lsc w).1 e (hrel w) hp
        | some x =>
          simp only []
          have := rel_step_some deps kg w sc (lsc w).1 (lsc w).2 e x (hrel w) hp
          simpa using this
      · intro w
        have hw := hok w
        simp only [proj, List.filterMap_cons] at hw
        cases hp : projEv w e with
        | none => simp only [hp] at hw ⊢; exact hw
        | some x => simp only [hp] at hw ⊢; rw [G_cons] at hw; exact hw

/-- `preExec` / `executed1` hook marks of a loop trace have no counterpart in a global history: dropping them changes nothing for the ghost -/
def isHook : LEv → Bool
  | .preExec _ => true
  | .executed1 _ => true
  | _ => false

def strip (tr : Tr) : Tr := tr.filter (fun x => !isHook x)

theorem G_strip (kg : Bool) (deps : List (List Task)) (tr : Tr) : ∀ s : Scan × Bool, G kg deps s (strip tr) = G kg deps s tr := by
  induction tr with
  | nil => intro s; rfl
  | cons x xs ih =>
    intro s
    cases x <;> simp [strip, isHook, G_cons, lscan] <;> (first | exact ih _ | (simpa [strip] using ih _))

end Jug.Loop
