import JugModel.Model.Lock
/-! Invariants of interleaved lock operations for well-typed lock programs. -/
set_option linter.unusedVariables false
namespace Jug.Lock

/-! ### facts about the primitives (finite case analysis) -/

theorem sem_readOnly (p : Prim) (m : Mem) (h : readOnly p = true) : (sem p m).2 = m := by
  cases p <;> simp_all [readOnly, sem] <;> (cases m <;> simp)

theorem sem_acquire_taken (p : Prim) (m : Mem) (h : acquiring p = true) (hm : m ≠ .free) :
    (sem p m).2 = m ∧ acquireSuccess p (sem p m).1 = false := by
  cases p <;> simp_all [acquiring, sem, acquireSuccess]

theorem sem_acquire_free (p : Prim) (h : acquiring p = true) :
    acquireSuccess p (sem p .free).1 = true ∧ (sem p .free).2 = .locked := by
  cases p <;> simp_all [acquiring, sem, acquireSuccess]

theorem acquireSuccess_acquiring (p : Prim) (a : Ans) (h : acquireSuccess p a = true) : acquiring p = true := by
  cases p <;> simp_all [acquiring, acquireSuccess]

theorem impliesTaken_sound (p : Prim) (m : Mem) (h : impliesTaken p (sem p m).1 = true) : m ≠ .free := by
  cases p <;> cases m <;> simp_all [impliesTaken, sem]

theorem sem_marking (p : Prim) (m : Mem) (h : marking p = true) (hm : m ≠ .free) : (sem p m).2 ≠ .free := by
  cases p <;> cases m <;> simp_all [marking, sem]

theorem sem_freeing (p : Prim) (m : Mem) (h : freeing p = true) : (sem p m).2 = .free := by
  cases p <;> cases m <;> simp_all [freeing, sem]

theorem readOnly_not_success (p : Prim) (a : Ans) (h : readOnly p = true) : acquireSuccess p a = false := by
  cases p <;> simp_all [readOnly, acquireSuccess]

/-! ### facts about well-typed trees -/

theorem lookup_mem {a : Ans} {next : List (Ans × PTree)} {t : PTree} (h : lookup a next = some t) : (a, t) ∈ next := by
  induction next with
  | nil => simp [lookup] at h
  | cons x rest ih =>
    obtain ⟨b, u⟩ := x
    simp only [lookup] at h
    split at h
    · rename_i hab; simp at h; subst hab; subst h; simp
    · simp [ih h]

/-- what `getBranchesOK` says about one branch -/
def getBranchOK (p : Prim) (a : Ans) : PTree → Prop
  | .ret r => leafOK p a r = true
  | .prim q n => acquireSuccess p a = false ∧ getOK (.prim q n) = true

theorem getBranchesOK_mem {p : Prim} {next : List (Ans × PTree)} (h : getBranchesOK p next = true) {a : Ans} {t : PTree}
    (hm : (a, t) ∈ next) : getBranchOK p a t := by
  induction next with
  | nil => simp at hm
  | cons x rest ih =>
    obtain ⟨b, u⟩ := x
    simp only [List.mem_cons, Prod.mk.injEq] at hm
    cases u with
    | ret r =>
      simp only [getBranchesOK, Bool.and_eq_true] at h
      rcases hm with ⟨rfl, rfl⟩ | hm
      · exact h.1
      · exact ih h.2 hm
    | prim q n =>
      simp only [getBranchesOK, Bool.and_eq_true, Bool.not_eq_true'] at h
      rcases hm with ⟨rfl, rfl⟩ | hm
      · exact ⟨h.1.1, h.1.2⟩
      · exact ih h.2 hm

theorem primsAllL_mem {ok : Prim → Bool} {next : List (Ans × PTree)} (h : primsAllL ok next = true) {a : Ans} {t : PTree}
    (hm : (a, t) ∈ next) : primsAll ok t = true := by
  induction next with
  | nil => simp at hm
  | cons x rest ih =>
    obtain ⟨b, u⟩ := x
    simp only [primsAllL, Bool.and_eq_true] at h
    simp only [List.mem_cons, Prod.mk.injEq] at hm
    rcases hm with ⟨rfl, rfl⟩ | hm
    · exact h.1
    · exact ih h.2 hm

theorem releaseOKL_mem {next : List (Ans × PTree)} (h : releaseOKL next = true) {a : Ans} {t : PTree}
    (hm : (a, t) ∈ next) : releaseOK t = true := by
  induction next with
  | nil => simp at hm
  | cons x rest ih =>
    obtain ⟨b, u⟩ := x
    simp only [releaseOKL, Bool.and_eq_true] at h
    simp only [List.mem_cons, Prod.mk.injEq] at hm
    rcases hm with ⟨rfl, rfl⟩ | hm
    · exact h.1
    · exact ih h.2 hm

theorem totalL_mem {next : List (Ans × PTree)} (h : totalL next = true) {a : Ans} {t : PTree}
    (hm : (a, t) ∈ next) : total t = true := by
  induction next with
  | nil => simp at hm
  | cons x rest ih =>
    obtain ⟨b, u⟩ := x
    simp only [totalL, Bool.and_eq_true] at h
    simp only [List.mem_cons, Prod.mk.injEq] at hm
    rcases hm with ⟨rfl, rfl⟩ | hm
    · exact h.1
    · exact ih h.2 hm

theorem leavesOnly_mem {next : List (Ans × PTree)} (h : leavesOnly next = true) {a : Ans} {t : PTree}
    (hm : (a, t) ∈ next) : ∃ r, t = .ret r := by
  induction next with
  | nil => simp at hm
  | cons x rest ih =>
    obtain ⟨b, u⟩ := x
    simp only [List.mem_cons, Prod.mk.injEq] at hm
    cases u with
    | ret r =>
      simp only [leavesOnly] at h
      rcases hm with ⟨rfl, rfl⟩ | hm
      · exact ⟨r, rfl⟩
      · exact ih h hm
    | prim p n => simp [leavesOnly] at h

/-! ### the invariant -/

/-- typing of the remaining tree of an operation in progress -/
def opTyped (s : LSys) (i : Nat) : Op → PTree → Prop
  | .get, t => getOK t = true ∧ total t = true
  | .release, t => releaseOK t = true ∧ (∀ j, s.holds j = false) ∧ s.mem ≠ .free
  | .fail, t => primsAll (fun p => readOnly p || marking p) t = true ∧ s.holds i = true
  | .isLocked, t => primsAll readOnly t = true
  | .isFailed, t => primsAll readOnly t = true

structure LInv (s : LSys) : Prop where
  one : ∀ i j, s.holds i = true → s.holds j = true → i = j
  taken : ∀ i, s.holds i = true → s.mem ≠ .free
  typed : ∀ i op t, s.cl i = .run op t → opTyped s i op t

theorem wt_get {progs : Progs} (h : WellTyped progs = true) : getOK (progs .get) = true := by
  simp only [WellTyped, Bool.and_eq_true] at h; exact h.1.1.1.1.1.1
theorem wt_release {progs : Progs} (h : WellTyped progs = true) : releaseOK (progs .release) = true := by
  simp only [WellTyped, Bool.and_eq_true] at h; exact h.1.1.1.1.2
theorem wt_fail {progs : Progs} (h : WellTyped progs = true) : primsAll (fun p => readOnly p || marking p) (progs .fail) = true := by
  simp only [WellTyped, Bool.and_eq_true] at h; exact h.1.1.1.2
theorem wt_isLocked {progs : Progs} (h : WellTyped progs = true) : primsAll readOnly (progs .isLocked) = true := by
  simp only [WellTyped, Bool.and_eq_true] at h; exact h.1.1.2
theorem wt_isFailed {progs : Progs} (h : WellTyped progs = true) : primsAll readOnly (progs .isFailed) = true := by
  simp only [WellTyped, Bool.and_eq_true] at h; exact h.1.2
theorem wt_solo {progs : Progs} (h : WellTyped progs = true) : soloSpec progs 8 = true := by
  simp only [WellTyped, Bool.and_eq_true] at h; exact h.2
theorem wt_total {progs : Progs} (h : WellTyped progs = true) : total (progs .get) = true := by
  simp only [WellTyped, Bool.and_eq_true] at h; exact h.1.1.1.1.1.2

end Jug.Lock


namespace Jug.Lock

/-- the invariant with uniqueness of the client that is in the middle of `release` -/
structure LInv2 (s : LSys) : Prop extends LInv s where
  rel_unique : ∀ a b ta tb, s.cl a = .run .release ta → s.cl b = .run .release tb → a = b

theorem linv2_init (m : Mem) : LInv2 { mem := m, cl := fun _ => .idle, holds := fun _ => false } := by
  refine ⟨⟨?_, ?_, ?_⟩, ?_⟩ <;> intros <;> simp_all

/-- Lemma A: starting an operation -/
theorem start_inv (s : LSys) (i : Nat) (op : Op) (hi : LInv2 s) (hidle : s.cl i = .idle) (hall : allowed s i op = true) :
    LInv2 (startState s i op) ∧ (startState s i op).mem = s.mem ∧ (startState s i op).cl = s.cl ∧
    (op = .release → (∀ j, (startState s i op).holds j = false) ∧ s.mem ≠ .free ∧ ∀ a t, s.cl a ≠ .run .release t) ∧
    (op = .fail → (startState s i op).holds i = true) ∧
    (op ≠ .release → startState s i op = s) := by
  by_cases hop : op = .release
  · subst hop
    have hhi : s.holds i = true := by simpa [allowed] using hall
    have hnone : ∀ j, (startState s i .release).holds j = false := by
      intro j
      simp only [startState, ↓reduceIte, updc]
      split
      · rfl
      · rename_i hne
        cases hj : s.holds j with
        | false => rfl
        | true => exact absurd (hi.one j i hj hhi) hne
    have hnorel : ∀ a t, s.cl a ≠ .run .release t := by
      intro a t hcl
      have := hi.typed a .release t hcl
      simp only [opTyped] at this
      have := this.2.1 i; simp_all
    refine ⟨⟨⟨?_, ?_, ?_⟩, ?_⟩, rfl, rfl, fun _ => ⟨hnone, hi.taken i hhi, hnorel⟩, by simp, by simp⟩
    · intro a b ha; simp [hnone a] at ha
    · intro a ha; simp [hnone a] at ha
    · intro a op' t hcl
      have hcl' : s.cl a = .run op' t := hcl
      have ht := hi.typed a op' t hcl'
      cases op' with
      | get => exact ht
      | release => exact absurd hcl' (hnorel a t)
      | isLocked => exact ht
      | fail =>
        simp only [opTyped] at ht ⊢
        have : a = i := hi.one a i ht.2 hhi
        subst this; simp [hidle] at hcl'
      | isFailed => exact ht
    · intro a b ta tb ha hb; exact hi.rel_unique a b ta tb ha hb
  · have : startState s i op = s := by simp [startState, hop]
    rw [this]
    refine ⟨hi, rfl, rfl, fun h => absurd h hop, ?_, fun _ => rfl⟩
    intro hf; subst hf; simpa [allowed] using hall

/-- the invariant with client `i` exempted (its state is about to be overwritten) -/
structure LInvX (i : Nat) (s : LSys) : Prop where
  one : ∀ a b, s.holds a = true → s.holds b = true → a = b
  taken : ∀ a, s.holds a = true → s.mem ≠ .free
  typed : ∀ a op t, a ≠ i → s.cl a = .run op t → opTyped s a op t
  rel_unique : ∀ a b ta tb, a ≠ i → b ≠ i → s.cl a = .run .release ta → s.cl b = .run .release tb → a = b

theorem LInv2.toX {s : LSys} (h : LInv2 s) (i : Nat) : LInvX i s :=
  ⟨h.one, h.taken, fun a op t _ hc => h.typed a op t hc, fun a b ta tb _ _ ha hb => h.rel_unique a b ta tb ha hb⟩

/-- Lemma B1: continuing with an inner node -/
theorem advance_prim_inv (s : LSys) (i : Nat) (op : Op) (p : Prim) (next : List (Ans × PTree)) (hi : LInvX i s)
    (hrel : op = .release → ∀ a t, a ≠ i → s.cl a ≠ .run .release t)
    (ht : opTyped s i op (.prim p next)) : LInv2 (advance s i op (.prim p next)).1 := by
  simp only [advance]
  refine ⟨⟨hi.one, hi.taken, ?_⟩, ?_⟩
  · intro a op' t hcl
    simp only [updc] at hcl
    split at hcl
    · rename_i hai; subst hai
      simp only [CState.run.injEq] at hcl
      obtain ⟨rfl, rfl⟩ := hcl
      cases op <;> simpa [opTyped] using ht
    · rename_i hai
      have := hi.typed a op' t hai hcl
      cases op' <;> simpa [opTyped] using this
  · intro a b ta tb ha hb
    simp only [updc] at ha hb
    split at ha <;> split at hb
    · simp_all
    · rename_i hai hbi
      simp only [CState.run.injEq] at ha
      exact absurd hb (hrel ha.1 b tb hbi)
    · rename_i hai hbi
      simp only [CState.run.injEq] at hb
      exact absurd ha (hrel hb.1 a ta hai)
    · rename_i hai hbi
      exact hi.rel_unique a b ta tb hai hbi ha hb

/-- Lemma B2: completing an operation -/
theorem advance_leaf_inv (s : LSys) (i : Nat) (op : Op) (r : Res) (hi : LInvX i s)
    (hwin : op = .get → r = .bool true → (∀ j, s.holds j = false) ∧ s.mem ≠ .free ∧ ∀ a t, a ≠ i → s.cl a ≠ .run .release t) :
    LInv2 (advance s i op (.ret r)).1 := by
  simp only [advance, finish]
  by_cases hw : op = .get ∧ r = .bool true
  · obtain ⟨hnone, hmem, hnorel⟩ := hwin hw.1 hw.2
    simp only [hw, and_self, ↓reduceIte]
    refine ⟨⟨?_, ?_, ?_⟩, ?_⟩
    · intro a b ha hb
      simp only [updc] at ha hb
      split at ha <;> split at hb <;> simp_all
    · intro a _; exact hmem
    · intro a op' t hcl
      simp only [updc] at hcl
      split at hcl
      · simp at hcl
      · rename_i hai
        have := hi.typed a op' t hai hcl
        cases op' with
        | get => exact this
        | release => exact absurd hcl (hnorel a t hai)
        | isLocked => exact this
        | fail => simp only [opTyped] at this; simp [hnone a] at this
        | isFailed => exact this
    · intro a b ta tb ha hb
      simp only [updc] at ha
      split at ha
      · simp at ha
      · rename_i hai; exact absurd ha (hnorel a ta hai)
  · simp only [hw, ↓reduceIte]
    refine ⟨⟨hi.one, hi.taken, ?_⟩, ?_⟩
    · intro a op' t hcl
      simp only [updc] at hcl
      split at hcl
      · simp at hcl
      · rename_i hai
        have := hi.typed a op' t hai hcl
        cases op' <;> simpa [opTyped] using this
    · intro a b ta tb ha hb
      simp only [updc] at ha hb
      split at ha <;> split at hb <;> simp_all
      rename_i hai hbi
      exact hi.rel_unique a b ta tb hai hbi ha hb

/-- changing the shared state without freeing it (or when nobody else depends on it) keeps the invariant of the others -/
theorem mem_change_inv (s : LSys) (i : Nat) (m' : Mem) (hi : LInvX i s)
    (h : m' = s.mem ∨ (m' ≠ .free) ∨ ((∀ j, s.holds j = false) ∧ ∀ a t, a ≠ i → s.cl a ≠ .run .release t)) :
    LInvX i { s with mem := m' } := by
  refine ⟨hi.one, ?_, ?_, hi.rel_unique⟩
  · intro a ha
    rcases h with h | h | h
    · rw [h]; exact hi.taken a ha
    · exact h
    · simp [h.1 a] at ha
  · intro a op t hai hcl
    have ht := hi.typed a op t hai hcl
    cases op with
    | get => exact ht
    | release =>
      simp only [opTyped] at ht ⊢
      refine ⟨ht.1, ht.2.1, ?_⟩
      rcases h with h | h | h
      · rw [h]; exact ht.2.2
      · exact h
      · exact absurd hcl (h.2 a t hai)
    | isLocked => exact ht
    | fail => exact ht
    | isFailed => exact ht

end Jug.Lock

namespace Jug.Lock

theorem lstep_inv2 {progs : Progs} (wt : WellTyped progs = true) (s s' : LSys) (ev : LEv)
    (out : Option (Nat × Op × Res)) (hi : LInv2 s) (hs : lstep progs s ev = some (s', out)) :
    LInv2 s' ∧
    (∀ j, out = some (j, .get, .bool true) → (∀ i, s.holds i = false) ∧ s.mem = .free ∧ s'.holds j = true ∧ s'.mem = .locked) ∧
    (∀ j r, out = some (j, .get, r) → r ≠ .bool true → s.mem ≠ .free) := by
  cases ev with
  | start i op =>
    simp only [lstep] at hs
    split at hs <;> (try simp at hs)
    rename_i hidle
    obtain ⟨hall, hs⟩ := hs
    obtain ⟨hi1, hmem1, hcl1, hrel1, hfail1, hsame1⟩ := start_inv s i op hi hidle hall
    have htyped : opTyped (startState s i op) i op (progs op) := by
      cases op with
      | get => exact ⟨wt_get wt, wt_total wt⟩
      | release => exact ⟨wt_release wt, (hrel1 rfl).1, by rw [hmem1]; exact (hrel1 rfl).2.1⟩
      | isLocked => exact wt_isLocked wt
      | fail => exact ⟨wt_fail wt, hfail1 rfl⟩
      | isFailed => exact wt_isFailed wt
    cases hp : progs op with
    | ret r =>
      rw [hp] at hs
      have hnotget : op ≠ .get := by
        intro hop; subst hop
        have := wt_get wt; rw [hp] at this; simp [getOK] at this
      have hinv := advance_leaf_inv (startState s i op) i op r (hi1.toX i) (fun h => absurd h hnotget)
      simp only [advance, Prod.mk.injEq] at hs hinv
      obtain ⟨rfl, rfl⟩ := hs
      refine ⟨hinv, ?_, ?_⟩
      · intro j ho; simp only [Option.some.injEq, Prod.mk.injEq] at ho; exact absurd ho.2.1 hnotget
      · intro j r' ho; simp only [Option.some.injEq, Prod.mk.injEq] at ho; exact absurd ho.2.1 hnotget
    | prim p next =>
      rw [hp] at hs htyped
      have hinv := advance_prim_inv (startState s i op) i op p next (hi1.toX i)
        (fun hop a t _ => by rw [hcl1]; exact (hrel1 hop).2.2 a t) htyped
      simp only [advance, Prod.mk.injEq] at hs hinv
      obtain ⟨rfl, rfl⟩ := hs
      exact ⟨hinv, by simp, by simp⟩
  | step i =>
    simp only [lstep] at hs
    split at hs <;> (try simp at hs)
    rename_i op p next hcl
    have ht := hi.typed i op _ hcl
    have hX := hi.toX i
    -- nobody else is in the middle of release when `i` is
    have hrelU : op = .release → ∀ a t, a ≠ i → s.cl a ≠ .run .release t := by
      intro hop a t hai hcla; subst hop
      exact hai (hi.rel_unique a i t _ hcla hcl)
    generalize hm' : (sem p s.mem).2 = m' at hs
    generalize ha' : (sem p s.mem).1 = a' at hs
    -- the state after the primitive, seen by the other clients
    have hmemX : LInvX i { s with mem := m' } := by
      apply mem_change_inv s i m' hX
      cases op with
      | get =>
        simp only [opTyped, getOK, Bool.and_eq_true, Bool.or_eq_true] at ht
        replace ht := ht.1
        rcases ht.1 with hr | hacq
        · left; rw [← hm']; exact sem_readOnly p s.mem hr
        · by_cases hm : s.mem = .free
          · right; left; rw [← hm', hm, (sem_acquire_free p hacq).2]; simp
          · left; rw [← hm']; exact (sem_acquire_taken p s.mem hacq hm).1
      | release =>
        simp only [opTyped, releaseOK] at ht
        by_cases hf : freeing p = true
        · right; right; exact ⟨ht.2.1, hrelU rfl⟩
        · left
          simp only [hf, Bool.false_eq_true, ↓reduceIte, Bool.and_eq_true] at ht
          rw [← hm']; exact sem_readOnly p s.mem ht.1.1
      | isLocked =>
        simp only [opTyped, primsAll, Bool.and_eq_true] at ht
        left; rw [← hm']; exact sem_readOnly p s.mem ht.1
      | fail =>
        simp only [opTyped, primsAll, Bool.and_eq_true, Bool.or_eq_true] at ht
        rcases ht.1.1 with hr | hmk
        · left; rw [← hm']; exact sem_readOnly p s.mem hr
        · right; left; rw [← hm']; exact sem_marking p s.mem hmk (hi.taken i ht.2)
      | isFailed =>
        simp only [opTyped, primsAll, Bool.and_eq_true] at ht
        left; rw [← hm']; exact sem_readOnly p s.mem ht.1
    cases hlk : lookup a' next with
    | none =>
      rw [hlk] at hs
      simp only [Option.some.injEq, Prod.mk.injEq] at hs
      obtain ⟨rfl, rfl⟩ := hs
      have := advance_leaf_inv { s with mem := m' } i op .raised hmemX (fun _ h => by simp at h)
      simp only [advance] at this
      refine ⟨this, by simp, ?_⟩
      intro j r ho _
      simp only [Option.some.injEq, Prod.mk.injEq] at ho
      obtain ⟨rfl, rfl, rfl⟩ := ho
      -- a `get` tree is total: every answer has a branch
      exfalso
      simp only [opTyped, total, Bool.and_eq_true, List.all_eq_true] at ht
      have hans : a' ∈ answersOf p := by
        rw [← ha']; simp only [answersOf]
        cases hm : s.mem <;> simp
      have := ht.2.1 a' hans
      rw [hlk] at this; simp at this
    | some t =>
      rw [hlk] at hs
      simp only [Option.some.injEq] at hs
      have hmemb := lookup_mem hlk
      cases t with
      | ret r =>
        -- the operation completes
        have hwin : op = .get → r = .bool true →
            (∀ j, s.holds j = false) ∧ s.mem = .free ∧ m' = .locked ∧ ∀ a t, a ≠ i → s.cl a ≠ .run .release t := by
          intro hop hr; subst hop hr
          simp only [opTyped, getOK, Bool.and_eq_true, Bool.or_eq_true] at ht
          replace ht := ht.1
          have hb := getBranchesOK_mem ht.2 hmemb
          simp only [getBranchOK, leafOK] at hb
          have hsucc : acquireSuccess p a' = true := by
            by_cases h : acquireSuccess p a' = true
            · exact h
            · simp [h] at hb
          have hacq := acquireSuccess_acquiring p a' hsucc
          have hfree : s.mem = .free := by
            by_cases hm : s.mem = .free
            · exact hm
            · have := (sem_acquire_taken p s.mem hacq hm).2
              rw [ha'] at this; simp [this] at hsucc
          refine ⟨?_, hfree, ?_, ?_⟩
          · intro j
            cases hj : s.holds j with
            | false => rfl
            | true => exact absurd hfree (hi.taken j hj)
          · rw [← hm', hfree]; exact (sem_acquire_free p hacq).2
          · intro a t hai hcla
            have := hi.typed a .release t hcla
            simp only [opTyped] at this
            exact this.2.2 hfree
        have hinv := advance_leaf_inv { s with mem := m' } i op r hmemX (by
          intro hop hr
          obtain ⟨h1, h2, h3, h4⟩ := hwin hop hr
          exact ⟨h1, by simp [h3], h4⟩)
        simp only [advance, Prod.mk.injEq] at hs hinv
        obtain ⟨rfl, rfl⟩ := hs
        refine ⟨hinv, ?_, ?_⟩
        · intro j ho
          simp only [Option.some.injEq, Prod.mk.injEq] at ho
          obtain ⟨rfl, rfl, rfl⟩ := ho
          obtain ⟨h1, h2, h3, h4⟩ := hwin rfl rfl
          exact ⟨h1, h2, by simp [finish, updc], by simp [finish, h3]⟩
        · intro j r' ho hnt
          simp only [Option.some.injEq, Prod.mk.injEq] at ho
          obtain ⟨rfl, rfl, rfl⟩ := ho
          simp only [opTyped, getOK, Bool.and_eq_true, Bool.or_eq_true] at ht
          replace ht := ht.1
          have hb := getBranchesOK_mem ht.2 hmemb
          simp only [getBranchOK, leafOK] at hb
          by_cases hsucc : acquireSuccess p a' = true
          · simp [hsucc] at hb; exact absurd hb hnt
          · simp only [hsucc, Bool.false_eq_true, ↓reduceIte, Bool.and_eq_true] at hb
            rw [← ha'] at hb
            exact impliesTaken_sound p s.mem hb.2
      | prim q n =>
        -- the operation continues
        have htc : opTyped { s with mem := m' } i op (.prim q n) := by
          cases op with
          | get =>
            simp only [opTyped, getOK, total, Bool.and_eq_true, Bool.or_eq_true] at ht
            have hb := getBranchesOK_mem ht.1.2 hmemb
            simp only [getBranchOK] at hb
            exact ⟨hb.2, totalL_mem ht.2.2 hmemb⟩
          | release =>
            simp only [opTyped, releaseOK] at ht
            by_cases hf : freeing p = true
            · simp only [hf, ↓reduceIte] at ht
              obtain ⟨r, hr⟩ := leavesOnly_mem ht.1 hmemb
              simp at hr
            · simp only [hf, Bool.false_eq_true, ↓reduceIte, Bool.and_eq_true] at ht
              refine ⟨releaseOKL_mem ht.1.2 hmemb, ht.2.1, ?_⟩
              have : m' = s.mem := by rw [← hm']; exact sem_readOnly p s.mem ht.1.1
              simp only [this]; exact ht.2.2
          | isLocked =>
            simp only [opTyped, primsAll, Bool.and_eq_true] at ht
            exact primsAllL_mem ht.2 hmemb
          | fail =>
            simp only [opTyped, primsAll, Bool.and_eq_true] at ht
            exact ⟨primsAllL_mem ht.1.2 hmemb, ht.2⟩
          | isFailed =>
            simp only [opTyped, primsAll, Bool.and_eq_true] at ht
            exact primsAllL_mem ht.2 hmemb
        have hinv := advance_prim_inv { s with mem := m' } i op q n hmemX (fun hop a t hai => hrelU hop a t hai) htc
        simp only [advance, Prod.mk.injEq] at hs hinv
        obtain ⟨rfl, rfl⟩ := hs
        exact ⟨hinv, by simp, by simp⟩

end Jug.Lock
