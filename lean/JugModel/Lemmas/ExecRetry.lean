import JugModel.Lemmas.ExecOnce
/-!
At most once, in general: a task is started again only after an attempt was *interrupted* - its function raised, or the
worker running it was asked to stop or was killed before the result was stored. For arbitrary histories (failures, stops,
crashes, lock clean-up, any number of workers): `runs t ≤ 1 + interruptions of t`.
-/
set_option linter.unusedVariables false
namespace Jug.Exec
variable {V : Type} [DecidableEq V]

/-- does event `e`, happening in state `s`, interrupt an attempt at `t` (started, result not yet stored)? -/
def interrupts (s : Sys V) (e : Ev V) (t : Task) : Bool :=
  match e with
  | .endExc _ t' => t' == t
  | .stop w _ => isActive (s.wk w) == some t
  | .crash w => isActive (s.wk w) == some t
  | _ => false

/-- number of interruptions of `t` along a history -/
def interruptions (P : Prog V) (fl : Worker → Flags) : Sys V → List (Ev V) → Task → Nat
  | _, [], _ => 0
  | s, e :: es, t =>
      (if interrupts s e t then 1 else 0) +
        (match accept P fl s e with
         | some s1 => interruptions P fl s1 es t
         | none => 0)

/-- an attempt at `t` is in progress or has succeeded -/
def Attempted (s : Sys V) (t : Task) : Prop := s.res t ≠ none ∨ ∃ w, isActive (s.wk w) = some t

/-- an attempt survives every event that is not an interruption of it -/
theorem active_next_gen (P : Prog V) (fl : Worker → Flags) {s s' : Sys V} {e : Ev V}
    (hs : accept P fl s e = some s') (w : Worker) (t : Task) (ha : isActive (s.wk w) = some t)
    (hni : interrupts s e t = false) : isActive (s'.wk w) = some t ∨ s'.res t ≠ none := by
  cases e <;> simp only [accept] at hs <;> (repeat' split at hs) <;> simp_all [interrupts] <;> (try subst_vars) <;>
    (try simp only [upd]) <;> grind [isActive]

theorem attempted_next (P : Prog V) (fl : Worker → Flags) {s s' : Sys V} {e : Ev V}
    (hs : accept P fl s e = some s') (t : Task) (ha : Attempted s t) (hni : interrupts s e t = false) : Attempted s' t := by
  rcases ha with h | ⟨w, hw⟩
  · exact Or.inl (res_mono P fl hs t h)
  · rcases active_next_gen P fl hs w t hw hni with h | h
    · exact Or.inr ⟨w, h⟩
    · exact Or.inl h

/-- when `begin` is enabled for `t`, no attempt at `t` is in progress or has succeeded -/
theorem not_attempted_at_begin {s : Sys V} (h : Inv s) {w : Worker} {t : Task} (hwk : s.wk w = .holding t true) :
    ¬ Attempted s t := by
  rintro (hr | ⟨w', hw'⟩)
  · exact hr (h.nores w t (by simp [hwk, noRes]))
  · have a := h.lock_cs w' t (noRes_cs (isActive_noRes hw'))
    have b := h.lock_cs w t (by simp [hwk, csTask])
    rw [a] at b; injection b with hww; subst hww; simp [hwk, isActive] at hw'

/-- the counting invariant: `runs t ≤ k`, or one more with an attempt in progress / succeeded -/
def Counted (s : Sys V) (t : Task) (k : Nat) : Prop := s.runs t ≤ k ∨ (s.runs t ≤ k + 1 ∧ Attempted s t)

theorem counted_step (P : Prog V) (fl : Worker → Flags) {s s' : Sys V} {e : Ev V} (hi : Inv s)
    (hs : accept P fl s e = some s') (t : Task) (k : Nat) (hc : Counted s t k) :
    Counted s' t (k + (if interrupts s e t then 1 else 0)) := by
  rcases runs_of_accept P fl hs t with hr | ⟨w, he, hwk, hr, hw'⟩
  · -- not a `begin` of `t`
    by_cases hint : interrupts s e t = true
    · simp only [hint, if_true]
      left
      rcases hc with h | ⟨h, _⟩ <;> omega
    · have hint' : interrupts s e t = false := by simpa using hint
      simp only [hint', Bool.false_eq_true, if_false, Nat.add_zero]
      rcases hc with h | ⟨h, ha⟩
      · left; omega
      · right; exact ⟨by omega, attempted_next P fl hs t ha hint'⟩
  · -- `begin w t`: no attempt was pending, so the count was at most `k`
    subst he
    have hna := not_attempted_at_begin hi hwk
    have hk : s.runs t ≤ k := by
      rcases hc with h | ⟨_, ha⟩
      · exact h
      · exact absurd ha hna
    have hni : interrupts s (.begin_ w t) t = false := by simp [interrupts]
    simp only [hni, Bool.false_eq_true, if_false, Nat.add_zero]
    right
    exact ⟨by omega, Or.inr ⟨w, by simp [hw', isActive]⟩⟩

/-- along any history -/
theorem counted_steps (P : Prog V) (fl : Worker → Flags) (t : Task) (evs : List (Ev V)) :
    ∀ (s s' : Sys V) (k : Nat), Inv s → Steps P fl s evs s' → Counted s t k → Counted s' t (k + interruptions P fl s evs t) := by
  induction evs with
  | nil => intro s s' k _ hs hc; simp only [Steps] at hs; subst hs; simpa [interruptions] using hc
  | cons e es ih =>
    intro s s' k hi hs hc
    simp only [Steps] at hs
    obtain ⟨hl, s1, ha, hr⟩ := hs
    have h1 := counted_step P fl hi ha t k hc
    have h2 := ih s1 s' _ (accept_inv P fl s s1 e hi hl ha) hr h1
    simp only [interruptions, ha]
    have : k + ((if interrupts s e t = true then 1 else 0) + interruptions P fl s1 es t) =
        k + (if interrupts s e t = true then 1 else 0) + interruptions P fl s1 es t := by omega
    rw [this]; exact h2

end Jug.Exec
