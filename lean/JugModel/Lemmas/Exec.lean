import JugModel.Model.Exec
/-! Invariants of the execution protocol (layer A) and their preservation. -/
set_option linter.unusedVariables false
namespace Jug.Exec

variable {V : Type} [DecidableEq V]

/-- worker states that imply "the task has no stored result" (they were entered after a negative re-check
    under the lock, and nobody else can store while the lock is held) -/
def noRes : WSt V → Option Task
  | .holding t true => some t
  | .running t => some t
  | .ran t _ false => some t
  | .failedTask t => some t
  | _ => none

theorem noRes_cs {x : WSt V} {t : Task} (h : noRes x = some t) : csTask x = some t := by
  cases x <;> simp_all [noRes, csTask] <;> (split at h <;> simp_all)

structure Inv (s : Sys V) : Prop where
  lock_cs : ∀ w t, csTask (s.wk w) = some t → s.lock t = .held w
  held_cs : ∀ w t, s.lock t = .held w → csTask (s.wk w) = some t ∨ s.wk w = .crashed
  nores : ∀ w t, noRes (s.wk w) = some t → s.res t = none
  stored : ∀ w t v, s.wk w = .ran t v true → s.res t = some v

/-- mutual exclusion of critical sections follows from the invariant -/
theorem mutex_of_inv {s : Sys V} (h : Inv s) (w1 w2 : Worker) (t : Task)
    (h1 : csTask (s.wk w1) = some t) (h2 : csTask (s.wk w2) = some t) : w1 = w2 := by
  have a := h.lock_cs w1 t h1
  have b := h.lock_cs w2 t h2
  rw [a] at b; injection b

theorem accept_inv (P : Prog V) (fl : Worker → Flags) (s s' : Sys V) (e : Ev V) (h : Inv s) (hl : Legal s e)
    (hs : accept P fl s e = some s') : Inv s' := by
  obtain ⟨h1, h2, h3, h4⟩ := h
  cases e <;> simp only [accept] at hs <;> (repeat' split at hs) <;> simp_all <;>
    (try subst_vars) <;>
    constructor <;> intros <;> (try simp only [upd] at *) <;> grind [csTask, noRes, noRes_cs, Legal]

end Jug.Exec

namespace Jug.Exec
variable {V : Type} [DecidableEq V]

/-- a history: every event is accepted, operator actions respect their side condition -/
def Steps (P : Prog V) (fl : Worker → Flags) : Sys V → List (Ev V) → Sys V → Prop
  | s, [], s' => s = s'
  | s, e :: es, s' => Legal s e ∧ ∃ s1, accept P fl s e = some s1 ∧ Steps P fl s1 es s'

theorem steps_inv (P : Prog V) (fl : Worker → Flags) (evs : List (Ev V)) (s s' : Sys V) (h : Inv s)
    (hs : Steps P fl s evs s') : Inv s' := by
  induction evs generalizing s with
  | nil => simp only [Steps] at hs; subst hs; exact h
  | cons e es ih =>
    simp only [Steps] at hs
    obtain ⟨hl, s1, ha, hr⟩ := hs
    exact ih s1 (accept_inv P fl s s1 e h hl ha) hr

/-- the initial state: empty or partially filled store, all locks free, every worker idle -/
def initSys (res : Task → Option V) : Sys V :=
  { res := res, lock := fun _ => .free, wk := fun _ => .idle, failures := fun _ => false, runs := fun _ => 0 }

theorem inv_init (res : Task → Option V) : Inv (initSys res) := by
  constructor <;> intros <;> simp_all [initSys, csTask, noRes]

/-! ### reference semantics -/

/-- well-formed program: dependencies were created earlier, the function reads only its dependencies -/
structure WF (P : Prog V) : Prop where
  lt : ∀ (t d : Nat), d ∈ P.deps t → Nat.lt d t
  loc : ∀ t (e1 e2 : Task → Option V), (∀ d ∈ P.deps t, e1 d = e2 d) → P.f t e1 = P.f t e2

/-- sequential evaluation with fuel -/
def denotF (P : Prog V) : Nat → Task → V
  | 0, t => P.f t (fun _ => none)
  | n + 1, t => P.f t (fun d => some (denotF P n d))

/-- the value plain sequential Python computes for task `t` -/
def denot (P : Prog V) (t : Task) : V := denotF P t t

theorem denotF_stable (P : Prog V) (wf : WF P) : ∀ n t, t ≤ n → denotF P n t = denotF P t t := by
  intro n
  induction n using Nat.strongRecOn with
  | _ n ih =>
    intro t ht
    rcases Nat.lt_or_ge t n with hlt | hge
    · -- t < n
      cases n with
      | zero => exact absurd hlt (Nat.not_lt_zero _)
      | succ m =>
        cases t with
        | zero =>
          simp only [denotF]
          apply wf.loc
          intro d hd; exact absurd (wf.lt 0 d hd) (Nat.not_lt_zero _)
        | succ k =>
          simp only [denotF]
          apply wf.loc
          intro d hd
          have hdk : d < k + 1 := wf.lt (k + 1) d hd
          have hkm : k < m := Nat.lt_of_succ_lt_succ hlt
          have hdk2 : d ≤ k := Nat.le_of_lt_succ hdk
          have hdm : d ≤ m := Nat.le_trans hdk2 (Nat.le_of_lt hkm)
          have hdk' : d ≤ k := hdk2
          have e1 := ih m (Nat.lt_succ_self m) d hdm
          have e2 := ih k (Nat.lt_succ_of_lt hkm) d hdk'
          show some (denotF P m d) = some (denotF P k d)
          rw [e1, e2]
    · have : t = n := by omega
      subst this; rfl

theorem denot_eq (P : Prog V) (wf : WF P) (t : Task) : denot P t = P.f t (fun d => some (denot P d)) := by
  unfold denot
  cases t with
  | zero =>
    simp only [denotF]; apply wf.loc; intro d hd; exact absurd (wf.lt 0 d hd) (Nat.not_lt_zero _)
  | succ k =>
    simp only [denotF]; apply wf.loc; intro d hd
    have hdk : d < k + 1 := wf.lt (k + 1) d hd
    show some (denotF P k d) = some (denotF P d d)
    rw [denotF_stable P wf k d (Nat.le_of_lt_succ hdk)]

/-- every stored result is the reference value -/
def Sound (P : Prog V) (s : Sys V) : Prop := ∀ t v, s.res t = some v → v = denot P t

structure InvV (P : Prog V) (s : Sys V) : Prop extends Inv s where
  sound : Sound P s
  running_deps : ∀ w t, s.wk w = .running t → depsDone P s t = true
  ran_val : ∀ w t v b, s.wk w = .ran t v b → v = denot P t

theorem f_of_sound (P : Prog V) (wf : WF P) (s : Sys V) (hs : Sound P s) (t : Task) (hd : depsDone P s t = true) :
    P.f t s.res = denot P t := by
  rw [denot_eq P wf t]
  apply wf.loc
  intro d hdm
  simp only [depsDone, List.all_eq_true] at hd
  have := hd d hdm
  cases hr : s.res d with
  | none => simp [hr] at this
  | some v => rw [hs d v hr]

omit [DecidableEq V] in
theorem depsDone_upd (P : Prog V) (s : Sys V) (t t' : Task) (v : V) (h : depsDone P s t = true) :
    depsDone P { s with res := upd s.res t' (some v) } t = true := by
  simp only [depsDone, List.all_eq_true] at h ⊢
  intro d hd
  have := h d hd
  simp only [upd]
  split <;> simp_all

end Jug.Exec
