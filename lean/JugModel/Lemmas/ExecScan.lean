import JugModel.Lemmas.ExecOnce
import JugModel.Model.ExecScan
/-!
Completeness of failure-free runs: the joint invariant of the protocol state and the scan ghost.

For every task `t < n`, at every moment of a clean history, one of
* `t` has a result,
* a (scan-)dependency of `t` has no result yet,
* some participating worker (index `< W`) that has not left with status 0 is inside a critical section, or has not yet
  accounted for `t` since it last left one.
When every participating worker has left with status 0 the third alternative is gone, and well-foundedness of the
dependency relation gives: every task has a result.
-/
set_option linter.unusedVariables false
namespace Jug.Exec
variable {V : Type} [DecidableEq V]

def busy (x : WSt V) : Bool := (csTask x).isSome

structure CInv (n W : Nat) (sdeps : Task → List Task) (s : Sys V) (sc : Scan) : Prop where
  inv : Inv s
  nofailL : ∀ t w, s.lock t ≠ .failed w
  nocrash : ∀ w, s.wk w ≠ .crashed
  nofailT : ∀ w t, s.wk w ≠ .failedTask t
  nostop : ∀ w o k, s.wk w ≠ .stopping o k
  outside : ∀ w, W ≤ w → s.wk w = .idle
  hd : ∀ w t, s.wk w = .holdingDone t → s.res t ≠ none
  dn : ∀ w t, sc.done w t = true → s.res t ≠ none ∨ ∃ w', csTask (s.wk w') = some t
  cov : ∀ t, t < n → s.res t ≠ none ∨ (∃ d, d ∈ sdeps t ∧ s.res d = none) ∨
          ∃ w, w < W ∧ s.wk w ≠ .exited 0 ∧ (busy (s.wk w) = true ∨ sc.flagged w t = false)

/-! ### how one clean accepted event changes things -/

/-- the simple clean-history facts are preserved -/
theorem clean_simple (P : Prog V) (fl : Worker → Flags) {s s' : Sys V} {e : Ev V} (hc : Clean e)
    (hs : accept P fl s e = some s')
    (h1 : ∀ t w, s.lock t ≠ .failed w) (h2 : ∀ w, s.wk w ≠ .crashed) (h3 : ∀ w t, s.wk w ≠ .failedTask t)
    (h4 : ∀ w o k, s.wk w ≠ .stopping o k) :
    (∀ t w, s'.lock t ≠ .failed w) ∧ (∀ w, s'.wk w ≠ .crashed) ∧ (∀ w t, s'.wk w ≠ .failedTask t) ∧
    (∀ w o k, s'.wk w ≠ .stopping o k) := by
  cases e <;> simp only [accept] at hs <;> (repeat' split at hs) <;> simp_all [Clean] <;> (try subst_vars) <;>
    (refine ⟨?_, ?_, ?_, ?_⟩) <;> intros <;> (try simp only [upd]) <;> grind

/-- a worker inside a critical section stays there, or leaves it by `unlock` with the result in the store -/
theorem busy_step (P : Prog V) (fl : Worker → Flags) {s s' : Sys V} {e : Ev V} (hc : Clean e)
    (hs : accept P fl s e = some s') (hi : Inv s) (hhd : ∀ w t, s.wk w = .holdingDone t → s.res t ≠ none)
    (h3 : ∀ w t, s.wk w ≠ .failedTask t) (h4 : ∀ w o k, s.wk w ≠ .stopping o k)
    (w : Worker) (t : Task) (hb : csTask (s.wk w) = some t) :
    csTask (s'.wk w) = some t ∨ (s'.res t ≠ none ∧ e = .unlock w t ∧ s'.wk w = .idle) := by
  have hst := hi.stored
  cases e <;> simp only [accept] at hs <;> (repeat' split at hs) <;> simp_all [Clean] <;> (try subst_vars) <;>
    (try simp only [upd]) <;> grind [csTask]

/-- the only way into `exited c` is the `exit` event -/
theorem exited_origin (P : Prog V) (fl : Worker → Flags) {s s' : Sys V} {e : Ev V}
    (hs : accept P fl s e = some s') (w : Worker) (c : Nat) (h : s'.wk w = .exited c) :
    s.wk w = .exited c ∨ e = .exit w c := by
  cases e <;> simp only [accept] at hs <;> (repeat' split at hs) <;> simp_all <;> (try subst_vars) <;>
    (try simp only [upd] at h) <;> (try (split at h)) <;> (try simp_all) <;> grind

/-- scan flags of workers other than the event's worker are untouched -/
theorem scan_frame (sdeps : Task → List Task) (sc : Scan) (e : Ev V) (w : Worker) (hw : evWorker e ≠ some w) :
    (scanStep sdeps sc e).done w = sc.done w ∧ (scanStep sdeps sc e).stuck w = sc.stuck w := by
  cases e <;> simp_all [evWorker, scanStep, Scan.setDone] <;> (try (rename_i b; cases b <;> simp_all [scanStep, Scan.setDone])) <;>
    (try (constructor <;> funext t' <;> simp_all)) <;> grind

/-- a new `done` flag is justified in the new state -/
theorem done_step (P : Prog V) (fl : Worker → Flags) (sdeps : Task → List Task) {s s' : Sys V} {e : Ev V} (sc : Scan)
    (hc : Clean e) (hs : accept P fl s e = some s') (hi : Inv s) (h1 : ∀ t w, s.lock t ≠ .failed w)
    (h2 : ∀ w, s.wk w ≠ .crashed)
    (w : Worker) (t : Task) (hd : (scanStep sdeps sc e).done w t = true) :
    sc.done w t = true ∨ s'.res t ≠ none ∨ ∃ w', csTask (s'.wk w') = some t := by
  cases e with
  | canLoad w0 t0 b =>
    cases b
    · left; simpa [scanStep] using hd
    · simp only [scanStep, Scan.setDone] at hd
      split at hd
      · rename_i hwt
        obtain ⟨rfl, rfl⟩ := hwt
        right; left
        simp only [accept] at hs
        split at hs
        · simp at hs
        · rename_i hb
          have hres : s'.res = s.res := by
            (repeat' split at hs) <;> simp_all <;> (try subst_vars) <;> rfl
          rw [hres]
          intro hn; simp [hn] at hb
      · left; exact hd
  | load w0 t0 v =>
    simp only [scanStep, Scan.setDone] at hd
    split at hd
    · rename_i hwt
      obtain ⟨rfl, rfl⟩ := hwt
      right; left
      simp only [accept] at hs
      (repeat' split at hs) <;> simp_all <;> (try subst_vars) <;> simp_all
    · left; exact hd
  | lock w0 t0 b =>
    cases b
    · simp only [scanStep, Scan.setDone] at hd
      split at hd
      · rename_i hwt
        obtain ⟨rfl, rfl⟩ := hwt
        right; right
        simp only [accept] at hs
        split at hs
        · split at hs
          · simp at hs
          · rename_i hb
            simp at hs
            subst hs
            -- the lock is not free: it is held by a live worker inside the critical section of `t`
            have hnf : s.lock t ≠ .free := by
              intro hf; simp [hf] at hb
            cases hl : s.lock t with
            | free => exact absurd hl hnf
            | failed w' => exact absurd hl (h1 t w')
            | held w' =>
              rcases hi.held_cs w' t hl with h | h
              · exact ⟨w', h⟩
              · exact absurd h (h2 w')
        · simp at hs
      · left; exact hd
    · left; simpa [scanStep] using hd
  | dump w0 t0 v =>
    simp only [scanStep, Scan.setDone] at hd
    split at hd
    · rename_i hwt
      obtain ⟨rfl, rfl⟩ := hwt
      right; left
      simp only [accept] at hs
      (repeat' split at hs) <;> simp_all <;> (try subst_vars) <;> simp [upd]
    · left; exact hd
  | stop w0 k => simp [Clean] at hc
  | begin_ w0 t0 => left; simpa [scanStep] using hd
  | endOk w0 t0 v => left; simpa [scanStep] using hd
  | endExc w0 t0 => left; simpa [scanStep] using hd
  | unlock w0 t0 => left; simpa [scanStep] using hd
  | markFailed w0 t0 => left; simpa [scanStep] using hd
  | exit w0 c => left; simpa [scanStep] using hd
  | crash w0 => left; simpa [scanStep] using hd
  | removeLocks => left; simpa [scanStep] using hd
  | removeFailedLocks => left; simpa [scanStep] using hd

/-- `holdingDone t` is entered only after the result was seen, and results are never removed -/
theorem hd_step (P : Prog V) (fl : Worker → Flags) {s s' : Sys V} {e : Ev V}
    (hs : accept P fl s e = some s') (hhd : ∀ w t, s.wk w = .holdingDone t → s.res t ≠ none)
    (w : Worker) (t : Task) (h : s'.wk w = .holdingDone t) : s'.res t ≠ none := by
  have hm := fun (t : Task) (h : s.res t ≠ none) => res_mono P fl hs t h
  have key : s.wk w = .holdingDone t ∨ s.res t ≠ none := by
    cases e <;> simp only [accept] at hs <;> (repeat' split at hs) <;> simp_all <;> (try subst_vars) <;>
      (try simp only [upd] at h) <;> (try (split at h)) <;> (try simp_all) <;> grind
  rcases key with h1 | h1
  · exact hm t (hhd w t h1)
  · exact hm t h1

/-- what the event's own worker `w` can do to a task it has not accounted for -/
theorem flag_step (P : Prog V) (fl : Worker → Flags) (sdeps : Task → List Task) (n : Nat) {s s' : Sys V} {e : Ev V} (sc : Scan)
    (hc : Clean e) (hs : accept P fl s e = some s') (hg : scanGuard n sc e = true)
    (hi : Inv s) (h1 : ∀ t w, s.lock t ≠ .failed w) (h2 : ∀ w, s.wk w ≠ .crashed) (h3 : ∀ w t, s.wk w ≠ .failedTask t)
    (w : Worker) (hw : evWorker e = some w) (t : Task) (ht : t < n) (hne : s.wk w ≠ .exited 0)
    (hf : sc.flagged w t = false) :
    ((scanStep sdeps sc e).flagged w t = false ∧ s'.wk w ≠ .exited 0) ∨ busy (s'.wk w) = true ∨ s'.res t ≠ none ∨
      (∃ d, d ∈ sdeps t ∧ s'.res d = none) ∨ (∃ w', csTask (s'.wk w') = some t) := by
  have hf' : sc.done w t = false ∧ sc.stuck w t = false := by
    simpa [Scan.flagged] using hf
  cases e with
  | canLoad w0 t0 b =>
    simp only [evWorker, Option.some.injEq] at hw; subst hw
    have hx : s'.wk w0 ≠ .exited 0 := by
      intro hx
      rcases exited_origin P fl hs w0 0 hx with h | h
      · exact hne h
      · simp at h
    have hr : s'.res = s.res := by
      rcases res_of_accept P fl s s' _ hs with h | ⟨_, _, _, h, _⟩
      · exact h
      · simp at h
    have hb : b = (s.res t0).isSome := by
      simp only [accept] at hs
      split at hs
      · simp at hs
      · rename_i hb; simpa using hb
    cases b
    · by_cases hm : (sdeps t).contains t0 = true
      · right; right; right; left
        refine ⟨t0, by simpa using hm, ?_⟩
        rw [hr]
        cases hrt : s.res t0 with
        | none => rfl
        | some v => rw [hrt] at hb; simp at hb
      · left
        refine ⟨?_, hx⟩
        have hm' : (sdeps t).contains t0 = false := by simpa using hm
        have hm2 : ¬ t0 ∈ sdeps t := by simpa using hm
        simp [Scan.flagged, scanStep, hf'.1, hf'.2, hm2]
    · by_cases htt : t0 = t
      · subst htt
        right; right; left
        rw [hr]
        cases hrt : s.res t0 with
        | none => rw [hrt] at hb; simp at hb
        | some v => simp
      · left
        refine ⟨?_, hx⟩
        have : ¬ t = t0 := fun h => htt h.symm
        simp only [Scan.flagged, scanStep, Scan.setDone, hf'.1, hf'.2, this, and_false, if_false, Bool.or_false]
  | load w0 t0 v =>
    simp only [evWorker, Option.some.injEq] at hw; subst hw
    have hres : s' = s ∧ s.res t0 = some v := by
      simp only [accept] at hs
      (repeat' split at hs) <;> simp_all
    obtain ⟨rfl, hr⟩ := hres
    by_cases htt : t0 = t
    · subst htt; right; right; left; simp [hr]
    · left
      have : ¬ t = t0 := fun h => htt h.symm
      exact ⟨by simp [Scan.flagged, scanStep, Scan.setDone, hf'.1, hf'.2, this], hne⟩
  | lock w0 t0 b =>
    simp only [evWorker, Option.some.injEq] at hw; subst hw
    cases b
    · have hres : s' = s ∧ s.lock t0 ≠ .free := by
        simp only [accept] at hs
        (repeat' split at hs) <;> simp_all
      obtain ⟨rfl, hl⟩ := hres
      by_cases htt : t0 = t
      · subst htt
        right; right; right; right
        cases hlk : s'.lock t0 with
        | free => exact absurd hlk hl
        | failed w' => exact absurd hlk (h1 t0 w')
        | held w' =>
          rcases hi.held_cs w' t0 hlk with h | h
          · exact ⟨w', h⟩
          · exact absurd h (h2 w')
      · left
        have : ¬ t = t0 := fun h => htt h.symm
        exact ⟨by simp [Scan.flagged, scanStep, Scan.setDone, hf'.1, hf'.2, this], hne⟩
    · right; left
      simp only [accept] at hs
      (repeat' split at hs) <;> simp_all <;> (try subst_vars) <;> simp [upd, busy, csTask]
  | begin_ w0 t0 =>
    simp only [evWorker, Option.some.injEq] at hw; subst hw
    right; left
    simp only [accept] at hs
    (repeat' split at hs) <;> simp_all <;> (try subst_vars) <;> simp [upd, busy, csTask]
  | endOk w0 t0 v =>
    simp only [evWorker, Option.some.injEq] at hw; subst hw
    right; left
    simp only [accept] at hs
    (repeat' split at hs) <;> simp_all <;> (try subst_vars) <;> simp [upd, busy, csTask]
  | dump w0 t0 v =>
    simp only [evWorker, Option.some.injEq] at hw; subst hw
    right; left
    simp only [accept] at hs
    (repeat' split at hs) <;> simp_all <;> (try subst_vars) <;> simp [upd, busy, csTask]
  | unlock w0 t0 =>
    simp only [evWorker, Option.some.injEq] at hw; subst hw
    left
    refine ⟨by simp [Scan.flagged, scanStep, hf'.1], ?_⟩
    intro hx
    rcases exited_origin P fl hs w0 0 hx with h | h
    · exact hne h
    · simp at h
  | markFailed w0 t0 =>
    simp only [evWorker, Option.some.injEq] at hw; subst hw
    exfalso
    simp only [accept] at hs
    (repeat' split at hs) <;> simp_all
  | exit w0 c =>
    simp only [evWorker, Option.some.injEq] at hw; subst hw
    cases c with
    | zero =>
      exfalso
      simp only [scanGuard, List.all_eq_true, List.mem_range] at hg
      have := hg t ht
      simp [hf] at this
    | succ c =>
      left
      refine ⟨by simpa [scanStep] using hf, ?_⟩
      intro hx
      rcases exited_origin P fl hs w0 0 hx with h | h
      · exact hne h
      · simp at h
  | endExc w0 t0 => simp [Clean] at hc
  | stop w0 k => simp [Clean] at hc
  | crash w0 => simp [Clean] at hc
  | removeLocks => simp [evWorker] at hw
  | removeFailedLocks => simp [evWorker] at hw


theorem busy_lt (W : Nat) {s : Sys V} (ho : ∀ w, W ≤ w → s.wk w = .idle) (w : Worker) (t : Task)
    (h : csTask (s.wk w) = some t) : w < W := by
  rcases Nat.lt_or_ge w W with h1 | h1
  · exact h1
  · rw [ho w h1] at h; simp [csTask] at h

theorem busy_not_exited {x : WSt V} {t : Task} (h : csTask x = some t) : x ≠ .exited 0 ∧ busy x = true := by
  constructor
  · intro hx; rw [hx] at h; simp [csTask] at h
  · simp [busy, h]

/-- **preservation of the completeness invariant** by one clean accepted event of a participating worker whose
    scan obligation holds -/
theorem accept_cinv (P : Prog V) (fl : Worker → Flags) (n W : Nat) (sdeps : Task → List Task) (s s' : Sys V) (sc : Scan) (e : Ev V)
    (h : CInv n W sdeps s sc) (hc : Clean e) (hwW : ∀ w, evWorker e = some w → w < W)
    (hg : scanGuard n sc e = true) (hs : accept P fl s e = some s') : CInv n W sdeps s' (scanStep sdeps sc e) := by
  have hinv' : Inv s' := accept_inv P fl s s' e h.inv (legal_of_clean s e hc) hs
  obtain ⟨c1, c2, c3, c4⟩ := clean_simple P fl hc hs h.nofailL h.nocrash h.nofailT h.nostop
  have hout' : ∀ w, W ≤ w → s'.wk w = .idle := by
    intro w hw
    have : evWorker e ≠ some w := by
      intro he; exact absurd (hwW w he) (Nat.not_lt.mpr hw)
    rw [wk_of_accept P fl s s' e hs w this]; exact h.outside w hw
  have hmono := fun (t : Task) (h : s.res t ≠ none) => res_mono P fl hs t h
  have hbusy := busy_step P fl hc hs h.inv h.hd h.nofailT h.nostop
  refine ⟨hinv', c1, c2, c3, c4, hout', ?_, ?_, ?_⟩
  · exact fun w t hw => hd_step P fl hs h.hd w t hw
  · -- done flags stay justified
    intro w t hd
    rcases done_step P fl sdeps sc hc hs h.inv h.nofailL h.nocrash w t hd with h1 | h1 | h1
    · rcases h.dn w t h1 with h2 | ⟨w', h2⟩
      · left; exact hmono t h2
      · rcases hbusy w' t h2 with h3 | ⟨h3, _, _⟩
        · right; exact ⟨w', h3⟩
        · left; exact h3
    · left; exact h1
    · right; exact h1
  · -- coverage
    intro t ht
    rcases h.cov t ht with hA | ⟨d, hdm, hdn⟩ | ⟨w, hwlt, hwne, hwit⟩
    · left; exact hmono t hA
    · -- a dependency had no result: it still has none, or it has just been stored by a worker that is still busy
      rcases res_of_accept P fl s s' e hs with hr | ⟨w, t', v, he, hwk, hr⟩
      · right; left; exact ⟨d, hdm, by rw [hr]; exact hdn⟩
      · by_cases htd : t' = d
        · subst htd
          right; right
          have hb : csTask (s.wk w) = some t' := by simp [hwk, csTask]
          rcases hbusy w t' hb with h3 | ⟨_, he2, _⟩
          · exact ⟨w, busy_lt W hout' w t' h3, (busy_not_exited h3).1, Or.inl (busy_not_exited h3).2⟩
          · rw [he] at he2; simp at he2
        · right; left
          refine ⟨d, hdm, ?_⟩
          rw [hr]; simp only [upd]
          have : ¬ d = t' := fun h => htd h.symm
          simp [this, hdn]
    · by_cases he : evWorker e = some w
      · rcases hwit with hb | hf
        · -- the witness was busy
          have hb' : ∃ t0, csTask (s.wk w) = some t0 := by
            simp only [busy] at hb
            cases hcs : csTask (s.wk w) with
            | none => simp [hcs] at hb
            | some t0 => exact ⟨t0, rfl⟩
          obtain ⟨t0, hb0⟩ := hb'
          rcases hbusy w t0 hb0 with h3 | ⟨hres0, heq, hidle⟩
          · right; right
            exact ⟨w, hwlt, (busy_not_exited h3).1, Or.inl (busy_not_exited h3).2⟩
          · -- it has just left its critical section: its stuck flags are reset
            subst heq
            cases hdone : sc.done w t with
            | true =>
              rcases h.dn w t hdone with h2 | ⟨w', h2⟩
              · left; exact hmono t h2
              · by_cases hww : w' = w
                · subst hww
                  rw [hb0] at h2; simp only [Option.some.injEq] at h2; subst h2
                  left; exact hres0
                · rcases hbusy w' t h2 with h3 | ⟨h3, _, _⟩
                  · right; right
                    exact ⟨w', busy_lt W hout' w' t h3, (busy_not_exited h3).1, Or.inl (busy_not_exited h3).2⟩
                  · left; exact h3
            | false =>
              right; right
              refine ⟨w, hwlt, by rw [hidle]; simp, Or.inr ?_⟩
              simp [Scan.flagged, scanStep, hdone]
        · rcases flag_step P fl sdeps n sc hc hs hg h.inv h.nofailL h.nocrash h.nofailT w he t ht hwne hf with
            ⟨h1, h2⟩ | h1 | h1 | h1 | ⟨w', h1⟩
          · right; right; exact ⟨w, hwlt, h2, Or.inr h1⟩
          · right; right
            refine ⟨w, hwlt, ?_, Or.inl h1⟩
            intro hx; rw [hx] at h1; simp [busy, csTask] at h1
          · left; exact h1
          · right; left; exact h1
          · right; right
            exact ⟨w', busy_lt W hout' w' t h1, (busy_not_exited h1).1, Or.inl (busy_not_exited h1).2⟩
      · -- the event is by somebody else: the witness is untouched
        right; right
        have hwk := wk_of_accept P fl s s' e hs w he
        have hfr := scan_frame sdeps sc e w he
        refine ⟨w, hwlt, by rw [hwk]; exact hwne, ?_⟩
        rcases hwit with hb | hf
        · left; rw [hwk]; exact hb
        · right
          simp only [Scan.flagged] at hf ⊢
          rw [hfr.1, hfr.2]; exact hf

theorem cinv_init (n W : Nat) (hW : 0 < W) (sdeps : Task → List Task) (res : Task → Option V) :
    CInv n W sdeps (initSys res) Scan.init := by
  refine ⟨inv_init res, ?_, ?_, ?_, ?_, ?_, ?_, ?_, ?_⟩ <;> intros <;> (try simp_all [initSys, Scan.init])
  right; right
  exact ⟨0, hW, by simp [Scan.flagged]⟩

/-- the invariant along a whole clean history -/
theorem cleanSteps_cinv (P : Prog V) (fl : Worker → Flags) (n W : Nat) (sdeps : Task → List Task) (evs : List (Ev V)) :
    ∀ (s s' : Sys V) (sc : Scan), CInv n W sdeps s sc → CleanSteps P fl s evs s' →
      (∀ e ∈ evs, ∀ w, evWorker e = some w → w < W) → scanRun n sdeps sc evs = true → ∃ sc', CInv n W sdeps s' sc' := by
  induction evs with
  | nil => intro s s' sc h hs _ _; simp only [CleanSteps] at hs; subst hs; exact ⟨sc, h⟩
  | cons e es ih =>
    intro s s' sc h hs hw hg
    simp only [CleanSteps] at hs
    obtain ⟨hc, s1, ha, hr⟩ := hs
    simp only [scanRun, Bool.and_eq_true] at hg
    have h1 := accept_cinv P fl n W sdeps s s1 sc e h hc (hw e (by simp)) hg.1 ha
    exact ih s1 s' _ h1 hr (fun e' he' => hw e' (by simp [he'])) hg.2

/-- from the invariant at quiescence to "every task has a result", by well-founded induction over the dependencies -/
theorem complete_of_cinv (n W : Nat) (sdeps : Task → List Task) (hlt : ∀ t d, d ∈ sdeps t → d < t)
    (s : Sys V) (sc : Scan) (h : CInv n W sdeps s sc) (hq : ∀ w, w < W → s.wk w = .exited 0) :
    ∀ t, t < n → s.res t ≠ none := by
  intro t
  induction t using Nat.strongRecOn with
  | _ t ih =>
    intro ht
    rcases h.cov t ht with hA | ⟨d, hdm, hdn⟩ | ⟨w, hwlt, hwne, _⟩
    · exact hA
    · have hdt := hlt t d hdm
      exact absurd hdn (ih d hdt (Nat.lt_trans hdt ht))
    · exact absurd (hq w hwlt) hwne

end Jug.Exec
