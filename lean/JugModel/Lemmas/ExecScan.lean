import JugModel.Lemmas.ExecOnce
import JugModel.Model.ExecScan
/-!
Completeness of runs without stops and crashes - with or without failing tasks: the joint invariant of the protocol state
and the scan ghost.

For every task `t < n`, at every moment of such a history, one of
* `t` has a result,
* a (scan-)dependency of `t` has no result yet,
* the function of `t` has raised at some point,
* some participating worker (index `< W`) that has not left yet is inside a critical section, or has not yet accounted
  for `t` since it last left one.
When every participating worker has left, the last alternative is gone, and well-foundedness of the dependency relation
gives: every task has a result or is *blocked* (it failed, or depends on a blocked task).
Failing tasks are allowed for workers running with --keep-going (the others leave by the exception and are exempt).
-/
set_option linter.unusedVariables false
namespace Jug.Exec
variable {V : Type} [DecidableEq V]

def busy (x : WSt V) : Bool := (csTask x).isSome

/-- events of histories without stop requests, crashes and operator actions; a task may fail only in a --keep-going worker -/
def FClean (fl : Worker → Flags) : Ev V → Prop
  | .endExc w _ => (fl w).keepGoing = true
  | .stop _ _ => False
  | .crash _ => False
  | .removeLocks => False
  | .removeFailedLocks => False
  | _ => True

theorem fclean_of_clean (fl : Worker → Flags) {e : Ev V} (h : Clean e) : FClean fl e := by
  cases e <;> simp_all [Clean, FClean]

theorem legal_of_fclean (fl : Worker → Flags) (s : Sys V) (e : Ev V) (hc : FClean fl e) : Legal s e := by
  cases e <;> simp_all [FClean, Legal]

def kgOf (fl : Worker → Flags) : Worker → Bool := fun w => (fl w).keepGoing

structure CInv (n W : Nat) (sdeps : Task → List Task) (fl : Worker → Flags) (s : Sys V) (sc : Scan) : Prop where
  inv : Inv s
  nodead : ∀ t w, s.lock t = .held w → s.wk w ≠ .crashed      -- no lock is held by a dead worker
  nostop : ∀ w o k, s.wk w ≠ .stopping o k
  noraise : ∀ w, s.wk w ≠ .raising
  ftkg : ∀ w t, s.wk w = .failedTask t → (fl w).keepGoing = true
  ft : ∀ w t, s.wk w = .failedTask t → sc.failedT t = true
  lf : ∀ t w, s.lock t = .failed w → sc.failedT t = true
  outside : ∀ w, W ≤ w → s.wk w = .idle
  hd : ∀ w t, s.wk w = .holdingDone t → s.res t ≠ none
  dn : ∀ w t, sc.done w t = true → s.res t ≠ none ∨ (∃ w', csTask (s.wk w') = some t) ∨ sc.failedT t = true
  cov : ∀ t, t < n → s.res t ≠ none ∨ (∃ d, d ∈ sdeps t ∧ s.res d = none) ∨ sc.failedT t = true ∨
          ∃ w, w < W ∧ (∀ c, s.wk w ≠ .exited c) ∧ s.wk w ≠ .crashed ∧ (busy (s.wk w) = true ∨ sc.flagged w t = false)

/-! ### how one accepted event of such a history changes things -/

theorem fclean_simple (P : Prog V) (fl : Worker → Flags) {s s' : Sys V} {e : Ev V} (hc : FClean fl e)
    (hs : accept P fl s e = some s')
    (h4 : ∀ w o k, s.wk w ≠ .stopping o k) (h5 : ∀ w, s.wk w ≠ .raising)
    (h6 : ∀ w t, s.wk w = .failedTask t → (fl w).keepGoing = true) :
    (∀ w o k, s'.wk w ≠ .stopping o k) ∧ (∀ w, s'.wk w ≠ .raising) ∧
    (∀ w t, s'.wk w = .failedTask t → (fl w).keepGoing = true) := by
  cases e <;> simp only [accept] at hs <;> (repeat' split at hs) <;> simp_all [FClean] <;> (try subst_vars) <;>
    (refine ⟨?_, ?_, ?_⟩) <;> intros <;> (try simp only [upd] at *) <;> grind

/-- a lock becomes `held w` only by a successful `lock` of the idle worker `w` -/
theorem heldLock_origin (P : Prog V) (fl : Worker → Flags) {s s' : Sys V} {e : Ev V}
    (hs : accept P fl s e = some s') (t : Task) (w : Worker) (h : s'.lock t = .held w) :
    s.lock t = .held w ∨ s.wk w = .idle := by
  cases e <;> simp only [accept] at hs <;> (repeat' split at hs) <;> simp_all <;> (try subst_vars) <;>
    (try simp only [upd] at h) <;> (try (split at h)) <;> (try simp_all) <;> grind

/-- nobody dies in such a history (and the dead do not act) -/
theorem crashed_static (P : Prog V) (fl : Worker → Flags) {s s' : Sys V} {e : Ev V} (hc : FClean fl e)
    (hs : accept P fl s e = some s') (w : Worker) : s'.wk w = .crashed ↔ s.wk w = .crashed := by
  cases e <;> simp only [accept] at hs <;> (repeat' split at hs) <;> simp_all [FClean] <;> (try subst_vars) <;>
    (try simp only [upd]) <;> grind

theorem nodead_step (P : Prog V) (fl : Worker → Flags) {s s' : Sys V} {e : Ev V} (hc : FClean fl e)
    (hs : accept P fl s e = some s') (h2 : ∀ t w, s.lock t = .held w → s.wk w ≠ .crashed)
    (t : Task) (w : Worker) (h : s'.lock t = .held w) : s'.wk w ≠ .crashed := by
  intro hcr
  have hcr0 := (crashed_static P fl hc hs w).mp hcr
  rcases heldLock_origin P fl hs t w h with h1 | h1
  · exact h2 t w h1 hcr0
  · rw [h1] at hcr0; simp at hcr0

/-- a worker inside a critical section stays there, or leaves it - by `unlock` with the result in the store, or after its
    task failed (by `unlock` or, with --keep-failed, `fail`) -/
theorem busy_step (P : Prog V) (fl : Worker → Flags) {s s' : Sys V} {e : Ev V} (hc : FClean fl e)
    (hs : accept P fl s e = some s') (hi : Inv s) (hhd : ∀ w t, s.wk w = .holdingDone t → s.res t ≠ none)
    (h4 : ∀ w o k, s.wk w ≠ .stopping o k) (h6 : ∀ w t, s.wk w = .failedTask t → (fl w).keepGoing = true)
    (w : Worker) (t : Task) (hb : csTask (s.wk w) = some t) :
    csTask (s'.wk w) = some t ∨
      (s'.wk w = .idle ∧ (e = .unlock w t ∨ e = .markFailed w t) ∧ (s'.res t ≠ none ∨ s.wk w = .failedTask t)) := by
  have hst := hi.stored
  cases e <;> simp only [accept] at hs <;> (repeat' split at hs) <;> simp_all [FClean] <;> (try subst_vars) <;>
    (try simp only [upd]) <;> grind [csTask]

/-- the only way into `exited c` is the `exit` event -/
theorem exited_origin (P : Prog V) (fl : Worker → Flags) {s s' : Sys V} {e : Ev V}
    (hs : accept P fl s e = some s') (w : Worker) (c : Nat) (h : s'.wk w = .exited c) :
    s.wk w = .exited c ∨ e = .exit w c := by
  cases e <;> simp only [accept] at hs <;> (repeat' split at hs) <;> simp_all <;> (try subst_vars) <;>
    (try simp only [upd] at h) <;> (try (split at h)) <;> (try simp_all) <;> grind

/-- scan flags of workers other than the event's worker are untouched -/
theorem scan_frame (sdeps : Task → List Task) (kg : Worker → Bool) (sc : Scan) (e : Ev V) (w : Worker) (hw : evWorker e ≠ some w) :
    (scanStep sdeps kg sc e).done w = sc.done w ∧ (scanStep sdeps kg sc e).stuck w = sc.stuck w := by
  cases e with
  | canLoad w0 t0 b =>
    have : ¬ w = w0 := fun h => hw (by simp [evWorker, h])
    cases b <;> simp [scanStep, Scan.setDone, this]
  | lock w0 t0 b =>
    have : ¬ w = w0 := fun h => hw (by simp [evWorker, h])
    cases b <;> simp [scanStep, Scan.setDone, this]
  | load w0 t0 v =>
    have : ¬ w = w0 := fun h => hw (by simp [evWorker, h])
    simp [scanStep, Scan.setDone, this]
  | dump w0 t0 v =>
    have : ¬ w = w0 := fun h => hw (by simp [evWorker, h])
    simp [scanStep, Scan.setDone, this]
  | unlock w0 t0 =>
    have : ¬ w = w0 := fun h => hw (by simp [evWorker, h])
    simp [scanStep, this]
  | markFailed w0 t0 =>
    have : ¬ w = w0 := fun h => hw (by simp [evWorker, h])
    simp [scanStep, this]
  | endExc w0 t0 =>
    have : ¬ w = w0 := fun h => hw (by simp [evWorker, h])
    simp only [scanStep]
    split <;> (constructor <;> funext t' <;> simp [Scan.setDone, Scan.exempt, this])
  | stop w0 k =>
    have : ¬ w = w0 := fun h => hw (by simp [evWorker, h])
    simp [scanStep, Scan.exempt, this]
  | begin_ w0 t0 => simp [scanStep]
  | endOk w0 t0 v => simp [scanStep]
  | exit w0 c => simp [scanStep]
  | crash w0 => simp [scanStep]
  | removeLocks => simp [scanStep]
  | removeFailedLocks => simp [scanStep]

/-- once failed, always recorded as failed -/
theorem failedT_mono (sdeps : Task → List Task) (kg : Worker → Bool) (sc : Scan) (e : Ev V) (t : Task)
    (h : sc.failedT t = true) : (scanStep sdeps kg sc e).failedT t = true := by
  cases e with
  | canLoad w0 t0 b => cases b <;> simpa [scanStep, Scan.setDone] using h
  | lock w0 t0 b => cases b <;> simpa [scanStep, Scan.setDone] using h
  | endExc w0 t0 =>
    simp only [scanStep]
    split <;> simp [Scan.setDone, Scan.exempt, h]
  | load w0 t0 v => simpa [scanStep, Scan.setDone] using h
  | dump w0 t0 v => simpa [scanStep, Scan.setDone] using h
  | unlock w0 t0 => simpa [scanStep] using h
  | markFailed w0 t0 => simpa [scanStep] using h
  | stop w0 k => simpa [scanStep, Scan.exempt] using h
  | begin_ w0 t0 => simpa [scanStep] using h
  | endOk w0 t0 v => simpa [scanStep] using h
  | exit w0 c => simpa [scanStep] using h
  | crash w0 => simpa [scanStep] using h
  | removeLocks => simpa [scanStep] using h
  | removeFailedLocks => simpa [scanStep] using h

theorem failedT_endExc (sdeps : Task → List Task) (kg : Worker → Bool) (sc : Scan) (w : Worker) (t : Task) :
    (scanStep (V := V) sdeps kg sc (.endExc w t)).failedT t = true := by
  simp only [scanStep]
  split <;> simp [Scan.setDone, Scan.exempt]

/-- `failedTask t` is entered only by the `endExc` event -/
theorem failedTask_origin (P : Prog V) (fl : Worker → Flags) {s s' : Sys V} {e : Ev V}
    (hs : accept P fl s e = some s') (w : Worker) (t : Task) (h : s'.wk w = .failedTask t) :
    s.wk w = .failedTask t ∨ e = .endExc w t := by
  cases e <;> simp only [accept] at hs <;> (repeat' split at hs) <;> simp_all <;> (try subst_vars) <;>
    (try simp only [upd] at h) <;> (try (split at h)) <;> (try simp_all) <;> grind

/-- a lock becomes `failed` only by `fail()` of a worker whose task failed -/
theorem failedLock_origin (P : Prog V) (fl : Worker → Flags) {s s' : Sys V} {e : Ev V} (hc : FClean fl e)
    (hs : accept P fl s e = some s') (t : Task) (w : Worker) (h : s'.lock t = .failed w) :
    s.lock t = .failed w ∨ s.wk w = .failedTask t := by
  cases e <;> simp only [accept] at hs <;> (repeat' split at hs) <;> simp_all [FClean] <;> (try subst_vars) <;>
    (try simp only [upd] at h) <;> (try (split at h)) <;> (try simp_all) <;> grind

/-- a new `done` flag is justified in the new state -/
theorem done_step (P : Prog V) (fl : Worker → Flags) (sdeps : Task → List Task) {s s' : Sys V} {e : Ev V} (sc : Scan)
    (hc : FClean fl e) (hs : accept P fl s e = some s') (hi : Inv s)
    (hlf : ∀ t w, s.lock t = .failed w → sc.failedT t = true)
    (h2 : ∀ t w, s.lock t = .held w → s.wk w ≠ .crashed)
    (w : Worker) (t : Task) (hd : (scanStep sdeps (kgOf fl) sc e).done w t = true) :
    sc.done w t = true ∨ s'.res t ≠ none ∨ (∃ w', csTask (s'.wk w') = some t) ∨ (scanStep sdeps (kgOf fl) sc e).failedT t = true := by
  cases e with
  | canLoad w0 t0 b =>
    cases b
    · left; simpa [scanStep] using hd
    · simp only [scanStep, Scan.setDone] at hd
      split at hd
      · rename_i hwt
        obtain ⟨rfl, rfl⟩ := hwt
        right; left
        simp only [accept] at hs
        split at hs
        · simp at hs
        · rename_i hb
          have hres : s'.res = s.res := by
            (repeat' split at hs) <;> simp_all <;> (try subst_vars) <;> rfl
          rw [hres]
          intro hn; simp [hn] at hb
      · left; exact hd
  | load w0 t0 v =>
    simp only [scanStep, Scan.setDone] at hd
    split at hd
    · rename_i hwt
      obtain ⟨rfl, rfl⟩ := hwt
      right; left
      simp only [accept] at hs
      (repeat' split at hs) <;> simp_all <;> (try subst_vars) <;> simp_all
    · left; exact hd
  | lock w0 t0 b =>
    cases b
    · simp only [scanStep, Scan.setDone] at hd
      split at hd
      · rename_i hwt
        obtain ⟨rfl, rfl⟩ := hwt
        simp only [accept] at hs
        split at hs
        · split at hs
          · simp at hs
          · rename_i hb
            simp at hs
            subst hs
            -- the lock is not free: held by a live worker inside the critical section of `t`, or left failed
            have hnf : s.lock t ≠ .free := by
              intro hf; simp [hf] at hb
            cases hl : s.lock t with
            | free => exact absurd hl hnf
            | failed w' =>
              right; right; right
              have := hlf t w' hl
              simpa [scanStep, Scan.setDone] using this
            | held w' =>
              right; right; left
              rcases hi.held_cs w' t hl with h | h
              · exact ⟨w', h⟩
              · exact absurd h (h2 t w' hl)
        · simp at hs
      · left; exact hd
    · left; simpa [scanStep] using hd
  | dump w0 t0 v =>
    simp only [scanStep, Scan.setDone] at hd
    split at hd
    · rename_i hwt
      obtain ⟨rfl, rfl⟩ := hwt
      right; left
      simp only [accept] at hs
      (repeat' split at hs) <;> simp_all <;> (try subst_vars) <;> simp [upd]
    · left; exact hd
  | endExc w0 t0 =>
    have hkg : kgOf fl w0 = true := by simpa [FClean, kgOf] using hc
    simp only [scanStep, hkg, if_true, Scan.setDone] at hd ⊢
    split at hd
    · rename_i hwt
      obtain ⟨rfl, rfl⟩ := hwt
      right; right; right; simp
    · left; exact hd
  | stop w0 k => simp [FClean] at hc
  | begin_ w0 t0 => left; simpa [scanStep] using hd
  | endOk w0 t0 v => left; simpa [scanStep] using hd
  | unlock w0 t0 => left; simpa [scanStep] using hd
  | markFailed w0 t0 => left; simpa [scanStep] using hd
  | exit w0 c => left; simpa [scanStep] using hd
  | crash w0 => left; simpa [scanStep] using hd
  | removeLocks => left; simpa [scanStep] using hd
  | removeFailedLocks => left; simpa [scanStep] using hd

/-- `holdingDone t` is entered only after the result was seen, and results are never removed -/
theorem hd_step (P : Prog V) (fl : Worker → Flags) {s s' : Sys V} {e : Ev V}
    (hs : accept P fl s e = some s') (hhd : ∀ w t, s.wk w = .holdingDone t → s.res t ≠ none)
    (w : Worker) (t : Task) (h : s'.wk w = .holdingDone t) : s'.res t ≠ none := by
  have hm := fun (t : Task) (h : s.res t ≠ none) => res_mono P fl hs t h
  have key : s.wk w = .holdingDone t ∨ s.res t ≠ none := by
    cases e <;> simp only [accept] at hs <;> (repeat' split at hs) <;> simp_all <;> (try subst_vars) <;>
      (try simp only [upd] at h) <;> (try (split at h)) <;> (try simp_all) <;> grind
  rcases key with h1 | h1
  · exact hm t (hhd w t h1)
  · exact hm t h1

/-- what the event's own worker `w` can do to a task it has not accounted for -/
theorem flag_step (P : Prog V) (fl : Worker → Flags) (sdeps : Task → List Task) (n : Nat) {s s' : Sys V} {e : Ev V} (sc : Scan)
    (hc : FClean fl e) (hs : accept P fl s e = some s') (hg : scanGuard n sc e = true)
    (hi : Inv s) (hlf : ∀ t w, s.lock t = .failed w → sc.failedT t = true) (h2 : ∀ t w, s.lock t = .held w → s.wk w ≠ .crashed)
    (w : Worker) (hw : evWorker e = some w) (t : Task) (ht : t < n) (hne : ∀ c, s.wk w ≠ .exited c)
    (hf : sc.flagged w t = false) :
    ((scanStep sdeps (kgOf fl) sc e).flagged w t = false ∧ ∀ c, s'.wk w ≠ .exited c) ∨ busy (s'.wk w) = true ∨ s'.res t ≠ none ∨
      (∃ d, d ∈ sdeps t ∧ s'.res d = none) ∨ (∃ w', csTask (s'.wk w') = some t) ∨
      (scanStep sdeps (kgOf fl) sc e).failedT t = true := by
  have hf' : sc.done w t = false ∧ sc.stuck w t = false := by
    simpa [Scan.flagged] using hf
  have hx : (∀ c, e ≠ .exit w c) → ∀ c, s'.wk w ≠ .exited c := by
    intro hnx c hx
    rcases exited_origin P fl hs w c hx with h | h
    · exact hne c h
    · exact hnx c h
  cases e with
  | canLoad w0 t0 b =>
    simp only [evWorker, Option.some.injEq] at hw; subst hw
    have hx' := hx (by intro c; simp)
    have hr : s'.res = s.res := by
      rcases res_of_accept P fl s s' _ hs with h | ⟨_, _, _, h, _⟩
      · exact h
      · simp at h
    have hb : b = (s.res t0).isSome := by
      simp only [accept] at hs
      split at hs
      · simp at hs
      · rename_i hb; simpa using hb
    cases b
    · by_cases hm : (sdeps t).contains t0 = true
      · right; right; right; left
        refine ⟨t0, by simpa using hm, ?_⟩
        rw [hr]
        cases hrt : s.res t0 with
        | none => rfl
        | some v => rw [hrt] at hb; simp at hb
      · left
        refine ⟨?_, hx'⟩
        have hm2 : ¬ t0 ∈ sdeps t := by simpa using hm
        simp [Scan.flagged, scanStep, hf'.1, hf'.2, hm2]
    · by_cases htt : t0 = t
      · subst htt
        right; right; left
        rw [hr]
        cases hrt : s.res t0 with
        | none => rw [hrt] at hb; simp at hb
        | some v => simp
      · left
        refine ⟨?_, hx'⟩
        have : ¬ t = t0 := fun h => htt h.symm
        simp only [Scan.flagged, scanStep, Scan.setDone, hf'.1, hf'.2, this, and_false, if_false, Bool.or_false]
  | load w0 t0 v =>
    simp only [evWorker, Option.some.injEq] at hw; subst hw
    have hx' := hx (by intro c; simp)
    have hres : s' = s ∧ s.res t0 = some v := by
      simp only [accept] at hs
      (repeat' split at hs) <;> simp_all
    obtain ⟨rfl, hr⟩ := hres
    by_cases htt : t0 = t
    · subst htt; right; right; left; simp [hr]
    · left
      have : ¬ t = t0 := fun h => htt h.symm
      exact ⟨by simp [Scan.flagged, scanStep, Scan.setDone, hf'.1, hf'.2, this], hx'⟩
  | lock w0 t0 b =>
    simp only [evWorker, Option.some.injEq] at hw; subst hw
    have hx' := hx (by intro c; simp)
    cases b
    · have hres : s' = s ∧ s.lock t0 ≠ .free := by
        simp only [accept] at hs
        (repeat' split at hs) <;> simp_all
      obtain ⟨rfl, hl⟩ := hres
      by_cases htt : t0 = t
      · subst htt
        cases hlk : s'.lock t0 with
        | free => exact absurd hlk hl
        | failed w' =>
          right; right; right; right; right
          have := hlf t0 w' hlk
          simpa [scanStep, Scan.setDone] using this
        | held w' =>
          right; right; right; right; left
          rcases hi.held_cs w' t0 hlk with h | h
          · exact ⟨w', h⟩
          · exact absurd h (h2 t0 w' hlk)
      · left
        have : ¬ t = t0 := fun h => htt h.symm
        exact ⟨by simp [Scan.flagged, scanStep, Scan.setDone, hf'.1, hf'.2, this], hx'⟩
    · right; left
      simp only [accept] at hs
      (repeat' split at hs) <;> simp_all <;> (try subst_vars) <;> simp [upd, busy, csTask]
  | begin_ w0 t0 =>
    simp only [evWorker, Option.some.injEq] at hw; subst hw
    right; left
    simp only [accept] at hs
    (repeat' split at hs) <;> simp_all <;> (try subst_vars) <;> simp [upd, busy, csTask]
  | endOk w0 t0 v =>
    simp only [evWorker, Option.some.injEq] at hw; subst hw
    right; left
    simp only [accept] at hs
    (repeat' split at hs) <;> simp_all <;> (try subst_vars) <;> simp [upd, busy, csTask]
  | endExc w0 t0 =>
    simp only [evWorker, Option.some.injEq] at hw; subst hw
    right; left
    simp only [accept] at hs
    (repeat' split at hs) <;> simp_all <;> (try subst_vars) <;> simp [upd, busy, csTask]
  | dump w0 t0 v =>
    simp only [evWorker, Option.some.injEq] at hw; subst hw
    right; left
    simp only [accept] at hs
    (repeat' split at hs) <;> simp_all <;> (try subst_vars) <;> simp [upd, busy, csTask]
  | unlock w0 t0 =>
    simp only [evWorker, Option.some.injEq] at hw; subst hw
    left
    exact ⟨by simp [Scan.flagged, scanStep, hf'.1], hx (by intro c; simp)⟩
  | markFailed w0 t0 =>
    simp only [evWorker, Option.some.injEq] at hw; subst hw
    left
    exact ⟨by simp [Scan.flagged, scanStep, hf'.1], hx (by intro c; simp)⟩
  | exit w0 c =>
    simp only [evWorker, Option.some.injEq] at hw; subst hw
    exfalso
    simp only [scanGuard, List.all_eq_true, List.mem_range] at hg
    have := hg t ht
    simp [hf] at this
  | stop w0 k => simp [FClean] at hc
  | crash w0 => simp [FClean] at hc
  | removeLocks => simp [evWorker] at hw
  | removeFailedLocks => simp [evWorker] at hw

theorem busy_lt (W : Nat) {s : Sys V} (ho : ∀ w, W ≤ w → s.wk w = .idle) (w : Worker) (t : Task)
    (h : csTask (s.wk w) = some t) : w < W := by
  rcases Nat.lt_or_ge w W with h1 | h1
  · exact h1
  · rw [ho w h1] at h; simp [csTask] at h

theorem busy_not_exited {x : WSt V} {t : Task} (h : csTask x = some t) : (∀ c, x ≠ .exited c) ∧ x ≠ .crashed ∧ busy x = true := by
  refine ⟨?_, ?_, ?_⟩
  · intro c hx; rw [hx] at h; simp [csTask] at h
  · intro hx; rw [hx] at h; simp [csTask] at h
  · simp [busy, h]

/-- **preservation of the completeness invariant** by one accepted event of a participating worker whose scan obligation holds -/
theorem accept_cinv (P : Prog V) (fl : Worker → Flags) (n W : Nat) (sdeps : Task → List Task) (s s' : Sys V) (sc : Scan) (e : Ev V)
    (h : CInv n W sdeps fl s sc) (hc : FClean fl e) (hwW : ∀ w, evWorker e = some w → w < W)
    (hg : scanGuard n sc e = true) (hs : accept P fl s e = some s') : CInv n W sdeps fl s' (scanStep sdeps (kgOf fl) sc e) := by
  have hinv' : Inv s' := accept_inv P fl s s' e h.inv (legal_of_fclean fl s e hc) hs
  obtain ⟨c4, c5, c6⟩ := fclean_simple P fl hc hs h.nostop h.noraise h.ftkg
  have c2 := nodead_step P fl hc hs h.nodead
  have hcs := crashed_static P fl hc hs
  have hout' : ∀ w, W ≤ w → s'.wk w = .idle := by
    intro w hw
    have : evWorker e ≠ some w := by
      intro he; exact absurd (hwW w he) (Nat.not_lt.mpr hw)
    rw [wk_of_accept P fl s s' e hs w this]; exact h.outside w hw
  have hmono := fun (t : Task) (h : s.res t ≠ none) => res_mono P fl hs t h
  have hfm := fun (t : Task) (h : sc.failedT t = true) => failedT_mono (V := V) sdeps (kgOf fl) sc e t h
  have hbusy := busy_step P fl hc hs h.inv h.hd h.nostop h.ftkg
  refine ⟨hinv', c2, c4, c5, c6, ?_, ?_, hout', ?_, ?_, ?_⟩
  · -- failedTask implies recorded as failed
    intro w t hw
    rcases failedTask_origin P fl hs w t hw with h1 | h1
    · exact hfm t (h.ft w t h1)
    · subst h1; exact failedT_endExc sdeps (kgOf fl) sc w t
  · -- failed locks only on failed tasks
    intro t w hl
    rcases failedLock_origin P fl hc hs t w hl with h1 | h1
    · exact hfm t (h.lf t w h1)
    · exact hfm t (h.ft w t h1)
  · exact fun w t hw => hd_step P fl hs h.hd w t hw
  · -- done flags stay justified
    intro w t hd
    rcases done_step P fl sdeps sc hc hs h.inv h.lf h.nodead w t hd with h1 | h1 | h1 | h1
    · rcases h.dn w t h1 with h2 | ⟨w', h2⟩ | h2
      · left; exact hmono t h2
      · rcases hbusy w' t h2 with h3 | ⟨_, _, h3 | h3⟩
        · right; left; exact ⟨w', h3⟩
        · left; exact h3
        · right; right; exact hfm t (h.ft w' t h3)
      · right; right; exact hfm t h2
    · left; exact h1
    · right; left; exact h1
    · right; right; exact h1
  · -- coverage
    intro t ht
    rcases h.cov t ht with hA | ⟨d, hdm, hdn⟩ | hF | ⟨w, hwlt, hwne, hwnc, hwit⟩
    · left; exact hmono t hA
    · -- a dependency had no result: it still has none, or it has just been stored by a worker that is still busy
      rcases res_of_accept P fl s s' e hs with hr | ⟨w, t', v, he, hwk, hr⟩
      · right; left; exact ⟨d, hdm, by rw [hr]; exact hdn⟩
      · by_cases htd : t' = d
        · subst htd
          right; right; right
          have hb : csTask (s.wk w) = some t' := by simp [hwk, csTask]
          rcases hbusy w t' hb with h3 | ⟨_, he2, _⟩
          · exact ⟨w, busy_lt W hout' w t' h3, (busy_not_exited h3).1, (busy_not_exited h3).2.1, Or.inl (busy_not_exited h3).2.2⟩
          · rw [he] at he2; simp at he2
        · right; left
          refine ⟨d, hdm, ?_⟩
          rw [hr]; simp only [upd]
          have : ¬ d = t' := fun h => htd h.symm
          simp [this, hdn]
    · right; right; left; exact hfm t hF
    · by_cases he : evWorker e = some w
      · rcases hwit with hb | hf
        · -- the witness was busy
          have hb' : ∃ t0, csTask (s.wk w) = some t0 := by
            simp only [busy] at hb
            cases hcs : csTask (s.wk w) with
            | none => simp [hcs] at hb
            | some t0 => exact ⟨t0, rfl⟩
          obtain ⟨t0, hb0⟩ := hb'
          rcases hbusy w t0 hb0 with h3 | ⟨hidle, heq, hwhy⟩
          · right; right; right
            exact ⟨w, hwlt, (busy_not_exited h3).1, (busy_not_exited h3).2.1, Or.inl (busy_not_exited h3).2.2⟩
          · -- it has just left its critical section: its stuck flags are reset
            have hstuck : (scanStep sdeps (kgOf fl) sc e).stuck w t = false := by
              rcases heq with heq | heq <;> subst heq <;> simp [scanStep]
            have hdone : (scanStep sdeps (kgOf fl) sc e).done w t = sc.done w t := by
              rcases heq with heq | heq <;> subst heq <;> simp [scanStep]
            cases hd0 : sc.done w t with
            | true =>
              rcases h.dn w t hd0 with h2 | ⟨w', h2⟩ | h2
              · left; exact hmono t h2
              · by_cases hww : w' = w
                · subst hww
                  rw [hb0] at h2; simp only [Option.some.injEq] at h2; subst h2
                  rcases hwhy with hwhy | hwhy
                  · left; exact hwhy
                  · right; right; left; exact hfm t0 (h.ft w' t0 hwhy)
                · rcases hbusy w' t h2 with h3 | ⟨_, _, h3 | h3⟩
                  · right; right; right
                    exact ⟨w', busy_lt W hout' w' t h3, (busy_not_exited h3).1, (busy_not_exited h3).2.1, Or.inl (busy_not_exited h3).2.2⟩
                  · left; exact h3
                  · right; right; left; exact hfm t (h.ft w' t h3)
              · right; right; left; exact hfm t h2
            | false =>
              right; right; right
              refine ⟨w, hwlt, by intro c; rw [hidle]; simp, by rw [hidle]; simp, Or.inr ?_⟩
              simp [Scan.flagged, hstuck, hdone, hd0]
        · rcases flag_step P fl sdeps n sc hc hs hg h.inv h.lf h.nodead w he t ht hwne hf with
            ⟨h1, h2⟩ | h1 | h1 | h1 | ⟨w', h1⟩ | h1
          · right; right; right; exact ⟨w, hwlt, h2, fun hx => hwnc ((hcs w).mp hx), Or.inr h1⟩
          · right; right; right
            refine ⟨w, hwlt, ?_, ?_, Or.inl h1⟩
            · intro c hx; rw [hx] at h1; simp [busy, csTask] at h1
            · intro hx; rw [hx] at h1; simp [busy, csTask] at h1
          · left; exact h1
          · right; left; exact h1
          · right; right; right
            exact ⟨w', busy_lt W hout' w' t h1, (busy_not_exited h1).1, (busy_not_exited h1).2.1, Or.inl (busy_not_exited h1).2.2⟩
          · right; right; left; exact h1
      · -- the event is by somebody else: the witness is untouched
        right; right; right
        have hwk := wk_of_accept P fl s s' e hs w he
        have hfr := scan_frame sdeps (kgOf fl) sc e w he
        refine ⟨w, hwlt, by intro c; rw [hwk]; exact hwne c, by rw [hwk]; exact hwnc, ?_⟩
        rcases hwit with hb | hf
        · left; rw [hwk]; exact hb
        · right
          simp only [Scan.flagged] at hf ⊢
          rw [hfr.1, hfr.2]; exact hf

theorem cinv_init (n W : Nat) (hW : 0 < W) (sdeps : Task → List Task) (fl : Worker → Flags) (res : Task → Option V) :
    CInv n W sdeps fl (initSys res) Scan.init := by
  refine ⟨inv_init res, ?_, ?_, ?_, ?_, ?_, ?_, ?_, ?_, ?_, ?_⟩ <;> intros <;> (try simp_all [initSys, Scan.init])
  right; right
  exact ⟨0, hW, Or.inr (by simp [Scan.flagged])⟩

/-- the invariant holds in any regular state with no lock held and no failure pending in which a fresh worker is about to start -
    in particular after workers were killed and `jug cleanup --locks-only` was run, and after workers were stopped -/
theorem cinv_init_gen (n W : Nat) (sdeps : Task → List Task) (fl : Worker → Flags) (s : Sys V) (hi : Inv s)
    (hfree : ∀ t, s.lock t = .free) (hwk : ∀ w, s.wk w = .idle ∨ s.wk w = .crashed ∨ ∃ c, s.wk w = .exited c)
    (hout : ∀ w, W ≤ w → s.wk w = .idle) (w₀ : Worker) (hw₀ : w₀ < W) (hidle : s.wk w₀ = .idle) :
    CInv n W sdeps fl s Scan.init := by
  have hno : ∀ w x, s.wk w = x → x = .idle ∨ x = .crashed ∨ ∃ c, x = .exited c := by
    intro w x hx; rw [← hx]; exact hwk w
  refine ⟨hi, ?_, ?_, ?_, ?_, ?_, ?_, hout, ?_, ?_, ?_⟩
  · intro t w h; rw [hfree t] at h; simp at h
  · intro w o k h; rcases hno w _ h with h1 | h1 | ⟨c, h1⟩ <;> simp at h1
  · intro w h; rcases hno w _ h with h1 | h1 | ⟨c, h1⟩ <;> simp at h1
  · intro w t h; rcases hno w _ h with h1 | h1 | ⟨c, h1⟩ <;> simp at h1
  · intro w t h; rcases hno w _ h with h1 | h1 | ⟨c, h1⟩ <;> simp at h1
  · intro t w h; rw [hfree t] at h; simp at h
  · intro w t h; rcases hno w _ h with h1 | h1 | ⟨c, h1⟩ <;> simp at h1
  · intro w t h; simp [Scan.init] at h
  · intro t ht
    right; right; right
    exact ⟨w₀, hw₀, by intro c; rw [hidle]; simp, by rw [hidle]; simp, Or.inr (by simp [Scan.init, Scan.flagged])⟩

/-- histories of such events -/
def FSteps (P : Prog V) (fl : Worker → Flags) : Sys V → List (Ev V) → Sys V → Prop
  | s, [], s' => s = s'
  | s, e :: es, s' => FClean fl e ∧ ∃ s1, accept P fl s e = some s1 ∧ FSteps P fl s1 es s'

theorem fsteps_of_cleanSteps (P : Prog V) (fl : Worker → Flags) : ∀ (evs : List (Ev V)) (s s' : Sys V),
    CleanSteps P fl s evs s' → FSteps P fl s evs s' := by
  intro evs
  induction evs with
  | nil => intro s s' h; simpa [CleanSteps, FSteps] using h
  | cons e es ih =>
    intro s s' h
    simp only [CleanSteps] at h
    obtain ⟨hc, s1, ha, hr⟩ := h
    exact ⟨fclean_of_clean fl hc, s1, ha, ih s1 s' hr⟩

/-- the scan ghost at the end of a history -/
def scanFold (sdeps : Task → List Task) (kg : Worker → Bool) : Scan → List (Ev V) → Scan
  | sc, [] => sc
  | sc, e :: es => scanFold sdeps kg (scanStep sdeps kg sc e) es

/-- the invariant along a whole history -/
theorem fsteps_cinv (P : Prog V) (fl : Worker → Flags) (n W : Nat) (sdeps : Task → List Task) (evs : List (Ev V)) :
    ∀ (s s' : Sys V) (sc : Scan), CInv n W sdeps fl s sc → FSteps P fl s evs s' →
      (∀ e ∈ evs, ∀ w, evWorker e = some w → w < W) → scanRun n sdeps (kgOf fl) sc evs = true →
      CInv n W sdeps fl s' (scanFold sdeps (kgOf fl) sc evs) := by
  induction evs with
  | nil => intro s s' sc h hs _ _; simp only [FSteps] at hs; subst hs; exact h
  | cons e es ih =>
    intro s s' sc h hs hw hg
    simp only [FSteps] at hs
    obtain ⟨hc, s1, ha, hr⟩ := hs
    simp only [scanRun, Bool.and_eq_true] at hg
    have h1 := accept_cinv P fl n W sdeps s s1 sc e h hc (hw e (by simp)) hg.1 ha
    exact ih s1 s' _ h1 hr (fun e' he' => hw e' (by simp [he'])) hg.2

/-- a task is blocked if its function has raised, or a (scan-)dependency is blocked -/
inductive Blocked (sdeps : Task → List Task) (failedT : Task → Bool) : Task → Prop
  | failed {t} : failedT t = true → Blocked sdeps failedT t
  | dep {t d} : d ∈ sdeps t → Blocked sdeps failedT d → Blocked sdeps failedT t

/-- from the invariant at quiescence to "every task has a result or is blocked", by well-founded induction over the dependencies -/
theorem complete_of_cinv (n W : Nat) (sdeps : Task → List Task) (fl : Worker → Flags) (hlt : ∀ t d, d ∈ sdeps t → d < t)
    (s : Sys V) (sc : Scan) (h : CInv n W sdeps fl s sc) (hq : ∀ w, w < W → (∃ c, s.wk w = .exited c) ∨ s.wk w = .crashed) :
    ∀ t, t < n → s.res t ≠ none ∨ Blocked sdeps sc.failedT t := by
  intro t
  induction t using Nat.strongRecOn with
  | _ t ih =>
    intro ht
    rcases h.cov t ht with hA | ⟨d, hdm, hdn⟩ | hF | ⟨w, hwlt, hwne, hwnc, _⟩
    · exact Or.inl hA
    · have hdt := hlt t d hdm
      rcases ih d hdt (Nat.lt_trans hdt ht) with h1 | h1
      · exact absurd hdn h1
      · exact Or.inr (.dep hdm h1)
    · exact Or.inr (.failed hF)
    · rcases hq w hwlt with ⟨c, hc⟩ | hc
      · exact absurd hc (hwne c)
      · exact absurd hc hwnc

/-- in a failure-free history nothing is ever recorded as failed -/
theorem scanFold_failedT_clean (sdeps : Task → List Task) (kg : Worker → Bool) : ∀ (evs : List (Ev V)) (sc : Scan),
    (∀ e ∈ evs, Clean e) → (scanFold sdeps kg sc evs).failedT = sc.failedT := by
  intro evs
  induction evs with
  | nil => intro sc _; rfl
  | cons e es ih =>
    intro sc hc
    simp only [scanFold]
    rw [ih _ (fun e' he' => hc e' (by simp [he']))]
    have hce := hc e (by simp)
    cases e with
    | canLoad w0 t0 b => cases b <;> simp [scanStep, Scan.setDone]
    | lock w0 t0 b => cases b <;> simp [scanStep, Scan.setDone]
    | endExc w0 t0 => simp [Clean] at hce
    | stop w0 k => simp [Clean] at hce
    | load w0 t0 v => simp [scanStep, Scan.setDone]
    | dump w0 t0 v => simp [scanStep, Scan.setDone]
    | unlock w0 t0 => simp [scanStep]
    | markFailed w0 t0 => simp [scanStep]
    | begin_ w0 t0 => simp [scanStep]
    | endOk w0 t0 v => simp [scanStep]
    | exit w0 c => simp [scanStep]
    | crash w0 => simp [scanStep]
    | removeLocks => simp [scanStep]
    | removeFailedLocks => simp [scanStep]

theorem cleanSteps_all_clean (P : Prog V) (fl : Worker → Flags) : ∀ (evs : List (Ev V)) (s s' : Sys V),
    CleanSteps P fl s evs s' → ∀ e ∈ evs, Clean e := by
  intro evs
  induction evs with
  | nil => intro s s' _ e he; simp at he
  | cons e es ih =>
    intro s s' h e' he'
    simp only [CleanSteps] at h
    obtain ⟨hc, s1, _, hr⟩ := h
    simp only [List.mem_cons] at he'
    rcases he' with rfl | he'
    · exact hc
    · exact ih s1 s' hr e' he'

theorem not_blocked_of_none (sdeps : Task → List Task) (t : Task) : ¬ Blocked sdeps (fun _ => false) t := by
  intro h
  induction h with
  | failed h => simp at h
  | dep _ _ ih => exact ih

end Jug.Exec
