import JugModel.Model.MapReduce
/-! Helper lemmas for C17 (map / mapreduce / reduce / currymap). -/
set_option linter.unusedVariables false
namespace Jug.MR

theorem breakUp_nil {α} (step : Nat) : breakUp step ([] : List α) = [] := by
  unfold breakUp; simp

theorem breakUp_cons {α} (step : Nat) (hs : 0 < step) (xs : List α) (hx : xs ≠ []) :
    breakUp step xs = xs.take step :: breakUp step (xs.drop step) := by
  rw [breakUp]
  have : ¬ (step = 0 ∨ xs = []) := by
    intro h; rcases h with h | h
    · omega
    · exact hx h
  simp [this]

theorem breakUp_flatten {α} (step : Nat) (hs : 0 < step) (xs : List α) :
    (breakUp step xs).flatten = xs := by
  induction xs using breakUp.induct step with
  | case1 xs h =>
    unfold breakUp; simp [h]
    rcases h with h | h
    · omega
    · exact h
  | case2 xs h ih =>
    unfold breakUp; simp only [h, ↓reduceDIte, List.flatten_cons, ih, List.take_append_drop]

theorem breakUp_ne_nil {α} (step : Nat) (xs : List α) : ∀ c ∈ breakUp step xs, c ≠ [] := by
  induction xs using breakUp.induct step with
  | case1 xs h => unfold breakUp; simp [h]
  | case2 xs h ih =>
    unfold breakUp; simp only [h, ↓reduceDIte, List.mem_cons]
    intro c hc
    rcases hc with hc | hc
    · subst hc
      have h1 : step ≠ 0 := fun e => h (Or.inl e)
      have h2 : xs ≠ [] := fun e => h (Or.inr e)
      cases xs with
      | nil => exact absurd rfl h2
      | cons a as => cases step with
        | zero => exact absurd rfl h1
        | succ n => simp
    · exact ih c hc

/-- every chunk has at most `step` elements -/
theorem breakUp_len_le {α} (step : Nat) (xs : List α) : ∀ c ∈ breakUp step xs, c.length ≤ step := by
  induction xs using breakUp.induct step with
  | case1 xs h => unfold breakUp; simp [h]
  | case2 xs h ih =>
    unfold breakUp; simp only [h, ↓reduceDIte, List.mem_cons]
    intro c hc
    rcases hc with hc | hc
    · subst hc; simp [List.length_take]; omega
    · exact ih c hc

/-- chunk `k` is exactly `xs[k*step : (k+1)*step]` -/
theorem breakUp_getElem? {α} (step : Nat) (hs : 0 < step) (xs : List α) (k : Nat) :
    (breakUp step xs)[k]? = if k * step < xs.length then some ((xs.drop (k * step)).take step) else none := by
  induction k generalizing xs with
  | zero =>
    by_cases hx : xs = []
    · subst hx; simp [breakUp_nil]
    · rw [breakUp_cons step hs xs hx]
      have : 0 < xs.length := List.length_pos_iff.mpr hx
      simp [this]
  | succ k ih =>
    by_cases hx : xs = []
    · subst hx; simp [breakUp_nil]
    · rw [breakUp_cons step hs xs hx]
      simp only [List.getElem?_cons_succ]
      rw [ih (xs.drop step)]
      simp only [List.length_drop, List.drop_drop]
      have e1 : (k + 1) * step = step + k * step := by rw [Nat.add_mul]; omega
      rw [e1]
      by_cases h : k * step < xs.length - step
      · have : step + k * step < xs.length := by omega
        simp [h, this]
      · have : ¬ step + k * step < xs.length := by omega
        simp [h, this]

variable {β : Type} (r : β → β → β)

theorem foldl_assoc (assoc : ∀ a b c, r (r a b) c = r a (r b c)) (a b : β) (ys : List β) :
    r a (ys.foldl r b) = ys.foldl r (r a b) := by
  induction ys generalizing b with
  | nil => rfl
  | cons y ys ih => simp only [List.foldl_cons]; rw [ih, assoc]

/-- reducing the per-chunk reductions equals reducing the concatenation
    (order preserved: associativity only, no commutativity) -/
theorem fold1_chunks (assoc : ∀ a b c, r (r a b) c = r a (r b c)) (cs : List (List β)) (hne : ∀ c ∈ cs, c ≠ []) :
    fold1 r (cs.filterMap (fold1 r)) = fold1 r cs.flatten := by
  induction cs with
  | nil => rfl
  | cons c cs ih =>
    have hc : c ≠ [] := hne c (by simp)
    have ih' := ih (fun c' h => hne c' (by simp [h]))
    cases c with
    | nil => exact absurd rfl hc
    | cons x xs =>
      simp only [List.filterMap_cons, fold1, List.flatten_cons, List.cons_append]
      cases hcs : cs.filterMap (fold1 r) with
      | nil =>
        have : cs.flatten = [] := by
          cases cs with
          | nil => rfl
          | cons d ds =>
            have hd : d ≠ [] := hne d (by simp)
            cases d with
            | nil => exact absurd rfl hd
            | cons y ys => simp [fold1] at hcs
        simp [fold1, this]
      | cons y ys =>
        rw [hcs] at ih'
        simp only [fold1] at ih' ⊢
        cases hfl : cs.flatten with
        | nil => rw [hfl] at ih'; simp [fold1] at ih'
        | cons z zs =>
          rw [hfl] at ih'
          simp only [fold1, Option.some.injEq] at ih'
          simp only [List.foldl_append, List.foldl_cons, Option.some.injEq]
          rw [← foldl_assoc r assoc, ih', foldl_assoc r assoc]

/-- the reduction tree computes the plain left fold -/
theorem treeReduce_eq_fold1 (assoc : ∀ a b c, r (r a b) c = r a (r b c)) (rs : Nat) (hrs : 2 ≤ rs) (l : List β) :
    treeReduce r rs l = fold1 r l := by
  induction l using treeReduce.induct r rs with
  | case1 => simp [treeReduce, fold1]
  | case2 x => simp [treeReduce, fold1]
  | case3 x y t h => omega
  | case4 x y t h ih =>
    rw [treeReduce]
    simp only [h, ↓reduceDIte]
    rw [ih, fold1_chunks r assoc _ (breakUp_ne_nil rs _), breakUp_flatten rs (by omega)]

end Jug.MR
