import JugModel.Lemmas.Loop
/-!
The scheduling loop of any length keeps the worker-local guards of the execution model (`lconforms`): every event of
`loopTrace` is a legal step of `lstep`, a task function is entered only after every dependency was observed complete,
and the loop ends holding nothing, with a truthful `failures` value.
-/
set_option linter.unusedVariables false
namespace Jug.Loop
open Jug.Exec

variable (F : Flags) (deps : List (List Task))

abbrev CS := LSt Unit × List Task × Bool

theorem lrun_append (a b : Tr) : ∀ s : CS, lrun F deps s (a ++ b) = (lrun F deps s a).bind (fun s' => lrun F deps s' b) := by
  induction a with
  | nil => intro s; simp [lrun]
  | cons x xs ih =>
    intro s
    simp only [List.cons_append, lrun]
    cases lcheck F deps s x with
    | none => simp
    | some s' => simp [ih]

theorem lrun_append_some {a b : Tr} {s s' : CS} (h : lrun F deps s a = some s') :
    lrun F deps s (a ++ b) = lrun F deps s' b := by
  rw [lrun_append, h]; rfl

/-- protocol states in which `can_load` queries about any task leave the state alone -/
def Transparent (x : WSt Unit) : Prop := x = .idle ∨ ∃ t, x = .holding t true

theorem lcheck_cl (st : LSt Unit) (known : List Task) (w : Worker) (d : Task) (b : Bool) (h : Transparent st.1) :
    lcheck F deps (st, known, false) (.ev (.canLoad w d b)) = some (st, if b then d :: known else known, false) := by
  obtain ⟨x, f⟩ := st
  rcases h with h | ⟨t, h⟩ <;> simp only [] at h <;> subst h <;> cases b <;> simp [lcheck, lstep]

theorem run_cl (tr : Tr) (h : OnlyCL tr) (st : LSt Unit) (ht : Transparent st.1) : ∀ known : List Task,
    ∃ known', lrun F deps (st, known, false) tr = some (st, known', false) ∧ (∀ d, d ∈ known → d ∈ known') ∧
      (∀ d, LEv.ev (.canLoad 0 d true) ∈ tr → d ∈ known') := by
  induction tr with
  | nil => intro known; exact ⟨known, rfl, fun _ h => h, fun d hd => by cases hd⟩
  | cons x xs ih =>
    intro known
    have hx := h x (by simp)
    have hxs : OnlyCL xs := fun y hy => h y (by simp [hy])
    cases x with
    | ev e =>
      cases e <;> simp [isCL] at hx
      rename_i w d b
      obtain ⟨k', h1, h2, h3⟩ := ih hxs (if b then d :: known else known)
      refine ⟨k', ?_, ?_, ?_⟩
      · simp only [lrun, lcheck_cl F deps st known w d b ht]; exact h1
      · intro y hy; apply h2; split <;> simp [hy]
      · intro y hy
        rcases List.mem_cons.mp hy with heq | hin
        · injection heq with heq; injection heq with _ h4 h5
          subst h4; subst h5
          apply h2; simp
        · exact h3 y hin
    | _ => simp [isCL] at hx

theorem run_scan {e e' : Env} {tr : Tr} (h : ScanOK e e' tr) (st : LSt Unit) (ht : Transparent st.1) (known : List Task)
    (hk : ∀ d, d ∈ e.known → d ∈ known) :
    ∃ known', lrun F deps (st, known, false) tr = some (st, known', false) ∧ (∀ d, d ∈ known → d ∈ known') ∧
      (∀ d, d ∈ e'.known → d ∈ known') := by
  obtain ⟨k', h1, h2, h3⟩ := run_cl F deps tr h.cl st ht known
  refine ⟨k', h1, h2, ?_⟩
  intro d hd
  rcases h.kfrom d hd with h' | h'
  · exact h2 d (hk d h')
  · exact h3 d h'

/-! ### operations that leave the known set alone -/

theorem known_pop (e : Env) : e.pop.2.known = e.known := (pop_known e).1
theorem known_release (e : Env) (t : Task) : (release e t).known = e.known := rfl
theorem known_unloadL (e : Env) (ds : List Task) : (unloadL e ds).known = e.known := rfl
theorem known_afterBlock (fl : LFlags) (e : Env) (prev : Option Task) : (afterBlock fl e prev).known = e.known := by
  unfold afterBlock; split <;> rfl
theorem known_preUnload (fl : LFlags) (dp : Task → List Task) (prev : Option Task) (e : Env) (t : Task) :
    (preUnload fl dp prev e t).known = e.known := by
  unfold preUnload; split
  · split <;> rfl
  · rfl
theorem known_finallyUnlock (l k : Bool) (e : Env) (t : Task) : (finallyUnlock l k e t).1.known = e.known := by
  unfold finallyUnlock; split <;> rfl

theorem loadArgs_known (ds : List Task) : ∀ e : Env, (∀ d, d ∈ ds → d ∈ e.known) → (loadArgs e ds).1.known = e.known := by
  induction ds with
  | nil => intro e _; rfl
  | cons d ds ih =>
    intro e hk
    unfold loadArgs
    split
    · exact ih e (fun x hx => hk x (by simp [hx]))
    · rw [canLoadQ_of_known e d (hk d (by simp))]
      simp only []
      have := ih { e with loaded := d :: e.loaded } (fun x hx => hk x (by simp [hx]))
      cases hl : loadArgs { e with loaded := d :: e.loaded } ds with
      | mk e2 tr2 => rw [hl] at this; simpa using this

/-- arguments are loaded while the lock is held and the re-check is done: nothing changes in the protocol state -/
theorem run_loadArgs (t : Task) (f : Bool) (ds : List Task) : ∀ (e : Env) (known : List Task),
    (∀ d, d ∈ ds → d ∈ e.known) →
    ∃ known', lrun F deps ((.holding t true, f), known, false) (loadArgs e ds).2 = some ((.holding t true, f), known', false) ∧
      (∀ d, d ∈ known → d ∈ known') := by
  induction ds with
  | nil => intro e known _; exact ⟨known, rfl, fun _ h => h⟩
  | cons d ds ih =>
    intro e known hk
    unfold loadArgs
    split
    · exact ih e known (fun x hx => hk x (by simp [hx]))
    · rw [canLoadQ_of_known e d (hk d (by simp))]
      simp only []
      obtain ⟨k', h1, h2⟩ := ih { e with loaded := d :: e.loaded } (d :: known) (fun x hx => hk x (by simp [hx]))
      cases hl : loadArgs { e with loaded := d :: e.loaded } ds with
      | mk e2 tr2 =>
        rw [hl] at h1
        simp only [] at h1 ⊢
        refine ⟨k', ?_, fun x hx => h2 x (by simp [hx])⟩
        simp only [List.cons_append, List.nil_append, lrun]
        rw [lcheck_cl F deps _ known 0 d true (Or.inr ⟨t, rfl⟩)]
        simp only [if_true]
        have : lcheck F deps ((WSt.holding t true, f), d :: known, false) (.ev (.load 0 d ())) = some ((WSt.holding t true, f), d :: known, false) := by
          simp [lcheck, lstep]
        simp only [this]
        exact h1

/-- what a conforming run of one task of `upnext` ends in -/
def Post (o : Outcome) (f : Bool) (e' : Env) (s' : CS) : Prop :=
  match o with
  | .cont f' => s'.1 = (.idle, f || f') ∧ s'.2.2 = false ∧ ∀ d, d ∈ e'.known → d ∈ s'.2.1
  | _ => s'.2.2 = true

theorem run_stopPath (k : StopKind) (e : Env) (t : Task) (x : WSt Unit) (f : Bool) (known : List Task)
    (hx : x = .holding t true ∨ x = .running t ∨ x = .ran t () true) :
    ∃ s', lrun F deps ((x, f), known, false) (stopPath k e t).2.2 = some s' ∧ s'.2.2 = true ∧ ∀ f', (stopPath k e t).1 ≠ .cont f' := by
  unfold stopPath finallyUnlock
  simp only [Bool.not_false, Bool.and_true, if_true]
  rcases hx with h | h | h <;> subst h <;> refine ⟨((.stopping none k, f), known, true), ?_, rfl, by simp⟩ <;>
    simp [lrun, lcheck, lstep]

theorem lrun_chain {a b : Tr} {s s1 s2 : CS} (h1 : lrun F deps s a = some s1) (h2 : lrun F deps s1 b = some s2) :
    lrun F deps s (a ++ b) = some s2 := by
  rw [lrun_append_some F deps h1]; exact h2

/-- the protocol flags of a loop run -/
def FL (fl : LFlags) : Flags := ⟨fl.keepGoing, fl.keepFailed⟩

theorem run_failPath (fl : LFlags) (prev : Option Task) (e : Env) (t : Task) (known : List Task) :
    ∃ s', lrun (FL fl) deps ((.failedTask t, true), known, false) (failPath fl prev e t).2.2 = some s' ∧
      (failPath fl prev e t).2.1.known = e.known ∧
      ((fl.keepGoing = true ∧ (failPath fl prev e t).1 = .cont true ∧ s' = ((.idle, true), known, false)) ∨
       (fl.keepGoing = false ∧ (failPath fl prev e t).1 = .exc ∧ s'.2.2 = true)) := by
  obtain ⟨kg, kf, ag, hx⟩ := fl
  cases kg <;> cases kf <;>
    simp [failPath, finallyUnlock, FL, lrun, lcheck, lstep, known_afterBlock, known_release]

theorem run_execTask (fl : LFlags) (dp : Task → List Task) (hdp : dp = fun t => deps.getD t []) (prev : Option Task) (e : Env) (t : Task)
    (f : Bool) (known : List Task) (hk : ∀ d, d ∈ dp t → d ∈ e.known) (hkn : ∀ d, d ∈ e.known → d ∈ known) :
    ∃ s', lrun (FL fl) deps ((.holding t true, f), known, false) (execTask fl dp prev e t).2.2 = some s' ∧
      Post (execTask fl dp prev e t).1 f (execTask fl dp prev e t).2.1 s' := by
  unfold execTask
  obtain ⟨c1, c2, c3⟩ := canRun_of_known (dp t) e hk
  cases hc : canRun e (dp t) with
  | mk b r =>
    obtain ⟨e1, tr1⟩ := r
    rw [hc] at c1 c2 c3
    simp only [] at c1 c2 c3
    subst c1; subst c2
    simp only []
    obtain ⟨kn1, r1, m1, _⟩ := run_cl (FL fl) deps tr1 c3 (.holding t true, f) (Or.inr ⟨t, rfl⟩) known
    obtain ⟨kn2, r2, m2⟩ := run_loadArgs (FL fl) deps t f (dp t) e1 kn1 hk
    have lk := loadArgs_known (dp t) e1 hk
    cases hl : loadArgs e1 (dp t) with
    | mk e2 tr2 =>
      rw [hl] at r2 lk
      simp only [] at r2 lk ⊢
      have hkn2 : ∀ d, d ∈ e1.known → d ∈ kn2 := fun d hd => m2 d (m1 d (hkn d hd))
      have hbegin : lcheck (FL fl) deps ((WSt.holding t true, f), kn2, false) (.ev (.begin_ 0 t)) = some ((WSt.running t, f), kn2, false) := by
        have hall : ∀ x, x ∈ deps[t]?.getD [] → x ∈ kn2 := by
          intro d hd
          have : d ∈ dp t := by subst hdp; simpa using hd
          exact hkn2 d (hk d this)
        simp [lcheck, lstep]; exact hall
      have rpre : lrun (FL fl) deps ((WSt.holding t true, f), known, false) (tr1 ++ tr2 ++ [LEv.ev (.begin_ 0 t)]) = some ((WSt.running t, f), kn2, false) := by
        apply lrun_chain _ _ (lrun_chain _ _ r1 r2)
        simp [lrun, hbegin]
      have kp := known_pop e2
      cases hpop : e2.pop with
      | mk o e3 =>
        rw [hpop] at kp
        simp only [] at kp ⊢
        split
        · -- the function returned
          generalize he4 : ({ e3 with loaded := t :: e3.loaded, known := t :: e3.known } : Env) = e4
          have k4 : e4.known = t :: e1.known := by rw [← he4]; simp [kp, lk]
          have k5 : (if fl.hookExits = true then e4.pop else (0, e4)).2.known = t :: e1.known := by
            split
            · rw [known_pop, k4]
            · exact k4
          have rbody : lrun (FL fl) deps ((WSt.holding t true, f), known, false)
              (tr1 ++ tr2 ++ [LEv.ev (.begin_ 0 t)] ++ [LEv.ev (.endOk 0 t ()), LEv.ev (.dump 0 t ()), LEv.executed1 t]) =
              some ((WSt.ran t () true, f), t :: kn2, false) := by
            apply lrun_chain _ _ rpre
            simp [lrun, lcheck, lstep]
          cases hh : (if fl.hookExits = true then e4.pop else (0, e4)) with
          | mk hx e5 =>
            rw [hh] at k5
            simp only [] at k5 ⊢
            split
            · obtain ⟨s', q1, q2, q3⟩ := run_stopPath (FL fl) deps (.sysExit 0) e5 t (.ran t () true) f (t :: kn2) (Or.inr (Or.inr rfl))
              cases hs : stopPath (.sysExit 0) e5 t with
              | mk o' r' =>
                obtain ⟨e6, tr3⟩ := r'
                rw [hs] at q1 q3
                simp only [] at q1 q3 ⊢
                refine ⟨s', lrun_chain _ _ rbody q1, ?_⟩
                cases o' with
                | cont f' => exact absurd rfl (q3 f')
                | stopped k => exact q2
                | exc => exact q2
            · have ku := known_finallyUnlock true false e5 t
              cases hu : finallyUnlock true false e5 t with
              | mk e6 trU =>
                have htr : trU = [LEv.ev (.unlock 0 t)] := by simp [finallyUnlock] at hu; exact hu.2.symm
                rw [hu] at ku
                simp only [] at ku ⊢
                refine ⟨((.idle, f), t :: kn2, false), ?_, ?_⟩
                · apply lrun_chain _ _ rbody
                  subst htr; simp [lrun, lcheck, lstep]
                · refine ⟨by simp, rfl, ?_⟩
                  intro d hd
                  rw [known_afterBlock, ku, k5] at hd
                  simp only [] at hd ⊢
                  rcases List.mem_cons.mp hd with rfl | hd'
                  · simp
                  · simp [hkn2 d hd']
        · split
          · -- the function raised
            obtain ⟨s', q1, q2, q3⟩ := run_failPath deps fl prev e3 t kn2
            cases hf : failPath fl prev e3 t with
            | mk o' r' =>
              obtain ⟨e4, tr3⟩ := r'
              rw [hf] at q1 q2 q3
              simp only [] at q1 q2 q3 ⊢
              refine ⟨s', ?_, ?_⟩
              · have rexc : lrun (FL fl) deps ((WSt.holding t true, f), known, false)
                    (tr1 ++ tr2 ++ [LEv.ev (.begin_ 0 t)] ++ [LEv.ev (.endExc 0 t)]) = some ((WSt.failedTask t, true), kn2, false) := by
                  apply lrun_chain _ _ rpre
                  simp [lrun, lcheck, lstep]
                exact lrun_chain _ _ rexc q1
              · rcases q3 with ⟨_, ho, hs⟩ | ⟨_, ho, hs⟩
                · subst ho; subst hs
                  refine ⟨by simp, rfl, ?_⟩
                  intro d hd; rw [q2, kp, lk] at hd; exact hkn2 d hd
                · subst ho; exact hs
          · split
            · obtain ⟨s', q1, q2, q3⟩ := run_stopPath (FL fl) deps (.sysExit 1) e3 t (.running t) f kn2 (Or.inr (Or.inl rfl))
              cases hs : stopPath (.sysExit 1) e3 t with
              | mk o' r' =>
                obtain ⟨e4, tr3⟩ := r'
                rw [hs] at q1 q3
                simp only [] at q1 q3 ⊢
                refine ⟨s', lrun_chain _ _ rpre q1, ?_⟩
                cases o' with
                | cont f' => exact absurd rfl (q3 f')
                | stopped k => exact q2
                | exc => exact q2
            · obtain ⟨s', q1, q2, q3⟩ := run_stopPath (FL fl) deps .kbdInt e3 t (.running t) f kn2 (Or.inr (Or.inl rfl))
              cases hs : stopPath .kbdInt e3 t with
              | mk o' r' =>
                obtain ⟨e4, tr3⟩ := r'
                rw [hs] at q1 q3
                simp only [] at q1 q3 ⊢
                refine ⟨s', lrun_chain _ _ rpre q1, ?_⟩
                cases o' with
                | cont f' => exact absurd rfl (q3 f')
                | stopped k => exact q2
                | exc => exact q2

theorem post_of_stop {o : Outcome} {f : Bool} {e' : Env} {s' : CS} (h1 : s'.2.2 = true) (h2 : ∀ f', o ≠ .cont f') : Post o f e' s' := by
  cases o with
  | cont f' => exact absurd rfl (h2 f')
  | stopped k => exact h1
  | exc => exact h1

theorem run_runLocked (fl : LFlags) (dp : Task → List Task) (hdp : dp = fun t => deps.getD t []) (prev : Option Task) (e : Env) (t : Task)
    (f : Bool) (known : List Task) (hk : ∀ d, d ∈ dp t → d ∈ e.known) (hkn : ∀ d, d ∈ e.known → d ∈ known) :
    ∃ s', lrun (FL fl) deps ((.holding t true, f), known, false) (runLocked fl dp prev e t).2.2.2 = some s' ∧
      Post (runLocked fl dp prev e t).1 f (runLocked fl dp prev e t).2.1 s' := by
  unfold runLocked
  have k1 : (if fl.hookExits = true then e.pop else (0, e)).2.known = e.known := by
    split
    · exact known_pop e
    · rfl
  have hpre : lcheck (FL fl) deps ((WSt.holding t true, f), known, false) (.preExec t) = some ((WSt.holding t true, f), known, false) := by
    simp [lcheck]
  cases hh : (if fl.hookExits = true then e.pop else (0, e)) with
  | mk hx e1 =>
    rw [hh] at k1
    simp only [] at k1 ⊢
    split
    · obtain ⟨s', q1, q2, q3⟩ := run_stopPath (FL fl) deps (.sysExit 0) e1 t (.holding t true) f known (Or.inl rfl)
      cases hs : stopPath (.sysExit 0) e1 t with
      | mk o' r' =>
        obtain ⟨e2, tr⟩ := r'
        rw [hs] at q1 q3
        simp only [] at q1 q3 ⊢
        refine ⟨s', ?_, post_of_stop q2 q3⟩
        simp only [lrun, hpre]; exact q1
    · have k2 := known_preUnload fl dp prev e1 t
      obtain ⟨s', q1, q2⟩ := run_execTask deps fl dp hdp (nextPrev fl prev t) (preUnload fl dp prev e1 t) t f known
        (fun d hd => by rw [k2, k1]; exact hk d hd) (fun d hd => by rw [k2, k1] at hd; exact hkn d hd)
      cases hx : execTask fl dp (nextPrev fl prev t) (preUnload fl dp prev e1 t) t with
      | mk o r' =>
        obtain ⟨e3, tr⟩ := r'
        rw [hx] at q1 q2
        simp only [] at q1 q2 ⊢
        refine ⟨s', ?_, q2⟩
        simp only [lrun, hpre]; exact q1

theorem run_runTask (fl : LFlags) (dp : Task → List Task) (hdp : dp = fun t => deps.getD t []) (prev : Option Task) (e : Env) (t : Task)
    (f : Bool) (known : List Task) (hk : ∀ d, d ∈ dp t → d ∈ e.known) (hkn : ∀ d, d ∈ e.known → d ∈ known) :
    ∃ s', lrun (FL fl) deps ((.idle, f), known, false) (runTask fl dp prev e t).2.2.2 = some s' ∧
      Post (runTask fl dp prev e t).1 f (runTask fl dp prev e t).2.1 s' := by
  unfold runTask
  have q1 := canLoadQ_scanOK e t
  cases hc : canLoadQ e t with
  | mk b r =>
    obtain ⟨e1, tr1⟩ := r
    rw [hc] at q1
    simp only [] at q1
    obtain ⟨kn1, r1, m1, n1⟩ := run_scan (FL fl) deps q1 (.idle, f) (Or.inl rfl) known hkn
    cases b with
    | true =>
      simp only []
      exact ⟨_, r1, by simp, rfl, n1⟩
    | false =>
      simp only []
      have kp := known_pop e1
      cases hpop : e1.pop with
      | mk a e2 =>
        rw [hpop] at kp
        simp only [] at kp ⊢
        generalize he3 : (if decide (a % 2 = 1) = true then ({ e2 with held := t :: e2.held } : Env) else e2) = e3
        have k3 : e3.known = e1.known := by rw [← he3]; split <;> simp [kp]
        have q2 := canLoadQ_scanOK e3 t
        have q2t := canLoadQ_tr e3 t
        cases hc2 : canLoadQ e3 t with
        | mk b2 r2 =>
          obtain ⟨e4, tr2⟩ := r2
          rw [hc2] at q2 q2t
          simp only [] at q2 q2t
          subst q2t
          have hk4 : ∀ d, d ∈ dp t → d ∈ e4.known := fun d hd => q2.kle d (by rw [k3]; exact q1.kle d (hk d hd))
          by_cases hlk : a % 2 = 1
          · -- the lock was obtained
            simp only [hlk, decide_true, if_true] at he3 ⊢
            have rL : lrun (FL fl) deps ((WSt.idle, f), known, false) (tr1 ++ [LEv.ev (.lock 0 t true)]) = some ((WSt.holding t false, f), kn1, false) := by
              apply lrun_chain _ _ r1; simp [lrun, lcheck, lstep]
            cases b2 with
            | true =>
              simp only []
              have ku := known_finallyUnlock true false e4 t
              cases hu : finallyUnlock true false e4 t with
              | mk e5 tr3 =>
                have htr : tr3 = [LEv.ev (.unlock 0 t)] := by simp [finallyUnlock] at hu; exact hu.2.symm
                rw [hu] at ku
                simp only [] at ku ⊢
                subst htr
                refine ⟨((.idle, f), t :: kn1, false), ?_, by simp, rfl, ?_⟩
                · apply lrun_chain _ _ (lrun_chain _ _ rL (s2 := ((WSt.holdingDone t, f), t :: kn1, false)) (by simp [lrun, lcheck, lstep]))
                  simp [lrun, lcheck, lstep]
                · intro d hd
                  rw [known_afterBlock, ku] at hd
                  simp only []
                  rcases q2.kfrom d hd with h | h
                  · rw [k3] at h; simp [n1 d h]
                  · simp at h; simp [h]
            | false =>
              simp only []
              have hkn4 : ∀ d, d ∈ e4.known → d ∈ kn1 := by
                intro d hd
                rcases q2.kfrom d hd with h | h
                · rw [k3] at h; exact n1 d h
                · simp at h
              obtain ⟨s', x1, x2⟩ := run_runLocked deps fl dp hdp prev e4 t f kn1 hk4 hkn4
              cases hx : runLocked fl dp prev e4 t with
              | mk o r' =>
                obtain ⟨e5, prev', tr3⟩ := r'
                rw [hx] at x1 x2
                simp only [] at x1 x2 ⊢
                refine ⟨s', ?_, x2⟩
                apply lrun_chain _ _ (lrun_chain _ _ rL (s2 := ((WSt.holding t true, f), kn1, false)) (by simp [lrun, lcheck, lstep])) x1
          · -- somebody else holds the lock
            simp only [hlk, decide_false, Bool.false_eq_true, if_false] at he3 ⊢
            have rL : lrun (FL fl) deps ((WSt.idle, f), known, false) (tr1 ++ [LEv.ev (.lock 0 t false)]) = some ((WSt.idle, f), kn1, false) := by
              apply lrun_chain _ _ r1; simp [lrun, lcheck, lstep]
            obtain ⟨kn2, r2, m2, n2⟩ := run_scan (FL fl) deps q2 (.idle, f) (Or.inl rfl) kn1 (fun d hd => by rw [k3] at hd; exact n1 d hd)
            cases b2 with
            | true =>
              simp only [finallyUnlock, Bool.false_and, Bool.false_eq_true, if_false, List.append_nil]
              refine ⟨_, lrun_chain _ _ rL r2, by simp, rfl, ?_⟩
              intro d hd; rw [known_afterBlock] at hd; exact n2 d hd
            | false =>
              simp only []
              refine ⟨_, lrun_chain _ _ rL r2, by simp, rfl, ?_⟩
              intro d hd; rw [known_afterBlock] at hd; exact n2 d hd

/-- what a conforming run of a whole batch ends in (`runAll` returns the accumulated `failures`) -/
def PostAll (o : Outcome) (e' : Env) (s' : CS) : Prop :=
  match o with
  | .cont f' => s'.1 = (.idle, f') ∧ s'.2.2 = false ∧ ∀ d, d ∈ e'.known → d ∈ s'.2.1
  | _ => s'.2.2 = true

theorem run_runAll (fl : LFlags) (dp : Task → List Task) (hdp : dp = fun t => deps.getD t []) (up : List Task) :
    ∀ (prev : Option Task) (e : Env) (f : Bool) (known : List Task),
    (∀ u, u ∈ up → ∀ d, d ∈ dp u → d ∈ e.known) → (∀ d, d ∈ e.known → d ∈ known) →
    ∃ s', lrun (FL fl) deps ((.idle, f), known, false) (runAll fl dp prev e f up).2.2.2 = some s' ∧
      PostAll (runAll fl dp prev e f up).1 (runAll fl dp prev e f up).2.1 s' := by
  induction up with
  | nil => intro prev e f known _ hkn; exact ⟨_, rfl, rfl, rfl, hkn⟩
  | cons t ts ih =>
    intro prev e f known hk hkn
    unfold runAll
    obtain ⟨s1, a1, a2⟩ := run_runTask deps fl dp hdp prev e t f known (hk t (by simp)) hkn
    obtain ⟨t1, _, _⟩ := runTask_spec false deps dp fl prev e t (hk t (by simp))
    cases ht : runTask fl dp prev e t with
    | mk o r =>
      obtain ⟨e1, prev1, tr1⟩ := r
      rw [ht] at a1 a2 t1
      simp only [] at a1 a2 t1
      cases o with
      | cont fd =>
        simp only []
        obtain ⟨st1, kn1, fin1⟩ := s1
        simp only [Post] at a2
        obtain ⟨h1, h2, h3⟩ := a2
        subst h1; subst h2
        obtain ⟨s2, b1, b2⟩ := ih prev1 e1 (f || fd) kn1 (fun u hu d hd => t1.1 d (hk u (by simp [hu]) d hd)) h3
        cases ha : runAll fl dp prev1 e1 (f || fd) ts with
        | mk o2 r2 =>
          obtain ⟨e2, prev2, tr2⟩ := r2
          rw [ha] at b1 b2
          simp only [] at b1 b2 ⊢
          exact ⟨s2, lrun_chain _ _ a1 b1, b2⟩
      | stopped k => simp only []; exact ⟨s1, a1, a2⟩
      | exc => simp only []; exact ⟨s1, a1, a2⟩

theorem run_outer (fl : LFlags) (dp : Task → List Task) (hdp : dp = fun t => deps.getD t []) (nr : Nat) (fuel : Nat) :
    ∀ (prev : Option Task) (e : Env) (f : Bool) (ts : List Task) (known : List Task),
    ts.length < fuel → EInv e → (∀ d, d ∈ e.known → d ∈ known) →
    ∃ s', lrun (FL fl) deps ((.idle, f), known, false) (outer fl dp nr fuel prev e f ts) = some s' ∧ s'.2.2 = true := by
  induction fuel with
  | zero => intro prev e f ts known h; omega
  | succ fu ih =>
    intro prev e f ts known hlen hi hkn
    have hret : ∀ kn : List Task, lrun (FL fl) deps ((WSt.idle, f), kn, false) [LEv.ret f] = some ((WSt.idle, f), kn, true) := by
      intro kn; simp [lrun, lcheck]
    cases ts with
    | nil => exact ⟨_, by simpa [outer] using hret known, rfl⟩
    | cons t ts =>
      unfold outer
      obtain ⟨c1, c2, c3, c4⟩ := scanCycles_spec dp nr e (t :: ts)
      have hl := scanCycles_length dp nr e (t :: ts)
      cases hsc : scanCycles dp nr e (t :: ts) with
      | mk up r =>
        obtain ⟨e1, ts1, tr1⟩ := r
        rw [hsc] at c1 c2 c3 c4 hl
        simp only [] at c1 c2 c3 c4 hl
        obtain ⟨kn1, r1, m1, n1⟩ := run_scan (FL fl) deps c1 (.idle, f) (Or.inl rfl) known hkn
        cases up with
        | nil => simp only []; exact ⟨_, lrun_chain _ _ r1 (hret kn1), rfl⟩
        | cons u up =>
          simp only []
          obtain ⟨s2, a1, a2⟩ := run_runAll deps fl dp hdp (u :: up) prev e1 f kn1 (c3 hi) n1
          obtain ⟨t1, _, _⟩ := runAll_spec false deps dp fl (u :: up) prev e1 f (c3 hi)
          cases hra : runAll fl dp prev e1 f (u :: up) with
          | mk o r2 =>
            obtain ⟨e2, prev2, tr2⟩ := r2
            rw [hra] at a1 a2 t1
            simp only [] at a1 a2 t1
            cases o with
            | cont f' =>
              simp only []
              obtain ⟨st2, kn2, fin2⟩ := s2
              simp only [PostAll] at a2
              obtain ⟨h1, h2, h3⟩ := a2
              subst h1; subst h2
              obtain ⟨s3, b1, b2⟩ := ih prev2 e2 f' ts1 kn2 (by simp at hl hlen; omega) (t1.2 (einv_of_scanOK c1 hi)) h3
              refine ⟨s3, ?_, b2⟩
              rw [List.append_assoc]
              exact lrun_chain _ _ r1 (lrun_chain _ _ a1 b1)
            | stopped k => simp only []; exact ⟨s2, lrun_chain _ _ r1 a1, a2⟩
            | exc => simp only []; exact ⟨s2, lrun_chain _ _ r1 a1, a2⟩

/-- **the scheduling loop of any length keeps the per-task protocol**: every event of a run of `execution_loop` - whatever the task
    list, its dependencies, the flags, the wait cycles and the answers of the environment - is a legal step of the worker-local
    transition function `lstep` (lock before run, re-check under the lock, `dump` after a normal return and before `unlock`, `unlock`
    on every exit path unless failed and kept, `fail()` only with --keep-failed), a task function is entered only after each of its
    dependencies was observed complete, and the loop ends holding nothing with a truthful `failures` value or the right exception. -/
theorem loop_conforms (fl : LFlags) (deps : List (List Task)) (nr : Nat) (answers : List Nat) :
    lconforms ⟨⟨fl.keepGoing, fl.keepFailed⟩, deps, loopTrace fl deps nr answers⟩ = true := by
  unfold lconforms loopTrace
  simp only []
  obtain ⟨k1, _⟩ := skipLoadable_spec (List.range deps.length) (Env.init answers)
  cases hsk : skipLoadable (Env.init answers) (List.range deps.length) with
  | mk e r =>
    obtain ⟨ts, tr⟩ := r
    rw [hsk] at k1
    simp only [] at k1 ⊢
    obtain ⟨kn1, r1, _, n1⟩ := run_scan (FL fl) deps k1 (.idle, false) (Or.inl rfl) [] (by intro d hd; simp [Env.init] at hd)
    obtain ⟨s', b1, b2⟩ := run_outer deps fl (fun t => deps.getD t []) rfl nr (ts.length + 1) none e false ts kn1 (by omega)
      (einv_of_scanOK k1 (by intro d hd; simp [Env.init] at hd)) n1
    have := lrun_chain _ _ r1 b1
    simp only [FL] at this
    rw [this]
    obtain ⟨a, b, c⟩ := s'
    simpa using b2

end Jug.Loop
