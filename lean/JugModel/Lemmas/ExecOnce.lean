import JugModel.Lemmas.ExecVal
/-! at-most-once bookkeeping (ghost counter `runs`) -/
set_option linter.unusedVariables false
namespace Jug.Exec
variable {V : Type} [DecidableEq V]

/-- the function of `t` has been started by this worker and its result is not stored yet -/
def isActive : WSt V → Option Task
  | .running t => some t
  | .ran t _ false => some t
  | _ => none

theorem isActive_noRes {x : WSt V} {t : Task} (h : isActive x = some t) : noRes x = some t := by
  cases x <;> simp_all [isActive, noRes] <;> (split at h <;> simp_all)

/-- events of failure-, stop-, crash- and operator-free histories -/
def Clean : Ev V → Prop
  | .endExc _ _ => False
  | .stop _ _ => False
  | .crash _ => False
  | .removeLocks => False
  | .removeFailedLocks => False
  | _ => True

structure Inv2 (s : Sys V) : Prop extends Inv s where
  once : ∀ t, s.runs t ≤ 1
  ran_acc : ∀ t, 1 ≤ s.runs t → s.res t ≠ none ∨ ∃ w, isActive (s.wk w) = some t

/-- the heart of "at most once": when `begin` is enabled for `t`, `t` has never been begun -/
theorem runs_zero_at_begin {s : Sys V} (h : Inv2 s) {w : Worker} {t : Task}
    (hwk : s.wk w = .holding t true) : s.runs t = 0 := by
  rcases Nat.eq_zero_or_pos (s.runs t) with hz | hpos
  · exact hz
  · exfalso
    rcases h.ran_acc t hpos with hr | ⟨w', hw'⟩
    · have := h.nores w t (by simp [hwk, noRes]); exact hr this
    · have a := h.lock_cs w' t (noRes_cs (isActive_noRes hw'))
      have b := h.lock_cs w t (by simp [hwk, csTask])
      rw [a] at b; injection b with hww; subst hww; simp [hwk, isActive] at hw'

theorem runs_of_accept (P : Prog V) (fl : Worker → Flags) {s s' : Sys V} {e : Ev V} (hs : accept P fl s e = some s') (t : Task) :
    s'.runs t = s.runs t ∨ ∃ w, e = .begin_ w t ∧ s.wk w = .holding t true ∧ s'.runs t = s.runs t + 1 ∧ s'.wk w = .running t := by
  cases e <;> simp only [accept] at hs <;> (repeat' split at hs) <;> simp_all <;> (try subst_vars) <;> (try simp [upd]) <;> grind

theorem active_next (P : Prog V) (fl : Worker → Flags) {s s' : Sys V} {e : Ev V} (hc : Clean e) (hs : accept P fl s e = some s')
    (w : Worker) (t : Task) (ha : isActive (s.wk w) = some t) :
    isActive (s'.wk w) = some t ∨ s'.res t ≠ none := by
  cases e <;> simp only [accept] at hs <;> (repeat' split at hs) <;> simp_all [Clean] <;> (try subst_vars) <;>
    (try simp only [upd]) <;> grind [isActive]

theorem res_mono (P : Prog V) (fl : Worker → Flags) {s s' : Sys V} {e : Ev V} (hs : accept P fl s e = some s')
    (t : Task) (h : s.res t ≠ none) : s'.res t ≠ none := by
  rcases res_of_accept P fl s s' e hs with h1 | ⟨w, t', v, _, _, h1⟩
  · rw [h1]; exact h
  · rw [h1]; simp only [upd]; split <;> simp_all

theorem accept_inv2 (P : Prog V) (fl : Worker → Flags) (s s' : Sys V) (e : Ev V) (h : Inv2 s) (hc : Clean e)
    (hl : Legal s e) (hs : accept P fl s e = some s') : Inv2 s' := by
  refine ⟨accept_inv P fl s s' e h.toInv hl hs, ?_, ?_⟩
  · intro t
    rcases runs_of_accept P fl hs t with h1 | ⟨w, _, hwk, h1, _⟩
    · rw [h1]; exact h.once t
    · rw [h1, runs_zero_at_begin h hwk]; omega
  · intro t ht
    rcases runs_of_accept P fl hs t with h1 | ⟨w, _, hwk, h1, hw'⟩
    · rw [h1] at ht
      rcases h.ran_acc t ht with hr | ⟨w, hw⟩
      · left; exact res_mono P fl hs t hr
      · rcases active_next P fl hc hs w t hw with h2 | h2
        · right; exact ⟨w, h2⟩
        · left; exact h2
    · right; exact ⟨w, by simp [hw', isActive]⟩

/-- histories of clean events -/
def CleanSteps (P : Prog V) (fl : Worker → Flags) : Sys V → List (Ev V) → Sys V → Prop
  | s, [], s' => s = s'
  | s, e :: es, s' => Clean e ∧ ∃ s1, accept P fl s e = some s1 ∧ CleanSteps P fl s1 es s'

theorem legal_of_clean (s : Sys V) (e : Ev V) (hc : Clean e) : Legal s e := by
  cases e <;> simp_all [Clean, Legal]

theorem cleanSteps_inv2 (P : Prog V) (fl : Worker → Flags) (evs : List (Ev V)) (s s' : Sys V) (h : Inv2 s)
    (hs : CleanSteps P fl s evs s') : Inv2 s' := by
  induction evs generalizing s with
  | nil => simp only [CleanSteps] at hs; subst hs; exact h
  | cons e es ih =>
    simp only [CleanSteps] at hs
    obtain ⟨hc, s1, ha, hr⟩ := hs
    exact ih s1 (accept_inv2 P fl s s1 e h hc (legal_of_clean s e hc) ha) hr

theorem inv2_init (res : Task → Option V) : Inv2 (initSys res) := by
  refine ⟨inv_init res, ?_, ?_⟩ <;> intros <;> simp_all [initSys]

end Jug.Exec

namespace Jug.Exec
variable {V : Type} [DecidableEq V]

theorem active_origin (P : Prog V) (fl : Worker → Flags) {s s' : Sys V} {e : Ev V} (hs : accept P fl s e = some s')
    (w : Worker) (t : Task) (ha : isActive (s'.wk w) = some t) :
    isActive (s.wk w) = some t ∨ e = .begin_ w t := by
  cases e <;> simp only [accept] at hs <;> (repeat' split at hs) <;> simp_all <;> (try subst_vars) <;>
    (try simp only [upd] at ha) <;> (try (split at ha)) <;> (try simp_all [isActive]) <;> grind [isActive]

/-- bookkeeping for histories that start from an empty store -/
structure Inv3 (s : Sys V) : Prop extends Inv2 s where
  act_runs : ∀ w t, isActive (s.wk w) = some t → 1 ≤ s.runs t
  stored_runs : ∀ t, s.res t ≠ none → 1 ≤ s.runs t

theorem runs_mono (P : Prog V) (fl : Worker → Flags) {s s' : Sys V} {e : Ev V} (hs : accept P fl s e = some s') (t : Task) :
    s.runs t ≤ s'.runs t := by
  rcases runs_of_accept P fl hs t with h | ⟨_, _, _, h, _⟩ <;> omega

theorem accept_inv3 (P : Prog V) (fl : Worker → Flags) (s s' : Sys V) (e : Ev V) (h : Inv3 s) (hc : Clean e)
    (hs : accept P fl s e = some s') : Inv3 s' := by
  refine ⟨accept_inv2 P fl s s' e h.toInv2 hc (legal_of_clean s e hc) hs, ?_, ?_⟩
  · intro w t ha
    rcases active_origin P fl hs w t ha with h1 | h1
    · exact Nat.le_trans (h.act_runs w t h1) (runs_mono P fl hs t)
    · subst h1
      rcases runs_of_accept P fl hs t with h2 | ⟨_, _, _, h2, _⟩
      · -- begin always increments
        simp only [accept] at hs
        split at hs
        · split at hs
          · simp only [Option.some.injEq] at hs; subst hs; simp [upd]
          · simp at hs
        · simp at hs
      · omega
  · intro t hr
    rcases res_of_accept P fl s s' e hs with h1 | ⟨w, t', v', _, hwk, h1⟩
    · rw [h1] at hr; exact Nat.le_trans (h.stored_runs t hr) (runs_mono P fl hs t)
    · by_cases htt : t = t'
      · subst htt
        exact Nat.le_trans (h.act_runs w t (by simp [hwk, isActive])) (runs_mono P fl hs t)
      · rw [h1] at hr; simp only [upd, htt, ↓reduceIte] at hr
        exact Nat.le_trans (h.stored_runs t hr) (runs_mono P fl hs t)

theorem cleanSteps_inv3 (P : Prog V) (fl : Worker → Flags) (evs : List (Ev V)) (s s' : Sys V) (h : Inv3 s)
    (hs : CleanSteps P fl s evs s') : Inv3 s' := by
  induction evs generalizing s with
  | nil => simp only [CleanSteps] at hs; subst hs; exact h
  | cons e es ih =>
    simp only [CleanSteps] at hs
    obtain ⟨hc, s1, ha, hr⟩ := hs
    exact ih s1 (accept_inv3 P fl s s1 e h hc ha) hr

theorem inv3_init : Inv3 (initSys (fun _ => (none : Option V))) := by
  refine ⟨inv2_init _, ?_, ?_⟩ <;> intros <;> simp_all [initSys, isActive]

/-- a task with a result in the start state is never started in a clean history -/
theorem stored_never_started_gen (P : Prog V) (fl : Worker → Flags) (t : Task) (evs : List (Ev V)) :
    ∀ (s₀ : Sys V), Inv2 s₀ → s₀.res t ≠ none → s₀.runs t = 0 → ∀ s, CleanSteps P fl s₀ evs s → s.runs t = 0 := by
  induction evs with
  | nil => intro s₀ _ _ hz s hs; simp only [CleanSteps] at hs; subst hs; exact hz
  | cons e es ih =>
    intro s₀ hi hres hz s hs
    simp only [CleanSteps] at hs
    obtain ⟨hc, s1, ha, hr'⟩ := hs
    apply ih s1 (accept_inv2 P fl s₀ s1 e hi hc (legal_of_clean s₀ e hc) ha) (res_mono P fl ha t hres) _ s hr'
    rcases runs_of_accept P fl ha t with h1 | ⟨w, _, hwk, _, _⟩
    · rw [h1]; exact hz
    · exact absurd (hi.nores w t (by simp [hwk, noRes])) hres

end Jug.Exec
