import JugModel.Lemmas.Exec
/-! Value soundness and the at-most-once bookkeeping along histories. -/
set_option linter.unusedVariables false
namespace Jug.Exec

variable {V : Type} [DecidableEq V]

/-- how one accepted event changes the store -/
theorem res_of_accept (P : Prog V) (fl : Worker → Flags) (s s' : Sys V) (e : Ev V) (hs : accept P fl s e = some s') :
    s'.res = s.res ∨ ∃ w t v, e = .dump w t v ∧ s.wk w = .ran t v false ∧ s'.res = upd s.res t (some v) := by
  cases e <;> simp only [accept] at hs <;> (repeat' split at hs) <;> simp_all <;> (try subst_vars) <;> (try simp) <;> grind

/-- how one accepted event changes the state of worker `w'`: either unchanged, or the event is by `w'` -/
def evWorker : Ev V → Option Worker
  | .canLoad w _ _ => some w | .lock w _ _ => some w | .load w _ _ => some w | .begin_ w _ => some w
  | .endOk w _ _ => some w | .endExc w _ => some w | .dump w _ _ => some w | .unlock w _ => some w
  | .markFailed w _ => some w | .stop w _ => some w | .exit w _ => some w | .crash w => some w
  | .removeLocks => none | .removeFailedLocks => none

theorem wk_of_accept (P : Prog V) (fl : Worker → Flags) (s s' : Sys V) (e : Ev V) (hs : accept P fl s e = some s')
    (w' : Worker) (hw : evWorker e ≠ some w') : s'.wk w' = s.wk w' := by
  cases e <;> simp only [accept] at hs <;> (repeat' split at hs) <;> simp_all [evWorker] <;> (try subst_vars) <;>
    (try simp [upd]) <;> grind

end Jug.Exec

namespace Jug.Exec
variable {V : Type} [DecidableEq V]

theorem running_origin (P : Prog V) (fl : Worker → Flags) (s s' : Sys V) (e : Ev V) (hs : accept P fl s e = some s')
    (w : Worker) (t : Task) (hw : s'.wk w = .running t) :
    s.wk w = .running t ∨ (e = .begin_ w t ∧ depsDone P s t = true ∧ s.wk w = .holding t true) := by
  cases e <;> simp only [accept] at hs <;> (repeat' split at hs) <;> simp_all <;> (try subst_vars) <;>
    (try simp only [upd] at hw) <;> (try (split at hw)) <;> (try simp_all) <;> grind

theorem ran_origin (P : Prog V) (fl : Worker → Flags) (s s' : Sys V) (e : Ev V) (hs : accept P fl s e = some s')
    (w : Worker) (t : Task) (v : V) (b : Bool) (hw : s'.wk w = .ran t v b) :
    (∃ b', s.wk w = .ran t v b') ∨ (e = .endOk w t v ∧ s.wk w = .running t ∧ v = P.f t s.res) := by
  cases e <;> simp only [accept] at hs <;> (repeat' split at hs) <;> simp_all <;> (try subst_vars) <;>
    (try simp only [upd] at hw) <;> (try (split at hw)) <;> (try simp_all) <;> grind

theorem accept_invV (P : Prog V) (wf : WF P) (fl : Worker → Flags) (s s' : Sys V) (e : Ev V) (h : InvV P s)
    (hl : Legal s e) (hs : accept P fl s e = some s') : InvV P s' := by
  have hinv : Inv s' := accept_inv P fl s s' e h.toInv hl hs
  obtain ⟨hi, hsound, hrd, hrv⟩ := h
  have hres := res_of_accept P fl s s' e hs
  have hsound' : Sound P s' := by
    intro t v hr
    rcases hres with h1 | ⟨w, t', v', he, hwk, h1⟩
    · rw [h1] at hr; exact hsound t v hr
    · rw [h1] at hr
      simp only [upd] at hr
      split at hr
      · have hv := hrv w t' v' false hwk
        rename_i htt
        simp only [Option.some.injEq] at hr
        rw [← hr, htt]; exact hv
      · exact hsound t v hr
  have hmono : ∀ t, depsDone P s t = true → depsDone P s' t = true := by
    intro t hd
    rcases hres with h1 | ⟨w, t', v', he, hwk, h1⟩
    · simp only [depsDone] at hd ⊢; rw [h1]; exact hd
    · have := depsDone_upd P s t t' v' hd
      simp only [depsDone] at this ⊢; rw [h1]; exact this
  refine ⟨hinv, hsound', ?_, ?_⟩
  · intro w t hw
    rcases running_origin P fl s s' e hs w t hw with h1 | ⟨_, h2, _⟩
    · exact hmono t (hrd w t h1)
    · exact hmono t h2
  · intro w t v b hw
    rcases ran_origin P fl s s' e hs w t v b hw with ⟨b', h1⟩ | ⟨_, h2, h3⟩
    · exact hrv w t v b' h1
    · rw [h3]; exact f_of_sound P wf s hsound t (hrd w t h2)

theorem steps_invV (P : Prog V) (wf : WF P) (fl : Worker → Flags) (evs : List (Ev V)) (s s' : Sys V) (h : InvV P s)
    (hs : Steps P fl s evs s') : InvV P s' := by
  induction evs generalizing s with
  | nil => simp only [Steps] at hs; subst hs; exact h
  | cons e es ih =>
    simp only [Steps] at hs
    obtain ⟨hl, s1, ha, hr⟩ := hs
    exact ih s1 (accept_invV P wf fl s s1 e h hl ha) hr

theorem invV_init (P : Prog V) (res : Task → Option V) (h : ∀ t v, res t = some v → v = denot P t) : InvV P (initSys res) := by
  refine ⟨inv_init res, h, ?_, ?_⟩ <;> intros <;> simp_all [initSys]

end Jug.Exec
