import JugModel.Model.Hash
/-! Helper lemmas for the hash model (C07, C08). -/
set_option linter.unusedVariables false
namespace Jug.Hash
open List

variable {A D : Type}

/-- the digest order is a total order (bytes comparison is) -/
structure TotalOrder (enc : Enc A D) : Prop where
  total : ∀ a b, enc.le a b || enc.le b a
  trans : ∀ a b c, enc.le a b → enc.le b c → enc.le a c
  antisymm : ∀ a b, enc.le a b → enc.le b a → a = b

theorem hashAll_eq_map (enc : Enc A D) (xs : List (PVal A D)) : hashAll enc xs = xs.map (hashOne enc) := by
  induction xs with
  | nil => simp [hashAll]
  | cons x xs ih => simp [hashAll, hashOne, ih]

theorem serKVs_eq_map (enc : Enc A D) (kvs : List (PVal A D × PVal A D)) :
    serKVs enc kvs = kvs.map (fun kv => (hashOne enc kv.1, ser enc kv.2)) := by
  induction kvs with
  | nil => simp [serKVs]
  | cons kv kvs ih => obtain ⟨k, v⟩ := kv; simp [serKVs, hashOne, ih]

theorem sortDigests_perm (enc : Enc A D) (ho : TotalOrder enc) {l₁ l₂ : List D} (hp : l₁ ~ l₂) :
    sortDigests enc l₁ = sortDigests enc l₂ := by
  unfold sortDigests
  have p : mergeSort l₁ enc.le ~ mergeSort l₂ enc.le :=
    ((mergeSort_perm l₁ enc.le).trans hp).trans (mergeSort_perm l₂ enc.le).symm
  have s1 := pairwise_mergeSort (le := enc.le) (fun a b c => ho.trans a b c) (fun a b => ho.total a b) l₁
  have s2 := pairwise_mergeSort (le := enc.le) (fun a b c => ho.trans a b c) (fun a b => ho.total a b) l₂
  exact p.eq_of_pairwise (fun a b _ _ hab hba => ho.antisymm a b hab hba) s1 s2

theorem eq_of_fst_eq_of_nodup {β} {l : List (D × β)} (hn : (l.map (·.1)).Nodup) {a b : D × β}
    (ha : a ∈ l) (hb : b ∈ l) (h : a.1 = b.1) : a = b := by
  induction l with
  | nil => simp at ha
  | cons x xs ih =>
    simp only [map_cons, nodup_cons, mem_map, not_exists, not_and] at hn
    obtain ⟨hx, hxs⟩ := hn
    simp only [mem_cons] at ha hb
    rcases ha with ha | ha <;> rcases hb with hb | hb
    · rw [ha, hb]
    · subst ha; exact absurd h.symm (hx b hb)
    · subst hb; exact absurd h (hx a ha)
    · exact ih hxs ha hb

/-- sorting by digest is independent of the insertion order when the key digests are distinct -/
theorem sortByDigest_perm (enc : Enc A D) (ho : TotalOrder enc) {β} {l₁ l₂ : List (D × β)} (hp : l₁ ~ l₂)
    (hn : (l₂.map (·.1)).Nodup) : sortByDigest enc l₁ = sortByDigest enc l₂ := by
  unfold sortByDigest
  let le' : D × β → D × β → Bool := fun a b => enc.le a.1 b.1
  have p : mergeSort l₁ le' ~ mergeSort l₂ le' :=
    ((mergeSort_perm l₁ le').trans hp).trans (mergeSort_perm l₂ le').symm
  have s1 := pairwise_mergeSort (le := le') (fun a b c => ho.trans a.1 b.1 c.1) (fun a b => ho.total a.1 b.1) l₁
  have s2 := pairwise_mergeSort (le := le') (fun a b c => ho.trans a.1 b.1 c.1) (fun a b => ho.total a.1 b.1) l₂
  refine p.eq_of_pairwise ?_ s1 s2
  intro a b ha hb hab hba
  have ha2 : a ∈ l₂ := hp.mem_iff.mp ((mergeSort_perm l₁ le').mem_iff.mp ha)
  have hb2 : b ∈ l₂ := (mergeSort_perm l₂ le').mem_iff.mp hb
  exact eq_of_fst_eq_of_nodup hn ha2 hb2 (ho.antisymm a.1 b.1 hab hba)

/-- the digests of the keys of a dict are pairwise distinct (true unless SHA-1 collides on two keys) -/
def KeysDistinct (enc : Enc A D) (kvs : List (PVal A D × PVal A D)) : Prop :=
  ((serKVs enc kvs).map (·.1)).Nodup

end Jug.Hash
