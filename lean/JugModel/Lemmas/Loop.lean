import JugModel.Model.Loop
/-!
The scheduling loop of any length keeps the scan obligation (`lscanOK`): facts about the ghost fold, about the
scanning functions (their traces consist of `can_load` queries only; a task found not runnable has been seen waiting
for a dependency), about the per-task protocol (a task that was handled without leaving the loop is accounted for)
and the invariant of the `while tasks:` loop.
-/
set_option linter.unusedVariables false
namespace Jug.Loop
open Jug.Exec

variable (kg : Bool) (deps : List (List Task))

/-- the ghost fold of `lscanOK` -/
def G (s : Scan × Bool) (tr : Tr) : Scan × Bool := tr.foldl (lscan kg deps) s

theorem G_append (s : Scan × Bool) (a b : Tr) : G kg deps s (a ++ b) = G kg deps (G kg deps s a) b := by
  simp [G, List.foldl_append]

theorem G_cons (s : Scan × Bool) (x : LEv) (b : Tr) : G kg deps s (x :: b) = G kg deps (lscan kg deps s x) b := rfl

theorem G_nil (s : Scan × Bool) : G kg deps s [] = s := rfl

/-- `done` flags are never taken back -/
theorem done_mono_step (s : Scan × Bool) (x : LEv) (t : Task) (h : s.1.done 0 t = true) :
    (lscan kg deps s x).1.done 0 t = true := by
  obtain ⟨sc, ok⟩ := s
  cases x with
  | ev e =>
    cases e <;> simp only [lscan, scanStep, Scan.setDone, Scan.exempt] <;> (try split) <;> simp_all <;> (try split) <;> simp_all
  | _ => simpa [lscan] using h

theorem done_mono (tr : Tr) : ∀ (s : Scan × Bool) (t : Task), s.1.done 0 t = true → (G kg deps s tr).1.done 0 t = true := by
  induction tr with
  | nil => intro s t h; exact h
  | cons x xs ih => intro s t h; exact ih _ t (done_mono_step kg deps s x t h)

/-- an event that accounts for task `t` whatever the ghost state -/
def Marks (t : Task) (x : LEv) : Prop := ∀ s : Scan × Bool, (lscan kg deps s x).1.done 0 t = true

theorem done_of_marks (tr : Tr) (t : Task) (x : LEv) (hx : x ∈ tr) (hm : Marks kg deps t x) (s : Scan × Bool) :
    (G kg deps s tr).1.done 0 t = true := by
  induction tr generalizing s with
  | nil => cases hx
  | cons y ys ih =>
    rcases List.mem_cons.mp hx with rfl | h
    · exact done_mono kg deps ys _ t (hm s)
    · exact ih h _

theorem marks_canLoad (t : Task) : Marks kg deps t (.ev (.canLoad 0 t true)) := by
  intro s; simp [lscan, scanStep, Scan.setDone]
theorem marks_lock (t : Task) : Marks kg deps t (.ev (.lock 0 t false)) := by
  intro s; simp [lscan, scanStep, Scan.setDone]
theorem marks_dump (t : Task) : Marks kg deps t (.ev (.dump 0 t ())) := by
  intro s; simp [lscan, scanStep, Scan.setDone]
theorem marks_endExc (t : Task) : Marks kg deps t (.ev (.endExc 0 t)) := by
  intro s; simp only [lscan, scanStep]; split <;> simp [Scan.setDone, Scan.exempt]

/-- traces that consist of `can_load` queries only -/
def isCL : LEv → Bool
  | .ev (.canLoad _ _ _) => true
  | _ => false

def OnlyCL (tr : Tr) : Prop := ∀ x ∈ tr, isCL x = true

theorem onlyCL_nil : OnlyCL [] := by intro x hx; cases hx
theorem onlyCL_append {a b : Tr} (ha : OnlyCL a) (hb : OnlyCL b) : OnlyCL (a ++ b) := by
  intro x hx; rcases List.mem_append.mp hx with h | h
  · exact ha x h
  · exact hb x h

/-- no `.ret` in the trace -/
def isRet : LEv → Bool
  | .ret _ => true
  | _ => false
def NoRet (tr : Tr) : Prop := ∀ x ∈ tr, isRet x = false

theorem noRet_of_onlyCL {tr : Tr} (h : OnlyCL tr) : NoRet tr := by
  intro x hx; have := h x hx; cases x <;> simp_all [isCL, isRet]
theorem noRet_nil : NoRet [] := by intro x hx; cases hx
theorem noRet_append {a b : Tr} (ha : NoRet a) (hb : NoRet b) : NoRet (a ++ b) := by
  intro x hx; rcases List.mem_append.mp hx with h | h
  · exact ha x h
  · exact hb x h

theorem ok_noRet (tr : Tr) (h : NoRet tr) : ∀ s : Scan × Bool, (G kg deps s tr).2 = s.2 := by
  induction tr with
  | nil => intro s; rfl
  | cons x xs ih =>
    intro s
    have hx : isRet x = false := h x (by simp)
    have hxs : NoRet xs := fun y hy => h y (by simp [hy])
    rw [G_cons, ih hxs]
    obtain ⟨sc, ok⟩ := s
    cases x <;> simp_all [lscan, isRet]

/-- `stuck` flags survive `can_load` queries -/
theorem stuck_mono_step (s : Scan × Bool) (x : LEv) (hx : isCL x = true) (t : Task) (h : s.1.stuck 0 t = true) :
    (lscan kg deps s x).1.stuck 0 t = true := by
  obtain ⟨sc, ok⟩ := s
  cases x with
  | ev e =>
    cases e <;> simp_all [isCL]
    rename_i w d b
    cases b <;> simp [lscan, scanStep, Scan.setDone] <;> simp_all
  | _ => simp [isCL] at hx

theorem stuck_mono (tr : Tr) (h : OnlyCL tr) : ∀ (s : Scan × Bool) (t : Task), s.1.stuck 0 t = true → (G kg deps s tr).1.stuck 0 t = true := by
  induction tr with
  | nil => intro s t hs; exact hs
  | cons x xs ih =>
    intro s t hs
    exact ih (fun y hy => h y (by simp [hy])) _ t (stuck_mono_step kg deps s x (h x (by simp)) t hs)

/-- seeing a dependency of `t` without a result marks `t` as waiting -/
theorem stuck_of_mem (tr : Tr) (h : OnlyCL tr) (t d : Task) (hd : (deps.getD t []).contains d = true)
    (hm : LEv.ev (.canLoad 0 d false) ∈ tr) (s : Scan × Bool) : (G kg deps s tr).1.stuck 0 t = true := by
  induction tr generalizing s with
  | nil => cases hm
  | cons y ys ih =>
    have hys : OnlyCL ys := fun z hz => h z (by simp [hz])
    rcases List.mem_cons.mp hm with heq | hin
    · subst heq
      apply stuck_mono kg deps ys hys
      obtain ⟨sc, ok⟩ := s
      simp only [List.getD_eq_getElem?_getD, List.contains_iff_mem] at hd
      simp [lscan, scanStep, hd]
    · exact ih hys hin _

/-! ### the environment: what is known only grows; scanning does not touch the in-memory cache -/

structure ScanOK (e e' : Env) (tr : Tr) : Prop where
  cl : OnlyCL tr
  kle : ∀ d, d ∈ e.known → d ∈ e'.known
  ld : e'.loaded = e.loaded
  kfrom : ∀ d, d ∈ e'.known → d ∈ e.known ∨ LEv.ev (.canLoad 0 d true) ∈ tr   -- what became known was seen in the trace

theorem ScanOK.refl (e : Env) : ScanOK e e [] := ⟨onlyCL_nil, fun _ h => h, rfl, fun _ h => Or.inl h⟩
theorem ScanOK.trans {e1 e2 e3 : Env} {a b : Tr} (h1 : ScanOK e1 e2 a) (h2 : ScanOK e2 e3 b) : ScanOK e1 e3 (a ++ b) :=
  ⟨onlyCL_append h1.cl h2.cl, fun d h => h2.kle d (h1.kle d h), by rw [h2.ld, h1.ld], fun d h => by
    rcases h2.kfrom d h with h' | h'
    · rcases h1.kfrom d h' with h'' | h''
      · exact Or.inl h''
      · exact Or.inr (by simp [h''])
    · exact Or.inr (by simp [h'])⟩

theorem pop_known (e : Env) : e.pop.2.known = e.known ∧ e.pop.2.loaded = e.loaded ∧ e.pop.2.held = e.held ∧ e.pop.2.nores = e.nores := by
  unfold Env.pop; split <;> simp

theorem canLoadQ_tr (e : Env) (t : Task) : (canLoadQ e t).2.2 = [.ev (.canLoad 0 t (canLoadQ e t).1)] := by
  unfold canLoadQ; split
  · rfl
  · split
    · rfl
    · simp only []; split <;> rfl

theorem canLoadQ_scanOK (e : Env) (t : Task) : ScanOK e (canLoadQ e t).2.1 (canLoadQ e t).2.2 := by
  have hp := pop_known e
  refine ⟨?_, ?_, ?_, ?_⟩
  · rw [canLoadQ_tr]; intro x hx; simp at hx; subst hx; rfl
  · intro d hd
    unfold canLoadQ; split
    · exact hd
    · split
      · exact hd
      · simp only []; split
        · simp [hp.1, hd]
        · split <;> simp [hp.1, hd]
  · unfold canLoadQ; split
    · rfl
    · split
      · rfl
      · simp only []; split
        · simp [hp.2.1]
        · split <;> simp [hp.2.1]
  · intro d
    by_cases hk : t ∈ e.known
    · simp [canLoadQ, hk] <;> (intro h; exact Or.inl h)
    · by_cases hn : t ∈ e.nores ∧ t ∈ e.held
      · simp [canLoadQ, hk, hn] <;> (intro h; exact Or.inl h)
      · by_cases ha : e.pop.1 % 2 = 1
        · simp [canLoadQ, hk, hn, ha, hp.1]
          intro h; rcases h with rfl | h
          · exact Or.inr rfl
          · exact Or.inl h
        · simp only [canLoadQ, hk, hn, ha]
          simp only [List.contains_iff_mem, hk, hn, Bool.false_eq_true, if_false, Bool.and_eq_true, decide_eq_true_eq]
          split <;> simp [hp.1]

theorem canLoadQ_true_known (e : Env) (t : Task) (h : (canLoadQ e t).1 = true) : t ∈ (canLoadQ e t).2.1.known := by
  by_cases hk : t ∈ e.known
  · simp [canLoadQ, hk]
  · by_cases hn : t ∈ e.nores ∧ t ∈ e.held
    · simp [canLoadQ, hk, hn] at h
    · by_cases ha : e.pop.1 % 2 = 1
      · simp [canLoadQ, hk, hn, ha]
      · simp [canLoadQ, hk, hn, ha] at h

theorem canLoadQ_of_known (e : Env) (t : Task) (h : t ∈ e.known) : canLoadQ e t = (true, e, [.ev (.canLoad 0 t true)]) := by
  unfold canLoadQ; simp [h]

/-- the fact a failed `can_run()` leaves in the trace -/
def SeenWaiting (dl : List Task) (tr : Tr) : Prop := ∃ d, d ∈ dl ∧ LEv.ev (.canLoad 0 d false) ∈ tr

theorem canRun_spec (ds : List Task) : ∀ e : Env,
    ScanOK e (canRun e ds).2.1 (canRun e ds).2.2 ∧
    ((canRun e ds).1 = false → SeenWaiting ds (canRun e ds).2.2) ∧
    ((canRun e ds).1 = true → (∀ d, d ∈ e.loaded → d ∈ e.known) → ∀ d, d ∈ ds → d ∈ (canRun e ds).2.1.known) := by
  induction ds with
  | nil => intro e; simp [canRun, ScanOK.refl]
  | cons d ds ih =>
    intro e
    unfold canRun
    split
    · rename_i hl
      obtain ⟨h1, h2, h3⟩ := ih e
      refine ⟨h1, ?_, ?_⟩
      · intro hf; obtain ⟨x, hx, hm⟩ := h2 hf; exact ⟨x, by simp [hx], hm⟩
      · intro ht hinv x hx
        rcases List.mem_cons.mp hx with rfl | hx'
        · exact h1.kle _ (hinv _ (by simpa using hl))
        · exact h3 ht hinv x hx'
    · have hq := canLoadQ_scanOK e d
      have htr := canLoadQ_tr e d
      have htk := canLoadQ_true_known e d
      cases hc : canLoadQ e d with
      | mk b r =>
        obtain ⟨e1, tr⟩ := r
        rw [hc] at hq htr htk
        cases b with
        | false =>
          simp only []
          refine ⟨hq, ?_, by simp⟩
          intro _; exact ⟨d, by simp, by simp at htr; simp [htr]⟩
        | true =>
          simp only []
          obtain ⟨h1, h2, h3⟩ := ih e1
          cases hr : canRun e1 ds with
          | mk b2 r2 =>
            obtain ⟨e2, tr2⟩ := r2
            rw [hr] at h1 h2 h3
            simp only [] at h1 h2 h3 ⊢
            refine ⟨hq.trans h1, ?_, ?_⟩
            · intro hf; obtain ⟨x, hx, hm⟩ := h2 hf; exact ⟨x, by simp [hx], by simp [hm]⟩
            · intro ht hinv x hx
              have hinv1 : ∀ d, d ∈ e1.loaded → d ∈ e1.known := by
                intro y hy; rw [hq.ld] at hy; exact hq.kle _ (hinv _ hy)
              rcases List.mem_cons.mp hx with rfl | hx'
              · exact h1.kle _ (htk rfl)
              · exact h3 ht hinv1 x hx'

theorem canRun_of_known (ds : List Task) (e : Env) (h : ∀ d, d ∈ ds → d ∈ e.known) :
    (canRun e ds).1 = true ∧ (canRun e ds).2.1 = e ∧ OnlyCL (canRun e ds).2.2 := by
  induction ds with
  | nil => simp [canRun, onlyCL_nil]
  | cons d ds ih =>
    have ih' := ih (fun x hx => h x (by simp [hx]))
    unfold canRun
    split
    · exact ih'
    · rw [canLoadQ_of_known e d (h d (by simp))]
      simp only []
      cases hr : canRun e ds with
      | mk b2 r2 =>
        obtain ⟨e2, tr2⟩ := r2
        rw [hr] at ih'
        simp only [] at ih' ⊢
        refine ⟨ih'.1, ih'.2.1, ?_⟩
        apply onlyCL_append _ ih'.2.2
        intro x hx; simp at hx; subst hx; rfl

/-! ### the scanning functions -/

def EInv (e : Env) : Prop := ∀ d, d ∈ e.loaded → d ∈ e.known

theorem einv_of_scanOK {e e' : Env} {tr : Tr} (h : ScanOK e e' tr) (hi : EInv e) : EInv e' := by
  intro d hd; rw [h.ld] at hd; exact h.kle _ (hi _ hd)

variable (dp : Task → List Task)

theorem skipLoadable_spec (ts : List Task) : ∀ e : Env,
    ScanOK e (skipLoadable e ts).1 (skipLoadable e ts).2.2 ∧
    (∀ x, x ∈ ts → x ∈ (skipLoadable e ts).2.1 ∨ LEv.ev (.canLoad 0 x true) ∈ (skipLoadable e ts).2.2) := by
  induction ts with
  | nil => intro e; simp [skipLoadable, ScanOK.refl]
  | cons t ts ih =>
    intro e
    unfold skipLoadable
    have hq := canLoadQ_scanOK e t
    have htr := canLoadQ_tr e t
    cases hc : canLoadQ e t with
    | mk b r =>
      obtain ⟨e1, tr⟩ := r
      rw [hc] at hq htr
      cases b with
      | false =>
        simp only []
        exact ⟨hq, fun x hx => Or.inl hx⟩
      | true =>
        simp only []
        obtain ⟨h1, h2⟩ := ih e1
        cases hr : skipLoadable e1 ts with
        | mk e2 r2 =>
          obtain ⟨ts2, tr2⟩ := r2
          rw [hr] at h1 h2
          simp only [] at h1 h2 ⊢
          refine ⟨hq.trans h1, ?_⟩
          intro x hx
          rcases List.mem_cons.mp hx with rfl | hx'
          · right; simp at htr; simp [htr]
          · rcases h2 x hx' with h | h
            · exact Or.inl h
            · right; simp [h]

theorem rotate_spec (k : Nat) : ∀ (e : Env) (ts : List Task),
    ScanOK e (rotate dp k e ts).1 (rotate dp k e ts).2.2 ∧ (∀ x, x ∈ ts → x ∈ (rotate dp k e ts).2.1) := by
  induction k with
  | zero => intro e ts; simp [rotate, ScanOK.refl]
  | succ k ih =>
    intro e ts
    cases ts with
    | nil => simp [rotate, ScanOK.refl]
    | cons t ts =>
      unfold rotate
      have hs := (canRun_spec (dp t) e).1
      cases hc : canRun e (dp t) with
      | mk b r =>
        obtain ⟨e1, tr⟩ := r
        rw [hc] at hs
        cases b with
        | true => simp only []; exact ⟨hs, fun x hx => hx⟩
        | false =>
          simp only []
          obtain ⟨h1, h2⟩ := ih e1 (ts ++ [t])
          cases hr : rotate dp k e1 (ts ++ [t]) with
          | mk e2 r2 =>
            obtain ⟨ts2, tr2⟩ := r2
            rw [hr] at h1 h2
            simp only [] at h1 h2 ⊢
            refine ⟨hs.trans h1, ?_⟩
            intro x hx
            apply h2
            rcases List.mem_cons.mp hx with rfl | hx' <;> simp_all

theorem takeRunnable_spec (ts : List Task) : ∀ e : Env,
    ScanOK e (takeRunnable dp e ts).2.1 (takeRunnable dp e ts).2.2.2 ∧
    (∀ x, x ∈ ts → x ∈ (takeRunnable dp e ts).1 ∨ x ∈ (takeRunnable dp e ts).2.2.1) ∧
    (EInv e → ∀ u, u ∈ (takeRunnable dp e ts).1 → ∀ d, d ∈ dp u → d ∈ (takeRunnable dp e ts).2.1.known) := by
  induction ts with
  | nil => intro e; simp [takeRunnable, ScanOK.refl]
  | cons t ts ih =>
    intro e
    unfold takeRunnable
    have hs := canRun_spec (dp t) e
    cases hc : canRun e (dp t) with
    | mk b r =>
      obtain ⟨e1, tr⟩ := r
      rw [hc] at hs
      cases b with
      | false => simp only []; exact ⟨hs.1, fun x hx => Or.inr hx, by simp⟩
      | true =>
        simp only []
        obtain ⟨h1, h2, h3⟩ := ih e1
        cases hr : takeRunnable dp e1 ts with
        | mk up r2 =>
          obtain ⟨e2, ts2, tr2⟩ := r2
          rw [hr] at h1 h2 h3
          simp only [] at h1 h2 h3 ⊢
          refine ⟨hs.1.trans h1, ?_, ?_⟩
          · intro x hx
            rcases List.mem_cons.mp hx with rfl | hx'
            · left; simp
            · rcases h2 x hx' with h | h
              · left; simp [h]
              · right; exact h
          · intro hi u hu d hd
            rcases List.mem_cons.mp hu with rfl | hu'
            · exact h1.kle _ (hs.2.2 rfl hi d hd)
            · exact h3 (einv_of_scanOK hs.1 hi) u hu' d hd

theorem firstRunnable_spec (ts : List Task) : ∀ e : Env,
    ScanOK e (firstRunnable dp e ts).2.1 (firstRunnable dp e ts).2.2.2 ∧
    (∀ t, (firstRunnable dp e ts).1 = some t →
        (∀ x, x ∈ ts → x = t ∨ x ∈ (firstRunnable dp e ts).2.2.1) ∧
        (EInv e → ∀ d, d ∈ dp t → d ∈ (firstRunnable dp e ts).2.1.known)) ∧
    ((firstRunnable dp e ts).1 = none →
        (firstRunnable dp e ts).2.2.1 = ts ∧ ∀ x, x ∈ ts → SeenWaiting (dp x) (firstRunnable dp e ts).2.2.2) := by
  induction ts with
  | nil => intro e; simp [firstRunnable, ScanOK.refl]
  | cons t ts ih =>
    intro e
    unfold firstRunnable
    have hs := canRun_spec (dp t) e
    cases hc : canRun e (dp t) with
    | mk b r =>
      obtain ⟨e1, tr⟩ := r
      rw [hc] at hs
      cases b with
      | true =>
        simp only []
        refine ⟨hs.1, ?_, by simp⟩
        intro t' ht'
        simp at ht'; subst ht'
        exact ⟨fun x hx => by rcases List.mem_cons.mp hx with rfl | h <;> simp_all, fun hi d hd => hs.2.2 rfl hi d hd⟩
      | false =>
        simp only []
        obtain ⟨h1, h2, h3⟩ := ih e1
        cases hr : firstRunnable dp e1 ts with
        | mk o r2 =>
          obtain ⟨e2, ts2, tr2⟩ := r2
          rw [hr] at h1 h2 h3
          simp only [] at h1 h2 h3 ⊢
          refine ⟨hs.1.trans h1, ?_, ?_⟩
          · intro t' ht'
            obtain ⟨ha, hb⟩ := h2 t' ht'
            refine ⟨?_, fun hi => hb (einv_of_scanOK hs.1 hi)⟩
            intro x hx
            rcases List.mem_cons.mp hx with rfl | hx'
            · right; simp
            · rcases ha x hx' with h | h
              · exact Or.inl h
              · right; simp [h]
          · intro hn
            obtain ⟨ha, hb⟩ := h3 hn
            refine ⟨by rw [ha], ?_⟩
            intro x hx
            rcases List.mem_cons.mp hx with rfl | hx'
            · obtain ⟨d, hd, hm⟩ := hs.2.1 rfl
              exact ⟨d, hd, by simp [hm]⟩
            · obtain ⟨d, hd, hm⟩ := hb x hx'
              exact ⟨d, hd, by simp [hm]⟩

theorem seenWaiting_mono {dl : List Task} {a : Tr} (b c : Tr) (h : SeenWaiting dl a) : SeenWaiting dl (b ++ a ++ c) := by
  obtain ⟨d, hd, hm⟩ := h; exact ⟨d, hd, by simp [hm]⟩

theorem scanCycles_spec (c : Nat) : ∀ (e : Env) (ts : List Task),
    ScanOK e (scanCycles dp c e ts).2.1 (scanCycles dp c e ts).2.2.2 ∧
    (∀ x, x ∈ ts → x ∈ (scanCycles dp c e ts).1 ∨ x ∈ (scanCycles dp c e ts).2.2.1) ∧
    (EInv e → ∀ u, u ∈ (scanCycles dp c e ts).1 → ∀ d, d ∈ dp u → d ∈ (scanCycles dp c e ts).2.1.known) ∧
    (1 ≤ c → (scanCycles dp c e ts).1 = [] →
        ∀ x, x ∈ (scanCycles dp c e ts).2.2.1 → SeenWaiting (dp x) (scanCycles dp c e ts).2.2.2) := by
  induction c with
  | zero => intro e ts; simp [scanCycles, ScanOK.refl]
  | succ c ih =>
    intro e ts
    unfold scanCycles
    simp only []
    generalize (if c = 0 then ts.length else min ts.length 128) = m
    obtain ⟨r1, r2⟩ := rotate_spec dp m e ts
    cases hrot : rotate dp m e ts with
    | mk e1 q1 =>
      obtain ⟨ts1, tr1⟩ := q1
      rw [hrot] at r1 r2
      simp only [] at r1 r2 ⊢
      obtain ⟨t1, t2, t3⟩ := takeRunnable_spec dp ts1 e1
      cases htk : takeRunnable dp e1 ts1 with
      | mk up q2 =>
        obtain ⟨e2, ts2, tr2⟩ := q2
        rw [htk] at t1 t2 t3
        simp only [] at t1 t2 t3 ⊢
        cases up with
        | cons u up =>
          simp only []
          refine ⟨r1.trans t1, fun x hx => t2 x (r2 x hx), fun hi => t3 (einv_of_scanOK r1 hi), ?_⟩
          intro _ h; cases h
        | nil =>
          simp only []
          obtain ⟨f1, f2, f3⟩ := firstRunnable_spec dp ts2 e2
          cases hfr : firstRunnable dp e2 ts2 with
          | mk o q3 =>
            obtain ⟨e3, ts3, tr3⟩ := q3
            rw [hfr] at f1 f2 f3
            simp only [] at f1 f2 f3 ⊢
            have h12 := r1.trans t1
            cases o with
            | some t =>
              simp only []
              obtain ⟨fa, fb⟩ := f2 t rfl
              refine ⟨h12.trans f1, ?_, ?_, ?_⟩
              · intro x hx
                rcases t2 x (r2 x hx) with h | h
                · cases h
                · rcases fa x h with h' | h'
                  · left; simp [h']
                  · right; exact h'
              · intro hi u hu d hd
                simp at hu; subst hu
                exact fb (einv_of_scanOK h12 hi) d hd
              · intro _ h; cases h
            | none =>
              simp only []
              obtain ⟨fa, fb⟩ := f3 rfl
              obtain ⟨i1, i2, i3, i4⟩ := ih e3 ts3
              cases hsc : scanCycles dp c e3 ts3 with
              | mk up4 q4 =>
                obtain ⟨e4, ts4, tr4⟩ := q4
                rw [hsc] at i1 i2 i3 i4
                simp only [] at i1 i2 i3 i4 ⊢
                have h123 := h12.trans f1
                refine ⟨h123.trans i1, ?_, ?_, ?_⟩
                · intro x hx
                  rcases t2 x (r2 x hx) with h | h
                  · cases h
                  · rw [← fa] at h; exact i2 x h
                · intro hi; exact i3 (einv_of_scanOK h123 hi)
                · intro _ hup x hx
                  cases c with
                  | zero =>
                    -- the last cycle: the remaining list is the one that was just scanned completely
                    simp [scanCycles] at hsc
                    obtain ⟨_, _, h3, h4⟩ := hsc
                    subst h3; subst h4
                    rw [fa] at hx
                    obtain ⟨d, hd, hm⟩ := fb x hx
                    exact ⟨d, hd, by simp [hm]⟩
                  | succ c' =>
                    obtain ⟨d, hd, hm⟩ := i4 (by omega) hup x hx
                    exact ⟨d, hd, by simp [hm]⟩

/-! ### the per-task protocol -/

/-- what every operation on the environment keeps: what is known only grows, cached results are known results -/
def Step (e e' : Env) : Prop := (∀ d, d ∈ e.known → d ∈ e'.known) ∧ (EInv e → EInv e')

theorem Step.refl (e : Env) : Step e e := ⟨fun _ h => h, fun h => h⟩
theorem Step.trans {a b c : Env} (h1 : Step a b) (h2 : Step b c) : Step a c :=
  ⟨fun d h => h2.1 d (h1.1 d h), fun h => h2.2 (h1.2 h)⟩
theorem step_of_scanOK {e e' : Env} {tr : Tr} (h : ScanOK e e' tr) : Step e e' := ⟨h.kle, einv_of_scanOK h⟩
theorem step_of_eq {e e' : Env} (hk : e'.known = e.known) (hl : ∀ d, d ∈ e'.loaded → d ∈ e.loaded) : Step e e' :=
  ⟨fun d h => by rw [hk]; exact h, fun hi d hd => by rw [hk]; exact hi d (hl d hd)⟩

theorem step_pop (e : Env) : Step e e.pop.2 := by
  have h := pop_known e; exact step_of_eq h.1 (fun d hd => by rw [h.2.1] at hd; exact hd)
theorem step_release (e : Env) (t : Task) : Step e (release e t) := step_of_eq rfl (fun d hd => hd)
theorem step_unloadL (e : Env) (ds : List Task) : Step e (unloadL e ds) :=
  step_of_eq rfl (fun d hd => by simp [unloadL] at hd; exact hd.1)
theorem step_afterBlock (fl : LFlags) (e : Env) (prev : Option Task) : Step e (afterBlock fl e prev) := by
  unfold afterBlock; split
  · exact step_unloadL _ _
  · exact Step.refl _
theorem step_hold (e : Env) (t : Task) : Step e { e with held := t :: e.held } := step_of_eq rfl (fun d hd => hd)

theorem finallyUnlock_spec (l k : Bool) (e : Env) (t : Task) :
    Step e (finallyUnlock l k e t).1 ∧ NoRet (finallyUnlock l k e t).2 := by
  unfold finallyUnlock; split
  · exact ⟨step_release e t, by intro x hx; simp at hx; subst hx; rfl⟩
  · exact ⟨Step.refl e, noRet_nil⟩

theorem noRet_single (x : LEv) (h : isRet x = false) : NoRet [x] := by
  intro y hy; simp at hy; subst hy; exact h
theorem noRet_cons {x : LEv} {tr : Tr} (h : isRet x = false) (ht : NoRet tr) : NoRet (x :: tr) := by
  intro y hy; rcases List.mem_cons.mp hy with rfl | h'
  · exact h
  · exact ht y h'

theorem failPath_spec (fl : LFlags) (prev : Option Task) (e : Env) (t : Task) :
    Step e (failPath fl prev e t).2.1 ∧ NoRet (failPath fl prev e t).2.2 := by
  unfold failPath
  obtain ⟨h1, h2⟩ := finallyUnlock_spec true fl.keepFailed e t
  cases hf : finallyUnlock true fl.keepFailed e t with
  | mk e1 trU =>
    rw [hf] at h1 h2
    simp only [] at h1 h2 ⊢
    have hF : NoRet (if fl.keepFailed = true then [LEv.ev (.markFailed 0 t)] else []) := by
      split
      · exact noRet_single _ rfl
      · exact noRet_nil
    split
    · exact ⟨h1.trans (step_afterBlock fl e1 prev), noRet_append hF h2⟩
    · exact ⟨h1, noRet_append (noRet_append hF h2) (noRet_single _ rfl)⟩

theorem stopPath_spec (k : StopKind) (e : Env) (t : Task) :
    Step e (stopPath k e t).2.1 ∧ NoRet (stopPath k e t).2.2 ∧ ∀ f, (stopPath k e t).1 ≠ .cont f := by
  unfold stopPath
  obtain ⟨h1, h2⟩ := finallyUnlock_spec true false e t
  cases hf : finallyUnlock true false e t with
  | mk e1 trU =>
    rw [hf] at h1 h2
    simp only [] at h1 h2 ⊢
    exact ⟨h1, noRet_append (noRet_append (noRet_single _ rfl) h2) (noRet_single _ rfl), by simp⟩

theorem loadArgs_spec (ds : List Task) : ∀ e : Env, (∀ d, d ∈ ds → d ∈ e.known) →
    Step e (loadArgs e ds).1 ∧ NoRet (loadArgs e ds).2 := by
  induction ds with
  | nil => intro e _; exact ⟨Step.refl e, noRet_nil⟩
  | cons d ds ih =>
    intro e hk
    unfold loadArgs
    split
    · exact ih e (fun x hx => hk x (by simp [hx]))
    · rw [canLoadQ_of_known e d (hk d (by simp))]
      simp only []
      have hs : Step e { e with loaded := d :: e.loaded } :=
        ⟨fun _ h => h, fun hi x hx => by
          simp at hx; rcases hx with rfl | hx
          · exact hk _ (by simp)
          · exact hi x hx⟩
      obtain ⟨i1, i2⟩ := ih { e with loaded := d :: e.loaded } (fun x hx => hk x (by simp [hx]))
      cases hl : loadArgs { e with loaded := d :: e.loaded } ds with
      | mk e2 tr2 =>
        rw [hl] at i1 i2
        simp only [] at i1 i2 ⊢
        refine ⟨hs.trans i1, ?_⟩
        exact noRet_cons rfl (noRet_cons rfl i2)

theorem execTask_spec (fl : LFlags) (prev : Option Task) (e : Env) (t : Task) (hk : ∀ d, d ∈ dp t → d ∈ e.known) :
    Step e (execTask fl dp prev e t).2.1 ∧ NoRet (execTask fl dp prev e t).2.2 ∧
    (∀ f, (execTask fl dp prev e t).1 = .cont f → ∃ x, x ∈ (execTask fl dp prev e t).2.2 ∧ Marks kg deps t x) := by
  unfold execTask
  obtain ⟨c1, c2, c3⟩ := canRun_of_known (dp t) e hk
  cases hc : canRun e (dp t) with
  | mk b r =>
    obtain ⟨e1, tr1⟩ := r
    rw [hc] at c1 c2 c3
    simp only [] at c1 c2 c3
    subst c1; subst c2
    simp only []
    obtain ⟨l1, l2⟩ := loadArgs_spec (dp t) e1 hk
    cases hl : loadArgs e1 (dp t) with
    | mk e2 tr2 =>
      rw [hl] at l1 l2
      simp only [] at l1 l2 ⊢
      have hpre : NoRet (tr1 ++ tr2 ++ [LEv.ev (.begin_ 0 t)]) :=
        noRet_append (noRet_append (noRet_of_onlyCL c3) l2) (noRet_single _ rfl)
      have hp := step_pop e2
      cases hpop : e2.pop with
      | mk o e3 =>
        rw [hpop] at hp
        simp only [] at hp ⊢
        have h13 : Step e1 e3 := l1.trans hp
        split
        · -- the function returned
          have h4 : Step e3 { e3 with loaded := t :: e3.loaded, known := t :: e3.known } :=
            ⟨fun d h => by simp [h], fun hi x hx => by
              simp at hx ⊢; rcases hx with rfl | hx
              · exact Or.inl rfl
              · exact Or.inr (hi x hx)⟩
          have hbody : NoRet (tr1 ++ tr2 ++ [LEv.ev (.begin_ 0 t)] ++ [LEv.ev (.endOk 0 t ()), LEv.ev (.dump 0 t ()), LEv.executed1 t]) :=
            noRet_append hpre (noRet_cons rfl (noRet_cons rfl (noRet_single _ rfl)))
          have h5 : Step { e3 with loaded := t :: e3.loaded, known := t :: e3.known }
              (if fl.hookExits = true then ({ e3 with loaded := t :: e3.loaded, known := t :: e3.known } : Env).pop else (0, { e3 with loaded := t :: e3.loaded, known := t :: e3.known })).2 := by
            split
            · exact step_pop _
            · exact Step.refl _
          cases hh : (if fl.hookExits = true then ({ e3 with loaded := t :: e3.loaded, known := t :: e3.known } : Env).pop else (0, { e3 with loaded := t :: e3.loaded, known := t :: e3.known })) with
          | mk hx e5 =>
            rw [hh] at h5
            simp only [] at h5 ⊢
            have h15 : Step e1 e5 := (h13.trans h4).trans h5
            split
            · obtain ⟨s1, s2, s3⟩ := stopPath_spec (.sysExit 0) e5 t
              cases hs : stopPath (.sysExit 0) e5 t with
              | mk o' r' =>
                obtain ⟨e6, tr3⟩ := r'
                rw [hs] at s1 s2 s3
                simp only [] at s1 s2 s3 ⊢
                exact ⟨h15.trans s1, noRet_append hbody s2, fun f hf => absurd hf (s3 f)⟩
            · obtain ⟨u1, u2⟩ := finallyUnlock_spec true false e5 t
              cases hu : finallyUnlock true false e5 t with
              | mk e6 trU =>
                rw [hu] at u1 u2
                simp only [] at u1 u2 ⊢
                refine ⟨(h15.trans u1).trans (step_afterBlock fl e6 prev), noRet_append hbody u2, ?_⟩
                intro f _
                exact ⟨.ev (.dump 0 t ()), by simp, marks_dump kg deps t⟩
        · split
          · -- the function raised
            obtain ⟨f1, f2⟩ := failPath_spec fl prev e3 t
            cases hf : failPath fl prev e3 t with
            | mk o' r' =>
              obtain ⟨e4, tr3⟩ := r'
              rw [hf] at f1 f2
              simp only [] at f1 f2 ⊢
              refine ⟨h13.trans f1, noRet_append (noRet_append hpre (noRet_single _ rfl)) f2, ?_⟩
              intro f _
              exact ⟨.ev (.endExc 0 t), by simp, marks_endExc kg deps t⟩
          · split
            · obtain ⟨s1, s2, s3⟩ := stopPath_spec (.sysExit 1) e3 t
              cases hs : stopPath (.sysExit 1) e3 t with
              | mk o' r' =>
                obtain ⟨e4, tr3⟩ := r'
                rw [hs] at s1 s2 s3
                simp only [] at s1 s2 s3 ⊢
                exact ⟨h13.trans s1, noRet_append hpre s2, fun f hf => absurd hf (s3 f)⟩
            · obtain ⟨s1, s2, s3⟩ := stopPath_spec .kbdInt e3 t
              cases hs : stopPath .kbdInt e3 t with
              | mk o' r' =>
                obtain ⟨e4, tr3⟩ := r'
                rw [hs] at s1 s2 s3
                simp only [] at s1 s2 s3 ⊢
                exact ⟨h13.trans s1, noRet_append hpre s2, fun f hf => absurd hf (s3 f)⟩

theorem runLocked_spec (fl : LFlags) (prev : Option Task) (e : Env) (t : Task) (hk : ∀ d, d ∈ dp t → d ∈ e.known) :
    Step e (runLocked fl dp prev e t).2.1 ∧ NoRet (runLocked fl dp prev e t).2.2.2 ∧
    (∀ f, (runLocked fl dp prev e t).1 = .cont f → ∃ x, x ∈ (runLocked fl dp prev e t).2.2.2 ∧ Marks kg deps t x) := by
  unfold runLocked
  have h1 : Step e (if fl.hookExits = true then e.pop else (0, e)).2 := by
    split
    · exact step_pop _
    · exact Step.refl _
  cases hh : (if fl.hookExits = true then e.pop else (0, e)) with
  | mk hx e1 =>
    rw [hh] at h1
    simp only [] at h1 ⊢
    split
    · obtain ⟨s1, s2, s3⟩ := stopPath_spec (.sysExit 0) e1 t
      cases hs : stopPath (.sysExit 0) e1 t with
      | mk o' r' =>
        obtain ⟨e2, tr⟩ := r'
        rw [hs] at s1 s2 s3
        simp only [] at s1 s2 s3 ⊢
        exact ⟨h1.trans s1, noRet_cons rfl s2, fun f hf => absurd hf (s3 f)⟩
    · have h2 : Step e1 (preUnload fl dp prev e1 t) := by
        unfold preUnload; split
        · split
          · exact step_unloadL _ _
          · exact Step.refl _
        · exact Step.refl _
      generalize preUnload fl dp prev e1 t = e2 at h2 ⊢
      generalize nextPrev fl prev t = prev'
      have h12 := h1.trans h2
      obtain ⟨x1, x2, x3⟩ := execTask_spec kg deps dp fl prev' e2 t (fun d hd => h12.1 d (hk d hd))
      cases hx : execTask fl dp prev' e2 t with
      | mk o r' =>
        obtain ⟨e3, tr⟩ := r'
        rw [hx] at x1 x2 x3
        simp only [] at x1 x2 x3 ⊢
        refine ⟨h12.trans x1, noRet_cons rfl x2, ?_⟩
        intro f hf
        obtain ⟨y, hy, hm⟩ := x3 f hf
        exact ⟨y, by simp [hy], hm⟩

theorem runTask_spec (fl : LFlags) (prev : Option Task) (e : Env) (t : Task) (hk : ∀ d, d ∈ dp t → d ∈ e.known) :
    Step e (runTask fl dp prev e t).2.1 ∧ NoRet (runTask fl dp prev e t).2.2.2 ∧
    (∀ f, (runTask fl dp prev e t).1 = .cont f → ∃ x, x ∈ (runTask fl dp prev e t).2.2.2 ∧ Marks kg deps t x) := by
  unfold runTask
  have q1 := canLoadQ_scanOK e t
  have q1t := canLoadQ_tr e t
  cases hc : canLoadQ e t with
  | mk b r =>
    obtain ⟨e1, tr1⟩ := r
    rw [hc] at q1 q1t
    simp only [] at q1 q1t
    cases b with
    | true =>
      simp only []
      refine ⟨step_of_scanOK q1, noRet_of_onlyCL q1.cl, ?_⟩
      intro f _
      exact ⟨.ev (.canLoad 0 t true), by rw [q1t]; simp, marks_canLoad kg deps t⟩
    | false =>
      simp only []
      have hp := step_pop e1
      cases hpop : e1.pop with
      | mk a e2 =>
        rw [hpop] at hp
        simp only [] at hp ⊢
        have h3 : Step e2 (if decide (a % 2 = 1) = true then { e2 with held := t :: e2.held } else e2) := by
          split
          · exact step_hold _ _
          · exact Step.refl _
        generalize (if decide (a % 2 = 1) = true then { e2 with held := t :: e2.held } else e2) = e3 at h3
        have h03 : Step e e3 := ((step_of_scanOK q1).trans hp).trans h3
        have q2 := canLoadQ_scanOK e3 t
        have q2t := canLoadQ_tr e3 t
        have hL : NoRet (tr1 ++ [LEv.ev (.lock 0 t (decide (a % 2 = 1)))]) :=
          noRet_append (noRet_of_onlyCL q1.cl) (noRet_single _ rfl)
        cases hc2 : canLoadQ e3 t with
        | mk b2 r2 =>
          obtain ⟨e4, tr2⟩ := r2
          rw [hc2] at q2 q2t
          simp only [] at q2 q2t
          have h04 : Step e e4 := h03.trans (step_of_scanOK q2)
          cases b2 with
          | true =>
            simp only []
            obtain ⟨u1, u2⟩ := finallyUnlock_spec (decide (a % 2 = 1)) false e4 t
            cases hu : finallyUnlock (decide (a % 2 = 1)) false e4 t with
            | mk e5 tr3 =>
              rw [hu] at u1 u2
              simp only [] at u1 u2 ⊢
              refine ⟨(h04.trans u1).trans (step_afterBlock fl e5 prev), noRet_append (noRet_append hL (noRet_of_onlyCL q2.cl)) u2, ?_⟩
              intro f _
              exact ⟨.ev (.canLoad 0 t true), by rw [q2t]; simp, marks_canLoad kg deps t⟩
          | false =>
            simp only []
            by_cases hlk : a % 2 = 1
            · simp only [hlk, decide_true, if_true]
              obtain ⟨x1, x2, x3⟩ := runLocked_spec kg deps dp fl prev e4 t (fun d hd => h04.1 d (hk d hd))
              cases hx : runLocked fl dp prev e4 t with
              | mk o r' =>
                obtain ⟨e5, prev', tr3⟩ := r'
                rw [hx] at x1 x2 x3
                simp only [] at x1 x2 x3 ⊢
                simp only [hlk, decide_true] at hL
                refine ⟨h04.trans x1, noRet_append (noRet_append hL (noRet_of_onlyCL q2.cl)) x2, ?_⟩
                intro f hf
                obtain ⟨y, hy, hm⟩ := x3 f hf
                exact ⟨y, by simp [hy], hm⟩
            · simp only [hlk, decide_false, Bool.false_eq_true, if_false]
              simp only [hlk, decide_false] at hL
              refine ⟨h04.trans (step_afterBlock fl e4 prev), noRet_append hL (noRet_of_onlyCL q2.cl), ?_⟩
              intro f _
              exact ⟨.ev (.lock 0 t false), by simp, marks_lock kg deps t⟩

theorem runAll_spec (fl : LFlags) (up : List Task) : ∀ (prev : Option Task) (e : Env) (failures : Bool),
    (∀ u, u ∈ up → ∀ d, d ∈ dp u → d ∈ e.known) →
    Step e (runAll fl dp prev e failures up).2.1 ∧ NoRet (runAll fl dp prev e failures up).2.2.2 ∧
    (∀ f, (runAll fl dp prev e failures up).1 = .cont f →
      ∀ u, u ∈ up → ∀ s : Scan × Bool, (G kg deps s (runAll fl dp prev e failures up).2.2.2).1.done 0 u = true) := by
  induction up with
  | nil => intro prev e failures _; simp [runAll, Step.refl, noRet_nil]
  | cons t ts ih =>
    intro prev e failures hk
    unfold runAll
    obtain ⟨t1, t2, t3⟩ := runTask_spec kg deps dp fl prev e t (hk t (by simp))
    cases ht : runTask fl dp prev e t with
    | mk o r =>
      obtain ⟨e1, prev1, tr1⟩ := r
      rw [ht] at t1 t2 t3
      simp only [] at t1 t2 t3
      cases o with
      | cont f =>
        simp only []
        obtain ⟨a1, a2, a3⟩ := ih prev1 e1 (failures || f) (fun u hu d hd => t1.1 d (hk u (by simp [hu]) d hd))
        cases ha : runAll fl dp prev1 e1 (failures || f) ts with
        | mk o2 r2 =>
          obtain ⟨e2, prev2, tr2⟩ := r2
          rw [ha] at a1 a2 a3
          simp only [] at a1 a2 a3 ⊢
          refine ⟨t1.trans a1, noRet_append t2 a2, ?_⟩
          intro f' hf' u hu s
          rw [G_append]
          rcases List.mem_cons.mp hu with rfl | hu'
          · obtain ⟨x, hx, hm⟩ := t3 f rfl
            exact done_mono kg deps tr2 _ _ (done_of_marks kg deps tr1 _ x hx hm s)
          · exact a3 f' hf' u hu' _
      | stopped k => simp only []; exact ⟨t1, t2, by simp⟩
      | exc => simp only []; exact ⟨t1, t2, by simp⟩

/-- the invariant of `while tasks:` - every task that is no longer in the list is accounted for - gives the obligation at every return -/
theorem outer_spec (fl : LFlags) (nr : Nat) (hnr : 1 ≤ nr) (hkg : kg = fl.keepGoing)
    (hdp : dp = fun t => deps.getD t []) (fuel : Nat) :
    ∀ (prev : Option Task) (e : Env) (failures : Bool) (ts : List Task) (s : Scan × Bool),
      s.2 = true → EInv e → (∀ x, x < deps.length → x ∉ ts → s.1.done 0 x = true) →
      (G kg deps s (outer fl dp nr fuel prev e failures ts)).2 = true := by
  induction fuel with
  | zero => intro prev e failures ts s hs _ _; simpa [outer, G_nil] using hs
  | succ f ih =>
    intro prev e failures ts s hs hi hd
    cases ts with
    | nil =>
      simp only [outer, G, List.foldl, lscan, hs, Bool.true_and, List.all_eq_true, List.mem_range]
      intro x hx
      simp [Scan.flagged, hd x hx (by simp)]
    | cons t ts =>
      unfold outer
      obtain ⟨c1, c2, c3, c4⟩ := scanCycles_spec dp nr e (t :: ts)
      cases hsc : scanCycles dp nr e (t :: ts) with
      | mk up r =>
        obtain ⟨e1, ts1, tr1⟩ := r
        rw [hsc] at c1 c2 c3 c4
        simp only [] at c1 c2 c3 c4
        have hok1 : (G kg deps s tr1).2 = true := by rw [ok_noRet kg deps tr1 (noRet_of_onlyCL c1.cl)]; exact hs
        cases up with
        | nil =>
          simp only []
          rw [G_append]
          simp only [G, List.foldl, lscan, Bool.and_eq_true, List.all_eq_true, List.mem_range]
          refine ⟨hok1, ?_⟩
          intro x hx
          simp only [Scan.flagged, Bool.or_eq_true]
          by_cases hin : x ∈ t :: ts
          · right
            have hx1 : x ∈ ts1 := by
              rcases c2 x hin with h | h
              · cases h
              · exact h
            obtain ⟨d, hd', hm⟩ := c4 hnr rfl x hx1
            apply stuck_of_mem kg deps tr1 c1.cl x d _ hm
            subst hdp; simpa using hd'
          · left
            exact done_mono kg deps tr1 s x (hd x hx hin)
        | cons u up =>
          simp only []
          obtain ⟨a1, a2, a3⟩ := runAll_spec kg deps dp fl (u :: up) prev e1 failures (c3 hi)
          cases hra : runAll fl dp prev e1 failures (u :: up) with
          | mk o r2 =>
            obtain ⟨e2, prev2, tr2⟩ := r2
            rw [hra] at a1 a2 a3
            simp only [] at a1 a2 a3
            have hok2 : (G kg deps (G kg deps s tr1) tr2).2 = true := by rw [ok_noRet kg deps tr2 a2]; exact hok1
            cases o with
            | cont f' =>
              simp only []
              rw [G_append, G_append]
              apply ih prev2 e2 f' ts1 _ hok2 (a1.2 (einv_of_scanOK c1 hi))
              intro x hx hnin
              by_cases hin : x ∈ t :: ts
              · rcases c2 x hin with h | h
                · exact a3 f' rfl x h _
                · exact absurd h hnin
              · exact done_mono kg deps tr2 _ x (done_mono kg deps tr1 s x (hd x hx hin))
            | stopped k => simp only []; rw [G_append]; exact hok2
            | exc => simp only []; rw [G_append]; exact hok2

/-- the obligation holds at the return of a run of the loop program **whatever the ghost state it starts from** (e.g. after earlier passes over a
    shorter task list, before a barrier opened): stale flags do not help, every task is accounted for afresh -/
theorem loop_scans_all_from (fl : LFlags) (deps : List (List Task)) (nr : Nat) (hnr : 1 ≤ nr) (answers : List Nat) (s : Scan × Bool) (hs : s.2 = true) :
    (G fl.keepGoing deps s (loopTrace fl deps nr answers)).2 = true := by
  unfold loopTrace
  simp only []
  obtain ⟨k1, k2⟩ := skipLoadable_spec (List.range deps.length) (Env.init answers)
  cases hsk : skipLoadable (Env.init answers) (List.range deps.length) with
  | mk e r =>
    obtain ⟨ts, tr⟩ := r
    rw [hsk] at k1 k2
    simp only [] at k1 k2 ⊢
    have := outer_spec fl.keepGoing deps (fun t => deps.getD t []) fl nr hnr rfl rfl (ts.length + 1) none e false ts
      (G fl.keepGoing deps s tr)
      (by rw [ok_noRet _ _ tr (noRet_of_onlyCL k1.cl)]; exact hs)
      (einv_of_scanOK k1 (by intro d hd; simp [Env.init] at hd))
      (by
        intro x hx hnin
        rcases k2 x (by simpa using hx) with h | h
        · exact absurd h hnin
        · exact done_of_marks _ _ tr x _ h (marks_canLoad _ _ x) _)
    rw [← G_append] at this
    exact this

/-- **the scheduling loop of any length keeps the scan obligation**: whatever the task list, its dependency structure, the
    flags, the number (>= 1) of wait cycles and the answers of the environment, when `execution_loop` returns every task of
    its list has been seen complete, found locked by someone else, failed, or - since the worker last finished a task -
    seen waiting for a dependency. -/
theorem loop_scans_all (fl : LFlags) (deps : List (List Task)) (nr : Nat) (hnr : 1 ≤ nr) (answers : List Nat) :
    lscanOK ⟨⟨fl.keepGoing, fl.keepFailed⟩, deps, loopTrace fl deps nr answers⟩ = true := by
  unfold lscanOK
  exact loop_scans_all_from fl deps nr hnr answers (Scan.init, true) rfl

/-! ### the fuel of `outer` never runs out: every pass that does not end the loop shortens the list -/

theorem rotate_length (k : Nat) : ∀ (e : Env) (ts : List Task), (rotate dp k e ts).2.1.length = ts.length := by
  induction k with
  | zero => intro e ts; simp [rotate]
  | succ k ih =>
    intro e ts
    cases ts with
    | nil => simp [rotate]
    | cons t ts =>
      unfold rotate
      cases hc : canRun e (dp t) with
      | mk b r =>
        obtain ⟨e1, tr⟩ := r
        cases b with
        | true => simp
        | false =>
          simp only []
          have := ih e1 (ts ++ [t])
          cases hr : rotate dp k e1 (ts ++ [t]) with
          | mk e2 r2 =>
            obtain ⟨ts2, tr2⟩ := r2
            rw [hr] at this
            simp only [] at this ⊢
            simp [this]

theorem takeRunnable_length (ts : List Task) : ∀ e : Env,
    (takeRunnable dp e ts).1.length + (takeRunnable dp e ts).2.2.1.length = ts.length := by
  induction ts with
  | nil => intro e; simp [takeRunnable]
  | cons t ts ih =>
    intro e
    unfold takeRunnable
    cases hc : canRun e (dp t) with
    | mk b r =>
      obtain ⟨e1, tr⟩ := r
      cases b with
      | false => simp
      | true =>
        simp only []
        have := ih e1
        cases hr : takeRunnable dp e1 ts with
        | mk up r2 =>
          obtain ⟨e2, ts2, tr2⟩ := r2
          rw [hr] at this
          simp only [] at this ⊢
          simp; omega

theorem firstRunnable_length (ts : List Task) : ∀ e : Env,
    (firstRunnable dp e ts).2.2.1.length + (firstRunnable dp e ts).1.toList.length = ts.length := by
  induction ts with
  | nil => intro e; simp [firstRunnable]
  | cons t ts ih =>
    intro e
    unfold firstRunnable
    cases hc : canRun e (dp t) with
    | mk b r =>
      obtain ⟨e1, tr⟩ := r
      cases b with
      | true => simp
      | false =>
        simp only []
        have := ih e1
        cases hr : firstRunnable dp e1 ts with
        | mk o r2 =>
          obtain ⟨e2, ts2, tr2⟩ := r2
          rw [hr] at this
          simp only [] at this ⊢
          simp at this ⊢; omega

theorem scanCycles_length (c : Nat) : ∀ (e : Env) (ts : List Task),
    (scanCycles dp c e ts).1.length + (scanCycles dp c e ts).2.2.1.length = ts.length := by
  induction c with
  | zero => intro e ts; simp [scanCycles]
  | succ c ih =>
    intro e ts
    unfold scanCycles
    simp only []
    generalize (if c = 0 then ts.length else min ts.length 128) = m
    have r1 := rotate_length dp m e ts
    cases hrot : rotate dp m e ts with
    | mk e1 q1 =>
      obtain ⟨ts1, tr1⟩ := q1
      rw [hrot] at r1
      simp only [] at r1 ⊢
      have t1 := takeRunnable_length dp ts1 e1
      cases htk : takeRunnable dp e1 ts1 with
      | mk up q2 =>
        obtain ⟨e2, ts2, tr2⟩ := q2
        rw [htk] at t1
        simp only [] at t1 ⊢
        cases up with
        | cons u up => simp only []; simp at t1 ⊢; omega
        | nil =>
          simp only []
          have f1 := firstRunnable_length dp ts2 e2
          cases hfr : firstRunnable dp e2 ts2 with
          | mk o q3 =>
            obtain ⟨e3, ts3, tr3⟩ := q3
            rw [hfr] at f1
            simp only [] at f1 ⊢
            cases o with
            | some t => simp only []; simp at f1 t1 ⊢; omega
            | none =>
              simp only []
              have i1 := ih e3 ts3
              cases hsc : scanCycles dp c e3 ts3 with
              | mk up4 q4 =>
                obtain ⟨e4, ts4, tr4⟩ := q4
                rw [hsc] at i1
                simp only [] at i1 ⊢
                simp at f1 t1; omega

/-- more fuel than tasks changes nothing: the `0` branch of `outer` is never reached from `loopTrace` -/
theorem outer_fuel (fl : LFlags) (nr : Nat) (f : Nat) : ∀ (prev : Option Task) (e : Env) (failures : Bool) (ts : List Task),
    ts.length < f → outer fl dp nr f prev e failures ts = outer fl dp nr (f + 1) prev e failures ts := by
  induction f with
  | zero => intro prev e failures ts h; omega
  | succ f ih =>
    intro prev e failures ts h
    cases ts with
    | nil => simp [outer]
    | cons t ts =>
      rw [outer, outer]
      have hl := scanCycles_length dp nr e (t :: ts)
      cases hsc : scanCycles dp nr e (t :: ts) with
      | mk up r =>
        obtain ⟨e1, ts1, tr1⟩ := r
        rw [hsc] at hl
        simp only [] at hl ⊢
        cases up with
        | nil => rfl
        | cons u up =>
          simp only []
          cases hra : runAll fl dp prev e1 failures (u :: up) with
          | mk o r2 =>
            obtain ⟨e2, prev2, tr2⟩ := r2
            cases o with
            | cont f' =>
              simp only []
              rw [ih prev2 e2 f' ts1 (by simp at hl h; omega)]
            | stopped k => rfl
            | exc => rfl

end Jug.Loop
