import JugModel.Model.ExecLocal
import JugModel.Lemmas.ExecVal
/-! `accept` = worker-local step ∧ consistency of the environment's answers. -/
set_option linter.unusedVariables false
namespace Jug.Exec
variable {V : Type} [DecidableEq V]

/-- what the environment (store, locks, task function) contributes to `accept` -/
def EnvOK (P : Prog V) (s : Sys V) : Ev V → Prop
  | .canLoad _ t b => b = (s.res t).isSome
  | .lock _ t b => b = (s.lock t == .free)
  | .load _ t v => s.res t = some v
  | .begin_ _ t => depsDone P s t = true
  | .endOk _ t v => v = P.f t s.res
  | _ => True

/-- every globally accepted event of worker `w` is a legal local step of `w` -/
theorem accept_local (P : Prog V) (fl : Worker → Flags) (s s' : Sys V) (e : Ev V) (w : Worker)
    (he : evWorker e = some w) (ha : accept P fl s e = some s') :
    lstep (fl w) (s.wk w, s.failures w) e = some (s'.wk w, s'.failures w) ∧ EnvOK P s e := by
  cases e <;> simp only [accept] at ha <;> simp_all [evWorker] <;> (try subst_vars) <;> (repeat' split at ha) <;>
    (try simp at ha) <;> (try (obtain ⟨_, rfl⟩ := ha)) <;> (try (obtain rfl := ha)) <;>
    simp_all [lstep, EnvOK, upd] <;> (try subst_vars) <;> (try grind)

/-- conversely: a legal local step whose answers are consistent with the shared state is accepted -/
theorem local_env_accept (P : Prog V) (fl : Worker → Flags) (s : Sys V) (e : Ev V) (w : Worker) (x' : LSt V)
    (he : evWorker e = some w) (hl : lstep (fl w) (s.wk w, s.failures w) e = some x') (henv : EnvOK P s e) :
    ∃ s', accept P fl s e = some s' ∧ s'.wk w = x'.1 ∧ s'.failures w = x'.2 := by
  cases e <;> simp_all [evWorker, lstep, EnvOK] <;> (try subst_vars) <;> simp only [accept] <;>
    (repeat' split at hl) <;> simp_all <;> (try subst_vars) <;> (try simp [upd]) <;> grind

end Jug.Exec
