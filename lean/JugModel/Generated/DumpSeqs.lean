-- GENERATED from /repo by the extractors of /verif/harness on every run. Do not edit.
import JugModel.Model.FS
namespace Jug.Generated.Dump
open Jug.FS
/-- file-system operation sequences of the real file_store.dump / resave_pack, recorded for representative values -/
def sequences : List (String × List FOp) := [
  ("pickle-small", [.other "open-jugtemp16828.jugtmp", .other "write-to-unknown", .other "write-to-unknown", .other "write-to-unknown", .flush, .flush, .fsync, .close, .fsyncDir, .other "rename-unexpected"]),
  ("pickle-large", [.other "open-jugtemp16828.jugtmp", .other "write-to-unknown", .other "write-to-unknown", .other "write-to-unknown", .other "write-to-unknown", .other "write-to-unknown", .flush, .flush, .fsync, .close, .fsyncDir, .other "rename-unexpected"]),
  ("str-large", [.other "open-jugtemp16828.jugtmp", .other "write-to-unknown", .other "write-to-unknown", .other "write-to-unknown", .other "write-to-unknown", .other "write-to-unknown", .flush, .flush, .fsync, .close, .fsyncDir, .other "rename-unexpected"]),
  ("none", [.other "open-jugtemp16828.jugtmp", .flush, .fsync, .close, .fsyncDir, .other "rename-unexpected"]),
  ("npy", [.other "open-jugtemp16828.jugtmp", .other "write-to-unknown", .other "write-to-unknown", .flush, .fsync, .close, .fsyncDir, .other "rename-unexpected"]),
  ("npy-large", [.other "open-jugtemp16828.jugtmp", .other "write-to-unknown", .other "write-to-unknown", .flush, .fsync, .close, .fsyncDir, .other "rename-unexpected"]),
  ("npy-empty", [.other "open-jugtemp16828.jugtmp", .other "write-to-unknown", .flush, .fsync, .close, .fsyncDir, .other "rename-unexpected"]),
  ("npy-0d", [.other "open-jugtemp16828.jugtmp", .other "write-to-unknown", .other "write-to-unknown", .flush, .fsync, .close, .fsyncDir, .other "rename-unexpected"]),
  ("npy-fortran", [.other "open-jugtemp16828.jugtmp", .other "write-to-unknown", .other "write-to-unknown", .flush, .fsync, .close, .fsyncDir, .other "rename-unexpected"]),
  ("npy-strided", [.other "open-jugtemp16828.jugtmp", .other "write-to-unknown", .other "write-to-unknown", .flush, .fsync, .close, .fsyncDir, .other "rename-unexpected"]),
  ("npy-object-small", [.other "open-jugtemp16828.jugtmp", .other "write-to-unknown", .other "write-to-unknown", .flush, .fsync, .close, .fsyncDir, .other "rename-unexpected"]),
  ("npy-object-large", [.other "open-jugtemp16828.jugtmp", .other "write-to-unknown", .other "write-to-unknown", .flush, .fsync, .close, .fsyncDir, .other "rename-unexpected"]),
  ("npy-datetime", [.other "open-jugtemp16828.jugtmp", .other "write-to-unknown", .other "write-to-unknown", .flush, .fsync, .close, .fsyncDir, .other "rename-unexpected"]),
  ("npy-compressed", [.other "open-jugtemp16828.jugtmp", .other "write-to-unknown", .other "write-to-unknown", .other "write-to-unknown", .other "write-to-unknown", .flush, .flush, .fsync, .close, .fsyncDir, .other "rename-unexpected"]),
  ("dict-of-arrays", [.other "open-jugtemp16828.jugtmp", .other "write-to-unknown", .other "write-to-unknown", .other "write-to-unknown", .flush, .flush, .fsync, .close, .fsyncDir, .other "rename-unexpected"]),
  ("resave-pack", [.lockGet, .other "open-jugtemp16828.jugtmp", .other "write-to-unknown", .other "write-to-unknown", .other "write-to-unknown", .flush, .flush, .fsync, .close, .fsyncDir, .other "rename-unexpected", .lockRelease]),
  ("packed-overwrite-0", [.other "open-jugtemp16828.jugtmp", .other "write-to-unknown", .other "write-to-unknown", .other "write-to-unknown", .flush, .flush, .fsync, .close, .fsyncDir, .other "rename-unexpected", .lockGet, .other "open-jugtemp16828.jugtmp", .other "write-to-unknown", .other "write-to-unknown", .other "write-to-unknown", .flush, .flush, .fsync, .close, .fsyncDir, .other "rename-unexpected", .lockRelease])]
def packedOverwritePublishesFirst : Bool := true
/-- the commands redis_store.dump sends that change the result key, per case (overwrite of an existing key) -/
def redisDumpCommands : List (String × List String) := [
  ("pickle-small", ["SET"]),
  ("pickle-large", ["SET"]),
  ("str-large", ["SET"]),
  ("none", ["SET"]),
  ("npy", ["SET"]),
  ("npy-large", ["SET"]),
  ("npy-empty", ["SET"]),
  ("npy-0d", ["SET"]),
  ("npy-fortran", ["SET"]),
  ("npy-strided", ["SET"]),
  ("npy-object-small", ["SET"]),
  ("npy-object-large", ["SET"]),
  ("npy-datetime", ["SET"]),
  ("npy-compressed", ["SET"]),
  ("dict-of-arrays", ["SET"])]
end Jug.Generated.Dump
