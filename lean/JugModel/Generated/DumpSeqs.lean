-- GENERATED from /repo by the extractors of /verif/harness on every run. Do not edit.
import JugModel.Model.FS
namespace Jug.Generated.Dump
open Jug.FS
/-- file-system operation sequences of the real file_store.dump / resave_pack, recorded for representative values -/
def sequences : List (String × List FOp) := [
  ("pickle-small", [.mkTempElsewhere, .write 2, .write 0, .write 24, .flush, .flush, .fsync, .close, .flush, .fsyncDir]),
  ("pickle-large", [.mkTempElsewhere, .write 2, .write 34926, .write 46541, .write 34825, .write 11134, .flush, .flush, .fsync, .close, .flush, .fsyncDir]),
  ("str-large", [.mkTempElsewhere, .write 2, .write 0, .write 0, .write 0, .write 126, .flush, .flush, .fsync, .close, .flush, .fsyncDir]),
  ("none", [.mkTempElsewhere, .flush, .fsync, .close, .flush, .fsyncDir]),
  ("npy", [.mkTempElsewhere, .write 128, .flush, .writeDirect 8000, .flush, .fsync, .close, .flush, .fsyncDir]),
  ("npy-large", [.mkTempElsewhere, .write 128, .flush, .writeDirect 1600000, .flush, .fsync, .close, .flush, .fsyncDir]),
  ("npy-empty", [.mkTempElsewhere, .write 128, .flush, .flush, .fsync, .close, .flush, .fsyncDir]),
  ("npy-0d", [.mkTempElsewhere, .write 128, .flush, .writeDirect 8, .flush, .fsync, .close, .flush, .fsyncDir]),
  ("npy-fortran", [.mkTempElsewhere, .write 128, .flush, .writeDirect 96, .flush, .fsync, .close, .flush, .fsyncDir]),
  ("npy-strided", [.mkTempElsewhere, .write 128, .flush, .writeDirect 272, .flush, .fsync, .close, .flush, .fsyncDir]),
  ("npy-object-small", [.mkTempElsewhere, .write 128, .write 160, .flush, .fsync, .close, .flush, .fsyncDir]),
  ("npy-object-large", [.mkTempElsewhere, .write 128, .write 39048, .flush, .fsync, .close, .flush, .fsyncDir]),
  ("npy-datetime", [.mkTempElsewhere, .write 128, .flush, .writeDirect 16, .flush, .fsync, .close, .flush, .fsyncDir]),
  ("npy-compressed", [.mkTempElsewhere, .write 2, .write 0, .write 0, .write 1640, .flush, .flush, .fsync, .close, .flush, .fsyncDir]),
  ("dict-of-arrays", [.mkTempElsewhere, .write 2, .write 0, .write 160, .flush, .flush, .fsync, .close, .flush, .fsyncDir]),
  ("resave-pack", [.lockGet, .mkstemp, .write 2, .write 0, .write 59, .flush, .flush, .fsync, .close, .flush, .fsyncDir, .rename, .lockRelease]),
  ("packed-overwrite-0", [.mkTempElsewhere, .write 2, .write 0, .write 26, .flush, .flush, .fsync, .close, .flush, .fsyncDir, .lockGet, .mkstemp, .write 2, .write 0, .write 36, .flush, .flush, .fsync, .close, .flush, .fsyncDir, .rename, .lockRelease])]
def packedOverwritePublishesFirst : Bool := false
/-- the same writes with their k-th data primitive (write / flush / fsync on the temporary file) reporting an error, for every k: what the real dump() does then -/
def failingSequences : List (String × List FOp) := [
]
/-- the commands redis_store.dump sends that change the result key, per case (overwrite of an existing key) -/
def redisDumpCommands : List (String × List String) := [
  ("pickle-small", ["SET"]),
  ("pickle-large", ["SET"]),
  ("str-large", ["SET"]),
  ("none", ["SET"]),
  ("npy", ["SET"]),
  ("npy-large", ["SET"]),
  ("npy-empty", ["SET"]),
  ("npy-0d", ["SET"]),
  ("npy-fortran", ["SET"]),
  ("npy-strided", ["SET"]),
  ("npy-object-small", ["SET"]),
  ("npy-object-large", ["SET"]),
  ("npy-datetime", ["SET"]),
  ("npy-compressed", ["SET"]),
  ("dict-of-arrays", ["SET"]),
  ("bytes-9MiB", ["SET"]),
  ("npy-10MB", ["SET"])]
end Jug.Generated.Dump
