-- GENERATED from /repo by the extractors of /verif/harness on every run. Do not edit.
import JugModel.Model.FS
namespace Jug.Generated.Dump
open Jug.FS
/-- file-system operation sequences of the real file_store.dump / resave_pack, recorded for representative values -/
def sequences : List (String × List FOp) := [
  ("pickle-small", [.mkstemp, .write 2, .write 0, .write 24, .flush, .flush, .fsync, .close, .flush, .fsyncDir, .rename]),
  ("pickle-large", [.mkstemp, .write 2, .write 34926, .write 46541, .write 34825, .write 11134, .flush, .flush, .fsync, .close, .flush, .fsyncDir, .rename]),
  ("str-large", [.mkstemp, .write 2, .write 0, .write 0, .write 0, .write 126, .flush, .flush, .fsync, .close, .flush, .fsyncDir, .rename]),
  ("none", [.mkstemp, .flush, .fsync, .close, .flush, .fsyncDir, .rename]),
  ("npy", [.mkstemp, .write 128, .flush, .writeDirect 8000, .flush, .fsync, .close, .flush, .fsyncDir, .rename]),
  ("npy-large", [.mkstemp, .write 128, .flush, .writeDirect 1600000, .flush, .fsync, .close, .flush, .fsyncDir, .rename]),
  ("npy-empty", [.mkstemp, .write 128, .flush, .flush, .fsync, .close, .flush, .fsyncDir, .rename]),
  ("npy-0d", [.mkstemp, .write 128, .flush, .writeDirect 8, .flush, .fsync, .close, .flush, .fsyncDir, .rename]),
  ("npy-fortran", [.mkstemp, .write 128, .flush, .writeDirect 96, .flush, .fsync, .close, .flush, .fsyncDir, .rename]),
  ("npy-strided", [.mkstemp, .write 128, .flush, .writeDirect 272, .flush, .fsync, .close, .flush, .fsyncDir, .rename]),
  ("npy-object-small", [.mkstemp, .write 128, .write 160, .flush, .fsync, .close, .flush, .fsyncDir, .rename]),
  ("npy-object-large", [.mkstemp, .write 128, .write 39048, .flush, .fsync, .close, .flush, .fsyncDir, .rename]),
  ("npy-datetime", [.mkstemp, .write 128, .flush, .writeDirect 16, .flush, .fsync, .close, .flush, .fsyncDir, .rename]),
  ("npy-compressed", [.mkstemp, .write 2, .write 0, .write 0, .write 1640, .flush, .flush, .fsync, .close, .flush, .fsyncDir, .rename]),
  ("dict-of-arrays", [.mkstemp, .write 2, .write 0, .write 160, .flush, .flush, .fsync, .close, .flush, .fsyncDir, .rename]),
  ("resave-pack", [.lockGet, .mkstemp, .write 2, .write 0, .write 59, .flush, .flush, .fsync, .close, .flush, .fsyncDir, .rename, .lockRelease]),
  ("packed-overwrite-0", [.mkstemp, .write 2, .write 0, .write 26, .flush, .flush, .fsync, .close, .flush, .fsyncDir, .rename]),
  ("packed-overwrite-1", [.lockGet, .mkstemp, .write 2, .write 0, .write 36, .flush, .flush, .fsync, .close, .flush, .fsyncDir, .rename, .lockRelease])]
def packedOverwritePublishesFirst : Bool := true
/-- the same writes with their k-th data primitive (write / flush / fsync on the temporary file) reporting an error, for every k: what the real dump() does then -/
def failingSequences : List (String × List FOp) := [
  ("pickle-small-fails-at-1-write", [.mkstemp, .failed, .raised]),
  ("pickle-small-fails-at-2-write", [.mkstemp, .write 2, .write 0, .failed, .raised]),
  ("pickle-small-fails-at-3-flush", [.mkstemp, .write 2, .write 0, .write 32, .failed, .raised]),
  ("pickle-small-fails-at-4-flush", [.mkstemp, .write 2, .write 0, .write 32, .flush, .failed, .raised]),
  ("pickle-small-fails-at-5-fsync", [.mkstemp, .write 2, .write 0, .write 32, .flush, .flush, .failed, .raised]),
  ("pickle-large-fails-at-1-write", [.mkstemp, .failed, .raised]),
  ("pickle-large-fails-at-2-write", [.mkstemp, .write 2, .failed, .raised]),
  ("pickle-large-fails-at-3-write", [.mkstemp, .write 2, .write 34926, .failed, .raised]),
  ("pickle-large-fails-at-4-write", [.mkstemp, .write 2, .write 34926, .write 23276, .failed, .raised]),
  ("pickle-large-fails-at-5-flush", [.mkstemp, .write 2, .write 34926, .write 23276, .write 5223, .failed, .raised]),
  ("pickle-large-fails-at-6-flush", [.mkstemp, .write 2, .write 34926, .write 23276, .write 5223, .flush, .failed, .raised]),
  ("pickle-large-fails-at-7-fsync", [.mkstemp, .write 2, .write 34926, .write 23276, .write 5223, .flush, .flush, .failed, .raised]),
  ("array-raw-fails-at-1-write", [.mkstemp, .failed, .truncate, .write 2, .write 0, .write 0, .write 4345, .flush, .flush, .fsync, .close, .fsyncDir, .rename]),
  ("array-raw-fails-at-2-write", [.mkstemp, .write 128, .failed, .truncate, .write 2, .write 0, .write 0, .write 4345, .flush, .flush, .fsync, .close, .fsyncDir, .rename]),
  ("array-raw-fails-at-3-flush", [.mkstemp, .write 128, .write 24000, .failed, .truncate, .write 2, .write 0, .write 0, .write 4345, .flush, .flush, .fsync, .close, .fsyncDir, .rename]),
  ("array-raw-fails-at-4-fsync", [.mkstemp, .write 128, .write 24000, .flush, .failed, .truncate, .write 2, .write 0, .write 0, .write 4345, .flush, .flush, .fsync, .close, .fsyncDir, .rename]),
  ("array-compressed-fails-at-1-write", [.mkstemp, .failed, .raised]),
  ("array-compressed-fails-at-2-write", [.mkstemp, .write 2, .write 0, .write 0, .failed, .raised]),
  ("array-compressed-fails-at-3-flush", [.mkstemp, .write 2, .write 0, .write 0, .write 4345, .failed, .raised]),
  ("array-compressed-fails-at-4-flush", [.mkstemp, .write 2, .write 0, .write 0, .write 4345, .flush, .failed, .raised]),
  ("array-compressed-fails-at-5-fsync", [.mkstemp, .write 2, .write 0, .write 0, .write 4345, .flush, .flush, .failed, .raised]),
  ("array-object-fails-at-1-write", [.mkstemp, .failed, .truncate, .write 2, .write 0, .write 0, .write 213, .flush, .flush, .fsync, .close, .fsyncDir, .rename]),
  ("array-object-fails-at-2-write", [.mkstemp, .write 128, .failed, .truncate, .write 2, .write 0, .write 0, .write 213, .flush, .flush, .fsync, .close, .fsyncDir, .rename]),
  ("array-object-fails-at-3-flush", [.mkstemp, .write 128, .write 162, .failed, .truncate, .write 2, .write 0, .write 0, .write 213, .flush, .flush, .fsync, .close, .fsyncDir, .rename]),
  ("array-object-fails-at-4-fsync", [.mkstemp, .write 128, .write 162, .flush, .failed, .truncate, .write 2, .write 0, .write 0, .write 213, .flush, .flush, .fsync, .close, .fsyncDir, .rename])]
/-- the commands redis_store.dump sends that change the result key, per case (overwrite of an existing key) -/
def redisDumpCommands : List (String × List String) := [
  ("pickle-small", ["SET"]),
  ("pickle-large", ["SET"]),
  ("str-large", ["SET"]),
  ("none", ["SET"]),
  ("npy", ["SET"]),
  ("npy-large", ["SET"]),
  ("npy-empty", ["SET"]),
  ("npy-0d", ["SET"]),
  ("npy-fortran", ["SET"]),
  ("npy-strided", ["SET"]),
  ("npy-object-small", ["SET"]),
  ("npy-object-large", ["SET"]),
  ("npy-datetime", ["SET"]),
  ("npy-compressed", ["SET"]),
  ("dict-of-arrays", ["SET"]),
  ("bytes-9MiB", ["SET"]),
  ("npy-10MB", ["SET"])]
end Jug.Generated.Dump
