-- GENERATED from /repo by the extractors of /verif/harness on every run. Do not edit.
namespace Jug.Generated.Stop
/-- (exit check, hooks it registers on) as found in jug/hooks/exit_checks.py -/
def exitHooks : List (String × List String) := [("exit_if_file_exists", ["execute.task-pre-execute"]), ("exit_when_true", ["execute.task-executed1"]), ("exit_after_n_tasks", ["execute.task-executed1"]), ("exit_after_time", ["execute.task-executed1"])]
def sigtermInstalledUnconditionally : Bool := true
def sigtermRaisesSystemExit : Bool := true
end Jug.Generated.Stop
