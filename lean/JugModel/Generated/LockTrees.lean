-- GENERATED from /repo by the extractors of /verif/harness on every run. Do not edit.
import JugModel.Model.Lock
namespace Jug.Generated.Locks
open Jug.Lock

/-- lock operations of the `file` backend as extracted from the real class (jug/backends) -/
def fileProgs : Progs := fun op => match op with
  | .get => (.prim .exists_ [(.yes, (.ret (.bool false))), (.no, (.prim .openExcl [(.ok, (.ret (.bool true))), (.err, (.ret (.bool false)))]))])
  | .release => (.prim .unlink [(.ok, (.ret .none)), (.err, (.ret .none))])
  | .isLocked => (.prim .exists_ [(.yes, (.ret (.bool true))), (.no, (.ret (.bool false)))])
  | .fail => (.prim .utimeFailed [(.ok, (.ret (.bool true))), (.err, (.ret (.bool false)))])
  | .isFailed => (.prim .exists_ [(.yes, (.prim .stat [(.err, (.ret (.bool false))), (.normal, (.ret (.bool false))), (.marked, (.ret (.bool true))), (.expired, (.ret (.bool false)))])), (.no, (.ret (.bool false)))])

/-- lock operations of the `keepalive` backend as extracted from the real class (jug/backends) -/
def keepaliveProgs : Progs := fun op => match op with
  | .get => (.prim .exists_ [(.yes, (.ret (.bool false))), (.no, (.prim .openExcl [(.ok, (.ret (.bool true))), (.err, (.ret (.bool false)))]))])
  | .release => (.prim .unlink [(.ok, (.ret .none)), (.err, (.ret .none))])
  | .isLocked => (.prim .exists_ [(.yes, (.ret (.bool true))), (.no, (.ret (.bool false)))])
  | .fail => (.prim .utimeFailed [(.ok, (.ret (.bool true))), (.err, (.ret (.bool false)))])
  | .isFailed => (.prim .exists_ [(.yes, (.prim .stat [(.err, (.ret (.bool false))), (.normal, (.ret (.bool false))), (.marked, (.ret (.bool true))), (.expired, (.ret (.bool true)))])), (.no, (.ret (.bool false)))])

/-- lock operations of the `redis` backend as extracted from the real class (jug/backends) -/
def redisProgs : Progs := fun op => match op with
  | .get => (.prim .setnxL [(.one, (.ret (.bool true))), (.zero, (.ret (.bool false)))])
  | .release => (.prim .del [(.one, (.ret .none)), (.zero, (.ret .none))])
  | .isLocked => (.prim .get [(.nil, (.ret (.bool false))), (.valL, (.ret (.bool true))), (.valF, (.ret (.bool true)))])
  | .fail => (.prim .get [(.nil, (.ret (.bool false))), (.valL, (.prim .setF [(.ok, (.ret (.bool true)))])), (.valF, (.ret (.bool true)))])
  | .isFailed => (.prim .get [(.nil, (.ret (.bool false))), (.valL, (.ret (.bool false))), (.valF, (.ret (.bool true)))])

/-- lock operations of the `dict` backend as extracted from the real class (jug/backends) -/
def dictProgs : Progs := fun op => match op with
  | .get => (.prim .dGet [(.nil, (.prim .dSetL [(.ok, (.ret (.bool true)))])), (.valL, (.prim .dSetL [(.ok, (.ret (.bool false)))])), (.valF, (.prim .dSetL [(.ok, (.prim .dSetF [(.ok, (.ret (.bool false)))]))]))])
  | .release => (.prim .dDel [(.ok, (.ret .none)), (.err, (.ret .raised))])
  | .isLocked => (.prim .dGet [(.nil, (.ret (.bool false))), (.valL, (.ret (.bool true))), (.valF, (.ret (.bool true)))])
  | .fail => (.prim .dGet [(.nil, (.prim .dGet [(.nil, (.ret .raised)), (.valL, (.ret (.bool false))), (.valF, (.ret (.bool true)))])), (.valL, (.prim .dSetF [(.ok, (.prim .dGet [(.nil, (.ret .raised)), (.valL, (.ret (.bool false))), (.valF, (.ret (.bool true)))]))])), (.valF, (.prim .dGet [(.nil, (.ret .raised)), (.valL, (.ret (.bool false))), (.valF, (.ret (.bool true)))]))])
  | .isFailed => (.prim .dGet [(.nil, (.ret (.bool false))), (.valL, (.ret (.bool false))), (.valF, (.ret (.bool true)))])

end Jug.Generated.Locks
