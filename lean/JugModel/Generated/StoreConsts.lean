-- GENERATED from /repo by the extractors of /verif/harness on every run. Do not edit.
namespace Jug.Generated.Store
def maxFilesizeInPack : Nat := 512
end Jug.Generated.Store
