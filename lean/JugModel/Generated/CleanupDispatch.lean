-- GENERATED from /repo by the extractors of /verif/harness on every run. Do not edit.
namespace Jug.Generated.Cleanup
/-- (locks_only, failed_only, keep_locks, store methods called) for all option combinations -/
def dispatchTable : List (Bool × Bool × Bool × List String) := [
  (false, false, false, ["cleanup:keeplocks=False"]),
  (false, false, true, ["cleanup:keeplocks=True"]),
  (false, true, false, ["listlocks", "is_failed:F", "release:F", "is_failed:H"]),
  (false, true, true, ["listlocks", "is_failed:F", "release:F", "is_failed:H"]),
  (true, false, false, ["remove_locks"]),
  (true, false, true, ["remove_locks"]),
  (true, true, false, ["remove_locks"]),
  (true, true, true, ["remove_locks"])]
end Jug.Generated.Cleanup
