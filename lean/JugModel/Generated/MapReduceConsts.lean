-- GENERATED from /repo by the extractors of /verif/harness on every run. Do not edit.
namespace Jug.Generated.MapReduce
def mapStepDefault : Nat := 4
def currymapStepDefault : Nat := 4
def mrMapStepDefault : Nat := 4
def mrReduceStepDefault : Nat := 8
def reduceStepDefault : Nat := 8
end Jug.Generated.MapReduce
