import JugModel.Model.ExecScan
/-
The scheduling loop of one worker: `jug/jug.py execution_loop` as a deterministic program, for task lists of ANY
length (the extracted paths of Generated/WorkerPaths cover lists of one and two tasks exhaustively; this model
covers the loop's own control structure: the initial skip of loadable tasks, the wait cycles with the rotation of
at most 128 not-yet-runnable tasks, the run of runnable tasks moved to `upnext`, the full scan for a first
runnable task, the per-task protocol with every exit path, the in-memory cache of results (`Task._result`) with
aggressive unloading, which decides which store queries are made at all).

The environment is a stream of answers (`Env.answers`, consumed left to right; exhausted = 0) filtered through
what the worker already knows - exactly the scripted environment the harness puts under the real function
(harness/jugverif/loopcheck.py): a task seen with a result keeps it (`known`), a task seen without a result while
the worker holds its lock still has none (`nores`).  Answers: `can_load`/`lock`/hook-exit: odd = True;
task function: `a % 4` = 0 returns, 1 raises an Exception, 2 SystemExit(1), 3 KeyboardInterrupt.

`loopTrace` is the event list of a whole run; the harness runs the real `execution_loop` on the same task lists,
flags, wait-cycle counts and answer streams and compares the two lists event by event.
Core Lean only.
-/
set_option linter.unusedVariables false
namespace Jug.Loop
open Jug.Exec

structure LFlags where
  keepGoing : Bool
  keepFailed : Bool
  aggressive : Bool       -- --aggressive-unload
  hookExits : Bool        -- exit hooks registered at task-pre-execute / task-executed1 (JUG_MAX_TASKS, time limit, stop file)
deriving DecidableEq, Repr

structure Env where
  answers : List Nat
  known : List Task       -- tasks the worker has seen with a result
  held : List Task        -- locks the worker holds
  nores : List Task       -- tasks seen without a result under their lock
  loaded : List Task      -- tasks whose `_result` is cached in this process
deriving Repr

def Env.init (answers : List Nat) : Env := ⟨answers, [], [], [], []⟩

def Env.pop (e : Env) : Nat × Env :=
  match e.answers with
  | [] => (0, e)
  | a :: as => (a, { e with answers := as })

abbrev Tr := List LEv

/-- `store.can_load(hash(t))` -/
def canLoadQ (e : Env) (t : Task) : Bool × Env × Tr :=
  if e.known.contains t then (true, e, [.ev (.canLoad 0 t true)])
  else if e.nores.contains t && e.held.contains t then (false, e, [.ev (.canLoad 0 t false)])
  else
    let (a, e1) := e.pop
    if a % 2 = 1 then (true, { e1 with known := t :: e1.known }, [.ev (.canLoad 0 t true)])
    else (false, (if e1.held.contains t then { e1 with nores := t :: e1.nores } else e1), [.ev (.canLoad 0 t false)])

/-- `Task.can_run()`: every dependency is cached in memory or can be loaded; stops at the first that cannot -/
def canRun (e : Env) : List Task → Bool × Env × Tr
  | [] => (true, e, [])
  | d :: ds =>
    if e.loaded.contains d then canRun e ds else
    match canLoadQ e d with
    | (true, e1, tr) => match canRun e1 ds with
      | (b, e2, tr2) => (b, e2, tr ++ tr2)
    | (false, e1, tr) => (false, e1, tr)

/-- the initial `while tasks[first_unloadable].can_load()` -/
def skipLoadable (e : Env) : List Task → Env × List Task × Tr
  | [] => (e, [], [])
  | t :: ts =>
    match canLoadQ e t with
    | (true, e1, tr) => match skipLoadable e1 ts with
      | (e2, ts2, tr2) => (e2, ts2, tr ++ tr2)
    | (false, e1, tr) => (e1, t :: ts, tr)

/-- `for i in range(max_cannot_run): if tasks[0].can_run(): break; tasks.append(tasks.pop(0))` -/
def rotate (deps : Task → List Task) : Nat → Env → List Task → Env × List Task × Tr
  | 0, e, ts => (e, ts, [])
  | _ + 1, e, [] => (e, [], [])
  | k + 1, e, t :: ts =>
    match canRun e (deps t) with
    | (true, e1, tr) => (e1, t :: ts, tr)
    | (false, e1, tr) => match rotate deps k e1 (ts ++ [t]) with
      | (e2, ts2, tr2) => (e2, ts2, tr ++ tr2)

/-- `while tasks and tasks[0].can_run(): upnext.append(tasks.pop(0))` -/
def takeRunnable (deps : Task → List Task) (e : Env) : List Task → List Task × Env × List Task × Tr
  | [] => ([], e, [], [])
  | t :: ts =>
    match canRun e (deps t) with
    | (true, e1, tr) => match takeRunnable deps e1 ts with
      | (up, e2, ts2, tr2) => (t :: up, e2, ts2, tr ++ tr2)
    | (false, e1, tr) => ([], e1, t :: ts, tr)

/-- `for ti,t in enumerate(tasks): if t.can_run(): upnext.append(tasks.pop(ti)); break` -/
def firstRunnable (deps : Task → List Task) (e : Env) : List Task → Option Task × Env × List Task × Tr
  | [] => (none, e, [], [])
  | t :: ts =>
    match canRun e (deps t) with
    | (true, e1, tr) => (some t, e1, ts, tr)
    | (false, e1, tr) => match firstRunnable deps e1 ts with
      | (r, e2, ts2, tr2) => (r, e2, t :: ts2, tr ++ tr2)

/-- the wait cycles of one pass (`c` = cycles left; the last one rotates through the whole list) -/
def scanCycles (deps : Task → List Task) : Nat → Env → List Task → List Task × Env × List Task × Tr
  | 0, e, ts => ([], e, ts, [])
  | c + 1, e, ts =>
    let m := if c = 0 then ts.length else min ts.length 128
    match rotate deps m e ts with
    | (e1, ts1, tr1) =>
      match takeRunnable deps e1 ts1 with
      | (t :: up, e2, ts2, tr2) => (t :: up, e2, ts2, tr1 ++ tr2)
      | ([], e2, ts2, tr2) =>
        match firstRunnable deps e2 ts2 with
        | (some t, e3, ts3, tr3) => ([t], e3, ts3, tr1 ++ tr2 ++ tr3)
        | (none, e3, ts3, tr3) =>
          match scanCycles deps c e3 ts3 with
          | (up, e4, ts4, tr4) => (up, e4, ts4, tr1 ++ tr2 ++ tr3 ++ tr4)

/-- how the handling of one task of `upnext` ends -/
inductive Outcome
  | cont (failed : Bool)          -- on to the next task; `failed` = this task's function raised (with --keep-going)
  | stopped (k : StopKind)        -- SystemExit / KeyboardInterrupt propagates out of the loop
  | exc                           -- the task's exception propagates (no --keep-going)
deriving DecidableEq, Repr

def unloadL (e : Env) (ds : List Task) : Env := { e with loaded := e.loaded.filter (fun x => !ds.contains x) }

/-- `value(dep) for dep in args`: load what is not cached (`load()` asserts `can_load()` first) -/
def loadArgs (e : Env) : List Task → Env × Tr
  | [] => (e, [])
  | d :: ds =>
    if e.loaded.contains d then loadArgs e ds else
    match canLoadQ e d with
    | (_, e1, tr) =>
      match loadArgs { e1 with loaded := d :: e1.loaded } ds with
      | (e2, tr2) => (e2, tr ++ .ev (.load 0 d ()) :: tr2)

def release (e : Env) (t : Task) : Env := { e with held := e.held.filter (· != t), nores := e.nores.filter (· != t) }

/-- the `finally:` of the per-task block -/
def finallyUnlock (locked : Bool) (keepLock : Bool) (e : Env) (t : Task) : Env × Tr :=
  if locked && !keepLock then (release e t, [.ev (.unlock 0 t)]) else (e, [])

/-- `if aggressive_unload and prevtask is not None: prevtask.unload()` at the end of an iteration -/
def afterBlock (fl : LFlags) (e : Env) (prev : Option Task) : Env :=
  match fl.aggressive, prev with
  | true, some p => unloadL e [p]
  | _, _ => e

/-- `except Exception:` and `finally:` after the function (or the assertion at the start of `Task.run`) raised -/
def failPath (fl : LFlags) (prev : Option Task) (e : Env) (t : Task) : Outcome × Env × Tr :=
  let trF : Tr := if fl.keepFailed then [.ev (.markFailed 0 t)] else []
  match finallyUnlock true fl.keepFailed e t with
  | (e1, trU) =>
    if fl.keepGoing then (.cont true, afterBlock fl e1 prev, trF ++ trU)
    else (.exc, e1, trF ++ trU ++ [.raise .taskException])

/-- SystemExit / KeyboardInterrupt passes through: `finally:` releases the lock -/
def stopPath (k : StopKind) (e : Env) (t : Task) : Outcome × Env × Tr :=
  match finallyUnlock true false e t with
  | (e1, trU) => (.stopped k, e1, [.ev (.stop 0 k)] ++ trU ++ [.raise (.stopped k)])

/-- `t.run()` (assert can_run(); arguments; function; dump), hook task-executed1, `finally:` - with the lock held -/
def execTask (fl : LFlags) (deps : Task → List Task) (prev : Option Task) (e : Env) (t : Task) : Outcome × Env × Tr :=
  match canRun e (deps t) with
  | (false, e1, tr1) =>
    -- AssertionError (an Exception): handled like a failure of the task, without the function having been entered
    match failPath fl prev e1 t with
    | (o, e2, tr2) => (o, e2, tr1 ++ tr2)
  | (true, e1, tr1) =>
    match loadArgs e1 (deps t) with
    | (e2, tr2) =>
      let pre : Tr := tr1 ++ tr2 ++ [.ev (.begin_ 0 t)]
      match e2.pop with
      | (o, e3) =>
        if o % 4 = 0 then
          let e4 : Env := { e3 with loaded := t :: e3.loaded, known := t :: e3.known }
          let body : Tr := pre ++ [.ev (.endOk 0 t ()), .ev (.dump 0 t ()), .executed1 t]
          match (if fl.hookExits then e4.pop else (0, e4)) with
          | (hx, e5) =>
            if hx % 2 = 1 then
              match stopPath (.sysExit 0) e5 t with
              | (o', e6, tr3) => (o', e6, body ++ tr3)
            else
              match finallyUnlock true false e5 t with
              | (e6, trU) => (.cont false, afterBlock fl e6 prev, body ++ trU)
        else if o % 4 = 1 then
          match failPath fl prev e3 t with
          | (o', e4, tr3) => (o', e4, pre ++ [.ev (.endExc 0 t)] ++ tr3)
        else if o % 4 = 2 then
          match stopPath (.sysExit 1) e3 t with
          | (o', e4, tr3) => (o', e4, pre ++ tr3)
        else
          match stopPath .kbdInt e3 t with
          | (o', e4, tr3) => (o', e4, pre ++ tr3)

/-- aggressive unloading before a task runs: drop what the previous task needed and this one does not -/
def preUnload (fl : LFlags) (deps : Task → List Task) (prev : Option Task) (e : Env) (t : Task) : Env :=
  if fl.aggressive then
    (match prev with
     | some p => unloadL e ((deps p ++ [p]).filter (fun d => !(deps t).contains d))
     | none => e)
  else e

def nextPrev (fl : LFlags) (prev : Option Task) (t : Task) : Option Task := if fl.aggressive then some t else prev

/-- hook task-pre-execute, aggressive unloading of what the previous task needed, then `execTask` -/
def runLocked (fl : LFlags) (deps : Task → List Task) (prev : Option Task) (e : Env) (t : Task) : Outcome × Env × Option Task × Tr :=
  match (if fl.hookExits then e.pop else (0, e)) with
  | (hx, e1) =>
    if hx % 2 = 1 then
      match stopPath (.sysExit 0) e1 t with
      | (o, e2, tr) => (o, e2, prev, .preExec t :: tr)
    else
      match execTask fl deps (nextPrev fl prev t) (preUnload fl deps prev e1 t) t with
      | (o, e3, tr) => (o, e3, nextPrev fl prev t, .preExec t :: tr)

/-- one iteration of `for t in upnext:`; `prev` = `prevtask` of aggressive unloading -/
def runTask (fl : LFlags) (deps : Task → List Task) (prev : Option Task) (e : Env) (t : Task) : Outcome × Env × Option Task × Tr :=
  match canLoadQ e t with
  | (true, e1, tr1) => (.cont false, e1, prev, tr1)                    -- `if t.can_load(): continue`
  | (false, e1, tr1) =>
    match e1.pop with
    | (a, e2) =>
      let locked : Bool := a % 2 = 1
      let e3 := if locked then { e2 with held := t :: e2.held } else e2
      let trL : Tr := tr1 ++ [.ev (.lock 0 t locked)]
      match canLoadQ e3 t with
      | (true, e4, tr2) =>                                             -- ran between the check above and this one
        match finallyUnlock locked false e4 t with
        | (e5, tr3) => (.cont false, afterBlock fl e5 prev, prev, trL ++ tr2 ++ tr3)
      | (false, e4, tr2) =>
        if locked then
          match runLocked fl deps prev e4 t with
          | (o, e5, prev', tr3) => (o, e5, prev', trL ++ tr2 ++ tr3)
        else (.cont false, afterBlock fl e4 prev, prev, trL ++ tr2)     -- "already in execution"

/-- `for t in upnext:` -/
def runAll (fl : LFlags) (deps : Task → List Task) : Option Task → Env → Bool → List Task → Outcome × Env × Option Task × Tr
  | prev, e, failures, [] => (.cont failures, e, prev, [])
  | prev, e, failures, t :: ts =>
    match runTask fl deps prev e t with
    | (.cont f, e1, prev1, tr1) =>
      match runAll fl deps prev1 e1 (failures || f) ts with
      | (o, e2, prev2, tr2) => (o, e2, prev2, tr1 ++ tr2)
    | (o, e1, prev1, tr1) => (o, e1, prev1, tr1)

/-- `while tasks:` (fuel: every pass that does not end the loop removes at least one task, see `outer_fuel` in Props/C01) -/
def outer (fl : LFlags) (deps : Task → List Task) (nr : Nat) : Nat → Option Task → Env → Bool → List Task → Tr
  | 0, _, _, _, _ => []
  | _ + 1, _, _, failures, [] => [.ret failures]
  | f + 1, prev, e, failures, t :: ts =>
    match scanCycles deps nr e (t :: ts) with
    | ([], _, _, tr1) => tr1 ++ [.ret failures]                        -- 'No tasks can be run!'
    | (u :: up, e1, ts1, tr1) =>
      match runAll fl deps prev e1 failures (u :: up) with
      | (.cont failures', e2, prev2, tr2) => tr1 ++ tr2 ++ outer fl deps nr f prev2 e2 failures' ts1
      | (_, _, _, tr2) => tr1 ++ tr2

/-- a whole run of `execution_loop(tasks, options)` over the task list `0 .. deps.length-1` -/
def loopTrace (fl : LFlags) (deps : List (List Task)) (nr : Nat) (answers : List Nat) : Tr :=
  let dp : Task → List Task := fun t => deps.getD t []
  match skipLoadable (Env.init answers) (List.range deps.length) with
  | (e, ts, tr) => tr ++ outer fl dp nr (ts.length + 1) none e false ts

end Jug.Loop
