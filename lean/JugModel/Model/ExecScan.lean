import JugModel.Model.ExecLocal
/-
Completeness bookkeeping of the worker loop (`jug/jug.py execution_loop`), as a ghost computed from the event
history alone - it does not touch `accept`.

A worker may end its loop normally (exit status 0) only when it has accounted for every task:
* `done w t`  (permanent): `w` saw `t`'s result in the store (`can_load` true, a `load`, its own `dump`), or found `t`
  locked by somebody else ("already in execution": the task is dropped from the worker's list);
* `stuck w t` (valid until `w` next leaves a critical section, i.e. until it rescans): `w` saw that a dependency of
  `t` has no result (`can_run()` false; the last wait cycle of the loop checks *all* remaining tasks).
`sdeps` is the dependency relation the scan uses (what `Task.dependencies()` reports); the theorems only need it to
point to earlier tasks.
-/
set_option linter.unusedVariables false
namespace Jug.Exec

variable {V : Type}

structure Scan where
  done : Worker → Task → Bool
  stuck : Worker → Task → Bool
  failedT : Task → Bool          -- the task's function has raised at some point of the history

def Scan.init : Scan := ⟨fun _ _ => false, fun _ _ => false, fun _ => false⟩

def Scan.flagged (sc : Scan) (w : Worker) (t : Task) : Bool := sc.done w t || sc.stuck w t

def Scan.setDone (sc : Scan) (w : Worker) (t : Task) : Scan :=
  { sc with done := fun w' t' => if w' = w ∧ t' = t then true else sc.done w' t' }

/-- a worker that will not end its loop normally (stop request; a failure without --keep-going) is exempt from the obligation -/
def Scan.exempt (sc : Scan) (w : Worker) : Scan :=
  { sc with done := fun w' t' => if w' = w then true else sc.done w' t' }

/-- `kg w` = worker `w` runs with --keep-going -/
def scanStep (sdeps : Task → List Task) (kg : Worker → Bool) (sc : Scan) : Ev V → Scan
  | .canLoad w t true => sc.setDone w t
  | .canLoad w d false => { sc with stuck := fun w' t' => if w' = w ∧ (sdeps t').contains d then true else sc.stuck w' t' }
  | .load w t _ => sc.setDone w t
  | .lock w t false => sc.setDone w t
  | .dump w t _ => sc.setDone w t
  | .unlock w _ => { sc with stuck := fun w' t' => if w' = w then false else sc.stuck w' t' }
  | .markFailed w _ => { sc with stuck := fun w' t' => if w' = w then false else sc.stuck w' t' }
  -- the function raised: the task is accounted for (as failed); without --keep-going the loop is left by the exception
  | .endExc w t =>
      let sc' : Scan := { (sc.setDone w t) with failedT := fun t' => if t' = t then true else sc.failedT t' }
      if kg w then sc' else sc'.exempt w
  -- a worker that was asked to stop is exempt (it may leave with status 0: task limit, time limit, stop file)
  | .stop w _ => sc.exempt w
  | _ => sc

/-- the obligation: a worker leaves (with whatever status) only when every task is accounted for, unless it is exempt -/
def scanGuard (n : Nat) (sc : Scan) : Ev V → Bool
  | .exit w _ => (List.range n).all (fun t => sc.flagged w t)
  | _ => true

def scanRun (n : Nat) (sdeps : Task → List Task) (kg : Worker → Bool) : Scan → List (Ev V) → Bool
  | _, [] => true
  | sc, e :: es => scanGuard n sc e && scanRun n sdeps kg (scanStep sdeps kg sc e) es

/-- the same obligation on one extracted path of the real worker loop (worker 0, the path's own task list):
    when `execution_loop` returns every task of the list is accounted for (a failed task counts as accounted for) -/
def lscan (kg : Bool) (deps : List (List Task)) : Scan × Bool → LEv → Scan × Bool
  | (sc, ok), .ev e => (scanStep (fun t => deps.getD t []) (fun _ => kg) sc e, ok)
  -- `execution_loop` returns (with or without failures): every task of the list is accounted for
  | (sc, ok), .ret _ => (sc, ok && (List.range deps.length).all (fun t => sc.flagged 0 t))
  | s, _ => s

def lscanOK (p : WPath) : Bool := (p.events.foldl (lscan p.flags.keepGoing p.deps) (Scan.init, true)).2

end Jug.Exec
