/-
The read-only memoizing wrapper `jug status --cache` puts around every backend (`jug/backends/memoize_store.py`):
`memoize_store.can_load`, and `cache_lock.is_locked` / `cache_lock.is_failed` with the four-valued `status` field
(`_UNKNOWN, _NOT_LOCKED, _LOCKED, _FAILED = -1, 0, 1, 2`). Core Lean only.

The base lock is summarised by what its two queries answer at the moment they are made (`LSt`); the wrapper is a small
state machine over `CSt`. `stepV` lets the base change between queries (the wrapper "never repeats a lookup").
-/
import JugModel.Model.Graph
namespace Jug.Memo
open Jug.Graph

/-- `cache_lock.status` -/
inductive CSt | unknown | notLocked | locked | failed
deriving DecidableEq, Repr

inductive Q | isLocked | isFailed
deriving DecidableEq, Repr

def baseIsLocked : LockSt → Bool
  | .free => false
  | _ => true

def baseIsFailed : LockSt → Bool
  | .failed => true
  | _ => false

/-- `cache_lock.__init__`: with `list_base` the status comes from the listing of lock names (held and failed locks are listed),
    otherwise it is unknown until first asked -/
def initSt (listing : Option Bool) : CSt :=
  match listing with
  | none => .unknown
  | some true => .locked
  | some false => .notLocked

/-- `is_locked()`: look once; answer `bool(status)` -/
def askLocked (b : LockSt) (c : CSt) : CSt × Bool :=
  let c' := if c = .unknown then (if baseIsLocked b then .locked else .notLocked) else c
  (c', c' != .notLocked)

/-- `is_failed()`: `self.is_locked()`; a lock known as (merely) locked is asked whether it failed; answer `status == _FAILED` -/
def askFailed (b : LockSt) (c : CSt) : CSt × Bool :=
  let c1 := (askLocked b c).1
  let c2 := if c1 = .locked then (if baseIsFailed b then .failed else .locked) else c1
  (c2, c2 == .failed)

def step (b : LockSt) (c : CSt) : Q → CSt × Bool
  | .isLocked => askLocked b c
  | .isFailed => askFailed b c

/-- a sequence of queries against a base that does not change -/
def run (b : LockSt) : CSt → List Q → List Bool
  | _, [] => []
  | c, q :: qs => (step b c q).2 :: run b (step b c q).1 qs

/-- a sequence of queries, each made while the base is in the given state -/
def runV : CSt → List (LockSt × Q) → List Bool
  | _, [] => []
  | c, (b, q) :: qs => (step b c q).2 :: runV (step b c q).1 qs

def truth (b : LockSt) : Q → Bool
  | .isLocked => baseIsLocked b
  | .isFailed => baseIsFailed b

/-- `memoize_store.can_load`: the listing of keys if there is one, else the first answer of the base -/
structure KSt where
  listing : Option (List Nat)
  cache : List (Nat × Bool)

def canLoad (base : Nat → Bool) (k : KSt) (name : Nat) : KSt × Bool :=
  match k.listing with
  | some ks => (k, ks.contains name)
  | none =>
    match k.cache.lookup name with
    | some a => (k, a)
    | none => ({ k with cache := (name, base name) :: k.cache }, base name)

/-- does `can_load(name)` go to the wrapped backend? -/
def consults (k : KSt) (name : Nat) : Bool := k.listing.isNone && (k.cache.lookup name).isNone

/-- a whole `jug status` worth of `can_load` calls: the answers, and the names for which the wrapped backend was asked, in order -/
def canLoadRun (base : Nat → Bool) : KSt → List Nat → List Bool × List Nat
  | _, [] => ([], [])
  | k, n :: ns =>
    let r := canLoad base k n
    let rest := canLoadRun base r.1 ns
    (r.2 :: rest.1, if consults k n then n :: rest.2 else rest.2)

end Jug.Memo
