/-
Layer E of DESIGN.md: invalidation closure (jug/subcommands/invalidate.py, shell.py), status classification
(jug/subcommands/status.py, cached and uncached) and the `check` walk (jug/subcommands/check.py).
Tasks are `0 .. n-1` in creation order; `deps t` are direct dependencies (created earlier). Core Lean only.
-/
set_option linter.unusedVariables false
namespace Jug.Graph

abbrev Task := Nat

/-- `isinvalid(t)` of `jug invalidate`: the name matches, or some dependency is invalid (memoised recursion; fuel = t + 1 suffices) -/
def affF (deps : Task → List Task) (hit : Task → Bool) : Nat → Task → Bool
  | 0, _ => false
  | f + 1, t => hit t || (deps t).any (affF deps hit f)

def aff (deps : Task → List Task) (hit : Task → Bool) (t : Task) : Bool := affF deps hit (t + 1) t

/-- the specification -/
inductive Affected (deps : Task → List Task) (hit : Task → Bool) : Task → Prop
  | hit {t} : hit t = true → Affected deps hit t
  | dep {t d} : d ∈ deps t → Affected deps hit d → Affected deps hit t

/-! ### the interactive shell's `invalidate(task)` (jug/subcommands/shell.py): reverse edges + work list -/

/-- `reverse[d]` = the tasks that list `d` among their dependencies, as built by the first call (tasks `0 .. n-1`) -/
def revEdges (deps : Task → List Task) (n : Nat) (d : Task) : List Task :=
  (List.range n).filter (fun t => (deps t).contains d)

/-- the loop `while queue: task = queue.pop(); if seen: continue; seen.add; invalidate; queue.extend(unseen dependents)`.
    Returns the set of invalidated tasks, or `none` if the fuel ran out before the queue was empty. -/
def shellLoop (rev : Task → List Task) : Nat → List Task → List Task → Option (List Task)
  | _, [], seen => some seen
  | 0, _ :: _, _ => none
  | fuel + 1, q :: qs, seen =>
      -- `queue.pop()` takes the last element
      let t := (q :: qs).getLast (by simp)
      let rest := (q :: qs).dropLast
      if seen.contains t then shellLoop rev fuel rest seen
      else shellLoop rev fuel (rest ++ (rev t).filter (fun u => !(t :: seen).contains u)) (t :: seen)

/-- what `store.remove_many(hashes of the invalid tasks)` leaves -/
def invalidateStore {V} (res : Task → Option V) (bad : Task → Bool) : Task → Option V :=
  fun t => if bad t then none else res t

/-! ### status -/

inductive Status | unknown | waiting | ready | running | failed | finished
deriving DecidableEq, Repr

inductive LockSt | free | held | failed
deriving DecidableEq, Repr

def lockClass : LockSt → Status
  | .free => .ready
  | .held => .running
  | .failed => .failed

/-- uncached `jug status`: complete iff stored; else waiting iff some direct dependency is not stored; else by the lock -/
def classify (deps : Task → List Task) (res : Task → Bool) (lock : Task → LockSt) (t : Task) : Status :=
  if res t then .finished
  else if (deps t).all res then lockClass (lock t)
  else .waiting

/-- the copy of the classifier in `jug graph` (jug/subcommands/graph.py), in the order the code asks: can_load, can_run, is_locked, is_failed -/
def classifyGraph (deps : Task → List Task) (res : Task → Bool) (lock : Task → LockSt) (t : Task) : Status :=
  if res t then .finished
  else if (deps t).all res then
    (match lock t with
     | .free => .ready
     | .held => .running
     | .failed => .failed)
  else .waiting

/-- cached `jug status` (`update_status`): `prev` = statuses stored in the cache by the previous call -/
def classifyCached (deps : Task → List Task) (res : Task → Bool) (lock : Task → LockSt) (prev : Task → Status) (t : Task) : Status :=
  if prev t = .finished || res t then .finished
  else
    let canRun := if prev t = .ready then true else (deps t).all (fun d => prev d = .finished || res d)
    if canRun then lockClass (lock t) else .waiting

/-! ### check -/

/-- `recursive_dependencies(t)` (with fuel) -/
def recDepsF (deps : Task → List Task) : Nat → Task → List Task
  | 0, _ => []
  | f + 1, t => (deps t).flatMap (fun d => d :: recDepsF deps f d)

/-- `_check_or_sleep_until(store, False)`: walk the tasks from the last to the first; a loadable task exempts everything
    below it. `true` = exit status 0. `k` = number of tasks still to visit (visits task `k-1` next). -/
def checkWalk (deps : Task → List Task) (res : Task → Bool) (n : Nat) : Nat → List Task → Bool
  | 0, _ => true
  | k + 1, skip =>
      if skip.contains k then checkWalk deps res n k skip
      else if res k then checkWalk deps res n k (recDepsF deps n k ++ skip)
      else false

/-! ### `jug status --short` -/

/-- the one-line summary of `_print_status` -/
inductive ShortMsg
  | allComplete (n : Nat)                                              -- "All tasks complete (n tasks)."
  | pending (toRun failed complete : Nat) (active : Option Nat)        -- "... waiting to be run, ... failed, ... complete, (none active | k active)."
deriving DecidableEq, Repr

/-- from the five totals (failed, waiting, ready, complete, active) -/
def shortSummary (f w r c a : Nat) : ShortMsg :=
  if w = 0 ∧ a = 0 ∧ f = 0 ∧ r = 0 then .allComplete c
  else if a = 0 then .pending (w + r) f c none
  else .pending (w + r) f c (some a)

end Jug.Graph
