/-
Layer C1 of DESIGN.md: the file-system operations of one result write (`file_store.dump`, `resave_pack`) with three levels of
buffering (Python file object, OS page cache, disk), process kill and power loss. The operation sequences are not written by hand:
they are recorded from the real code on every run (Generated/DumpSeqs.lean) and checked by `safeSeq`. Core Lean only.
-/
set_option linter.unusedVariables false
namespace Jug.FS

/-- file-system operations of a write, as recorded from the real code -/
inductive FOp
  | mkstemp                 -- temporary file created under <jugdir>/tempfiles
  | mkTempElsewhere         -- temporary file created somewhere readers look for results (or on another file system)
  | openFinal               -- the final name itself opened for writing
  | write (n : Nat)         -- `n` bytes handed to the Python file object (buffered in user space)
  | writeDirect (n : Nat)   -- `n` bytes written through the descriptor (ndarray.tofile; flushes the Python buffer first)
  | flush                   -- Python buffer -> OS page cache
  | fsync                   -- OS page cache -> disk
  | close                   -- close(): flushes the Python buffer
  | fsyncDir                -- fsync of the temporary file's directory
  | rename                  -- rename(temp, final): the result becomes visible
  | lockGet | lockRelease   -- the 'pack-save' lock around a pack rewrite
  | failed                  -- a primitive of the write reported an error (disk full, I/O error): what is in the temporary file is a partial attempt
  | truncate                -- the temporary file is emptied and written again from the start (fallback to another encoding)
  | raised                  -- the write gives up: the exception reaches the caller (nothing may follow)
  | other (what : String)   -- anything else that touches the store
deriving Repr, DecidableEq

structure St where
  created : Bool := false
  pybuf : Nat := 0          -- bytes still in the Python buffer (lost by a kill)
  oscache : Nat := 0        -- bytes in the OS cache (what readers see; survives a kill, lost by power loss)
  durable : Nat := 0        -- bytes on disk
  total : Nat := 0          -- bytes of the value handed over so far
  closed : Bool := false
  renamed : Bool := false   -- the final name resolves to this file
  bad : Bool := false       -- something outside the discipline happened
  tainted : Bool := false   -- the temporary file holds (part of) an attempt that failed
  gaveUp : Bool := false    -- the exception was passed on to the caller
deriving Repr, DecidableEq

def step (s : St) : FOp → St
  | .mkstemp => { s with created := true }
  | .mkTempElsewhere => { s with bad := true }
  | .openFinal => { s with bad := true }
  | .write n => if s.renamed ∨ s.closed ∨ ¬ s.created then { s with bad := true } else { s with pybuf := s.pybuf + n, total := s.total + n }
  | .writeDirect n => if s.renamed ∨ s.closed ∨ ¬ s.created then { s with bad := true }
      else { s with oscache := s.oscache + s.pybuf + n, pybuf := 0, total := s.total + n }
  | .flush => { s with oscache := s.oscache + s.pybuf, pybuf := 0 }
  | .fsync => { s with durable := s.oscache }
  | .close => { s with oscache := s.oscache + s.pybuf, pybuf := 0, closed := true }
  | .fsyncDir => s
  | .rename =>
      -- the discipline: only a closed, completely durable temporary file that holds one complete attempt may become visible
      if s.created ∧ s.closed ∧ s.pybuf = 0 ∧ s.durable = s.total ∧ s.oscache = s.total ∧ ¬ s.renamed ∧ ¬ s.tainted ∧ ¬ s.gaveUp then { s with renamed := true }
      else { s with bad := true }
  | .failed => if s.renamed ∨ s.gaveUp then { s with bad := true } else { s with tainted := true }
  | .truncate =>
      -- start again: nothing of the failed attempt stays in front of the next one
      if s.renamed ∨ s.closed ∨ ¬ s.created ∨ s.gaveUp then { s with bad := true }
      else { s with pybuf := 0, oscache := 0, durable := 0, total := 0, tainted := false }
  | .raised => if s.renamed then { s with bad := true } else { s with gaveUp := true }
  | .lockGet => s
  | .lockRelease => s
  | .other _ => { s with bad := true }

def run (s : St) : List FOp → St
  | [] => s
  | op :: ops => run (step s op) ops

/-- the whole sequence is safe: nothing outside the discipline, and it ends with the result visible -/
def safeSeq (ops : List FOp) : Bool := !(run {} ops).bad && (run {} ops).renamed

/-- a write during which a primitive failed is safe if nothing outside the discipline happens and it either gives the error to its caller
    without having published anything, or publishes one complete attempt -/
def safeFailSeq (ops : List FOp) : Bool :=
  !(run {} ops).bad && ((run {} ops).gaveUp != (run {} ops).renamed)

/-- number of bytes of the complete value -/
def valueSize (ops : List FOp) : Nat := (run {} ops).total

end Jug.FS
