/-
Model of jug/hash.py + the `__jug_hash__` methods of Task, Tasklet, _getitem (layer D of DESIGN.md).

`ser` mirrors `hash_update` call by call: one token per `M.update(...)`. The identifier of a task is
`sha (taskStream ...)`. Iteration order of sets and insertion order of dicts are explicit (lists), so
"same value, different representation" is a relation on model values (`Same`).
Core Lean only.
-/
set_option linter.unusedVariables false
namespace Jug.Hash

/-- type markers written as raw bytes by `hash_update` / `Tasklet.__jug_hash__` -/
inductive Marker | list | tuple | set | fset | dict | ndarray | tasklet
deriving DecidableEq, Repr

/-- one `M.update(chunk)`. `A` = byte strings (pickles, raw buffers), `D` = digests -/
inductive Tok (A D : Type)
  | atom (a : A)        -- `pickle.dumps(x)`: a leaf value, or a label (str / int index / digest-bytes dict label)
  | mark (m : Marker)
  | dig (d : D)         -- raw digest returned by some `__jug_hash__()`
  | raw (b : A)         -- ndarray dtype pickle / shape pickle / data buffer
deriving DecidableEq, Repr

/-- how labels are pickled, and the hash function with the order used by `list.sort()` on digests -/
structure Enc (A D : Type) where
  pkNat : Nat → A            -- pickle.dumps(i) of an enumerate index
  pkStr : String → A         -- pickle.dumps('name') ...
  pkDig : D → A              -- pickle.dumps(b'<hexdigest>')
  sha : List (Tok A D) → D   -- sha1(concatenated chunks).hexdigest()
  le : D → D → Bool          -- bytes comparison

/-- Python values as seen by `hash_update` -/
inductive PVal (A D : Type)
  | atom (a : A)                         -- anything pickled as a whole: None, bool, numbers, str, bytes, NumPy scalars, functions
  | custom (d : D)                       -- an object whose `__jug_hash__` is user supplied (CustomHash, NoHash): exempt from C08
  | list (xs : List (PVal A D))
  | tuple (xs : List (PVal A D))
  | set (xs : List (PVal A D))           -- in iteration order
  | fset (xs : List (PVal A D))
  | dict (kvs : List (PVal A D × PVal A D))   -- in insertion order
  | nd (dtype shape data : A)            -- ndarray without object fields: data = logical C-order bytes
  | ndobj (dtype shape : A) (elems : List (PVal A D))   -- object-dtype ndarray: elements in logical C order
  | task (name : A) (args : List (PVal A D)) (kwargs : List (PVal A D × PVal A D))   -- name = pickle of the qualified name bytes
  | tasklet (base : PVal A D) (f : PVal A D)
  | hashed (v : PVal A D)                -- an object whose `__jug_hash__` is `hash_one(v)`: `_getitem(i)` (v = ('jug.task._getitem', i)), block_access, block_access_slice

variable {A D : Type}

/-- digests with their payload, sorted by digest with a stable sort (Python's `sort(key=k_v[0])`) -/
def sortByDigest (enc : Enc A D) {β} (l : List (D × β)) : List (D × β) :=
  l.mergeSort (fun a b => enc.le a.1 b.1)

def sortDigests (enc : Enc A D) (l : List D) : List D := l.mergeSort enc.le

/-- `hash_update(M, enumerate(items))` for a list of digests (the body of a set) -/
def serDigests (enc : Enc A D) : Nat → List D → List (Tok A D)
  | _, [] => []
  | k, d :: ds => .atom (enc.pkNat k) :: .atom (enc.pkDig d) :: serDigests enc (k + 1) ds

/-- `hash_update(M, items)` for the sorted `(hash_one(key), value)` pairs of a dict, values already serialised -/
def serEntries (enc : Enc A D) : List (D × List (Tok A D)) → List (Tok A D)
  | [] => []
  | (kd, vs) :: rest => .atom (enc.pkDig kd) :: (vs ++ serEntries enc rest)

mutual
/-- what `hash_update` feeds to the hash object for one element (after its label) -/
def ser (enc : Enc A D) : PVal A D → List (Tok A D)
  | .atom a => [.atom a]
  | .custom d => [.dig d]
  | .list xs => .mark .list :: serSeq enc 0 xs
  | .tuple xs => .mark .tuple :: serSeq enc 0 xs
  | .set xs => .mark .set :: serDigests enc 0 (sortDigests enc (hashAll enc xs))
  | .fset xs => .mark .fset :: serDigests enc 0 (sortDigests enc (hashAll enc xs))
  | .dict kvs => .mark .dict :: serEntries enc (sortByDigest enc (serKVs enc kvs))
  | .nd dt sh data => [.mark .ndarray, .raw dt, .raw sh, .raw data]
  | .ndobj dt sh elems => .mark .ndarray :: .raw dt :: .raw sh :: serSeq enc 0 elems
  | .task name args kwargs => [.dig (enc.sha (
      .atom (enc.pkStr "name") :: .atom name ::
      .atom (enc.pkStr "args") :: .mark .tuple :: (serSeq enc 0 args ++
      (.atom (enc.pkStr "kwargs") :: .mark .dict :: serEntries enc (sortByDigest enc (serKVs enc kwargs))))))]
  | .tasklet base f => [.dig (enc.sha (
      .mark .tasklet :: .atom (enc.pkStr "base") :: (ser enc base ++ (.atom (enc.pkStr "f") :: ser enc f))))]
  | .hashed v => [.dig (enc.sha (.atom (enc.pkStr "hash1") :: ser enc v))]
/-- `hash_update(M, enumerate(xs))` starting at index `k` -/
def serSeq (enc : Enc A D) : Nat → List (PVal A D) → List (Tok A D)
  | _, [] => []
  | k, x :: xs => .atom (enc.pkNat k) :: (ser enc x ++ serSeq enc (k + 1) xs)
/-- `[hash_one(el) for el in xs]` -/
def hashAll (enc : Enc A D) : List (PVal A D) → List D
  | [] => []
  | x :: xs => enc.sha (.atom (enc.pkStr "hash1") :: ser enc x) :: hashAll enc xs
/-- `[(hash_one(k), v) for k, v in d.items()]` with the values already serialised -/
def serKVs (enc : Enc A D) : List (PVal A D × PVal A D) → List (D × List (Tok A D))
  | [] => []
  | (k, v) :: rest => (enc.sha (.atom (enc.pkStr "hash1") :: ser enc k), ser enc v) :: serKVs enc rest
end

/-- `hash_one(obj)` -/
def hashOne (enc : Enc A D) (v : PVal A D) : D := enc.sha (.atom (enc.pkStr "hash1") :: ser enc v)

/-- the stream a Task feeds to its hash object (`_compute_set_hash`) -/
def taskStream (enc : Enc A D) (name : A) (args : List (PVal A D)) (kwargs : List (PVal A D × PVal A D)) : List (Tok A D) :=
  .atom (enc.pkStr "name") :: .atom name ::
  .atom (enc.pkStr "args") :: .mark .tuple :: (serSeq enc 0 args ++
  (.atom (enc.pkStr "kwargs") :: .mark .dict :: serEntries enc (sortByDigest enc (serKVs enc kwargs))))

/-- the identifier of a task -/
def taskId (enc : Enc A D) (name : A) (args : List (PVal A D)) (kwargs : List (PVal A D × PVal A D)) : D :=
  enc.sha (taskStream enc name args kwargs)

theorem ser_task (enc : Enc A D) (name : A) (args kwargs) :
    ser enc (.task name args kwargs) = [.dig (taskId enc name args kwargs)] := by
  simp [ser, taskId, taskStream]

end Jug.Hash
