/-
Model of jug/mapreduce.py (layer F of DESIGN.md): `_break_up`, `map`, `currymap`, `mapreduce`,
`reduce`, `block_access` and `block_access_slice` (index and slice arithmetic).
Core Lean only (the driver links this file).
-/
set_option linter.unusedVariables false

namespace Jug.MR

/-- `_break_up(lst, step)`: consecutive chunks of `step` elements.
    Python loops forever for `step = 0` on a non-empty list; the model returns `[]` there and
    every theorem carries the guard `1 ≤ step` (the property's domain). -/
def breakUp {α} (step : Nat) (xs : List α) : List (List α) :=
  if h : step = 0 ∨ xs = [] then [] else
    xs.take step :: breakUp step (xs.drop step)
termination_by xs.length
decreasing_by
  simp only [List.length_drop]
  have : xs.length ≠ 0 := by
    intro h0; exact h (Or.inr (List.length_eq_zero_iff.mp h0))
  omega

/-- `functools.reduce(r, xs)` without initial value: `none` models the `TypeError` on `[]`. -/
def fold1 {β} (r : β → β → β) : List β → Option β
  | [] => none
  | x :: xs => some (xs.foldl r x)

/-- value of the block tasks created by `map(mapper, xs, map_step)`:
    one task `_jug_map(mapper, chunk)` per chunk -/
def mapBlocks {α β} (m : α → β) (step : Nat) (xs : List α) : List (List β) :=
  (breakUp step xs).map (·.map m)

/-- `value(map(mapper, xs, map_step))`: for `map_step = 1` a plain list of tasks, otherwise the
    `block_access.__jug_value__` concatenation of the blocks -/
def mapValue {α β} (m : α → β) (step : Nat) (xs : List α) : List β :=
  if step = 1 then xs.map m else (mapBlocks m step xs).flatten

/-- `block_access.__getitem__(p)` for an in-range integer: `blocks[p // block_size][p % block_size]` -/
def blockGet {β} (blocks : List (List β)) (bs : Nat) (p : Nat) : Option β :=
  (blocks[p / bs]?).bind (·[p % bs]?)

/-- the inputs the mapper is called on, in task order (each block task maps its chunk) -/
def mapperCalls {α} (step : Nat) (xs : List α) : List α := (breakUp step xs).flatten

/-- the `while len(reducers) > 1` loop of `mapreduce`: every level groups `rs` consecutive values
    into one `_jug_reduce` task. `none` = no reducers (jug returns `identity([])`);
    for `rs < 2` Python does not terminate (guard). -/
def treeReduce {β} (r : β → β → β) (rs : Nat) (l : List β) : Option β :=
  match l with
  | [] => none
  | [x] => some x
  | x :: y :: t =>
    if h : rs < 2 then none else
      treeReduce r rs ((breakUp rs (x :: y :: t)).filterMap (fold1 r))
termination_by l.length
decreasing_by
  -- filterMap does not lengthen, breakUp with step ≥ 2 shortens lists of length ≥ 2
  have h2 : 2 ≤ rs := by omega
  have hb : ∀ (n : Nat) (zs : List β), zs.length ≤ n → 2 ≤ zs.length → (breakUp rs zs).length < zs.length := by
    intro n
    induction n with
    | zero => intro zs h0 h2'; omega
    | succ n ih =>
      intro zs hn hz
      unfold breakUp
      have hne : ¬ (rs = 0 ∨ zs = []) := by
        intro h; rcases h with h | h
        · omega
        · subst h; simp at hz
      simp only [hne, ↓reduceDIte, List.length_cons]
      by_cases hd : 2 ≤ (zs.drop rs).length
      · have := ih (zs.drop rs) (by simp only [List.length_drop] at *; omega) hd
        simp only [List.length_drop] at *; omega
      · -- the rest has < 2 elements: breakUp yields at most one more chunk
        have hl : (breakUp rs (zs.drop rs)).length ≤ (zs.drop rs).length := by
          generalize zs.drop rs = ws at hd ⊢
          match ws with
          | [] => unfold breakUp; simp
          | [w] =>
            unfold breakUp
            have : ¬ (rs = 0 ∨ [w] = []) := by simp; omega
            simp only [this, ↓reduceDIte, List.length_cons]
            have : List.drop rs [w] = [] := by
              apply List.drop_eq_nil_of_le; simp; omega
            rw [this]; unfold breakUp; simp
          | _ :: _ :: _ => simp at hd
        simp only [List.length_drop] at *; omega
  calc ((breakUp rs (x :: y :: t)).filterMap (fold1 r)).length
      ≤ (breakUp rs (x :: y :: t)).length := List.length_filterMap_le _ _
    _ < (x :: y :: t).length := hb _ _ (Nat.le_refl _) (by simp)

/-- `value(mapreduce(reducer, mapper, xs, map_step, reduce_step))`:
    first level one `_jug_map_reduce` task per chunk, then the reduction tree -/
def mrValue {α β} (r : β → β → β) (m : α → β) (ms rs : Nat) (xs : List α) : Option β :=
  treeReduce r rs ((breakUp ms xs).filterMap (fun c => fold1 r (c.map m)))

/-- `reduce(reducer, xs, reduce_step)` = `mapreduce(reducer, None, xs, reduce_step=…)` (map_step default 4) -/
def reduceValue {β} (r : β → β → β) (rs : Nat) (xs : List β) : Option β :=
  mrValue r id 4 rs xs

/-- `currymap(f, xs, map_step)`: `_jug_map_curry` applies `f(*e)`; the result list holds `t[i]` per element -/
def curryValue {α₁ α₂ β} (f : α₁ → α₂ → β) (step : Nat) (xs : List (α₁ × α₂)) : List β :=
  if step = 1 then xs.map (fun e => f e.1 e.2)
  else ((breakUp step xs).map (fun c => c.map (fun e => f e.1 e.2))).flatten

/-! ### Python slices and ranges (CPython `PySlice_AdjustIndices`, `range.__getitem__`) -/

structure PySlice where
  start : Option Int
  stop : Option Int
  step : Option Int
deriving Repr, DecidableEq

/-- `slice.indices(len)`; `none` = `ValueError: slice step cannot be zero` -/
def sliceIndices (s : PySlice) (len : Nat) : Option (Int × Int × Int) :=
  let n : Int := len
  let step := s.step.getD 1
  if step = 0 then none else
  let lower : Int := if step < 0 then -1 else 0
  let upper : Int := if step < 0 then n - 1 else n
  let clamp (v : Int) : Int := if v < 0 then max (v + n) lower else min v upper
  let start := match s.start with
    | none => if step < 0 then upper else lower
    | some v => clamp v
  let stop := match s.stop with
    | none => if step < 0 then lower else upper
    | some v => clamp v
  some (start, stop, step)

/-- a Python `range(start, stop, step)` with `step ≠ 0` -/
structure PyRange where
  start : Int
  stop : Int
  step : Int
deriving Repr, DecidableEq

/-- `len(range(...))` -/
def PyRange.len (r : PyRange) : Nat :=
  if r.step > 0 then (if r.start < r.stop then ((r.stop - r.start - 1) / r.step + 1).toNat else 0)
  else if r.step < 0 then (if r.stop < r.start then ((r.start - r.stop - 1) / (-r.step) + 1).toNat else 0)
  else 0

/-- `range[i]` for an integer `i` (negative counts from the end); `none` = `IndexError` -/
def PyRange.get (r : PyRange) (i : Int) : Option Int :=
  let n : Int := r.len
  let j := if i < 0 then i + n else i
  if j < 0 ∨ j ≥ n then none else some (r.start + j * r.step)

/-- `range[slice]` (CPython `compute_slice`) ; `none` = ValueError (zero step) -/
def PyRange.slice (r : PyRange) (s : PySlice) : Option PyRange :=
  match sliceIndices s r.len with
  | none => none
  | some (a, b, c) => some { start := r.start + a * r.step, stop := r.start + b * r.step, step := r.step * c }

/-- the elements of a range, in order -/
def PyRange.toList (r : PyRange) : List Int :=
  (List.range r.len).map (fun (i : Nat) => r.start + (i : Int) * r.step)

/-- `block_access.__getitem__(slice)`: `block_access_slice(self, p.indices(self.len))` -/
def baSlice (len : Nat) (s : PySlice) : Option PyRange :=
  (sliceIndices s len).map fun (a, b, c) => { start := a, stop := b, step := c }

/-- what indexing a Python list with an int does; `none` = IndexError -/
def listGet {β} (xs : List β) (i : Int) : Option β :=
  let n : Int := xs.length
  let j := if i < 0 then i + n else i
  if j < 0 ∨ j ≥ n then none else xs[j.toNat]?

/-- `block_access.__getitem__(int)` as coded: `if p < 0: p += len; if not (0 <= p < len): raise IndexError; blocks[p // bs][p % bs]` -/
def baGet {β} (xs : List β) (p : Int) : Option β :=
  let q := if p < 0 then p + (xs.length : Int) else p
  if 0 ≤ q ∧ q < (xs.length : Int) then xs[q.toNat]? else none

/-- all elements defined (no access raised) -/
def allSome {β} : List (Option β) → Option (List β)
  | [] => some []
  | none :: _ => none
  | some x :: t => (allSome t).map (x :: ·)

/-- `block_access_slice.__jug_value__`: `[value(self[i]) for i in range(len(self))]`;
    `none` when some access raises -/
def sliceValue {β} (xs : List β) (r : PyRange) : Option (List β) :=
  allSome ((List.range r.len).map (fun (i : Nat) => (r.get (i : Int)).bind (baGet xs)))

/-- reference: Python list slicing `xs[s]` -/
def listSlice {β} (xs : List β) (s : PySlice) : Option (List β) :=
  (baSlice xs.length s).map fun r => r.toList.filterMap (fun i => xs[i.toNat]?)

end Jug.MR
