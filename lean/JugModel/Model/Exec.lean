/-
Layer A of DESIGN.md: the distributed execution protocol of `jug execute`
(jug/jug.py `execution_loop`, jug/task.py `Task.run/lock/unlock/fail`), as a transition system over
a shared store (`res`), shared locks and any number of workers.

`accept s e = some s'` iff event `e` (one store access of one worker, with the answer it got, or one
local step of the worker's per-task protocol) is an enabled transition in state `s`. The model is
deliberately nondeterministic in what does not matter (which task a worker looks at next, extra
`can_load`/`load` queries, waiting) and strict in the guards that carry the properties:
the re-check under the lock, dependencies stored before start, publish before release, release in
every exit path, the failure / keep-failed handling.
Core Lean only.
-/
set_option linter.unusedVariables false
namespace Jug.Exec

abbrev Task := Nat
abbrev Worker := Nat

inductive LockSt
  | free
  | held (w : Worker)
  | failed (w : Worker)          -- marked failed by `w` and not released
deriving DecidableEq, Repr

/-- how a stop request surfaced -/
inductive StopKind
  | sysExit (code : Nat)     -- `_sigterm`: sys.exit(1); exit hooks (task limit, time limit, stop file): exit(0)
  | kbdInt
deriving DecidableEq, Repr

/-- where worker `w` is in its per-task protocol -/
inductive WSt (V : Type)
  | idle                                   -- between tasks (scanning / waiting)
  | holding (t : Task) (rechecked : Bool)  -- `t.lock()` returned True; rechecked = saw `can_load() = False` under the lock
  | holdingDone (t : Task)                 -- has the lock but the re-check found the result: only `unlock` may follow
  | running (t : Task)                     -- inside `t.run()`: the task function is executing
  | ran (t : Task) (v : V) (stored : Bool) -- the function returned `v`; stored = `store.dump` done
  | failedTask (t : Task)                  -- the function raised an Exception; the lock is still held
  | raising                                -- propagating the task's exception (no `--keep-going`): will exit non-zero
  | stopping (t : Option Task) (k : StopKind) -- stop request seen; `some t` = still holds the lock of `t`
  | exited (code : Nat)
  | crashed
deriving DecidableEq, Repr

structure Flags where
  keepGoing : Bool
  keepFailed : Bool
deriving DecidableEq, Repr

/-- the program: `deps t` = direct dependencies (tasks whose stored results `t`'s arguments are built from),
    `f t env` = what the task function returns when its arguments are evaluated in `env` -/
structure Prog (V : Type) where
  n : Nat
  deps : Task → List Task
  f : Task → (Task → Option V) → V

structure Sys (V : Type) where
  res : Task → Option V          -- the store: result per task hash
  lock : Task → LockSt
  wk : Worker → WSt V
  failures : Worker → Bool       -- `failures` flag of the worker's execution loop
  runs : Task → Nat              -- ghost: number of times the task function was started

inductive Ev (V : Type)
  | canLoad (w : Worker) (t : Task) (b : Bool)     -- store.can_load(hash) answered b
  | lock (w : Worker) (t : Task) (b : Bool)        -- lock.get() answered b
  | load (w : Worker) (t : Task) (v : V)           -- store.load(hash) returned v
  | begin_ (w : Worker) (t : Task)                 -- the task function is entered
  | endOk (w : Worker) (t : Task) (v : V)          -- the task function returned v
  | endExc (w : Worker) (t : Task)                 -- the task function raised an Exception
  | dump (w : Worker) (t : Task) (v : V)           -- store.dump(v, hash)
  | unlock (w : Worker) (t : Task)                 -- lock.release()
  | markFailed (w : Worker) (t : Task)             -- lock.fail()
  | stop (w : Worker) (k : StopKind)               -- SystemExit / KeyboardInterrupt surfaces in the worker (signal, exit hook)
  | exit (w : Worker) (code : Nat)                 -- the worker process ends
  | crash (w : Worker)                             -- SIGKILL / node failure
  | removeLocks                                    -- `jug cleanup --locks-only` (operator: no live worker holds a lock)
  | removeFailedLocks                              -- `jug cleanup --failed-only`
deriving Repr

def upd {α} (f : Nat → α) (i : Nat) (a : α) : Nat → α := fun j => if j = i then a else f j

variable {V : Type} [DecidableEq V]

/-- the task whose lock worker state `x` claims to hold -/
def csTask : WSt V → Option Task
  | .holding t _ => some t
  | .holdingDone t => some t
  | .running t => some t
  | .ran t _ _ => some t
  | .failedTask t => some t
  | .stopping (some t) _ => some t
  | _ => none

/-- a live worker inside a critical section (used by the operator precondition of `removeLocks`) -/
def liveCS (x : WSt V) : Bool := (csTask x).isSome

/-- exit status of a worker that was asked to stop -/
def stopCode : StopKind → Nat
  | .sysExit c => c
  | .kbdInt => 130

def depsDone (P : Prog V) (s : Sys V) (t : Task) : Bool := (P.deps t).all (fun d => (s.res d).isSome)

def accept (P : Prog V) (fl : Worker → Flags) (s : Sys V) : Ev V → Option (Sys V)
  | .canLoad w t b =>
      if b ≠ (s.res t).isSome then none else
      match s.wk w with
      | .holding t' false =>
          if t' = t then some { s with wk := upd s.wk w (if b then .holdingDone t else .holding t true) } else some s
      | .exited _ => none
      | .crashed => none
      | _ => some s
  | .lock w t b =>
      match s.wk w with
      | .idle =>
          if b ≠ (s.lock t == .free) then none else
          if b then some { s with lock := upd s.lock t (.held w), wk := upd s.wk w (.holding t false) }
          else some s
      | _ => none
  | .load w t v =>
      match s.wk w with
      | .exited _ => none
      | .crashed => none
      | _ => if s.res t = some v then some s else none
  | .begin_ w t =>
      match s.wk w with
      | .holding t' true =>
          if t' = t ∧ depsDone P s t then
            some { s with wk := upd s.wk w (.running t), runs := upd s.runs t (s.runs t + 1) }
          else none
      | _ => none
  | .endOk w t v =>
      match s.wk w with
      | .running t' => if t' = t ∧ v = P.f t s.res then some { s with wk := upd s.wk w (.ran t v false) } else none
      | _ => none
  | .endExc w t =>
      match s.wk w with
      | .running t' =>
          if t' = t then some { s with wk := upd s.wk w (.failedTask t), failures := upd s.failures w true } else none
      | _ => none
  | .dump w t v =>
      match s.wk w with
      | .ran t' v' false =>
          if t' = t ∧ v' = v then some { s with res := upd s.res t (some v), wk := upd s.wk w (.ran t v true) } else none
      | _ => none
  | .markFailed w t =>
      match s.wk w with
      | .failedTask t' =>
          -- --keep-failed: the lock stays, marked failed; the loop goes on (--keep-going) or the exception propagates
          if t' = t ∧ (fl w).keepFailed then
            some { s with lock := upd s.lock t (.failed w), wk := upd s.wk w (if (fl w).keepGoing then .idle else .raising) }
          else none
      | _ => none
  | .unlock w t =>
      match s.wk w with
      | .ran t' _ true => if t' = t then some { s with lock := upd s.lock t .free, wk := upd s.wk w .idle } else none
      | .holdingDone t' => if t' = t then some { s with lock := upd s.lock t .free, wk := upd s.wk w .idle } else none
      | .failedTask t' =>
          -- the lock of a failed task is released unless --keep-failed
          if t' = t ∧ ¬ (fl w).keepFailed then
            some { s with lock := upd s.lock t .free, wk := upd s.wk w (if (fl w).keepGoing then .idle else .raising) }
          else none
      | .stopping (some t') k => if t' = t then some { s with lock := upd s.lock t .free, wk := upd s.wk w (.stopping none k) } else none
      | _ => none
  | .stop w k =>
      match s.wk w with
      | .idle => some { s with wk := upd s.wk w (.stopping none k) }
      | .holding t _ => some { s with wk := upd s.wk w (.stopping (some t) k) }
      | .holdingDone t => some { s with wk := upd s.wk w (.stopping (some t) k) }
      | .running t => some { s with wk := upd s.wk w (.stopping (some t) k) }
      | .ran t _ _ => some { s with wk := upd s.wk w (.stopping (some t) k) }
      | .failedTask t => some { s with wk := upd s.wk w (.stopping (some t) k) }
      | .raising => some { s with wk := upd s.wk w (.stopping none k) }
      | _ => none
  | .exit w code =>
      match s.wk w with
      | .idle => if code = (if s.failures w then 1 else 0) then some { s with wk := upd s.wk w (.exited code) } else none
      | .raising => if code ≠ 0 then some { s with wk := upd s.wk w (.exited code) } else none
      | .stopping none k => if code = stopCode k then some { s with wk := upd s.wk w (.exited code) } else none
      | _ => none
  | .crash w =>
      match s.wk w with
      | .exited _ => none
      | .crashed => none
      | _ => some { s with wk := upd s.wk w .crashed }
  | .removeLocks => some { s with lock := fun _ => .free }
  | .removeFailedLocks => some { s with lock := fun t => match s.lock t with
      | .failed _ => .free
      | l => l }

/-- side conditions of the operator actions: locks are removed only when no live worker is inside a critical section -/
def Legal (s : Sys V) : Ev V → Prop
  | .removeLocks => ∀ w, csTask (s.wk w) = none
  | _ => True

/-- run a whole history -/
def run (P : Prog V) (fl : Worker → Flags) : Sys V → List (Ev V) → Option (Sys V)
  | s, [] => some s
  | s, e :: es => match accept P fl s e with
    | some s' => run P fl s' es
    | none => none

end Jug.Exec
