/-
Model of jug/options.py (layer G): the option chain command line > configuration file > defaults,
the coercion of configuration values, the jugdir template expansion and the `sys.argv` the jugfile sees.
Core Lean only.
-/
namespace Jug.Opt

/-- option values that occur in jug's tables -/
inductive Val
  | none
  | bool (b : Bool)
  | int (i : Int)
  | str (s : String)
deriving DecidableEq, Repr, Inhabited

/-- one argparse action of one subcommand, as declared in the code now
    (`absent` = what argparse stores in the namespace when the option is not on the command line) -/
structure OptDecl where
  sub : String
  dest : String
  action : String
  absent : Val
deriving DecidableEq, Repr

/-- Python `int(s)` restricted to what the harness generates: optional sign, decimal digits -/
def parseInt (s : String) : Option Int := s.toInt?

/-- `type(default)(value)` of `read_configuration_file`; `none` = the conversion raises -/
def coerce (dflt : Val) (s : String) : Option Val :=
  match dflt with
  | .bool _ => some (.bool (s ≠ ""))          -- bool(str): any non-empty string is True (even "false")
  | .int _ => (parseInt s).map .int
  | .str _ => some (.str s)
  | .none => some (.str s)                     -- no default to take a type from: stays a string

/-- the value argparse leaves in its namespace -/
def nsValue (d : OptDecl) (given : Option Val) : Val := given.getD d.absent

/-- what `parse()` resolves for one option: the configuration file is read first and *every* value in it is
    converted eagerly (a malformed value raises even if the command line overrides it); the argparse namespace
    value is copied to the command-line layer only if it is not None; a missing attribute falls through to the
    configuration file, then to the defaults. Outer `none` = reading the configuration file raised. -/
def resolve (d : OptDecl) (given : Option Val) (ini : Option String) (dflt : Val) : Option Val :=
  match ini with
  | some s =>
    match coerce dflt s with
    | none => none
    | some c => some (match nsValue d given with
        | .none => c
        | v => v)
  | none => some (match nsValue d given with
      | .none => dflt
      | v => v)

/-- the specification: command line, else coerced configuration value, else built-in default
    (an unconvertible configuration value is an error) -/
def spec (given : Option Val) (ini : Option String) (dflt : Val) : Option Val :=
  match ini with
  | some s => (coerce dflt s).map fun c => given.getD c
  | none => some (given.getD dflt)

/-! ### jugdir template: `jugdir % {'date': ..., 'jugfile': jugfile[:-3]}` -/

def lookupVar (jugfile date : String) (name : List Char) : Option (List Char) :=
  if name = ['j', 'u', 'g', 'f', 'i', 'l', 'e'] then some (jugfile.toList.take (jugfile.length - 3))
  else if name = ['d', 'a', 't', 'e'] then some date.toList
  else none

/-- expansion over characters. `none` = Python raises (unknown key, incomplete format). Only the
    conversions `%(name)s` and `%%` are modelled (the harness generates nothing else). -/
def expandChars (jugfile date : String) : Nat → List Char → Option (List Char)
  | 0, _ => none
  | _, [] => some []
  | fuel + 1, '%' :: '%' :: rest => (expandChars jugfile date fuel rest).map ('%' :: ·)
  | fuel + 1, '%' :: '(' :: rest =>
      let name := rest.takeWhile (· ≠ ')')
      match rest.dropWhile (· ≠ ')') with
      | ')' :: 's' :: rest' =>
        match lookupVar jugfile date name with
        | some v => (expandChars jugfile date fuel rest').map (v ++ ·)
        | none => none
      | _ => none
  | _ + 1, '%' :: _ => none
  | fuel + 1, c :: rest => (expandChars jugfile date fuel rest).map (c :: ·)

def expandJugdir (template jugfile date : String) : Option String :=
  (expandChars jugfile date (template.length + 1) template.toList).map String.ofList

/-- the store location a command of the project operates on: the location selected by the jugfile itself
    (`jug.set_jugdir(...)` while it is being loaded) if there is one, otherwise the expanded template; a malformed template
    is an error before the jugfile is even loaded. The subcommand is deliberately not a parameter. -/
def storeFor (override : Option String) (template jugfile date : String) : Option String :=
  (expandJugdir template jugfile date).map (fun e => override.getD e)

/-! ### the argument vector seen by the jugfile -/

/-- `sys.argv[:] = [cmdline.jugfile] + argopts.user_args` where argparse has assigned the first positional
    to `jugfile` and the others (the first `--` dropped) to `user_args` -/
def splitArgv (dfltJugfile : String) (positionals : List String) (afterDashes : Option (List String)) : List String :=
  let pos := positionals ++ afterDashes.getD []
  match pos with
  | [] => [dfltJugfile]
  | jf :: extra => jf :: extra

end Jug.Opt
