/-
Layer C2 of DESIGN.md: the result store as a key-value map (jug/backends/file_store.py incl. the pack, dict_store.py,
redis_store.py), and `cleanup` (jug/subcommands/cleanup.py + the backends' cleanup/remove_locks).
Values are stored as they are at this layer: that encoding/decoding is the identity on every value of the universe is
what the correspondence check establishes (hypothesis `RoundTrip` of DESIGN.md). Core Lean only.
-/
set_option linter.unusedVariables false
namespace Jug.Store

abbrev Key := Nat

def updk {α} (f : Key → α) (k : Key) (a : α) : Key → α := fun j => if j = k then a else f j

/-- lock state per key, as `cleanup` sees it -/
inductive LSt | free | held | failed
deriving DecidableEq, Repr

/-- one file_store object on a jug directory -/
structure FS (V : Type) where
  files : Key → Option V          -- loose result files <jugdir>/<hh>/<rest>
  packed : Key → Option V         -- `self.packed`: the pack as this store object has it in memory
  packFile : Option (Key → Option V)   -- packs/jugpack on disk (none = no pack file)
  locks : Key → LSt               -- locks/<key>.lock
  temps : Nat                     -- stray files under tempfiles/

variable {V : Type}

def emptyFS : FS V := { files := fun _ => none, packed := fun _ => none, packFile := none, locks := fun _ => .free, temps := 0 }

/-- what the store answers for `k` -/
def FS.get (s : FS V) (k : Key) : Option V := (s.packed k).orElse (fun _ => s.files k)

def FS.resave (s : FS V) : FS V := { s with packFile := some s.packed }

/-- `dump`: write the new file, then drop a stale packed copy (and re-save the pack) -/
def FS.dump (s : FS V) (k : Key) (v : V) : FS V :=
  let s1 := { s with files := updk s.files k (some v) }
  if (s.packed k).isSome then ({ s1 with packed := updk s1.packed k none } : FS V).resave else s1

def FS.canLoad (s : FS V) (k : Key) : Bool := (s.packed k).isSome || (s.files k).isSome

/-- `load`: the pack has precedence -/
def FS.load (s : FS V) (k : Key) : Option V := s.get k

/-- `remove_many`: returns the new state and the keys reported as removed; always re-saves the pack -/
def FS.removeMany (s : FS V) (ks : List Key) : FS V × List Key :=
  let removed := ks.filter (fun k => (s.packed k).isSome || (s.files k).isSome)
  let s1 : FS V := { s with packed := fun k => if ks.contains k then none else s.packed k,
                            files := fun k => if ks.contains k then none else s.files k }
  (s1.resave, removed)

def FS.remove (s : FS V) (k : Key) : FS V × Bool :=
  let r := s.removeMany [k]
  (r.1, !r.2.isEmpty)

/-- `list()` over a finite universe of keys: packed keys first, then file keys -/
def FS.list (s : FS V) (U : List Key) : List Key :=
  U.filter (fun k => (s.packed k).isSome) ++ U.filter (fun k => (s.files k).isSome)

/-- `update_pack` (`jug pack`): every loose result whose file is small moves into the pack -/
def FS.pack (small : V → Bool) (s : FS V) : FS V :=
  let moves (k : Key) : Bool := match s.files k with
    | some v => small v
    | none => false
  ({ s with packed := fun k => if moves k then s.files k else s.packed k,
            files := fun k => if moves k then none else s.files k } : FS V).resave

/-- close + reopen: a new store object reads the pack file -/
def FS.reopen (s : FS V) : FS V := { s with packed := (s.packFile.getD (fun _ => none)) }

/-- `store.cleanup(active, keeplocks)`: every file outside packs/ (and outside locks/ when keeplocks) that is not an active
    result is unlinked - including stray temp files and, unless keeplocks, all locks; inactive packed entries are dropped -/
def FS.cleanup (s : FS V) (active : Key → Bool) (keeplocks : Bool) : FS V :=
  let dirty := true   -- re-saving an unchanged pack writes the same content
  { files := fun k => if active k then s.files k else none,
    packed := fun k => if active k then s.packed k else none,
    packFile := some (fun k => if active k then s.packed k else none),
    locks := if keeplocks then s.locks else fun _ => .free,
    temps := 0 }

def FS.removeLocks (s : FS V) : FS V := { s with locks := fun _ => .free }

def FS.removeFailed (s : FS V) : FS V := { s with locks := fun k => if s.locks k = .failed then .free else s.locks k }

/-- the modes of `jug cleanup` -/
inductive Mode | default | keepLocks | locksOnly | failedOnly
deriving DecidableEq, Repr

def FS.cleanupCmd (s : FS V) (m : Mode) (active : Key → Bool) : FS V :=
  match m with
  | .locksOnly => s.removeLocks
  | .failedOnly => s.removeFailed
  | .keepLocks => s.cleanup active true
  | .default => s.cleanup active false

/-! ### operation histories and the abstract map -/

inductive Op (V : Type)
  | dump (k : Key) (v : V)
  | load (k : Key)
  | canLoad (k : Key)
  | remove (k : Key)
  | removeMany (ks : List Key)
  | list
  | pack
  | reopen
  | cleanup (active : List Key) (keeplocks : Bool)
deriving Repr

/-- answers of the store -/
inductive Ans (V : Type)
  | unit
  | val (v : Option V)        -- load: none = not loadable (the real call raises)
  | bool (b : Bool)
  | keys (ks : List Key)
deriving Repr

def FS.step (small : V → Bool) (U : List Key) (s : FS V) : Op V → FS V × Ans V
  | .dump k v => (s.dump k v, .unit)
  | .load k => (s, .val (s.load k))
  | .canLoad k => (s, .bool (s.canLoad k))
  | .remove k => let r := s.remove k; (r.1, .bool r.2)
  | .removeMany ks => let r := s.removeMany ks; (r.1, .keys r.2)
  | .list => (s, .keys (s.list U))
  | .pack => (s.pack small, .unit)
  | .reopen => (s.reopen, .unit)
  | .cleanup act kl => (s.cleanup (fun k => act.contains k) kl, .unit)

/-- the specification: a plain map -/
def specStep (U : List Key) (m : Key → Option V) : Op V → (Key → Option V) × Ans V
  | .dump k v => (updk m k (some v), .unit)
  | .load k => (m, .val (m k))
  | .canLoad k => (m, .bool (m k).isSome)
  | .remove k => (updk m k none, .bool (m k).isSome)
  | .removeMany ks => (fun k => if ks.contains k then none else m k, .keys (ks.filter (fun k => (m k).isSome)))
  | .list => (m, .keys (U.filter (fun k => (m k).isSome)))
  | .pack => (m, .unit)
  | .reopen => (m, .unit)
  | .cleanup act _ => (fun k => if act.contains k then m k else none, .unit)

end Jug.Store
