/-
`--target NAME` (jug/utils.py, `prepare_task_matcher`) for targets that are plain names: letters, digits, `_` and dots, not written
as `/regex/`. With a dot in it the target is searched for literally in the task's qualified name; without one the target is
searched for preceded by a dot (a bare function name, or the beginning of one). Core Lean only.
-/
namespace Jug.Target

/-- does `p` occur in `s` - what `re.search` of a literal pattern decides -/
def occursIn (p : List Char) : List Char → Bool
  | [] => p.isEmpty
  | c :: s => p.isPrefixOf (c :: s) || occursIn p s

def matchesName (target name : List Char) : Bool :=
  if target.contains '.' then occursIn target name else occursIn ('.' :: target) name

end Jug.Target
