/-
The life cycle of one `file_keepalive_based_lock` object (`jug/backends/file_store.py`): the lock file, the failed mark and the
helper process the object refers to (`self.monitor`), under the operations of its owner (`get`, `release`, `fail`) and of the
environment (somebody removes the lock file; the helper finds the file gone at a refresh and ends; another worker takes the
free lock). Core Lean only. The timing of the helper is `Model/KeepAlive.lean`; this is who-refers-to-whom.
-/
namespace Jug.KALock

/-- `self.monitor`: `None`, a `Popen` of a process that is running, or a `Popen` of a process that has ended by itself -/
inductive Proc | none | running | exited
deriving DecidableEq, Repr

structure St where
  file : Option Bool      -- the lock file: absent / created by this object (`true`) / created by another worker (`false`)
  failed : Bool           -- the file carries the failed mark
  mon : Proc
  orphans : Nat           -- helpers this object started, still running, that `self.monitor` no longer refers to
deriving DecidableEq, Repr

def init : St := { file := none, failed := false, mon := .none, orphans := 0 }

inductive Op
  | get | release | fail          -- the owner of the object
  | extRemove                     -- somebody else removes the lock file (`jug cleanup --locks-only`, rm)
  | helperNotices                 -- the helper's `utime` fails at a refresh (file absent): it ends by itself
  | otherTakes                    -- another worker creates the lock file while it is absent
deriving DecidableEq, Repr

/-- `stop_monitor()`: kill and forget -/
def stopMonitor (s : St) : St := { s with mon := .none }

/-- one operation; the Boolean is the return value of `get()` / `fail()` (true for the others) -/
def step (s : St) : Op → St × Bool
  | .get =>
    match s.file with
    | some _ => (s, false)                                   -- `exists(fullname)` / O_EXCL: somebody has it
    | none =>
      -- `start_monitor()`: `self.monitor = Popen(...)`, whatever `self.monitor` was
      ({ file := some true, failed := false, mon := .running, orphans := s.orphans + (if s.mon = .running then 1 else 0) }, true)
  | .release => ({ (stopMonitor s) with file := none, failed := false }, true)     -- unlink, errors ignored
  | .fail =>
    let s' := stopMonitor s
    match s.file with
    | some _ => ({ s' with failed := true }, true)
    | none => (s', false)
  | .extRemove => ({ s with file := none, failed := false }, true)
  | .helperNotices =>
    if s.file = none ∧ s.mon = .running then ({ s with mon := .exited }, true) else (s, true)
  | .otherTakes =>
    if s.file = none then ({ s with file := some false, failed := false }, true) else (s, true)

def run (s : St) : List Op → St
  | [] => s
  | o :: os => run (step s o).1 os

end Jug.KALock
