/-
The outer loop of `jug execute` (`jug/subcommands/execute.py`, `ExecuteCommand.run`): load the jugfile, run the worker loop
over the tasks it defines, and load again while a barrier is pending. `noprogress` counts *consecutive* passes in which this
worker executed nothing; the loop gives up ("No tasks can be run!") when it reaches `--nr-wait-cycles`.

A pass is summarised by what the loop looks at: how many tasks the worker executed in it and whether the jugfile was only
partially loaded (`__jug__hasbarrier__`). Core Lean only.
-/
namespace Jug.Reload

structure Pass where
  executed : Nat      -- tasks this worker executed during the pass (`after - previous`)
  barrier : Bool      -- the load stopped at a barrier()/bvalue()
deriving Repr, DecidableEq

inductive Exit
  | done      -- `break`: the jugfile was loaded to its end
  | gaveUp    -- the `else` branch of the `while`: nr_wait_cycles consecutive passes without progress
deriving Repr, DecidableEq

/-- the loop as coded. `np` is `noprogress`; the list is what the passes will report, in order.
    Result: number of passes made, and how the loop ended (`none`: the list of passes ran out first). -/
def loop (nrWait : Nat) : Nat → List Pass → Nat × Option Exit
  | np, [] => (0, if np < nrWait then none else some .gaveUp)
  | np, p :: rest =>
      if np < nrWait then
        if !p.barrier then (1, some .done)
        else
          let r := loop nrWait (if p.executed = 0 then np + 1 else 0) rest
          (r.1 + 1, r.2)
      else (0, some .gaveUp)

def Pass.idle (p : Pass) : Bool := p.executed = 0 && p.barrier

end Jug.Reload
