import JugModel.Model.Exec
/-
The worker-local half of `accept` (rely/guarantee split): `lstep` is what one worker may do next given only
its own protocol state, whatever the environment answers. `accept = lstep ∧ environment-consistency`
(theorems `accept_local`, `local_env_accept` in Lemmas/ExecLocal.lean).

`lconforms` checks a complete run of the real worker loop (a root-to-leaf path of the tree extracted from
`jug.jug.execution_loop`) against `lstep`, plus two worker-side obligations that `accept` phrases as
environment facts: a task is begun only after every dependency was *observed* complete, and the loop ends
only in a state that holds no lock with the right return value / exception.
-/
set_option linter.unusedVariables false
namespace Jug.Exec

variable {V : Type} [DecidableEq V]

/-- worker-local state: protocol state and the `failures` flag -/
abbrev LSt (V : Type) := WSt V × Bool

def lstep (fl : Flags) (st : LSt V) : Ev V → Option (LSt V)
  | .canLoad _ t b =>
      match st.1 with
      | .holding t' false => if t' = t then some (if b then .holdingDone t else .holding t true, st.2) else some st
      | .exited _ => none
      | .crashed => none
      | _ => some st
  | .lock _ t b =>
      match st.1 with
      | .idle => some (if b then .holding t false else .idle, st.2)
      | _ => none
  | .load _ _ _ =>
      match st.1 with
      | .exited _ => none
      | .crashed => none
      | _ => some st
  | .begin_ _ t =>
      match st.1 with
      | .holding t' true => if t' = t then some (.running t, st.2) else none
      | _ => none
  | .endOk _ t v =>
      match st.1 with
      | .running t' => if t' = t then some (.ran t v false, st.2) else none
      | _ => none
  | .endExc _ t =>
      match st.1 with
      | .running t' => if t' = t then some (.failedTask t, true) else none
      | _ => none
  | .dump _ t v =>
      match st.1 with
      | .ran t' v' false => if t' = t ∧ v' = v then some (.ran t v true, st.2) else none
      | _ => none
  | .markFailed _ t =>
      match st.1 with
      | .failedTask t' => if t' = t ∧ fl.keepFailed then some (if fl.keepGoing then .idle else .raising, st.2) else none
      | _ => none
  | .unlock _ t =>
      match st.1 with
      | .ran t' _ true => if t' = t then some (.idle, st.2) else none
      | .holdingDone t' => if t' = t then some (.idle, st.2) else none
      | .failedTask t' => if t' = t ∧ ¬ fl.keepFailed then some (if fl.keepGoing then .idle else .raising, st.2) else none
      | .stopping (some t') k => if t' = t then some (.stopping none k, st.2) else none
      | _ => none
  | .stop _ k =>
      match st.1 with
      | .idle => some (.stopping none k, st.2)
      | .holding t _ => some (.stopping (some t) k, st.2)
      | .holdingDone t => some (.stopping (some t) k, st.2)
      | .running t => some (.stopping (some t) k, st.2)
      | .ran t _ _ => some (.stopping (some t) k, st.2)
      | .failedTask t => some (.stopping (some t) k, st.2)
      | .raising => some (.stopping none k, st.2)
      | _ => none
  | .exit _ code =>
      match st.1 with
      | .idle => if code = (if st.2 then 1 else 0) then some (.exited code, st.2) else none
      | .raising => if code ≠ 0 then some (.exited code, st.2) else none
      | .stopping none k => if code = stopCode k then some (.exited code, st.2) else none
      | _ => none
  | .crash _ =>
      match st.1 with
      | .exited _ => none
      | .crashed => none
      | _ => some (.crashed, st.2)
  | .removeLocks => none
  | .removeFailedLocks => none

/-- how the worker loop ends -/
inductive Raised
  | stopped (k : StopKind)      -- SystemExit / KeyboardInterrupt propagates
  | taskException               -- the task's own exception propagates (no --keep-going)
deriving DecidableEq, Repr

/-- events of one extracted path of the real worker loop (values abstracted to `Unit`) -/
inductive LEv
  | ev (e : Ev Unit)
  | preExec (t : Task)          -- hook `execute.task-pre-execute`
  | executed1 (t : Task)        -- hook `execute.task-executed1`
  | ret (failures : Bool)       -- `execution_loop` returned `failures`
  | raise (r : Raised)
deriving Repr

structure WPath where
  flags : Flags
  deps : List (List Task)       -- task list of the run: dependency lists by index
  events : List LEv

/-- one step of the conformance check. State: local protocol state, the tasks observed complete, finished? -/
def lcheck (fl : Flags) (deps : List (List Task)) : (LSt Unit × List Task × Bool) → LEv → Option (LSt Unit × List Task × Bool)
  | (_, _, true), _ => none                         -- nothing may follow the end of the loop
  | (st, known, false), .ev e =>
      -- a task is begun only after every dependency was observed complete by this worker
      let depsSeen : Bool := match e with
        | .begin_ _ t => (deps.getD t []).all (fun d => known.contains d)
        | _ => true
      if ¬ depsSeen then none else
      match lstep fl st e with
      | none => none
      | some st' =>
          let known' := match e with
            | .canLoad _ t true => t :: known
            | .dump _ t _ => t :: known
            | _ => known
          some (st', known', false)
  | (st, known, false), .preExec t =>
      match st.1 with
      | .holding t' true => if t' = t then some (st, known, false) else none
      | _ => none
  | (st, known, false), .executed1 t =>
      match st.1 with
      | .ran t' _ true => if t' = t then some (st, known, false) else none
      | _ => none
  | (st, known, false), .ret failures =>
      -- the loop returns only between tasks, holding nothing, and reports its failures truthfully
      match st.1 with
      | .idle => if failures = st.2 then some (st, known, true) else none
      | _ => none
  | (st, known, false), .raise r =>
      match st.1, r with
      | .raising, .taskException => some (st, known, true)
      | .stopping none k, .stopped k' => if k = k' then some (st, known, true) else none
      | _, _ => none

def lrun (fl : Flags) (deps : List (List Task)) : (LSt Unit × List Task × Bool) → List LEv → Option (LSt Unit × List Task × Bool)
  | s, [] => some s
  | s, e :: es => match lcheck fl deps s e with
    | some s' => lrun fl deps s' es
    | none => none

/-- a complete path conforms: every step is allowed and the loop has ended -/
def lconforms (p : WPath) : Bool :=
  match lrun p.flags p.deps ((.idle, false), [], false) p.events with
  | some (_, _, fin) => fin
  | none => false

end Jug.Exec
