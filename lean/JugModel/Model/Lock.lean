/-
Layer B of DESIGN.md: lock backends at the level of their primitive store accesses.

A lock operation of a backend is a little program (`PTree`): a decision tree over primitives
(`exists`, `open(O_CREAT|O_EXCL)`, `unlink`, `utime`, `stat`; redis `SETNX`, `DEL`, `GET`, `SET`; ...) whose
answers come from the shared state of *one lock name* (`Mem`). The trees are not written by hand: they are
extracted from the real lock classes on every run (Generated/LockTrees.lean). Clients run these programs
one primitive at a time, arbitrarily interleaved. `sem` (what each primitive does to the shared state) is the
trusted description of POSIX / Redis.
Core Lean only.
-/
set_option linter.unusedVariables false
namespace Jug.Lock

/-- shared state of one lock name: file absent / present / present with the failed mark; redis key nil / L / F -/
inductive Mem | free | locked | failed
deriving DecidableEq, Repr

inductive Prim
  | exists_     -- os.path.exists(lockfile)
  | openExcl    -- os.open(lockfile, O_RDWR|O_CREAT|O_EXCL)
  | openTrunc   -- open(lockfile, 'w') / O_CREAT without O_EXCL: creates or truncates
  | renameOver  -- os.rename(tmp, lockfile): replaces silently
  | unlink      -- os.unlink(lockfile)
  | utimeFailed -- os.utime(lockfile, FAILED_TIMESTAMP)
  | stat        -- os.stat(lockfile).st_mtime classified: normal / failed mark (keep-alive: fresh / expired)
  | setnxL      -- SETNX key L
  | del         -- DEL key
  | get         -- GET key
  | setL        -- SET key L
  | setF        -- SET key F
  | getsetL     -- GETSET key L
  | dGet | dSetL | dSetF | dDel       -- entries of the in-memory dict store
  | other (name : String)             -- a shared-state access the extractor does not know
deriving DecidableEq, Repr

inductive Ans | yes | no | ok | err | normal | marked | expired | nil | valL | valF | one | zero
deriving DecidableEq, Repr

/-- semantics of the primitives on the shared state (POSIX / Redis single-command atomicity: trusted) -/
def sem : Prim → Mem → Ans × Mem
  | .exists_, m => (if m = .free then .no else .yes, m)
  | .openExcl, m => if m = .free then (.ok, .locked) else (.err, m)
  | .openTrunc, _ => (.ok, .locked)
  | .renameOver, _ => (.ok, .locked)
  | .unlink, m => if m = .free then (.err, .free) else (.ok, .free)
  | .utimeFailed, m => if m = .free then (.err, .free) else (.ok, .failed)
  | .stat, m => (match m with | .free => .err | .locked => .normal | .failed => .marked, m)
  | .setnxL, m => if m = .free then (.one, .locked) else (.zero, m)
  | .del, m => (if m = .free then .zero else .one, .free)
  | .get, m => (match m with | .free => .nil | .locked => .valL | .failed => .valF, m)
  | .setL, _ => (.ok, .locked)
  | .setF, _ => (.ok, .failed)
  | .getsetL, m => (match m with | .free => .nil | .locked => .valL | .failed => .valF, .locked)
  | .dGet, m => (match m with | .free => .nil | .locked => .valL | .failed => .valF, m)
  | .dSetL, _ => (.ok, .locked)
  | .dSetF, _ => (.ok, .failed)
  | .dDel, m => if m = .free then (.err, .free) else (.ok, .free)
  | .other _, m => (.ok, m)

/-- result of a lock operation -/
inductive Res | bool (b : Bool) | none | raised
deriving DecidableEq, Repr

/-- a lock operation as a decision tree over primitives -/
inductive PTree
  | ret (r : Res)
  | prim (p : Prim) (next : List (Ans × PTree))
deriving Repr

inductive Op | get | release | isLocked | fail | isFailed
deriving DecidableEq, Repr

abbrev Progs := Op → PTree

def lookup (a : Ans) : List (Ans × PTree) → Option PTree
  | [] => none
  | (b, t) :: rest => if a = b then some t else lookup a rest

/-- run a tree alone on a fixed start state (no interference), with fuel -/
def runSolo : Nat → PTree → Mem → Res × Mem
  | _, .ret r, m => (r, m)
  | 0, .prim _ _, m => (.raised, m)
  | fuel + 1, .prim p next, m =>
      let (a, m') := sem p m
      match lookup a next with
      | none => (.raised, m')
      | some t => runSolo fuel t m'

/-! ### interleaved execution by any number of clients -/

inductive CState
  | idle
  | run (op : Op) (t : PTree)      -- in the middle of `op`, about to execute the root of `t`
deriving Repr

structure LSys where
  mem : Mem
  cl : Nat → CState
  holds : Nat → Bool      -- ghost: the client's last `get` returned True and it has not called `release` since

inductive LEv
  | start (i : Nat) (op : Op)      -- client i calls op (only when idle)
  | step (i : Nat)                 -- client i executes the next primitive of its operation
deriving Repr

def updc {α} (f : Nat → α) (i : Nat) (a : α) : Nat → α := fun j => if j = i then a else f j

/-- completion bookkeeping: what a finished operation does to the ghost -/
def finish (s : LSys) (i : Nat) (op : Op) (r : Res) : LSys :=
  { s with cl := updc s.cl i .idle,
           holds := if op = .get ∧ r = .bool true then updc s.holds i true else s.holds }

/-- the owner discipline documented by jug (`Task.unlock`: "If the lock was not held, this may remove another
    thread's lock!"): only the current holder releases or fails -/
def allowed (s : LSys) (i : Nat) : Op → Bool
  | .release => s.holds i
  | .fail => s.holds i
  | _ => true

/-- calling release gives up ownership from this moment on -/
def startState (s : LSys) (i : Nat) (op : Op) : LSys :=
  if op = .release then { s with holds := updc s.holds i false } else s

/-- continue client `i`'s operation `op` with remaining tree `t`: a leaf completes the operation -/
def advance (s : LSys) (i : Nat) (op : Op) : PTree → LSys × Option (Nat × Op × Res)
  | .ret r => (finish s i op r, some (i, op, r))
  | .prim p next => ({ s with cl := updc s.cl i (.run op (.prim p next)) }, none)

/-- one event; returns the new state and, if an operation completed, its result -/
def lstep (progs : Progs) (s : LSys) : LEv → Option (LSys × Option (Nat × Op × Res))
  | .start i op =>
      match s.cl i with
      | .idle => if allowed s i op then some (advance (startState s i op) i op (progs op)) else none
      | _ => none
  | .step i =>
      match s.cl i with
      | .run op (.prim p next) =>
          let s1 : LSys := { s with mem := (sem p s.mem).2 }
          match lookup (sem p s.mem).1 next with
          | none => some (finish s1 i op .raised, some (i, op, .raised))
          | some t => some (advance s1 i op t)
      | _ => none

/-! ### the "type system" of lock programs: decidable conditions on the trees -/

def readOnly : Prim → Bool
  | .exists_ | .stat | .get | .dGet => true
  | _ => false

/-- acquiring primitives: succeed only on a free lock, and then take it; otherwise leave the state alone -/
def acquiring : Prim → Bool
  | .openExcl | .setnxL => true
  | _ => false

def acquireSuccess : Prim → Ans → Bool
  | .openExcl, .ok => true
  | .setnxL, .one => true
  | _, _ => false

/-- answers that are only possible when the lock is *not* free -/
def impliesTaken : Prim → Ans → Bool
  | .exists_, .yes => true
  | .openExcl, .err => true
  | .setnxL, .zero => true
  | .get, .valL | .get, .valF => true
  | .dGet, .valL | .dGet, .valF => true
  | .stat, .normal | .stat, .marked | .stat, .expired => true
  | _, _ => false

def freeing : Prim → Bool
  | .unlink | .del | .dDel => true
  | _ => false

/-- marking primitives: never free the lock, never create it from nothing unless already present (utime) or
    used by the holder (SET F) -/
def marking : Prim → Bool
  | .utimeFailed | .setF | .dSetF => true
  | _ => false

/-- a leaf of `get` under answer `a` of primitive `p`: True exactly on the success branch of an acquiring primitive;
    anything else only after an answer that proves the lock was taken -/
def leafOK (p : Prim) (a : Ans) (r : Res) : Bool :=
  if acquireSuccess p a then r == .bool true else (r != .bool true && impliesTaken p a)

mutual
/-- `get`: only read-only and acquiring primitives, every leaf `leafOK`, the success branch of an acquiring primitive is a leaf -/
def getOK : PTree → Bool
  | .ret _ => false                                     -- a `get` that answers without looking
  | .prim p next => (readOnly p || acquiring p) && getBranchesOK p next
def getBranchesOK (p : Prim) : List (Ans × PTree) → Bool
  | [] => true
  | (a, .ret r) :: rest => leafOK p a r && getBranchesOK p rest
  | (a, .prim q n) :: rest => (!acquireSuccess p a) && getOK (.prim q n) && getBranchesOK p rest
end

mutual
/-- all primitives of the tree satisfy `ok` -/
def primsAll (ok : Prim → Bool) : PTree → Bool
  | .ret _ => true
  | .prim p next => ok p && primsAllL ok next
def primsAllL (ok : Prim → Bool) : List (Ans × PTree) → Bool
  | [] => true
  | (_, t) :: rest => primsAll ok t && primsAllL ok rest
end

def leavesOnly : List (Ans × PTree) → Bool
  | [] => true
  | (_, .ret _) :: rest => leavesOnly rest
  | _ => false

mutual
/-- `release`: read-only primitives, then at most one freeing primitive, which is the last access -/
def releaseOK : PTree → Bool
  | .ret _ => true
  | .prim p next => if freeing p then leavesOnly next else (readOnly p && releaseOKL next)
def releaseOKL : List (Ans × PTree) → Bool
  | [] => true
  | (_, t) :: rest => releaseOK t && releaseOKL rest
end

/-- the answers a primitive can give -/
def answersOf (p : Prim) : List Ans := [(sem p .free).1, (sem p .locked).1, (sem p .failed).1]

mutual
/-- every answer the primitive can give has a branch -/
def total : PTree → Bool
  | .ret _ => true
  | .prim p next => (answersOf p).all (fun a => (lookup a next).isSome) && totalL next
def totalL : List (Ans × PTree) → Bool
  | [] => true
  | (_, t) :: rest => total t && totalL rest
end

/-- the specification of each operation when it runs without interference -/
def soloSpec (progs : Progs) (fuel : Nat) : Bool :=
  [Mem.free, Mem.locked, Mem.failed].all fun m =>
    runSolo fuel (progs .get) m == (.bool (m == .free), if m == .free then .locked else m) &&
    (runSolo fuel (progs .release) m).2 == .free &&
    (runSolo fuel (progs .isLocked) m) == (.bool (m != .free), m) &&
    (runSolo fuel (progs .isFailed) m) == (.bool (m == .failed), m) &&
    (m == .free || runSolo fuel (progs .fail) m == (.bool true, .failed))

/-- well-typed lock programs of a backend whose primitives can interleave (file, keep-alive file, redis) -/
def WellTyped (progs : Progs) : Bool :=
  getOK (progs .get) && total (progs .get) &&
  releaseOK (progs .release) &&
  primsAll (fun p => readOnly p || marking p) (progs .fail) &&
  primsAll readOnly (progs .isLocked) &&
  primsAll readOnly (progs .isFailed) &&
  soloSpec progs 8

/-- a backend whose operations are atomic (the in-memory dict store lives in one process): only the solo behaviour matters -/
def WellTypedAtomic (progs : Progs) : Bool := soloSpec progs 8

end Jug.Lock
