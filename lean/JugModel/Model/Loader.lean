/-
Layer F (loader): how a jugfile with `barrier()`, `bvalue()` and compound tasks is loaded against a store
(jug/barrier.py, jug/compound.py, jug/jug.py `init`). A jugfile is a program whose continuation may depend on stored values.
Tasks are identified by a key (their hash), independent of their position in the task list. Core Lean only.
-/
set_option linter.unusedVariables false
namespace Jug.Loader

abbrev Key := Nat

/-- a jugfile -/
inductive JF (V : Type)
  | done
  | task (key : Key) (deps : List Key) (rest : JF V)       -- `v = f(...)`: defines a task
  | barrier (rest : JF V)                                  -- `barrier()`
  | bvalue (key : Key) (k : V → JF V)                      -- `x = bvalue(t)`: the rest of the file depends on the value
  | compound (key : Key) (inner : List (Key × List Key)) (rest : JF V)
      -- `c = CompoundTask(f, ...)`: `key` identifies the compound; `inner` = the tasks `f` builds (the last one is the result)

structure Loaded where
  tasks : List Key        -- `task.alltasks` after loading, in order
  stopped : Bool          -- `__jug__hasbarrier__`
deriving Repr, DecidableEq

variable {V : Type}

/-- `jug.init`: `defined` = keys of the tasks created so far (most recent first) -/
def load (res : Key → Option V) : JF V → List Key → Loaded
  | .done, _ => ⟨[], false⟩
  | .task key _ rest, defined =>
      let r := load res rest (key :: defined)
      ⟨key :: r.tasks, r.stopped⟩
  | .barrier rest, defined =>
      -- `barrier()`: every task created so far must be loadable, otherwise BarrierError stops the import
      if defined.all (fun t => (res t).isSome) then load res rest defined else ⟨[], true⟩
  | .bvalue key k, defined =>
      match res key with
      | some v => load res (k v) defined
      | none => ⟨[], true⟩
  | .compound key inner rest, defined =>
      if (res key).isSome then
        -- collapsed: the probe task alone
        let r := load res rest (key :: defined)
        ⟨key :: r.tasks, r.stopped⟩
      else
        -- expanded: the inner tasks, then the compound task itself (same key)
        let ks := inner.map (·.1)
        let r := load res rest (key :: (ks.reverse ++ defined))
        ⟨ks ++ key :: r.tasks, r.stopped⟩

/-- loading against a complete store: the task list of the sequential run, compounds collapsed -/
def loadFull (ref : Key → V) : JF V → List Key → Loaded := load (fun k => some (ref k))

/-- the keys a jugfile can ever define, with compounds expanded, following the reference values -/
def allKeys (ref : Key → V) : JF V → List Key
  | .done => []
  | .task key _ rest => key :: allKeys ref rest
  | .barrier rest => allKeys ref rest
  | .bvalue key k => allKeys ref (k (ref key))
  | .compound key inner rest => inner.map (·.1) ++ key :: allKeys ref rest

end Jug.Loader
