/-
Layer F (views): what `jug.task.value()` computes for an argument built from tasks, tasklets (`t[i]`, `t[a:b]`, `t[u]` with `u` a
task, nested), containers and pass-through wrappers (identity, CustomHash, NoHash), and which tasks such an argument depends on
(`Task.dependencies()` walking `__jug_dependencies__`). Python values are a small universe with CPython's indexing rules.
Core Lean only.
-/
set_option linter.unusedVariables false
namespace Jug.Views

/-- Python values of the harness universe -/
inductive PyV
  | none
  | int (n : Int)
  | str (s : String)
  | list (xs : List PyV)
  | tuple (xs : List PyV)
  | dict (kvs : List (String × PyV))     -- insertion order
deriving Repr, Inhabited

/-- argument expressions -/
inductive Arg
  | const (v : PyV)
  | task (i : Nat)
  | item (a : Arg) (idx : Arg)                    -- a[idx]: `Tasklet(a, _getitem(idx))`, idx constant or itself a task(let)
  | slice (a : Arg) (lo hi : Option Int)          -- a[lo:hi]
  | list (xs : List Arg)
  | tuple (xs : List Arg)
  | dict (kvs : List (String × Arg))
  | wrap (a : Arg)                                -- identity(x) on a task(let) / CustomHash / NoHash: the value passes unchanged
  | itemChecked (a : Arg) (i n : Nat)             -- `return_tuple(n)`: `_get_check(r, i, n)` = r[i] after checking len(r) == n

/-- CPython `seq[i]` for list/tuple: negative indices count from the end; `none` = IndexError -/
def seqGet (xs : List PyV) (i : Int) : Option PyV :=
  let n : Int := xs.length
  let j := if i < 0 then i + n else i
  if j < 0 ∨ j ≥ n then none else xs[j.toNat]?

/-- CPython `seq[lo:hi]` (step 1): indices clamped -/
def seqSlice (xs : List PyV) (lo hi : Option Int) : List PyV :=
  let n : Int := xs.length
  let clamp (v : Int) : Int := if v < 0 then max (v + n) 0 else min v n
  let a := (lo.map clamp).getD 0
  let b := (hi.map clamp).getD n
  (xs.drop a.toNat).take (b - a).toNat

def dictGet : List (String × PyV) → String → Option PyV
  | [], _ => none
  | (k, v) :: rest, key => match dictGet rest key with     -- a later insertion of the same key wins
    | some w => some w
    | none => if k = key then some v else none

/-- `obj[key]` -/
def pyIndex (v : PyV) (k : PyV) : Option PyV :=
  match v, k with
  | .list xs, .int i => seqGet xs i
  | .tuple xs, .int i => seqGet xs i
  | .dict kvs, .str s => dictGet kvs s
  | _, _ => none

/-- `_get_check(r, i, n)`: ValueError unless `len(r) == n` -/
def pyIndexChecked (v : PyV) (i n : Nat) : Option PyV :=
  match v with
  | .list xs => if xs.length = n then seqGet xs i else none
  | .tuple xs => if xs.length = n then seqGet xs i else none
  | _ => none

def pySlice (v : PyV) (lo hi : Option Int) : Option PyV :=
  match v with
  | .list xs => some (.list (seqSlice xs lo hi))
  | .tuple xs => some (.tuple (seqSlice xs lo hi))
  | _ => none

mutual
/-- `value(arg)`; `none` = some result is missing, or the operation raises -/
def evalArg (res : Nat → Option PyV) : Arg → Option PyV
  | .const v => some v
  | .task i => res i
  | .item a idx => (evalArg res a).bind fun v => (evalArg res idx).bind fun k => pyIndex v k
  | .slice a lo hi => (evalArg res a).bind fun v => pySlice v lo hi
  | .list xs => (evalArgs res xs).map .list
  | .tuple xs => (evalArgs res xs).map .tuple
  | .dict kvs => (evalKVs res kvs).map .dict
  | .wrap a => evalArg res a
  | .itemChecked a i n => (evalArg res a).bind fun v => pyIndexChecked v i n
def evalArgs (res : Nat → Option PyV) : List Arg → Option (List PyV)
  | [] => some []
  | a :: rest => (evalArg res a).bind fun v => (evalArgs res rest).map (v :: ·)
def evalKVs (res : Nat → Option PyV) : List (String × Arg) → Option (List (String × PyV))
  | [] => some []
  | (k, a) :: rest => (evalArg res a).bind fun v => (evalKVs res rest).map ((k, v) :: ·)
end

mutual
/-- the tasks `Task.dependencies()` reports for an argument -/
def argDeps : Arg → List Nat
  | .const _ => []
  | .task i => [i]
  | .item a idx => argDeps a ++ argDeps idx
  | .slice a _ _ => argDeps a
  | .list xs => argDepsL xs
  | .tuple xs => argDepsL xs
  | .dict kvs => argDepsKV kvs
  | .wrap a => argDeps a
  | .itemChecked a _ _ => argDeps a
def argDepsL : List Arg → List Nat
  | [] => []
  | a :: rest => argDeps a ++ argDepsL rest
def argDepsKV : List (String × Arg) → List Nat
  | [] => []
  | (_, a) :: rest => argDeps a ++ argDepsKV rest
end

mutual
/-- task `t` occurs somewhere underneath the argument -/
def occurs (t : Nat) : Arg → Prop
  | .const _ => False
  | .task i => i = t
  | .item a idx => occurs t a ∨ occurs t idx
  | .slice a _ _ => occurs t a
  | .list xs => occursL t xs
  | .tuple xs => occursL t xs
  | .dict kvs => occursKV t kvs
  | .wrap a => occurs t a
  | .itemChecked a _ _ => occurs t a
def occursL (t : Nat) : List Arg → Prop
  | [] => False
  | a :: rest => occurs t a ∨ occursL t rest
def occursKV (t : Nat) : List (String × Arg) → Prop
  | [] => False
  | (_, a) :: rest => occurs t a ∨ occursKV t rest
end

end Jug.Views
