/-! SHA-1 (FIPS 180-4), executable; used only by the driver to compute real identifiers. -/
namespace Jug.Sha1

def rotl (x : UInt32) (n : UInt32) : UInt32 := (x <<< n) ||| (x >>> (32 - n))

def pad (msg : ByteArray) : ByteArray := Id.run do
  let ml : UInt64 := msg.size.toUInt64 * 8
  let mut m := msg.push 0x80
  while m.size % 64 != 56 do
    m := m.push 0
  for i in [0:8] do
    m := m.push ((ml >>> (56 - 8 * i.toUInt64)).toUInt8)
  return m

def word (m : ByteArray) (i : Nat) : UInt32 :=
  (m.get! i).toUInt32 <<< 24 ||| (m.get! (i+1)).toUInt32 <<< 16 ||| (m.get! (i+2)).toUInt32 <<< 8 ||| (m.get! (i+3)).toUInt32

def digest (msg : ByteArray) : ByteArray := Id.run do
  let m := pad msg
  let mut h0 : UInt32 := 0x67452301
  let mut h1 : UInt32 := 0xEFCDAB89
  let mut h2 : UInt32 := 0x98BADCFE
  let mut h3 : UInt32 := 0x10325476
  let mut h4 : UInt32 := 0xC3D2E1F0
  for chunk in [0:m.size / 64] do
    let mut w : Array UInt32 := Array.mkEmpty 80
    for i in [0:16] do
      w := w.push (word m (chunk * 64 + 4 * i))
    for i in [16:80] do
      w := w.push (rotl (w[i-3]! ^^^ w[i-8]! ^^^ w[i-14]! ^^^ w[i-16]!) 1)
    let mut a := h0; let mut b := h1; let mut c := h2; let mut d := h3; let mut e := h4
    for i in [0:80] do
      let (f, k) : UInt32 × UInt32 :=
        if i < 20 then ((b &&& c) ||| ((~~~ b) &&& d), 0x5A827999)
        else if i < 40 then (b ^^^ c ^^^ d, 0x6ED9EBA1)
        else if i < 60 then ((b &&& c) ||| (b &&& d) ||| (c &&& d), 0x8F1BBCDC)
        else (b ^^^ c ^^^ d, 0xCA62C1D6)
      let temp := rotl a 5 + f + e + k + w[i]!
      e := d; d := c; c := rotl b 30; b := a; a := temp
    h0 := h0 + a; h1 := h1 + b; h2 := h2 + c; h3 := h3 + d; h4 := h4 + e
  let mut out := ByteArray.empty
  for h in [h0, h1, h2, h3, h4] do
    out := out.push (h >>> 24).toUInt8 |>.push (h >>> 16).toUInt8 |>.push (h >>> 8).toUInt8 |>.push h.toUInt8
  return out

def hexDigit (n : UInt8) : UInt8 := if n < 10 then 48 + n else 87 + n
/-- lower-case hex digest as ASCII bytes (what `hexdigest().encode()` returns) -/
def hexdigest (msg : ByteArray) : ByteArray :=
  (digest msg).foldl (fun acc b => (acc.push (hexDigit (b >>> 4))).push (hexDigit (b &&& 15))) ByteArray.empty

end Jug.Sha1
