/-
Model of jug/backends/file_keepalive_monitor.py `main()` and `file_keepalive_based_lock.is_failed()` on an integer clock
(layer B, timing part). Core Lean only.
-/
set_option linter.unusedVariables false
namespace Jug.KeepAlive

/-- constants of the code (re-extracted into Generated/KeepAliveConsts.lean on every run) -/
structure Consts where
  period : Nat        -- seconds slept per round
  rounds : Nat        -- rounds between two refreshes (counter_start)
  expiry : Nat        -- a lock not modified for this long is reported failed
deriving Repr, DecidableEq

structure MonSt where
  now : Nat
  mtime : Nat         -- modification time of the lock file
  counter : Nat
deriving Repr, DecidableEq

/-- what the monitor sees when it wakes up -/
inductive Env
  | ok            -- parent alive, lock file present
  | parentGone    -- getppid() changed / is 1 / kill(pid, 0) fails
  | lockGone      -- utime() raises OSError (only noticed at a refresh)
deriving Repr, DecidableEq

/-- primitive calls of one round, as the real loop performs them -/
inductive Call | sleep (s : Nat) | parentCheck | utime
deriving Repr, DecidableEq

/-- one iteration of `while True:`. `δ` = how much longer than `period` the round took (scheduling, I/O).
    Returns the new state, whether the loop goes on, and the primitive calls made. -/
def round (c : Consts) (δ : Nat) (env : Env) (s : MonSt) : MonSt × Bool × List Call :=
  let now' := s.now + c.period + δ
  if env = .parentGone then ({ s with now := now' }, false, [.sleep c.period, .parentCheck])
  else
    let cnt := s.counter - 1
    if cnt = 0 then
      if env = .lockGone then ({ s with now := now', counter := c.rounds }, false, [.sleep c.period, .parentCheck, .utime])
      else ({ now := now', mtime := now', counter := c.rounds }, true, [.sleep c.period, .parentCheck, .utime])
    else ({ s with now := now', counter := cnt }, true, [.sleep c.period, .parentCheck])

/-- `is_failed()` of the keep-alive lock at time `now`: the file exists and `mtime <= now - expiry` -/
def isFailed (c : Consts) (now mtime : Nat) : Bool := decide (mtime + c.expiry ≤ now)

/-- a live worker: every round sees `ok`. Returns the state after the rounds. -/
def runLive (c : Consts) : MonSt → List Nat → MonSt
  | s, [] => s
  | s, δ :: δs => runLive c (round c δ .ok s).1 δs

/-- the calls made during `n` live rounds (for the bridge with the extracted trace) -/
def liveCalls (c : Consts) : Nat → MonSt → List Call
  | 0, _ => []
  | n + 1, s => let r := round c 0 .ok s; r.2.2 ++ liveCalls c n r.1

/-- a whole life of the helper: rounds under an arbitrary environment and arbitrary overshoots, ending at the first round
    whose loop condition fails (the rest of the schedule is never looked at - the process is gone).
    Returns the last state and whether the helper is still running. -/
def runEnv (c : Consts) : MonSt → List (Nat × Env) → MonSt × Bool
  | s, [] => (s, true)
  | s, (δ, env) :: rest =>
    let r := round c δ env s
    if r.2.1 then runEnv c r.1 rest else (r.1, false)

end Jug.KeepAlive
