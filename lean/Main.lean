import JugModel.Driver.MapReduce
import JugModel.Driver.Options
import JugModel.Driver.Hash
import JugModel.Driver.Exec
import JugModel.Driver.Lock
import JugModel.Driver.Store
import JugModel.Driver.Graph
import JugModel.Driver.Views
import JugModel.Driver.Loader
import JugModel.Driver.Loop
import JugModel.Driver.Memo
import JugModel.Driver.KALock
/-! Line-protocol driver: one JSON object per input line, one JSON answer per output line.
    Imports the executable models only (never `Props`), so it still builds when a proof breaks. -/
open Lean Jug.Drv

def handlers : List (String → Json → Option Json) := [handleMR, handleOpt, handleHash, handleExec, handleLock, handleStore, handleGraph, handleViews, handleLoader, handleLoop, handleMemo, handleKALock, handleKARun, handleCanLoadRun]

def dispatch (j : Json) : Json :=
  let op := getStr j "op"
  match handlers.findSome? (fun h => h op j) with
  | some r => r
  | none => err ("unknown-op " ++ op)

partial def loop (h : IO.FS.Stream) (out : IO.FS.Stream) : IO Unit := do
  let line ← h.getLine
  if line.isEmpty then return ()
  let ans := match Json.parse line with
    | .ok j => dispatch j
    | .error e => err ("parse " ++ e)
  out.putStrLn ans.compress
  out.flush
  loop h out

def main : IO Unit := do loop (← IO.getStdin) (← IO.getStdout)
