"""Shared infrastructure of the jug verification checks.

Every check is `./check Cxx --tier quick|thorough`:
  (a) regenerate lean/JugModel/Generated/*.lean from /repo (extractors)
  (b) `lake build` the property's theorem module + audit of axioms
  (c) correspondence: real jug code vs the compiled Lean driver on the same inputs
  (d) failing-input search (monitors on the real code)
and the outcome logic of DESIGN.md section 1.
"""
import fcntl
import hashlib
import json
import os
import random
import re
import shutil
import subprocess
import sys
import tempfile
import time

VERIF = os.path.abspath(os.path.join(os.path.dirname(__file__), '..', '..'))
REPO = os.environ.get('JUG_REPO', '/repo')
CURRENT_INPUT = {}      # what the code under test is being run on right now (included in the replay when it raises unexpectedly)
LEAN_DIR = os.path.join(VERIF, 'lean')
GEN_DIR = os.path.join(LEAN_DIR, 'JugModel', 'Generated')
OUT_DIR = os.path.join(VERIF, 'out')
EVID_DIR = os.path.join(VERIF, 'evidence')
KNOWN_FILE = os.path.join(VERIF, 'known_findings.json')
DRIVER = os.path.join(LEAN_DIR, '.lake', 'build', 'bin', 'jugdrv')

STD_AXIOMS = {'propext', 'Classical.choice', 'Quot.sound'}
FORBIDDEN = re.compile(r'\b(sorry|admit|native_decide|bv_decide|implemented_by|unsafe)\b|^\s*axiom\s|maxHeartbeats\s+0\b')


class StopCheck(Exception):
    """enough violations have been found: finish the check now (raised by long-running failure modes such as non-terminating workers)"""


class InfraError(Exception):
    """harness problem (not a verdict): exit status 2"""


def scratch_dir(prefix='jugverif-'):
    base = os.environ.get('JUGVERIF_SCRATCH') or tempfile.gettempdir()
    return tempfile.mkdtemp(prefix=prefix, dir=base)


# ----------------------------------------------------------------------------- PRNG

def get_seed():
    try:
        return int(os.environ.get('VERIF_SEED', '0'))
    except ValueError:
        return int(hashlib.sha1(os.environ['VERIF_SEED'].encode()).hexdigest()[:8], 16)


def rng_for(seed, *labels):
    """all randomness of a run derives from (VERIF_SEED, labels)"""
    h = hashlib.sha256(('%d|' % seed + '|'.join(str(l) for l in labels)).encode()).hexdigest()
    return random.Random(int(h[:16], 16))


# ----------------------------------------------------------------------------- Lean side

class LeanBuild:
    def __init__(self):
        self.log = ''
        self.ok = None
        self.failed_decls = []


def _lock_file():
    os.makedirs(os.path.join(LEAN_DIR, '.lake'), exist_ok=True)
    return open(os.path.join(LEAN_DIR, '.lake', 'jugverif.lock'), 'w')


def write_generated(name, text):
    """write Generated/<name>.lean only when the content changed (keeps lake incremental)"""
    os.makedirs(GEN_DIR, exist_ok=True)
    p = os.path.join(GEN_DIR, name + '.lean')
    text = ('-- GENERATED from /repo by the extractors of /verif/harness on every run. Do not edit.\n' + text)
    try:
        with open(p) as f:
            if f.read() == text:
                return False
    except FileNotFoundError:
        pass
    tmp = p + '.tmp%d' % os.getpid()
    with open(tmp, 'w') as f:
        f.write(text)
    os.replace(tmp, p)
    return True


def lake_build(targets, timeout=3000):
    """returns (ok, log). Serialised across concurrent checks with a file lock."""
    with _lock_file() as lf:
        fcntl.flock(lf, fcntl.LOCK_EX)
        try:
            p = subprocess.run(['lake', 'build'] + list(targets), cwd=LEAN_DIR, stdout=subprocess.PIPE,
                               stderr=subprocess.STDOUT, text=True, timeout=timeout)
        except subprocess.TimeoutExpired as e:
            raise InfraError('lake build timed out: %s' % e)
        finally:
            fcntl.flock(lf, fcntl.LOCK_UN)
    return p.returncode == 0, p.stdout


def module_closure(mods):
    """the modules of this library that `mods` import, transitively (from the `import` lines of the sources)"""
    seen, todo = [], list(mods)
    while todo:
        m = todo.pop()
        if m in seen:
            continue
        f = os.path.join(LEAN_DIR, m.replace('.', '/') + '.lean')
        if not os.path.exists(f):
            continue
        seen.append(m)
        for mm in re.finditer(r'(?m)^\s*import\s+(JugModel[\w\.]*)', open(f).read()):
            todo.append(mm.group(1))
    return sorted(seen)


def build_and_recheck(targets, timeout=3000):
    """thorough tier: `lake build` and, under the same lock (no other check can rebuild a shared module in between), an independent
    replay of the compiled .olean files of `mod` and of every library module it imports by the toolchain's leanchecker.
    leanchecker takes a module *prefix* and replays every .olean below it, so a private search-path root with links to exactly
    the closure is put in front of the library's own."""
    with _lock_file() as lf:
        fcntl.flock(lf, fcntl.LOCK_EX)
        try:
            p = subprocess.run(['lake', 'build'] + list(targets), cwd=LEAN_DIR, stdout=subprocess.PIPE, stderr=subprocess.STDOUT, text=True, timeout=timeout)
            if p.returncode != 0:
                return False, p.stdout, None, ''
            mods = module_closure([t for t in targets if t.startswith('JugModel.')])
            root = tempfile.mkdtemp(prefix='jugverif-lc-')
            try:
                lib = os.path.join(LEAN_DIR, '.lake', 'build', 'lib', 'lean')
                for m in mods:
                    rel = m.replace('.', '/') + '.olean'
                    os.makedirs(os.path.dirname(os.path.join(root, rel)), exist_ok=True)
                    shutil.copy(os.path.join(lib, rel), os.path.join(root, rel))
                env = dict(os.environ)
                lp = subprocess.run(['lake', 'env', 'printenv', 'LEAN_PATH'], cwd=LEAN_DIR, stdout=subprocess.PIPE, text=True).stdout.strip()
                env['LEAN_PATH'] = root + os.pathsep + os.pathsep.join(x for x in lp.split(os.pathsep) if os.path.abspath(x) != os.path.abspath(lib))
                q = subprocess.run(['leanchecker', 'JugModel'], cwd=LEAN_DIR, env=env, stdout=subprocess.PIPE, stderr=subprocess.STDOUT, text=True, timeout=timeout)
            finally:
                shutil.rmtree(root, ignore_errors=True)
            return True, p.stdout, q.returncode == 0, '%d modules: %s' % (len(mods), q.stdout[-300:])
        except subprocess.TimeoutExpired as e:
            raise InfraError('lake build / leanchecker timed out: %s' % e)
        finally:
            fcntl.flock(lf, fcntl.LOCK_UN)


def failing_decls(log):
    """names of the modules / theorems lake reports errors for"""
    out = []
    for m in re.finditer(r'error: (JugModel/[\w/]+\.lean):(\d+):(\d+)', log):
        out.append('%s:%s' % (m.group(1), m.group(2)))
    for m in re.finditer(r"error: (Main\.lean):(\d+)", log):
        out.append('%s:%s' % (m.group(1), m.group(2)))
    seen = []
    for o in out:
        if o not in seen:
            seen.append(o)
    return seen


def decl_at(relpath, line):
    """name of the theorem/def enclosing a line of a lean file (for the replay of a broken proof)"""
    try:
        lines = open(os.path.join(LEAN_DIR, relpath)).read().split('\n')
    except OSError:
        return None
    for i in range(min(line, len(lines)) - 1, -1, -1):
        m = re.match(r'\s*(?:private\s+|protected\s+)?(?:theorem|lemma|def|example|instance|abbrev)\s+([\w.\']+)?', lines[i])
        if m:
            return m.group(1) or 'example@%d' % (i + 1)
    return None


def strip_comments(src):
    # remove /- ... -/ (nested) and -- comments
    out = []
    i, depth, n = 0, 0, len(src)
    while i < n:
        if src.startswith('/-', i):
            depth += 1
            i += 2
        elif depth and src.startswith('-/', i):
            depth -= 1
            i += 2
        elif depth:
            if src[i] == '\n':
                out.append('\n')
            i += 1
        elif src.startswith('--', i):
            while i < n and src[i] != '\n':
                i += 1
        else:
            out.append(src[i])
            i += 1
    return ''.join(out)


def audit_sources():
    """no sorry/admit/axiom/native_decide/... outside comments in any lean source of the project"""
    bad = []
    for root, _, files in os.walk(LEAN_DIR):
        if '.lake' in root:
            continue
        for f in files:
            if not f.endswith('.lean'):
                continue
            p = os.path.join(root, f)
            src = strip_comments(open(p).read())
            # string literals may mention the words (e.g. in the audit file): drop them
            src = re.sub(r'"(?:[^"\\]|\\.)*"', '""', src)
            for ln, line in enumerate(src.split('\n'), 1):
                if FORBIDDEN.search(line):
                    bad.append('%s:%d: %s' % (os.path.relpath(p, LEAN_DIR), ln, line.strip()[:100]))
    return bad


def audit_axioms(prop):
    """run `#print axioms` for every theorem listed in JugModel/Audit/<prop>.lean; returns
    (theorems: dict name -> set(axioms), problems: list)"""
    path = os.path.join('JugModel', 'Audit', prop + '.lean')
    if not os.path.exists(os.path.join(LEAN_DIR, path)):
        raise InfraError('missing audit file ' + path)
    p = subprocess.run(['lake', 'env', 'lean', path], cwd=LEAN_DIR, stdout=subprocess.PIPE, stderr=subprocess.STDOUT,
                       text=True, timeout=1200)
    out = p.stdout
    thms = {}
    problems = []
    for m in re.finditer(r"'([^']+)' depends on axioms: \[([^\]]*)\]", out):
        thms[m.group(1)] = set(a.strip() for a in m.group(2).replace('\n', ' ').split(',') if a.strip())
    for m in re.finditer(r"'([^']+)' does not depend on any axioms", out):
        thms[m.group(1)] = set()
    if p.returncode != 0:
        problems.append('audit file does not check: ' + out[-600:])
    for t, ax in thms.items():
        extra = ax - STD_AXIOMS
        if extra:
            problems.append('%s depends on non-standard axioms %s' % (t, sorted(extra)))
    return thms, problems


class Driver:
    """line protocol to the compiled Lean model driver: one JSON object per line, one JSON answer per line"""

    def __init__(self):
        if not os.path.exists(DRIVER):
            raise InfraError('driver not built')
        self.p = subprocess.Popen([DRIVER], stdin=subprocess.PIPE, stdout=subprocess.PIPE, text=True, bufsize=1 << 20)
        self.n = 0

    def ask(self, obj):
        self.p.stdin.write(json.dumps(obj) + '\n')
        self.p.stdin.flush()
        line = self.p.stdout.readline()
        self.n += 1
        if not line:
            raise InfraError('driver died on %r' % (obj,))
        return json.loads(line)

    def ask_many(self, objs):
        """pipelined: write everything, then read everything (threaded writer to avoid pipe deadlock)"""
        import threading
        objs = list(objs)

        def w():
            for o in objs:
                self.p.stdin.write(json.dumps(o) + '\n')
            self.p.stdin.flush()
        t = threading.Thread(target=w)
        t.start()
        res = []
        for _ in objs:
            line = self.p.stdout.readline()
            if not line:
                raise InfraError('driver died')
            res.append(json.loads(line))
        t.join()
        self.n += len(objs)
        return res

    def close(self):
        try:
            self.p.stdin.close()
            self.p.wait(timeout=10)
        except Exception:
            self.p.kill()


# ----------------------------------------------------------------------------- run bookkeeping

class Run:
    def __init__(self, prop, tier, level='proof'):
        self.prop = prop
        self.tier = tier
        self.seed = get_seed()
        self.level = level
        self.t0 = time.time()
        self.obligations = []          # (name, ok, detail)
        self.broken = []               # names of theorems / correspondences that no longer check
        self.failures = []             # dicts: {key, what, replay(dict)}
        self.counts = {}
        self.samples = []
        self.nontrivial = set()
        self.evaluations = 0
        self.assumptions = []
        self.trusted = []
        self.notes = []
        self.exhaustive = None
        self.corr_programs = 0
        self.corr_disagreements = 0
        self.checker_cmd = ''
        os.makedirs(os.path.join(OUT_DIR, 'replays'), exist_ok=True)

    # -- counting
    def count(self, key, n=1):
        self.counts[key] = self.counts.get(key, 0) + n

    def case(self, fingerprint=None, nontrivial=False):
        self.evaluations += 1
        if nontrivial and fingerprint is not None:
            self.nontrivial.add(fingerprint if isinstance(fingerprint, (str, int)) else json.dumps(fingerprint, sort_keys=True, default=str))

    def sample(self, s, limit=6):
        if len(self.samples) < limit:
            self.samples.append(s)

    def obligation(self, name, ok, detail=''):
        if not ok and sum(1 for o in self.obligations if o[0] == name and not o[1]) >= 3:
            self.count('further failures of: ' + name)
            return
        self.obligations.append((name, bool(ok), detail))
        if not ok:
            self.broken.append(name + ((': ' + detail) if detail else ''))

    def fail(self, key, what, replay):
        """a concrete failing input on the real code"""
        self.failures.append({'key': key, 'what': what, 'replay': replay})

    # -- Lean steps
    def lean(self, targets, audit=True, theorems_expected=()):
        """build the property's theorem module (+driver) and audit it. Records obligations."""
        self.checker_cmd = 'cd lean && lake build ' + ' '.join(targets) + ' && lake env lean JugModel/Audit/%s.lean' % self.prop
        lc = None
        if self.tier == 'thorough':
            ok, log, lc, lcout = build_and_recheck(targets)
        else:
            ok, log = lake_build(targets)
        self.build_log = log
        if not ok:
            locs = failing_decls(log)
            names = []
            for l in locs:
                f, ln = l.rsplit(':', 1)
                d = decl_at(f, int(ln))
                names.append('%s (%s)' % (d, l) if d else l)
            self.obligation('lake build ' + ' '.join(targets), False, '; '.join(names) or log[-400:])
            # is the driver still usable?
            if 'jugdrv' in targets:
                ok2, _ = lake_build(['jugdrv'])
                self.driver_ok = ok2
            else:
                self.driver_ok = os.path.exists(DRIVER)
            return False
        self.driver_ok = True
        self.obligation('lake build ' + ' '.join(targets), True)
        if audit:
            bad = audit_sources()
            self.obligation('no sorry/admit/axiom/native_decide/bv_decide/implemented_by/unsafe in lean sources', not bad, '; '.join(bad[:5]))
            thms, problems = audit_axioms(self.prop)
            self.theorems = thms
            for t in sorted(thms):
                self.obligation('theorem %s axioms=%s' % (t, sorted(thms[t])), not (thms[t] - STD_AXIOMS))
            for t in theorems_expected:
                if t not in thms:
                    self.obligation('theorem %s present in audit' % t, False)
            for p in problems:
                if 'non-standard' not in p:
                    self.obligation('audit', False, p)
        if lc is not None:
            self.obligation('leanchecker replays the compiled .olean files of the theorem modules of %s and their imports (independent kernel re-check)' % self.prop, lc, lcout)
            self.checker_cmd += ' && leanchecker <the built theorem modules and their imports>'
        return True

    # -- finishing
    def finish(self):
        known = load_known()
        wall = time.time() - self.t0
        new_fail = []
        known_hit = []
        for f in self.failures:
            k = match_known(known, self.prop, f['key'])
            if k is not None:
                if k not in known_hit:
                    known_hit.append(k)
            else:
                new_fail.append(f)
        violations = 0
        lines = []
        for k in known_hit:
            lines.append('KNOWN-FINDING: property=%s %s' % (self.prop, k['what']))
        if new_fail:
            # one VIOLATION line per distinct key (first 5)
            seen = set()
            for f in new_fail:
                if f['key'] in seen:
                    continue
                seen.add(f['key'])
                if len(seen) > 5:
                    break
                path = self._write_replay(f, len(seen))
                lines.append('VIOLATION property=%s replay=%s' % (self.prop, path))
                lines.append('  what: %s' % f['what'])
                violations += 1
            if self.broken:
                lines.append('  also no longer checking: ' + ' | '.join(self.broken)[:600])
        elif self.broken:
            path = self._write_replay({'key': 'broken-proof-or-correspondence', 'what': 'no longer checks: ' + ' | '.join(self.broken),
                                       'replay': {'kind': 'broken', 'no_longer_checks': self.broken,
                                                  'searched': dict(self.counts, evaluations=self.evaluations)}}, 0)
            lines.append('VIOLATION property=%s replay=%s no-failing-input-found' % (self.prop, path))
            lines.append('  no longer checks: ' + ' | '.join(self.broken)[:800])
            violations += 1
        self._write_evidence(wall, violations, known_hit)
        for l in lines:
            print(l)
        n_ob = len(self.obligations)
        n_ok = sum(1 for o in self.obligations if o[1])
        print('%s %s seed=%d: obligations %d/%d, evaluations %d, distinct non-trivial %d, known findings %d, violations %d, %.1fs'
              % (self.prop, self.tier, self.seed, n_ok, n_ob, self.evaluations, len(self.nontrivial), len(known_hit), violations, wall))
        sys.stdout.flush()
        return 1 if violations else 0

    def _write_replay(self, f, idx):
        path = os.path.join(OUT_DIR, 'replays', '%s-seed%d-%d.json' % (self.prop, self.seed, idx))
        with open(path, 'w') as fh:
            json.dump({'property': self.prop, 'key': f['key'], 'what': f['what'], 'replay': f['replay'],
                       'how_to_replay': './check %s --replay %s' % (self.prop, path)}, fh, indent=1, default=str)
        return path

    def _write_evidence(self, wall, violations, known_hit):
        os.makedirs(EVID_DIR, exist_ok=True)
        n_ob = len(self.obligations)
        n_ok = sum(1 for o in self.obligations if o[1])
        cov = {
            'obligations': n_ob,
            'discharged': n_ok,
            'checker_cmd': self.checker_cmd or 'n/a',
            'trusted_base': self.trusted or ['Lean 4.33.0 kernel', 'axioms: propext, Classical.choice, Quot.sound (audited by #print axioms on every run)'],
            'evaluations': self.evaluations,
            'distinct_nontrivial': len(self.nontrivial),
            'rule': getattr(self, 'rule', ''),
            'samples': self.samples or ['(none)'],
            'programs': self.corr_programs,
            'disagreements_checked': self.corr_disagreements,
            'obligation_list': [{'name': o[0], 'ok': o[1], **({'detail': o[2]} if o[2] else {})} for o in self.obligations],
            'counts': self.counts,
            'known_findings_reported': [k['what'] for k in known_hit],
            'notes': self.notes,
        }
        if self.exhaustive is not None:
            cov['exhaustive'] = self.exhaustive
        ev = {'property_id': self.prop, 'tier': self.tier, 'seed': self.seed, 'level': self.level, 'coverage': cov,
              'assumptions': self.assumptions, 'wall_s': round(wall, 2), 'violations': violations}
        tmp = os.path.join(EVID_DIR, '.%s.tmp%d' % (self.prop, os.getpid()))
        with open(tmp, 'w') as fh:
            json.dump(ev, fh, indent=1, default=str)
        os.replace(tmp, os.path.join(EVID_DIR, self.prop + '.json'))


def load_known():
    try:
        with open(KNOWN_FILE) as f:
            return json.load(f)
    except FileNotFoundError:
        return {'known': [], 'fixed': []}


def match_known(known, prop, key):
    for k in known.get('known', []):
        if k['property'] == prop and re.fullmatch(k['key_regex'], key):
            return k
    return None


# ----------------------------------------------------------------------------- jug helpers

def fresh_python(code, args=(), env=None, timeout=600, cwd=None, input=None):
    """run code in a fresh /venv interpreter importing jug from REPO"""
    e = dict(os.environ)
    e['PYTHONPATH'] = REPO + os.pathsep + os.path.join(VERIF, 'harness') + os.pathsep + e.get('PYTHONPATH', '')
    e.setdefault('HOME', '/nonexistent-home-for-jugverif')
    if env:
        e.update(env)
    p = subprocess.run([sys.executable, '-c', code] + list(args), stdout=subprocess.PIPE, stderr=subprocess.PIPE,
                       text=True, env=e, timeout=timeout, cwd=cwd, input=input)
    return p


def rm_rf(p):
    shutil.rmtree(p, ignore_errors=True)


def replay_family(prop, key, fn):
    """re-run a small deterministic family of real runs and report whether the failure recorded under `key` happens again"""
    run = Run(prop, 'quick')
    fn(run)
    again = [f for f in run.failures if f['key'] == key]
    for f in (again or run.failures)[:5]:
        print('FAILS:', f['what'][:600])
    print('property FAILS on this input' if again else ('the recorded failure does not recur' + (' (other failures shown above)' if run.failures else '')))
    return 1 if again else 0
