"""the outer loop of `jug execute` (reload while a barrier is pending) against Model/Reload.lean.

A scripted jugfile makes pass number i of one real `jug execute` process report what the script says:
  'P'  a new runnable task in front of a closed barrier   -> the worker executes 1 task, barrier pending
  'I'  a task locked by somebody else in front of a barrier -> the worker executes nothing, barrier pending
  'D'  the jugfile loads to its end
The number of loads the real command performs and the way it ends are compared with the model's `loop`, and with the property:
the command keeps reloading as long as it makes progress, whatever --nr-wait-cycles is."""
import json
import os

from jugverif import core, loadercheck as L

JUGFILE = '''import os, sys
sys.path.insert(0, %(harness)r)
from jug import Task, barrier
from jugverif import jf_reload
_here = %(dir)r
_n = int(open(os.path.join(_here, 'passes.txt')).read())
open(os.path.join(_here, 'passes.txt'), 'w').write(str(_n + 1))
_script = %(script)r
_kind = _script[_n] if _n < len(_script) else 'X'
if _kind == 'P':
    t = Task(jf_reload.work, _n)
    barrier()
elif _kind == 'I':
    t = Task(jf_reload.blocked, _n)
    barrier()
elif _kind == 'D':
    t = Task(jf_reload.work, _n)
else:
    open(os.path.join(_here, 'overrun.txt'), 'w').write('1')
    t = Task(jf_reload.work, _n)
'''


def run_script(scratch, tag, script, nr_wait):
    """returns (number of loads, exit kind, return code, output)"""
    import sys
    d = os.path.join(scratch, 'reload-%s' % tag)
    os.makedirs(d)
    open(os.path.join(d, 'passes.txt'), 'w').write('0')
    open(os.path.join(d, 'jugfile.py'), 'w').write(JUGFILE % {'harness': os.path.join(core.VERIF, 'harness'), 'dir': d, 'script': script})
    # somebody else holds the locks of the blocked tasks
    sys.path.insert(0, os.path.join(core.VERIF, 'harness'))
    import jug.task
    from jug import Task
    from jug.backends.file_store import file_store
    from jugverif import jf_reload
    store = file_store(os.path.join(d, 'jugfile.jugdata'))
    saved = jug.task.Task.store
    jug.task.Task.store = store
    try:
        for i, k in enumerate(script):
            if k == 'I':
                assert store.getlock(Task(jf_reload.blocked, i).hash()).get()
    finally:
        jug.task.Task.store = saved
        del jug.task.alltasks[:]
    r = L.jug_cli(['execute', 'jugfile.py', '--will-cite', '--wait-cycle-time', '0', '--nr-wait-cycles', str(nr_wait), '--verbose', 'info'], d, timeout=120)
    loads = int(open(os.path.join(d, 'passes.txt')).read())
    overrun = os.path.exists(os.path.join(d, 'overrun.txt'))
    gave_up = 'No tasks can be run' in r.stdout
    exit_kind = 'overrun' if overrun else ('gaveUp' if gave_up else 'done')
    core.rm_rf(d)
    return loads, exit_kind, r.returncode, r.stdout


def scripts(rng, n):
    fixed = [('PPPPPPD', 2), ('PPPPPPPPPPPPD', 3), ('PIPIPIPID', 2), ('PIIPD', 2), ('PIID', 2), ('IID', 3), ('IIID', 3), ('D', 1), ('PD', 1), ('IPPPPD', 1), ('PPID', 1), ('PIPIIPD', 2)]
    out = list(fixed)
    while len(out) < n:
        k = rng.randint(1, 4)
        body = ''.join(rng.choice('PPPI') for _ in range(rng.randint(0, 9)))
        out.append((body + 'D', k))
    return out[:n]


def spec_loads(script, nr_wait):
    """the property, stated without the model: the command gives up only after nr_wait consecutive idle passes, and otherwise goes on to the end"""
    idle = 0
    for i, k in enumerate(script):
        if k == 'D':
            return i + 1, 'done'
        idle = idle + 1 if k == 'I' else 0
        if idle >= nr_wait:
            return i + 1, 'gaveUp'
    return len(script), 'overrun'


def family(run, drv, scratch, n):
    from concurrent.futures import ThreadPoolExecutor
    rng = core.rng_for(run.seed, 'c14-reload')
    cases = scripts(rng, n)
    with ThreadPoolExecutor(8) as ex:
        results = list(ex.map(lambda a: run_script(scratch, '%d' % a[0], a[1][0], a[1][1]), enumerate(cases)))
    bad = 0
    for (script, nr_wait), (loads, exit_kind, rc, out) in zip(cases, results):
        run.case(('reload', script, nr_wait), nontrivial='P' in script and 'I' in script)
        run.count('reload_scripts')
        rp = {'kind': 'reload-script', 'script': script, 'nr_wait_cycles': nr_wait}
        want = spec_loads(script, nr_wait)
        # the property: the command goes on for as long as it makes progress (exact pass counts when it gives up are compared with the model only)
        if want[1] == 'done' and (exit_kind != 'done' or rc != 0 or loads != want[0]):
            run.fail('reload-loop', '`jug execute --nr-wait-cycles %d` on a jugfile whose passes go %s (P: executes a task, barrier pending; I: nothing to run, barrier pending; D: loads to the end): '
                     'the jugfile was loaded %d times and the command ended by %s with status %d although it never had %d idle passes in a row: the later phases are left undone (expected %d loads)'
                     % (nr_wait, script, loads, exit_kind, rc, nr_wait, want[0]), rp)
        if drv is not None:
            passes = [[1 if k in 'PD' else 0, k in 'PI'] for k in script]
            ans = drv.ask({'op': 'reload', 'n': nr_wait, 'passes': passes})
            run.corr_programs += 1
            if (ans.get('passes'), ans.get('exit')) != (loads, exit_kind):
                bad += 1
                run.corr_disagreements += 1
                run.obligation('correspondence reload loop model=code', False, 'script %s nr_wait %d: model %s code (%d, %s)' % (script, nr_wait, ans, loads, exit_kind))
    if drv is not None and bad == 0:
        run.obligation('correspondence: the reload loop of the real `jug execute` makes the passes of the model on %d scripts' % len(cases), True)
