"""run in a fresh interpreter: build every spec of a JSON file (with an order seed) and print its identifier"""
import json
import random
import sys


def real_hash(v):
    from jug.task import Task, Tasklet
    from jug.hash import hash_one
    return hash_one(v).decode()


def main():
    import warnings
    warnings.simplefilter('ignore')
    import jug.task
    from jug.backends.dict_store import dict_store
    jug.task.Task.store = dict_store()
    from jugverif import hashmodel as hm
    specs = json.load(open(sys.argv[1]))
    order_seed = int(sys.argv[2])
    out = []
    for i, s in enumerate(specs):
        rng = random.Random(order_seed * 1000003 + i) if order_seed >= 0 else None
        try:
            v = hm.build(tojson_spec(s), rng)
            out.append(real_hash(v))
        except Exception as e:
            out.append('EXC %s: %s' % (type(e).__name__, e))
        del jug.task.alltasks[:]
    print(json.dumps(out))


def tojson_spec(s):
    """JSON turns tuples into lists: specs are read structurally, so lists are fine"""
    return s


if __name__ == '__main__':
    main()
