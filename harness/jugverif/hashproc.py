"""run in a fresh interpreter: build every spec of a JSON file (with an order seed) and print its identifier"""
import json
import random
import sys


def real_hash(v):
    from jug.task import Task, Tasklet
    from jug.hash import hash_one
    return hash_one(v).decode()


def main():
    import warnings
    warnings.simplefilter('ignore')
    import jug.task
    from jug.backends.dict_store import dict_store
    jug.task.Task.store = dict_store()
    from jugverif import hashmodel as hm
    specs = json.load(open(sys.argv[1]))
    order_seed = int(sys.argv[2])
    # the order in which a process computes identifiers must not matter either (argv[3]: fwd | rev | shuf<seed>)
    visit = sys.argv[3] if len(sys.argv) > 3 else 'fwd'
    idxs = list(range(len(specs)))
    if visit == 'rev':
        idxs.reverse()
    elif visit.startswith('shuf'):
        random.Random(int(visit[4:] or 0)).shuffle(idxs)
    out = [None] * len(specs)
    for i in idxs:
        s = specs[i]
        rng = random.Random(order_seed * 1000003 + i) if order_seed >= 0 else None
        try:
            v = hm.build(tojson_spec(s), rng)
            out[i] = real_hash(v)
        except Exception as e:
            out[i] = 'EXC %s: %s' % (type(e).__name__, e)
        del jug.task.alltasks[:]
    print(json.dumps(out))


def tojson_spec(s):
    """JSON turns tuples into lists: specs are read structurally, so lists are fine"""
    return s


if __name__ == '__main__':
    main()
