"""In-memory stand-in for a redis server (no server exists in the sandbox). Single-command atomicity is provided by the
GIL plus the gated scheduler; several `redis_store` objects share one FakeServer like several clients share a server."""
import fnmatch


class FakeServer:
    def __init__(self):
        self.d = {}
        self.log = []
        self.hook = None        # callable(cmd, key) called before each command (used to gate / interleave commands)
        self.now = 0.0          # simulated server clock (seconds); keys with a TTL disappear when it passes their deadline
        self.exp = {}

    def purge(self):
        for k, dl in list(self.exp.items()):
            if self.now >= dl:
                self.exp.pop(k, None)
                self.d.pop(k, None)

    def advance(self, secs):
        self.now += secs
        self.purge()


def _b(k):
    return k if isinstance(k, bytes) else str(k).encode('utf-8')


class FakeRedis:
    def __init__(self, server, **kw):
        self.server = server

    def _cmd(self, name, k):
        if self.server.hook is not None:
            self.server.hook(name, _b(k))
        self.server.purge()
        self.server.log.append((name, _b(k)))

    def set(self, k, v, nx=False, ex=None, px=None, xx=False):
        self._cmd('SET', k)
        k = _b(k)
        if nx and k in self.server.d:
            return None
        if xx and k not in self.server.d:
            return None
        self.server.d[k] = _b(v) if not isinstance(v, bytes) else v
        self.server.exp.pop(k, None)
        if ex is not None or px is not None:
            self.server.exp[k] = self.server.now + (ex if ex is not None else px / 1000.0)
        return True

    def setnx(self, k, v):
        self._cmd('SETNX', k)
        k = _b(k)
        if k in self.server.d:
            return False
        self.server.d[k] = _b(v) if not isinstance(v, bytes) else v
        return True

    def get(self, k):
        self._cmd('GET', k)
        return self.server.d.get(_b(k))

    def getset(self, k, v):
        self._cmd('GETSET', k)
        k = _b(k)
        old = self.server.d.get(k)
        self.server.d[k] = _b(v) if not isinstance(v, bytes) else v
        self.server.exp.pop(k, None)
        return old

    def exists(self, *ks):
        # like the server: the NUMBER of the given keys that exist
        n = 0
        for k in ks:
            self._cmd('EXISTS', k)
            n += int(_b(k) in self.server.d)
        return n

    def delete(self, *ks):
        n = 0
        for k in ks:
            self._cmd('DEL', k)
            self.server.exp.pop(_b(k), None)
            n += int(self.server.d.pop(_b(k), None) is not None)
            # a command that was executed but whose reply never arrived (the connection dropped): the client sees a ConnectionError
            fault = getattr(self.server, 'reply_lost', None)
            if fault is not None and fault('DEL', _b(k), self):
                import redis as _redis
                raise _redis.ConnectionError('connection lost while waiting for the reply')
        return n

    def keys(self, pat='*'):
        self._cmd('KEYS', pat)
        pat = _b(pat).decode('latin1')
        return [k for k in list(self.server.d) if fnmatch.fnmatchcase(k.decode('latin1'), pat)]

    def expire(self, k, secs):
        self._cmd('EXPIRE', k)
        if _b(k) in self.server.d:
            self.server.exp[_b(k)] = self.server.now + secs
            return True
        return False

    def append(self, k, v):
        self._cmd('APPEND', k)
        k = _b(k)
        self.server.d[k] = self.server.d.get(k, b'') + (_b(v) if not isinstance(v, bytes) else v)
        return len(self.server.d[k])

    def scan(self, cursor=0, match=None, count=None):
        """like the server: at most `count` (default 10) keys per call and a cursor to continue with"""
        self._cmd('SCAN', match or '*')
        ks = sorted(self.server.d)
        n = count or 10
        chunk = ks[cursor:cursor + n]
        nxt = cursor + n if cursor + n < len(ks) else 0
        pat = _b(match or '*').decode('latin1')
        return nxt, [k for k in chunk if fnmatch.fnmatchcase(k.decode('latin1'), pat)]

    def scan_iter(self, match=None, count=None):
        cur = 0
        while True:
            cur, ks = self.scan(cur, match, count)
            for k in ks:
                yield k
            if cur == 0:
                return

    def setex(self, k, secs, v):
        return self.set(k, v, ex=secs)

    def psetex(self, k, ms, v):
        return self.set(k, v, px=ms)

    def disconnect(self):
        pass


def make_store(server):
    """a real jug redis_store whose connection object is the fake"""
    import jug.backends.redis_store as rs
    real = rs.redis.Redis
    rs.redis.Redis = lambda **kw: FakeRedis(server, **kw)
    try:
        s = rs.redis_store('redis://localhost/')
    finally:
        rs.redis.Redis = real
    return s
