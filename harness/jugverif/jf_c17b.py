"""a second module with mappers / reducers of the same names as jf_c17 (other behaviour): same-named functions of different modules are different functions"""
from jug import TaskGenerator

CALLS = []


def f21(x):
    CALLS.append(x)
    return 5 * x


def wrap(x):
    CALLS.append(x)
    return ['b', x]


def cat(a, b):
    return b + a


@TaskGenerator
def tg_f21(x):
    CALLS.append(x)
    return 5 * x


@TaskGenerator
def tg_wrap(x):
    CALLS.append(x)
    return ['b', x]


@TaskGenerator
def tg_cat(a, b):
    return b + a
