"""Store histories on the real backends vs the Lean store model and vs a plain Python dict (C06), and cleanup (C10)."""
import json
import os
import pickle
import warnings

import numpy as np

from jugverif import core, fakeredis

warnings.simplefilter('ignore')

NKEYS = 5


def keyname(i):
    """40 hex digits like a real task hash; the endings cover what naive suffix/prefix handling gets wrong (`rstrip('.lock')` eats
    trailing c's, a key whose directory part looks like a special directory name, repeated characters)"""
    import hashlib
    h = hashlib.sha1(b'jugverif-key-%d' % i).hexdigest()
    tails = ['cc', '0c', 'a1', 'ff', 'c0', '9e', '7b', 'd2']
    heads = ['ac', 'cd', 'ec', 'f0', '1c', '2b', '3a', '49']     # 'ac': a result directory whose name is a substring of a special directory name ('packs')
    return (heads[i % 8] + h[2:38] + tails[i % 8]).encode('ascii')


# ------------------------------------------------------------------------------------------------------ value universe

def vcanon(v):
    """type + content (arrays: dtype, shape, bytes / elements)"""
    if isinstance(v, np.ndarray) and type(v) is not np.ndarray:
        return '%s<%s>' % (type(v).__name__, vcanon(np.asarray(v)))
    if isinstance(v, np.ndarray):
        if v.dtype.hasobject:
            return 'ndarray[%s,%s]{%s}' % (v.dtype.str, v.shape, ','.join(vcanon(x) for x in v.ravel().tolist()))
        # byte order is normalised: NumPy's own pickling (protocol < 5) returns non-native arrays in native order
        if v.dtype.fields is None and v.dtype.byteorder not in ('=', '|'):
            v = v.astype(v.dtype.newbyteorder('='))
        return 'ndarray[%s,%s]{%s}' % (v.dtype.str if v.dtype.fields is None else str(v.dtype), v.shape, np.ascontiguousarray(v).tobytes().hex())
    if isinstance(v, np.generic):
        return 'np.%s(%s)' % (type(v).__name__, v.tobytes().hex())
    if isinstance(v, float):
        import struct
        return 'float(%s)' % struct.pack('>d', v).hex()
    if isinstance(v, complex):
        return 'complex(%s,%s)' % (vcanon(v.real), vcanon(v.imag))
    if isinstance(v, (list, tuple)):
        return '%s(%s)' % (type(v).__name__, ','.join(vcanon(x) for x in v))
    if isinstance(v, (set, frozenset)):
        return '%s(%s)' % (type(v).__name__, ','.join(sorted(vcanon(x) for x in v)))
    if isinstance(v, dict):
        return 'dict(%s)' % ','.join('%s:%s' % (vcanon(k), vcanon(x)) for k, x in v.items())
    return '%s(%r)' % (type(v).__name__, v)


DTYPES = ['u1', 'i2', '<i4', '>i4', 'i8', 'f4', 'f8', 'c16', '?', 'U3', 'S2', 'M8[s]', 'm8[ms]']


def gen_array(rng):
    kind = rng.random()
    if kind < 0.12:
        a = np.empty(rng.randint(0, 3), dtype=object)
        for i in range(len(a)):
            a[i] = rng.choice([None, 'x', (1, 2), 3.5, [1, 'b']])
        return a
    if kind < 0.2:
        return np.array([(1, 2.5), (3, 4.5)][:rng.randint(0, 2)], dtype=[('a', 'i4'), ('b', 'f8')])
    if kind < 0.26:
        # ndarray subclasses must come back as what they were
        import warnings
        with warnings.catch_warnings():
            warnings.simplefilter('ignore')
            return rng.choice([np.matrix([[1, 2], [3, 4]]), np.rec.array([(1, 2.0), (3, 4.0)], dtype=[('x', 'i4'), ('y', 'f8')]), np.ma.masked_array([1, 2, 3], mask=[0, 1, 0]).view(np.ndarray).view(np.matrix)])
    dt = rng.choice(DTYPES)
    nd = rng.choice([0, 1, 1, 2, 3])
    shape = tuple(rng.choice([0, 1, 2, 3, 5]) for _ in range(nd))
    if rng.random() < 0.15:
        shape = (rng.choice([100, 1000, 3000]),)
    n = int(np.prod(shape)) if shape else 1
    base = (np.arange(n) % 7).astype('i8')
    a = base.astype(dt) if dt[0] not in 'US' else (base.astype('U1').astype(dt) if dt[0] == 'U' else base.astype('S1').astype(dt))
    a = a.reshape(shape)
    c = rng.randint(0, 4)
    if a.ndim >= 2 and c == 1:
        a = np.asfortranarray(a)
    elif a.ndim >= 1 and c == 2:
        big = np.zeros(tuple(2 * s for s in a.shape), dtype=a.dtype)
        v = big[tuple(slice(None, None, 2) for _ in a.shape)]
        v[...] = a
        a = v
    elif a.ndim >= 1 and c == 3:
        a = a[tuple(slice(None, None, -1) for _ in a.shape)]
    return a


def gen_value(rng, depth=2):
    r = rng.random()
    if r < 0.08:
        return None
    if r < 0.3:
        return rng.choice([True, False, 0, 1, -5, 10 ** 40, 2.5, float('inf'), float('nan'), -0.0, '', 'abc', 'é' * 3, b'', b'\x00\xff', 1 + 2j,
                           np.float32(1.5), np.int64(-3), np.bool_(True)])
    if r < 0.42:
        return rng.choice([[], (), {}, set(), frozenset(), '', b''])
    if r < 0.5:
        n = rng.choice([600, 8190, 8192, 8200, 70000])
        return rng.choice([bytes(rng.getrandbits(8) for _ in range(n)), 'ab\n' * (n // 3), list(range(n // 8))])
    if r < 0.72:
        return gen_array(rng)
    if depth <= 0:
        return rng.randint(0, 100)
    c = rng.random()
    if c < 0.35:
        return [gen_value(rng, depth - 1) for _ in range(rng.randint(1, 3))]
    if c < 0.6:
        return tuple(gen_value(rng, depth - 1) for _ in range(rng.randint(1, 3)))
    if c < 0.85:
        return {rng.choice(['a', 'b', 1, (1, 2), None]): gen_value(rng, depth - 1) for _ in range(rng.randint(1, 3))}
    return {rng.choice([1, 'x', (2, 3)]) for _ in range(rng.randint(1, 3))}


# ------------------------------------------------------------------------------------------------------------ backends

class Cfg:
    """a backend configuration; `open()` returns a new store object on the same underlying data"""

    def __init__(self, kind, scratch, spelling=None):
        self.kind = kind
        self.dir = os.path.join(scratch, 'st-' + kind)
        if spelling is not None and kind in ('file', 'filez'):
            # the same location, spelled differently (relative, doubled slashes, trailing slash, './' prefix)
            rel = os.path.relpath(self.dir)
            if spelling == 'special-names':
                # a jug directory below directories that are named like the store's own special directories
                self.dir = os.path.join(scratch, 'packs', 'locks', 'tempfiles', 'st-' + kind)
                os.makedirs(os.path.dirname(self.dir), exist_ok=True)
                rel = os.path.relpath(self.dir)
            self.dir = {'abs': self.dir, 'special-names': self.dir, 'rel': rel, 'dot': './' + rel, 'dslash': os.path.dirname(self.dir) + '//' + os.path.basename(self.dir),
                        'trail': self.dir + '/', 'dotdot': os.path.join(os.path.dirname(self.dir), 'x', '..', os.path.basename(self.dir))}[spelling]
        if kind == 'redis':
            self.server = fakeredis.FakeServer()
        if kind == 'dict':
            from jug.backends.dict_store import dict_store
            self.shared = dict_store()
        self.obj = None

    @property
    def can_reopen(self):
        return self.kind != 'dict'

    @property
    def can_pack(self):
        return self.kind in ('file', 'filez')

    def open(self):
        if self.kind == 'file':
            from jug.backends.file_store import file_store
            return file_store(self.dir)
        if self.kind == 'filez':
            from jug.backends.file_store import file_store
            return file_store(self.dir, compress_numpy=True)
        if self.kind == 'dict':
            return self.shared
        if self.kind == 'dictfile':
            from jug.backends.dict_store import dict_store
            os.makedirs(self.dir, exist_ok=True)
            return dict_store(os.path.join(self.dir, 'backing.pkl'))
        if self.kind == 'redis':
            return fakeredis.make_store(self.server)
        raise ValueError(self.kind)


KINDS = ['file', 'filez', 'dict', 'dictfile', 'redis']


class TaskStub:
    def __init__(self, h):
        self.h = h

    def hash(self):
        return self.h


def small_on_disk(cfg, store, key):
    """is the result a loose file of at most MAX_FILESIZE_IN_PACK bytes? (what `jug pack` will move into the pack)"""
    if not cfg.can_pack:
        return False
    import jug.backends.file_store as fs
    p = store._getfname(key)
    return os.path.exists(p) and os.stat(p).st_size <= fs.MAX_FILESIZE_IN_PACK


def gen_history(rng, cfg, n):
    ops = []
    for _ in range(n):
        r = rng.random()
        k = rng.randrange(NKEYS)
        if r < 0.34:
            ops.append(['dump', k])
        elif r < 0.5:
            ops.append(['load', k])
        elif r < 0.6:
            ops.append(['canLoad', k])
        elif r < 0.68:
            ops.append(['remove', k])
        elif r < 0.73:
            ops.append(['removeMany', sorted(rng.sample(range(NKEYS), rng.randint(0, 3)))])
        elif r < 0.81:
            ops.append(['list'])
        elif r < 0.88 and cfg.can_pack:
            ops.append(['pack'])
        elif r < 0.95 and cfg.can_reopen:
            ops.append(['reopen'])
        elif r < 0.98:
            ops.append(['cleanup', sorted(rng.sample(range(NKEYS), rng.randint(0, NKEYS))), rng.random() < 0.5])
        else:
            ops.append(['list'])
    return ops


def run_history(cfg, ops, values):
    """execute on the real store. values: list of Python values consumed by dump ops in order.
    returns (model_ops, real_answers, value canon table)"""
    store = cfg.open()
    vi = 0
    model_ops, answers = [], []
    for op in ops:
        kind = op[0]
        try:
            if kind == 'dump':
                v = values[vi]
                vi += 1
                store.dump(v, keyname(op[1]))
                tag = ('S:' if small_on_disk(cfg, store, keyname(op[1])) else 'B:') + vcanon(v)
                model_ops.append(['dump', op[1], tag])
                answers.append(None)
            elif kind == 'load':
                model_ops.append(op)
                kn = keyname(op[1])
                if not store.can_load(kn):
                    answers.append({'val': None})
                else:
                    v = store.load(kn)
                    answers.append({'val': vcanon(v)})
            elif kind == 'canLoad':
                model_ops.append(op)
                answers.append(bool(store.can_load(keyname(op[1]))))
            elif kind == 'remove':
                model_ops.append(op)
                r = store.remove(keyname(op[1]))
                answers.append(r if isinstance(r, bool) else ('not-bool:%r' % (r,) if not isinstance(r, int) else bool(r)))
            elif kind == 'removeMany':
                model_ops.append(op)
                names_ = [keyname(k) for k in op[1]]
                # callers pass lists, tuples, sets or one-shot iterators (`jug invalidate` passes a generator)
                arg_ = [names_, tuple(names_), iter(names_), (x for x in names_)][(len(model_ops) + len(op[1])) % 4]
                r = store.remove_many(arg_)
                answers.append({'keys': sorted(i for i in range(NKEYS) if keyname(i) in set(r))})
            elif kind == 'list':
                model_ops.append(op)
                ks = list(store.list())
                idx = [i for i in range(NKEYS) if keyname(i) in ks]
                extra = [k for k in ks if k not in [keyname(i) for i in range(NKEYS)]]
                a = {'keys': sorted(idx)}
                if len(ks) != len(set(ks)):
                    a['duplicates'] = True
                if extra:
                    a['extra'] = [repr(e) for e in extra]
                answers.append(a)
            elif kind == 'pack':
                model_ops.append(op)
                store.update_pack()
                answers.append(None)
            elif kind == 'reopen':
                model_ops.append(op)
                store.close()
                store = cfg.open()
                answers.append(None)
            elif kind == 'cleanup':
                model_ops.append(op)
                store.cleanup([TaskStub(keyname(k)) for k in op[1]], keeplocks=op[2])
                answers.append(None)
        except Exception as e:
            answers.append({'error': '%s: %s' % (type(e).__name__, str(e)[:120])})
            model_ops.append(op if kind != 'dump' else ['dump', op[1], 'B:' + vcanon(values[vi - 1])])
    try:
        store.close()
    except Exception:
        pass
    return model_ops, answers


def strip_tags(a):
    if isinstance(a, dict) and a.get('val') and a['val'][:2] in ('S:', 'B:'):
        return {'val': a['val'][2:]}
    return a


def spec_answers(model_ops):
    """the plain Python dict specification"""
    m = {}
    out = []
    for op in model_ops:
        k = op[0]
        if k == 'dump':
            m[op[1]] = op[2][2:]
            out.append(None)
        elif k == 'load':
            out.append({'val': m.get(op[1])})
        elif k == 'canLoad':
            out.append(op[1] in m)
        elif k == 'remove':
            out.append(op[1] in m)
            m.pop(op[1], None)
        elif k == 'removeMany':
            out.append({'keys': sorted(x for x in op[1] if x in m)})
            for x in op[1]:
                m.pop(x, None)
        elif k == 'list':
            out.append({'keys': sorted(m)})
        elif k == 'cleanup':
            for x in list(m):
                if x not in op[1]:
                    del m[x]
            out.append(None)
        else:
            out.append(None)
    return out


def history_family(run, drv, n, hist_len=(5, 40)):
    rng = core.rng_for(run.seed, 'c06')
    scratch = core.scratch_dir()
    opcount = {}
    try:
        for i in range(n):
            kind = KINDS[i % len(KINDS)]
            d = os.path.join(scratch, 'h%d' % i)
            os.makedirs(d)
            cfg = Cfg(kind, d)
            ops = gen_history(rng, cfg, rng.randint(*hist_len))
            values = [gen_value(rng) for _ in ops]
            model_ops, real = run_history(cfg, ops, values)
            for op in ops:
                opcount[op[0]] = opcount.get(op[0], 0) + 1
            spec = spec_answers(model_ops)
            real_c = [strip_tags(a) for a in real]
            rp = {'kind': 'history', 'backend': kind, 'seed': run.seed, 'index': i, 'ops': model_ops}
            nontriv = any(o[0] == 'dump' for o in ops) and any(o[0] in ('pack', 'reopen', 'remove', 'removeMany', 'cleanup') for o in ops)
            run.case((kind, i, run.seed), nontrivial=nontriv)
            for j, (a, b) in enumerate(zip(real_c, spec)):
                if a != b:
                    what = 'after %s on the %s store: %s answered %s, a faithful map answers %s' % (json.dumps([o[:2] for o in model_ops[:j]])[-300:], kind, json.dumps(model_ops[j][:2]), json.dumps(a)[:300], json.dumps(b)[:300])
                    key = 'store-diverges:%s' % model_ops[j][0]
                    if isinstance(a, dict) and 'error' in a:
                        key = 'store-raises:%s' % model_ops[j][0]
                    run.fail(key, what, rp)
                    break
            if drv is not None:
                ans = drv.ask({'op': 'store', 'U': list(range(NKEYS)), 'ops': model_ops})
                run.corr_programs += 1
                ans_c = [strip_tags(a) for a in ans]
                if ans_c != real_c:
                    j = next(j for j, (a, b) in enumerate(zip(ans_c, real_c)) if a != b) if len(ans_c) == len(real_c) else -1
                    run.corr_disagreements += 1
                    run.obligation('correspondence store model=code (%s)' % kind, False, 'op %d %s: model %s code %s; history %s' % (j, json.dumps(model_ops[j][:2]) if j >= 0 else '?', json.dumps(ans_c[j])[:200] if j >= 0 else len(ans_c), json.dumps(real_c[j])[:200] if j >= 0 else len(real_c), json.dumps([o[:2] for o in model_ops])[:400]))
            if len(run.samples) < 3 and nontriv and len(ops) < 14:
                run.sample({'backend': kind, 'ops': [o if o[0] != 'dump' else o[:2] + [o[2][:60]] for o in model_ops], 'answers': real_c})
            core.rm_rf(d)
        run.counts['operations'] = opcount
    finally:
        core.rm_rf(scratch)


def stale_client_family(run, n=6):
    """a second store object that was opened before `jug pack` (a worker started earlier) re-dumps a key that meanwhile lives in the pack:
    the key then exists packed and as a loose file; removal must remove it altogether"""
    rng = core.rng_for(run.seed, 'stale')
    scratch = core.scratch_dir()
    try:
        for i in range(n):
            kind = ['file', 'filez'][i % 2]
            d = os.path.join(scratch, 's%d' % i)
            os.makedirs(d)
            cfg = Cfg(kind, d)
            a = cfg.open()
            k, k2 = keyname(0), keyname(1)
            a.dump('old', k)
            a.dump('other', k2)
            b = cfg.open()              # stale view: opened before the pack
            a.update_pack()
            b.dump('old', k)            # the stale worker recomputes and stores the (same) value as a loose file
            how = ['remove', 'remove_many'][i % 2]
            c = cfg.open()
            removed = c.remove(k) if how == 'remove' else bool(c.remove_many([k]))
            fresh = cfg.open()
            rp = {'kind': 'stale-client', 'backend': kind, 'how': how}
            run.case(('stale', i, run.seed), nontrivial=True)
            run.count('stale_client_cases')
            if not removed:
                run.fail('remove-untruthful', 'a key present packed and loose: %s reports nothing removed' % how, rp)
            if fresh.can_load(k) or k in list(fresh.list()):
                run.fail('remove-leaves-copy', 'a key that exists both in the pack and as a loose file (stale worker re-dumped it) is still loadable after %s: value %r' % (how, fresh.load(k) if fresh.can_load(k) else None), rp)
            if not fresh.can_load(k2) or fresh.load(k2) != 'other':
                run.fail('remove-damages-other', 'removing one key damaged another', rp)
            core.rm_rf(d)
    finally:
        core.rm_rf(scratch)


# -------------------------------------------------------------------------------------------------------------- C10

def build_state(cfg, rng):
    """random store contents: results (loose / packed), locks (held / failed), stray temp files. Returns description dict."""
    store = cfg.open()
    files, packed, locks = {}, {}, {}
    keys = list(range(NKEYS))
    present = [k for k in keys if rng.random() < 0.7]
    for k in present:
        v = rng.choice([k, 'v%d' % k, [k, k], {'k': k}, None if rng.random() < 0.2 else k * 2])
        store.dump(v, keyname(k))
        files[k] = 'B:' + vcanon(v)
    if cfg.can_pack and rng.random() < 0.6:
        store.update_pack()
        for k in list(files):
            packed[k] = files.pop(k)
        # some more loose ones after packing
        for k in keys:
            if k not in packed and rng.random() < 0.3:
                store.dump('late%d' % k, keyname(k))
                files[k] = 'B:' + vcanon('late%d' % k)
    for k in keys:
        r = rng.random()
        if r < 0.25:
            l = store.getlock(keyname(k))
            assert l.get()
            locks[k] = 'held'
        elif r < 0.45:
            l = store.getlock(keyname(k))
            assert l.get()
            l.fail()
            locks[k] = 'failed'
    # somebody looked at the lock files in the meantime (`cat` to see host and pid, a recursive grep, a backup scan or a restore that keeps modification times only):
    # reading moves a file's access time and nothing else - what a lock *is* (free / held / failed) does not change
    read_locks = False
    if cfg.kind in ('file', 'filez') and locks and rng.random() < 0.5:
        ldir = os.path.join(cfg.dir, 'locks')
        if os.path.isdir(ldir):
            read_locks = True
            for fn in sorted(os.listdir(ldir)):
                fp = os.path.join(ldir, fn)
                open(fp, 'rb').read()
                stl = os.stat(fp)
                os.utime(fp, ns=(stl.st_atime_ns + 86_400_000_000_000 * (1 + len(fn) % 3), stl.st_mtime_ns))
    temps = 0
    if cfg.kind in ('file', 'filez') and rng.random() < 0.5:
        os.makedirs(os.path.join(cfg.dir, 'tempfiles'), exist_ok=True)
        for j in range(rng.randint(1, 2)):
            open(os.path.join(cfg.dir, 'tempfiles', 'jugtemp%d.jugtmp' % j), 'w').write('partial')
            temps += 1
    try:
        store.close()
    except Exception:
        pass
    return {'files': files, 'packed': packed, 'locks': locks, 'temps': temps, 'lock_files_read': read_locks}


def observe(cfg):
    store = cfg.open()
    res, locks = {}, {}
    for k in range(NKEYS):
        kn = keyname(k)
        if store.can_load(kn):
            try:
                res[str(k)] = 'B:' + vcanon(store.load(kn))
            except Exception as e:
                res[str(k)] = 'LOAD-ERROR %s' % type(e).__name__
        l = store.getlock(kn)
        if l.is_locked():
            locks[str(k)] = 'failed' if l.is_failed() else 'held'
    temps = 0
    if cfg.kind in ('file', 'filez'):
        t = os.path.join(cfg.dir, 'tempfiles')
        temps = len(os.listdir(t)) if os.path.exists(t) else 0
    listed = sorted(i for i in range(NKEYS) if keyname(i) in set(store.list()))
    return {'res': res, 'locks': locks, 'temps': temps, 'listed': listed}


def real_cleanup(cfg, mode, active):
    import jug.subcommands.cleanup as cl
    import jug.task
    from jugverif import jugenv
    o = jugenv.options()
    o.cleanup_locks_only = mode == 'locksOnly'
    o.cleanup_failed_only = mode == 'failedOnly'
    o.cleanup_keep_locks = mode == 'keepLocks'
    out = []
    o.print_out = lambda *a: out.append(' '.join(str(x) for x in a))
    saved = jug.task.alltasks[:]
    jug.task.alltasks[:] = [TaskStub(keyname(k)) for k in active]
    try:
        store = cfg.open()
        cl.cleanup.run(store=store, options=o)
        try:
            store.close()
        except Exception:
            pass
    finally:
        jug.task.alltasks[:] = saved
    return out


def many_keys_lock_cleanup(run):
    """stores with dozens of results and locks (more than any page / batch size of a backend): `cleanup --locks-only` removes every lock and
    nothing else, `cleanup --failed-only` exactly the failed ones"""
    import hashlib
    scratch = core.scratch_dir()
    try:
        for kind in ('redis', 'file', 'dict'):
            for mode in ('locksOnly', 'failedOnly'):
                # the store lives below a directory whose name is full of characters that mean something to glob / fnmatch / regular expressions
                cfg = Cfg(kind, os.path.join(scratch, 'exp[1]*run?{a,b}+(x)', '%s-%s' % (kind, mode)))
                os.makedirs(os.path.join(scratch, 'exp[1]*run?{a,b}+(x)', '%s-%s' % (kind, mode)), exist_ok=True)
                store = cfg.open()
                names = [hashlib.sha1(b'many-%d' % j).hexdigest().encode() for j in range(45)]
                for j, nm in enumerate(names[:30]):
                    store.dump(j, nm)
                held, failed = names[25:36], names[36:45]
                for nm in held + failed:
                    assert store.getlock(nm).get()
                for nm in failed:
                    store.getlock(nm).fail()
                # residue of a process killed inside a pack rewrite, and a lock whose name is no task identifier: locks like any other
                odd = [b'pack-save', b'not-a-task-hash']
                if mode == 'locksOnly':
                    for nm in odd:
                        assert store.getlock(nm).get()
                    held = held + odd
                saved_key = globals()['keyname']
                try:
                    real_cleanup(cfg, mode, [])
                finally:
                    pass
                st2 = cfg.open()
                left = [nm for nm in held + failed if st2.getlock(nm).is_locked()]
                exp = [] if mode == 'locksOnly' else list(held)
                lost = [nm for nm in names[:30] if not st2.can_load(nm)]
                run.case(('many-keys', kind, mode), nontrivial=True)
                run.count('many_keys_cleanups')
                rp = {'kind': 'many-keys-cleanup', 'backend': kind, 'mode': mode}
                if kind == 'file' and mode == 'locksOnly':
                    ldir = os.path.join(cfg.dir, 'locks')
                    residue = sorted(os.listdir(ldir)) if os.path.isdir(ldir) else []
                    if residue:
                        run.fail('cleanup-locks:locksOnly:residue', 'cleanup --locks-only on a file store leaves %s in the locks directory (locks held by a process killed inside a pack rewrite / '
                                 'with names that are no task identifiers must go too: a later pack rewrite waits for pack-save forever)' % residue, rp)
                if sorted(left) != sorted(exp):
                    run.fail('cleanup-locks:%s:many' % mode, 'cleanup mode %s on a %s store with 30 results, 11 held and 9 failed locks: %d locks remain (expected %d: %s)'
                             % (mode, kind, len(left), len(exp), 'none' if mode == 'locksOnly' else 'the held ones'), rp)
                if lost:
                    run.fail('cleanup-removes-results:%s:many' % mode, 'cleanup mode %s on a %s store removed %d results' % (mode, kind, len(lost)), rp)
    finally:
        core.rm_rf(scratch)


def tidy_store_cleanup(run):
    """a store that holds nothing but results of the current jugfile (nothing for cleanup to delete) and some locks: the default mode still removes every lock,
    --keep-locks leaves them all, no result is touched"""
    scratch = core.scratch_dir()
    try:
        for kind in ('redis', 'file', 'dict', 'filez'):
            for mode in ('default', 'keepLocks'):
                d = os.path.join(scratch, 'tidy-%s-%s' % (kind, mode))
                os.makedirs(d, exist_ok=True)
                cfg = Cfg(kind, d)
                store = cfg.open()
                for k in range(NKEYS):
                    store.dump(k + 1, keyname(k))
                for k in (0, 2):
                    assert store.getlock(keyname(k)).get()
                store.getlock(keyname(2)).fail()
                real_cleanup(cfg, mode, list(range(NKEYS)))
                st2 = cfg.open()
                left = [k for k in (0, 2) if st2.getlock(keyname(k)).is_locked()]
                lost = [k for k in range(NKEYS) if not st2.can_load(keyname(k))]
                run.case(('tidy-cleanup', kind, mode), nontrivial=True)
                run.count('tidy_store_cleanups')
                rp = {'kind': 'tidy-store-cleanup', 'backend': kind, 'mode': mode}
                exp = [] if mode == 'default' else [0, 2]
                if left != exp:
                    run.fail('cleanup-locks:%s:tidy' % mode, 'cleanup mode %s on a %s store that holds only results of the current jugfile, one held and one failed lock: locks remaining afterwards on keys %s, expected %s'
                             % (mode, kind, left, exp), rp)
                if lost:
                    run.fail('cleanup-removes-results:%s:tidy' % mode, 'cleanup mode %s on a %s store removed needed results %s' % (mode, kind, lost), rp)
    finally:
        core.rm_rf(scratch)


def large_store_cleanup(run, nforeign=2600):
    """a store that holds thousands of results of other / older jugfiles (more than any batch size): the default and --keep-locks modes remove
    every one of them and none of the current jugfile's"""
    scratch = core.scratch_dir()
    try:
        for kind, mode in (('redis', 'default'), ('redis', 'keepLocks'), ('file', 'default'), ('dict', 'keepLocks')):
            d = os.path.join(scratch, 'large-%s-%s' % (kind, mode))
            os.makedirs(d, exist_ok=True)
            cfg = Cfg(kind, d)
            store = cfg.open()
            nactive = 24
            for k in range(nactive + nforeign):
                store.dump(k, keyname(k))
            assert store.getlock(keyname(3)).get()
            assert store.getlock(keyname(nactive + 5)).get()
            try:
                store.close()
            except Exception:
                pass
            real_cleanup(cfg, mode, list(range(nactive)))
            st2 = cfg.open()
            left = [k for k in range(nactive, nactive + nforeign) if st2.can_load(keyname(k))]
            lost = [k for k in range(nactive) if not st2.can_load(keyname(k)) or st2.load(keyname(k)) != k]
            locks = [k for k in (3, nactive + 5) if st2.getlock(keyname(k)).is_locked()]
            run.case(('large-store', kind, mode), nontrivial=True)
            run.count('large_store_cleanups')
            rp = {'kind': 'large-store-cleanup', 'backend': kind, 'mode': mode, 'foreign': nforeign, 'active': nactive}
            if left:
                run.fail('cleanup-leaves-foreign:%s:large' % mode, '`jug cleanup` (%s) on a %s store with %d results of the jugfile and %d others: %d of the others are still stored afterwards (e.g. %s)'
                         % (mode, kind, nactive, nforeign, len(left), keyname(left[0]).decode()), rp)
            if lost:
                run.fail('cleanup-removes-needed:%s:large' % mode, '`jug cleanup` (%s) on a %s store with %d results of the jugfile and %d others removed %d needed results' % (mode, kind, nactive, nforeign, len(lost)), rp)
            if locks != ([3, nactive + 5] if mode == 'keepLocks' else []):
                run.fail('cleanup-locks:%s:large' % mode, '`jug cleanup` (%s) on a large %s store: locks left %s' % (mode, kind, locks), rp)
            core.rm_rf(d)
    finally:
        core.rm_rf(scratch)


def cleanup_family(run, drv, n):
    rng = core.rng_for(run.seed, 'c10')
    scratch = core.scratch_dir()
    try:
        for i in range(n):
            kind = ['file', 'filez', 'dictfile', 'redis', 'dict'][i % 5]
            mode = ['default', 'keepLocks', 'locksOnly', 'failedOnly'][(i // 5) % 4]
            d = os.path.join(scratch, 'c%d' % i)
            os.makedirs(os.path.join(d, 'x'))
            spelling = ['abs', 'special-names', 'rel', 'dot', 'dslash', 'trail', 'dotdot'][(i // 5) % 7] if kind in ('file', 'filez') else None
            cfg = Cfg(kind, d, spelling)
            st = build_state(cfg, rng)
            active = sorted(rng.sample(range(NKEYS), rng.randint(0, NKEYS)))
            before = observe(cfg)
            rp = {'kind': 'cleanup', 'backend': kind, 'mode': mode, 'state': st, 'active': active, 'jugdir_spelling': spelling}
            made = {str(k): v for k, v in st['locks'].items()}
            if before['locks'] != made:
                run.fail('lock-state-misread', '%s store: the holders left the locks %s (taken, or taken and marked failed%s) but is_locked() / is_failed() of a new client report %s: cleanup --failed-only would %s'
                         % (kind, made, '; the lock files were read by somebody since' if st.get('lock_files_read') else '', before['locks'],
                            'leave failed locks in place' if any(v == 'failed' and before['locks'].get(k) != 'failed' for k, v in made.items()) else 'treat them wrongly'), rp)
            run.count('spelling_%s' % spelling)
            try:
                out = real_cleanup(cfg, mode, active)
            except Exception as e:
                run.fail('cleanup-raises', '`jug cleanup` (%s) on the %s store raised %s: %s; contents %s' % (mode, kind, type(e).__name__, e, st), rp)
                core.rm_rf(d)
                continue
            after = observe(cfg)
            allres = dict(before['res'])
            nontriv = any(int(k) in active for k in allres) and any(int(k) not in active for k in allres) and bool(before['locks'])
            run.case((kind, mode, i, run.seed), nontrivial=nontriv)
            run.count('mode_' + mode)
            # the property, directly
            if mode in ('default', 'keepLocks'):
                exp_res = {k: v for k, v in allres.items() if int(k) in active}
            else:
                exp_res = allres
            if after['res'] != exp_res:
                lost = sorted(set(exp_res) - set(after['res']))
                kept = sorted(set(after['res']) - set(exp_res))
                run.fail('cleanup-results:%s' % mode, 'cleanup mode %s on the %s store (active %s): results before %s, after %s; needed results lost: %s, unneeded results kept: %s' % (mode, kind, active, sorted(allres), sorted(after['res']), lost, kept), rp)
            exp_locks = {'default': {}, 'keepLocks': before['locks'], 'locksOnly': {}, 'failedOnly': {k: v for k, v in before['locks'].items() if v != 'failed'}}[mode]
            if after['locks'] != exp_locks:
                run.fail('cleanup-locks:%s' % mode, 'cleanup mode %s on the %s store: locks before %s, after %s, expected %s' % (mode, kind, before['locks'], after['locks'], exp_locks), rp)
            if sorted(int(k) for k in after['res']) != after['listed']:
                run.fail('cleanup-list', 'after cleanup list() = %s but loadable keys are %s' % (after['listed'], sorted(after['res'])), rp)
            if drv is not None:
                ans = drv.ask({'op': 'cleanup', 'U': list(range(NKEYS)), 'files': {str(k): v for k, v in st['files'].items()}, 'packed': {str(k): v for k, v in st['packed'].items()},
                               'locks': {str(k): v for k, v in st['locks'].items()}, 'temps': st['temps'], 'mode': mode, 'active': active})
                run.corr_programs += 1
                if ans.get('res') != after['res'] or ans.get('locks') != after['locks'] or (kind in ('file', 'filez') and ans.get('temps') != after['temps']):
                    run.corr_disagreements += 1
                    run.obligation('correspondence cleanup model=code (%s, %s)' % (kind, mode), False, 'model %s code %s state %s active %s' % (json.dumps(ans)[:300], json.dumps({k: after[k] for k in ('res', 'locks', 'temps')})[:300], json.dumps(st)[:300], active))
            if len(run.samples) < 3 and nontriv:
                run.sample({'backend': kind, 'mode': mode, 'active': active, 'before': before, 'after': after})
            core.rm_rf(d)
    finally:
        core.rm_rf(scratch)


def stale_cleanup_family(run, n=4):
    """`jug cleanup` opens the store (reads the pack) before the jugfile is imported; a `jug pack` that completes in between must not be undone"""
    scratch = core.scratch_dir()
    try:
        for i in range(n):
            kind = ['file', 'filez'][i % 2]
            mode_kl = bool(i // 2 % 2)
            d = os.path.join(scratch, 'sc%d' % i)
            os.makedirs(d)
            cfg = Cfg(kind, d)
            w = cfg.open()
            for k in range(NKEYS):
                w.dump(k * 3, keyname(k))
            a = cfg.open()                  # the cleanup process: store opened, pack (empty) read
            cfg.open().update_pack()        # meanwhile: jug pack
            a.cleanup([TaskStub(keyname(k)) for k in range(NKEYS)], keeplocks=mode_kl)
            fresh = cfg.open()
            lost = [k for k in range(NKEYS) if not fresh.can_load(keyname(k))]
            run.case(('stale-cleanup', i, run.seed), nontrivial=True)
            run.count('stale_cleanup_cases')
            if lost:
                run.fail('cleanup-loses-packed', 'cleanup (store opened before a concurrent `jug pack` finished) deleted needed results %s' % lost, {'kind': 'stale-cleanup', 'backend': kind})
            core.rm_rf(d)
            # the other way round: the cleanup process has read a pack that holds every result; before it gets to work another process invalidates one
            # result and a worker recomputes it (a loose file now, no longer in the pack file); nothing the jugfile defines may be removed
            d = os.path.join(scratch, 'sd%d' % i)
            os.makedirs(d)
            cfg = Cfg(kind, d)
            w = cfg.open()
            for k in range(NKEYS):
                w.dump(k * 3, keyname(k))
            w.update_pack()
            a = cfg.open()                  # the cleanup process: store opened, pack (all keys) read
            b = cfg.open()
            b.remove(keyname(1))            # meanwhile: jug invalidate ...
            cfg.open().dump('recomputed', keyname(1))   # ... and a worker stores the new result
            a.cleanup([TaskStub(keyname(k)) for k in range(NKEYS)], keeplocks=mode_kl)
            fresh = cfg.open()
            lost = [k for k in range(NKEYS) if not fresh.can_load(keyname(k))]
            run.case(('stale-cleanup-recomputed', i, run.seed), nontrivial=True)
            run.count('stale_cleanup_cases')
            if lost:
                run.fail('cleanup-loses-recomputed', 'cleanup by a process that opened the %s store before another process invalidated and recomputed a packed result deleted the needed results %s '
                         '(every key is defined by the jugfile)' % (kind, lost), {'kind': 'stale-cleanup-recomputed', 'backend': kind, 'keep_locks': mode_kl})
            elif fresh.load(keyname(1)) != 'recomputed':
                run.fail('cleanup-resurrects-old', 'after that cleanup the recomputed result loads as %r' % (fresh.load(keyname(1)),), {'kind': 'stale-cleanup-recomputed', 'backend': kind})
            core.rm_rf(d)
    finally:
        core.rm_rf(scratch)


def large_value_family(run, quick=True):
    """values far above every buffer / block / threshold of the backends (tens of MiB): arrays of plain and of object dtype, a long byte string, a long list, single strings and integers of hundreds of KiB (alone and inside a dict, at sizes just around powers of two); dumped, loaded
    back through a fresh store object - same type (exactly: an ndarray comes back as an ndarray, not as a view of a mapped file), dtype, shape, content; after a reopen too"""
    scratch = core.scratch_dir()
    try:
        n = 2_200_000 if quick else 9_000_000
        values = [('float64 array, %d MiB' % (n * 8 >> 20), np.arange(n, dtype='f8') * 0.5),
                  ('int32 2-d array', (np.arange(n // 2, dtype='<i4') % 1000).reshape(-1, 4)),
                  ('object array', np.array([('s%d' % (i % 7)) if i % 3 else i for i in range(n // 8)], dtype=object)),
                  ('bytes', bytes(range(256)) * (n // 64)),
                  ('list of ints', list(range(n // 4))),
                  ('one long str (%d KiB of UTF-8)' % ((n // 16) * 5 >> 10), 'ab\u20ac' * (n // 16)),
                  ('dict with strs just around 2**16 / 2**18 / 2**20 characters and a 3-Mbit int', dict([('s%d' % k, 'q' * k) for b in (16, 18, 20) for k in ((1 << b) - 1, 1 << b, (1 << b) + 1)] + [('n', (1 << (3 << 20)) + 12345), ('small', [1, 2.5, None])]))]
        for kind in ('file', 'filez', 'redis', 'dictfile'):
            d = os.path.join(scratch, 'large-' + kind)
            os.makedirs(d, exist_ok=True)
            cfg = Cfg(kind, d)
            for j, (label, v) in enumerate(values):
                if quick and kind in ('redis', 'dictfile') and j not in (0, 2, 5, 6):
                    continue
                key = keyname(j)
                rp = {'kind': 'large-value', 'backend': kind, 'value': label}
                run.case(('large', kind, label), nontrivial=True)
                run.count('large_values')
                try:
                    w = cfg.open()
                    w.dump(v, key)
                    if kind == 'dictfile':
                        w.close()
                    r = cfg.open()
                    got = r.load(key)
                except Exception as e:
                    run.fail('large-value-raises', '%s store: dump / load of a large value (%s) raised %s: %s' % (kind, label, type(e).__name__, str(e)[:200]), rp)
                    continue
                same = type(got) is type(v)
                if same and isinstance(v, np.ndarray):
                    same = got.dtype == v.dtype and got.shape == v.shape and (np.array_equal(got, v) if not v.dtype.hasobject else got.tolist() == v.tolist())
                elif same:
                    same = got == v
                if not same:
                    run.fail('large-value-differs', '%s store: a large value (%s, type %s) comes back as %s%s' % (kind, label, type(v).__name__, type(got).__name__,
                                                                                                                  '' if type(got) is not type(v) else ' with other dtype / shape / content'), rp)
                try:
                    r.remove(key)
                    if kind == 'dictfile':
                        r.close()
                except Exception:
                    pass
            core.rm_rf(d)
    finally:
        core.rm_rf(scratch)


def replay(path, prop):
    d = json.load(open(path))
    print(d['what'][:800])
    print(json.dumps(d['replay'])[:1500])
    return 1
