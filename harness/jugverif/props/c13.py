"""C13 - after a hard crash, completed work survives and the computation can be finished"""
import os
import random

from jugverif import core, execchecks as X, execengine as E, lib, sched

LEVEL = 'proof'
THEOREMS = ['Jug.C13.recovery_completes', 'Jug.C13.recovery_state_ok', 'Jug.C13.crash_always_enabled', 'Jug.C13.crash_preserves', 'Jug.C13.crash_keeps_results_correct', 'Jug.C13.residue_is_own_locks',
            'Jug.C13.survivors_skip', 'Jug.C13.recovery', 'Jug.C13.recovery_no_rerun', 'Jug.C13.recovered_task_can_be_locked', 'Jug.LoopBridge.recovery_completes_of_loop_workers']


def cleanup_locks_only(backend):
    """the real `jug cleanup --locks-only`"""
    import jug.subcommands.cleanup as cl
    from jugverif import jugenv
    o = jugenv.options()
    o.cleanup_locks_only = True
    o.cleanup_failed_only = False
    out = []
    o.print_out = lambda *a: out.append(' '.join(str(x) for x in a))
    cl.cleanup.run(store=backend.store(), options=o)
    return out


def run_one(run, drv, P, scratch, params):
    c = X.run_params(P, scratch, params, X.newtag())
    killed = {w for w, r in c.results.items() if r == ('killed',)}
    c.killed = killed
    # locks the dead workers held when they died
    held = {}
    attempting = {}
    for e in c.trace:
        if e[0] == 'lockAttempt':
            attempting[e[1]] = e[2]
        elif e[0] == 'lock':
            attempting.pop(e[1], None)
            if e[3]:
                held[e[1]] = e[2]
        elif e[0] == 'unlock':
            held.pop(e[1], None)
    # a worker killed inside lock.get() may or may not have created the lock file already
    dead_locks = {t for w, t in held.items() if w in killed} | {t for w, t in attempting.items() if w in killed}
    # 1. complete results survive and are correct
    dumped = {e[2] for e in c.trace if e[0] == 'dump'} | set(c.res0)
    for t in sorted(dumped - set(c.final)):
        X.fail_case(run, 'result-lost', 'the result of task %d was stored before the crash but is not loadable afterwards' % t, P, params)
    X.check_values_complete(run, P, c, params, expect_complete=False)
    # 2. the only residue: the dead worker's locks (and temp files)
    extra = set(c.locks) - dead_locks
    if extra:
        X.fail_case(run, 'foreign-residue', 'locks %s remain that were not held by a killed worker (killed workers held %s)' % ({t: c.locks[t] for t in extra}, sorted(dead_locks)), P, params)
    missing_locks = dead_locks - set(c.locks)
    for w, r in c.results.items():
        if w not in killed and r != ('ret', False):
            X.fail_case(run, 'survivor-affected', 'surviving worker %d ended with %s' % (w, r), P, params)
    # 3. survivors completed everything that does not depend on a locked task
    blocked = E.closure_reads(P['info'], dead_locks - set(c.final))
    if len(killed) < params['nworkers']:
        missing = [t for t in range(P['n']) if t not in blocked and t not in c.final]
        if missing:
            X.fail_case(run, 'survivors-incomplete', 'survivors did not complete tasks %s which do not depend on the dead worker\'s locked tasks %s' % (missing[:5], sorted(dead_locks)), P, params)
    X.model_check(run, drv, P, c, 'run with killed workers', params)
    # 4. recovery: cleanup --locks-only, then a fresh execute
    before = dict(c.final)
    try:
        out = cleanup_locks_only(c.backend)
    except Exception as e:
        X.fail_case(run, 'cleanup-locks-only-raises', '`jug cleanup --locks-only` after a kill raised %s: %s (locks %s)' % (type(e).__name__, e, c.locks), P, params)
        return c
    final_r, locks_r = X.final_state(P, c.backend)
    if locks_r:
        X.fail_case(run, 'cleanup-locks-only', 'cleanup --locks-only left locks %s (%s)' % (locks_r, out), P, params)
    if final_r != before:
        X.fail_case(run, 'cleanup-touched-results', 'cleanup --locks-only changed the stored results', P, params)
    nw2 = 1 + params['sched_seed'] % 2
    trace2, results2, _ = X.second_execute(P, c.backend, nw2, random.Random(params['sched_seed'] + 9), P['index'])
    final2, locks2 = X.final_state(P, c.backend)
    if len(final2) != P['n'] or locks2 or any(final2[i] != P['info'][i]['value'] for i in final2):
        X.fail_case(run, 'recovery-incomplete', 'after lock cleanup a fresh execute did not complete the computation: %d of %d stored, locks %s, results %s' % (len(final2), P['n'], locks2, results2), P, params)
    redone = {e[2] for e in trace2 if e[0] == 'begin'} & set(before)
    if redone:
        X.fail_case(run, 'recovery-reruns-finished', 'the recovery run re-executed tasks %s that had completed before the crash' % sorted(redone), P, params)
    if drv is not None:
        nw0 = params['nworkers']
        shifted = [(e[0], e[1] + nw0) + tuple(e[2:]) for e in trace2]
        X.model_check(run, drv, P, c, 'crash, lock cleanup, recovery run', params, extra_events=list(c.trace) + [('removeLocks',)] + shifted, nworkers=nw0 + nw2)
    return c


def check(run):
    quick = run.tier == 'quick'
    run.rule = ('generated jugfiles x 1-3 gated workers of which one (sometimes two) is killed at its k-th gate - k ranges over every store/lock operation boundary and function entry/exit '
                'of the worker (quick: a sample of k) - x backends (dict, file, file+pack, redis protocol); monitors: every result stored before the kill is loadable and correct, remaining '
                'locks are exactly those the dead worker held, survivors finish everything not depending on them, the real `cleanup --locks-only` removes only locks, a fresh execute '
                'completes with correct values and re-runs nothing finished; whole history (crash, removeLocks, recovery) replayed through the Lean model; file-system level kill points '
                'inside a write are C05; thorough adds real SIGKILL of real processes; non-trivial = the worker died holding a lock; distinct by (program, params)')
    drv = X.setup(run, THEOREMS)
    X.loop_correspondence(run, drv)
    rng = core.rng_for(run.seed, 'c13')
    scratch = core.scratch_dir()
    try:
        nprog = 10 if quick else 60
        for pi in range(nprog):
            P = E.prepare(rng, scratch, rng.choice([4, 6, 9]) if quick else rng.choice([4, 6, 9, 14]))
            # how many gates does a lone worker pass?
            probe = X.run_params(P, scratch, {'backend': 'file', 'nworkers': 1, 'sched_seed': 1, 'fs_gates': True}, X.newtag())
            ngates = sum(probe.gates.values()) + 2
            ks = list(range(1, ngates + 1))
            if quick:
                ks = rng.sample(ks, min(7, len(ks)))
            for j, k in enumerate(ks):
                nw = rng.choice([1, 2, 2, 3])
                kp = {0: k}
                if nw == 3 and rng.random() < 0.3:
                    kp[1] = rng.randint(1, ngates)
                params = {'backend': X.BACKENDS[j % 4], 'nworkers': nw, 'sched_seed': rng.randrange(10 ** 9), 'kill_plan': kp, 'fs_gates': X.BACKENDS[j % 4] in ('file', 'filepack'),
                          'pre_done': max(1, P['n'] // 3) if X.BACKENDS[j % 4] == 'filepack' else 0, 'flags': {w: [False, False, rng.random() < 0.3] for w in range(nw)}}
                c = run_one(run, drv, P, scratch, params)
                run.case((pi, k, run.seed), nontrivial=bool(c.locks))
                run.count('killed_workers', len(c.killed))
                run.count('kills_holding_lock', 1 if c.locks else 0)
                if len(run.samples) < 2 and c.locks:
                    i = next(kk for kk, e in enumerate(c.trace) if e[0] == 'crash')
                    run.sample({'params': params, 'events_before_kill': E.to_model_events(c.trace[max(0, i - 6):i + 1]), 'locks_left': c.locks})
            core.rm_rf(scratch)
            os.makedirs(scratch, exist_ok=True)
        from jugverif import procmode
        procmode.kill_family(run, rng, n=1 if quick else 10)
        # keep-alive backend, real processes: the orphan lock of a killed worker - by then old enough to count as failed - must go with
        # `cleanup --locks-only` like any other lock, and the recovery run must complete
        from jugverif.props import c19
        c19.dead_worker_cleanup(run, 1800, mode='locks-only')
        from jugverif import storecheck as _S
        _S.many_keys_lock_cleanup(run)
        if drv is not None and run.corr_disagreements == 0:
            run.obligation('trace validation: %d real histories with killed workers and recovery (%d events) accepted by the Lean model' % (run.counts.get('traces_validated', 0), run.counts.get('trace_events_validated', 0)), True)
    finally:
        core.rm_rf(scratch)
        if drv is not None:
            drv.close()


def replay(path):
    import json
    d = json.load(open(path))
    if d['replay'].get('kind') == 'process':
        import signal
        from jugverif import procmode
        p = d['replay']['params']
        obs = procmode.signal_case(p.get('n', 4), p['k'], signal.SIGKILL, barrier=p.get('barrier', False), set_jugdir=p.get('set_jugdir', False))
        run = core.Run('C13', 'quick')
        procmode.judge_kill(run, obs, p)
        print({k: v for k, v in obs.items() if k not in ('calls', 'calls_before')})
        for f in run.failures:
            print('FAILS:', f['what'])
        print('property FAILS on this input' if run.failures else 'property holds on this input')
        return 1 if run.failures else 0
    return X.replay(path, 'C13')
