"""C18 - a compound task equals its expansion and collapses once computed"""
import json
import os

import jug
import jug.task

from jugverif import core, lib, loadercheck as L, jugenv
from jugverif.props import c14

LEVEL = 'proof'
THEOREMS = ['Jug.C18.collapsed_defines_none', 'Jug.C18.expanded_defines_inner', 'Jug.C18.compound_value', 'Jug.C18.cleanup_keeps_compound', 'Jug.C18.collapsed_contributes_one', 'Jug.C18.compound_counts_for_barrier']


def status_rows(path, store, cached, cache_file):
    """the table the real `jug status` prints for the jugfile on this store object"""
    import jug.subcommands.status as st
    from jugverif import graphcheck as gc, jugenv
    o = jugenv.options()
    o.jugfile = path
    o.jugdir = store
    o.status_cache = cached
    o.status_cache_file = cache_file or ':memory:'
    o.status_cache_clear = False
    o.short = False
    out = []
    o.print_out = lambda *a: out.append(' '.join(str(x) for x in a))
    gc.reset_jug()
    try:
        st.status.run(options=o)
    finally:
        gc.reset_jug()
    return gc.parse_table(out)


def real_cleanup(store, tasks):
    import jug.subcommands.cleanup as cl
    o = jugenv.options()
    o.cleanup_locks_only = o.cleanup_failed_only = o.cleanup_keep_locks = False
    out = []
    o.print_out = lambda *a: out.append(' '.join(str(x) for x in a))
    jug.task.alltasks[:] = tasks
    try:
        cl.cleanup.run(store=store, options=o)
    finally:
        del jug.task.alltasks[:]
    return out


def check(run):
    quick = run.tier == 'quick'
    run.rule = ('generated jugfiles with compound tasks (whose builders create chains of inner tasks; several per file, mixed with barriers/bvalue) x store states at load time (nothing, some inner results, all inner results, '
                'compound value present with and without inner results): task list of the real jug.init vs the Lean loader, and the tables of the real `jug status` / `jug status --cache` on each such state (one entry per loaded task); sequences execute -> reload -> execute -> real cleanup -> reload -> execute on in-memory, file and '
                'redis-protocol stores: value of the compound = sequential evaluation at every stage, no inner task after collapse, nothing re-executed, cleanup removes the inner results and keeps the compound; '
                'non-trivial = a load in which one compound is collapsed and another expanded; distinct by (program, store state)')
    run.assumptions = ['compound building functions are deterministic and create tasks only', 'stores are sound (values are the reference values)']
    run.trusted = ['Lean 4.33.0 kernel', 'axioms propext, Quot.sound', 'harness/jugverif/loadercheck.py']
    run.lean(['JugModel.Props.C18', 'jugdrv'], theorems_expected=THEOREMS)
    drv = core.Driver() if run.driver_ok else None
    rng = core.rng_for(run.seed, 'c18')
    scratch = core.scratch_dir()
    try:
        nprog = 40 if quick else 300
        for pi in range(nprog):
            G = L.PGen(rng, rng.randint(4, 9), compound=True, barriers=(pi % 3 == 0)).gen()
            comps = [it for it in G.items if it[0] == 'compound']
            if not comps:
                continue
            plain = G.plain_values()
            rp0 = {'kind': 'compound', 'program': G.text()}
            try:
                R = c14.prepare(G, scratch, 'c%d' % pi)
            except Exception as e:
                run.fail('execute-does-not-complete', 'execute failed: %s: %s' % (type(e).__name__, e), rp0)
                continue
            missing_c = [it[1] for it in comps if it[1] not in R['key_hash']]
            if missing_c:
                run.fail('compound-not-in-task-list', 'after a complete execute the collapsed compound tasks %s are not in the task list of the reloaded jugfile (status/cleanup/check do not see them)' % missing_c, rp0)
                continue
            # 1. load against store states
            allkeys = sorted(R['values'])
            inner_of = {it[1]: [ik for ik, _ in it[2]] for it in comps}
            states = [[], allkeys]
            for c, inner in inner_of.items():
                base = [k for k in allkeys if k not in inner and k != c and k not in inner_of]
                states += [base + inner[:1], base + inner, base + inner + [c], base + [c]]
            for _ in range(4 if quick else 12):
                states.append([k for k in allkeys if rng.random() < 0.6])
            lock_states = set()
            for c, inner in inner_of.items():
                base = [k for k in allkeys if k not in inner and k != c and k not in inner_of]
                states.append(base + [c])
                lock_states.add(len(states) - 1)      # ... with a stale lock on the compound (its worker was killed after storing the value)
            for si, S in enumerate(states):
                S = sorted(set(k for k in S if k in R['values']))
                kind = ['dict', 'redis', 'file'][si % 3]
                s = c14.store_with(R, S, kind, scratch)
                if si in lock_states:
                    for c in inner_of:
                        if c in S:
                            s.getlock(R['key_hash'][c]).get()
                rp = {'kind': 'load', 'program': G.text(), 'present': S, 'backend': kind}
                try:
                    tasks, space, flag, marks, notes = L.real_load(R['path'], s)
                except BaseException as e:
                    run.fail('load-raises', 'loading fails with %s: %s (present %s)' % (type(e).__name__, e, S), rp)
                    jug.task.Task.store = None
                    continue
                got_keys = [R['hash_key'].get(t.hash(), -1) for t in tasks]
                # asking a task twice gives the same answer (the worker loop polls can_run() over and over while it waits)
                _saved_store = jug.task.Task.store
                jug.task.Task.store = s
                for t in tasks:
                    try:
                        d1 = sorted(x.hash() for x in t.dependencies() if hasattr(x, 'hash'))
                        c1 = bool(t.can_run())
                        d2 = sorted(x.hash() for x in t.dependencies() if hasattr(x, 'hash'))
                        c2 = bool(t.can_run())
                        c3 = bool(t.can_run())
                    except Exception as e:
                        run.fail('poll-raises', 'dependencies() / can_run() of task %s raised %s: %s (present %s)' % (t.name, type(e).__name__, e, S), rp)
                        break
                    if d1 != d2 or not (c1 == c2 == c3):
                        run.fail('poll-not-idempotent', 'task %s (key %s), store state %s: dependencies() reports %d tasks the first time and %d the second; can_run() answers %s, %s, %s on three consecutive calls '
                                 'with nothing changed in between' % (t.name, R['hash_key'].get(t.hash(), '?'), S, len(d1), len(d2), c1, c2, c3), rp)
                        break
                jug.task.Task.store = _saved_store
                # counted like any other: `jug status` (uncached and with a cache) sees exactly the tasks of the load, compound expanded or collapsed
                names_loaded = sorted(t.name for t in tasks)
                try:
                    _, r_u, t_u = status_rows(R['path'], s, False, None)
                    _, r_c, t_c = status_rows(R['path'], s, True, os.path.join(scratch, 'st-%d-%d.sqlite' % (pi, si)))
                    run.count('compound_status_tables')
                    per_name = {nm: names_loaded.count(nm) for nm in set(names_loaded)}
                    got_u = {k: sum(v) for k, v in r_u.items()}
                    if got_u != per_name:
                        run.fail('compound-miscounted', '`jug status` counts %s but the load has the tasks %s (store state %s)' % (got_u, per_name, S), rp)
                    elif (r_c, t_c) != (r_u, t_u):
                        run.fail('compound-miscounted', '`jug status --cache` prints %s / Total %s, uncached %s / Total %s (store state %s)' % (r_c, t_c, r_u, t_u, S), rp)
                except (Exception, SystemExit) as e:
                    run.fail('compound-status-raises', '`jug status` / `jug status --cache` on store state %s ends with %s: %s' % (S, type(e).__name__, str(e)[:200]), rp)
                finally:
                    from jugverif import graphcheck as _gc
                    _gc.reset_jug()
                    jug.task.Task.store = _saved_store
                collapsed = [c for c in inner_of if c in S and c in got_keys]
                expanded = [c for c in inner_of if c not in S and c in got_keys]
                run.case((pi, tuple(S), run.seed), nontrivial=bool(collapsed) and bool(expanded))
                for c in collapsed:
                    bad = [ik for ik in inner_of[c] if ik in got_keys]
                    if bad:
                        run.fail('inner-after-collapse', 'the value of compound %d is stored but loading still creates its inner tasks %s' % (c, bad), rp)
                for c in expanded:
                    missing = [ik for ik in inner_of[c] if ik not in got_keys]
                    if missing:
                        run.fail('inner-missing', 'compound %d has no stored value but its inner tasks %s are not in the task list' % (c, missing), rp)
                if got_keys.count(-1):
                    run.fail('unknown-task', 'loading created %d tasks that are neither inner nor compound nor ordinary tasks of the program' % got_keys.count(-1), rp)
                if drv is not None:
                    ans = drv.ask({'op': 'load', 'jf': G.model(), 'res': {str(k): lib.canon(R['values'][k]) for k in S}})
                    run.corr_programs += 1
                    if ans.get('tasks') != got_keys or ans.get('stopped') != flag:
                        run.corr_disagreements += 1
                        run.obligation('correspondence loader model=code (compound)', False, 'present %s: model %s code tasks %s flag %s; program %s' % (S, ans, got_keys, flag, json.dumps(G.lines)[:400]))
                if len(run.samples) < 2 and collapsed and expanded:
                    run.sample({'program': G.lines, 'present_keys': S, 'loaded_task_keys': got_keys, 'collapsed': collapsed, 'expanded': expanded})
            # 2. life cycle on a fresh store of each kind
            kind = ['dict', 'file', 'redis'][pi % 3]
            s = c14.store_with(R, [], kind, scratch)
            try:
                phases, tasks, space = L.run_to_completion(R['path'], s)
            except Exception as e:
                run.fail('execute-does-not-complete', 'execute on the %s store failed: %s: %s' % (kind, type(e).__name__, e), rp0)
                continue
            rpl = dict(rp0, kind='lifecycle', backend=kind)

            def values_ok(stage):
                tasks2, space2, flag2, _, _ = L.real_load(R['path'], s)
                jug.task.Task.store = s
                try:
                    for t in tasks2:
                        t.store = s
                    for name, val in plain.items():
                        got = jug.task.value(space2[name])
                        if lib.canon(got) != lib.canon(val):
                            run.fail('compound-value', '%s: %s = %s but the sequential evaluation gives %s' % (stage, name, lib.canon(got)[:100], lib.canon(val)[:100]), rpl)
                            return tasks2
                except Exception as e:
                    run.fail('compound-value', '%s: value() raises %s: %s' % (stage, type(e).__name__, e), rpl)
                finally:
                    jug.task.Task.store = None
                return tasks2
            tasks2 = values_ok('after execute')
            keys2 = [R['hash_key'].get(t.hash(), -1) for t in tasks2]
            leftover_inner = [ik for c in inner_of for ik in inner_of[c] if ik in keys2]
            if leftover_inner:
                run.fail('inner-after-collapse', 'after a complete execute reloading still creates inner tasks %s' % leftover_inner, rpl)
            # execute again: nothing runs
            phases2, _, _ = L.run_to_completion(R['path'], s)
            if any(p['ran'] for p in phases2):
                run.fail('rerun-executes', 'a second execute after collapse ran %d tasks' % sum(len(p['ran']) for p in phases2), rpl)
            # cleanup: inner results go, compound stays
            before = set(s.list())
            out = real_cleanup(s, tasks2)
            after = set(s.list())
            inner_hashes = {R['key_hash'][ik] for c in inner_of for ik in inner_of[c] if ik in R['key_hash']}
            comp_hashes = {R['key_hash'][c] for c in inner_of}
            if not comp_hashes <= after:
                run.fail('cleanup-removes-compound', 'cleanup after collapse removed the compound value (%s)' % out, rpl)
            if inner_hashes & after:
                run.fail('cleanup-keeps-inner', 'cleanup after collapse kept %d inner results (%s)' % (len(inner_hashes & after), out), rpl)
            values_ok('after cleanup')
            phases3, _, _ = L.run_to_completion(R['path'], s)
            if any(p['ran'] for p in phases3):
                run.fail('rerun-after-cleanup', 'execute after cleanup re-ran %d tasks' % sum(len(p['ran']) for p in phases3), rpl)
            run.count('lifecycles')
        kwargs_and_late_types_family(run, scratch)
        kwargs_and_late_types_family(run, scratch, first_flags=('--debug',))
        kwargs_and_late_types_family(run, scratch, first_flags=('--aggressive-unload',))
        if drv is not None and run.corr_disagreements == 0:
            run.obligation('correspondence: %d loads with compound tasks gave the task list of the model' % run.corr_programs, True)
    finally:
        core.rm_rf(scratch)
        if drv is not None:
            drv.close()


KWJUGFILE = '''import collections, os
from jug import TaskGenerator, CompoundTask
_log = os.path.join(os.path.dirname(os.path.abspath(__file__)), 'calls.log')
def _note(s):
    with open(_log, 'a') as f:
        f.write(s + '\\n')
@TaskGenerator
def part(i, scale=1):
    _note('part')
    return i * scale
@TaskGenerator
def total(xs, offset=0):
    _note('total')
    return sum(xs) + offset
def build(n, scale=1, offset=0):
    return total([part(i, scale=scale) for i in range(n)], offset=offset)
c1 = CompoundTask(build, 3)
c2 = CompoundTask(build, 3, scale=2)
c3 = CompoundTask(build, 3, scale=2, offset=5)
c4 = CompoundTask(build, 3, offset=5, scale=2)
c5 = CompoundTask(build, n=3)
@TaskGenerator
def make_rec(v):
    _note('make_rec')
    return Rec(v, str(v))
def build_rec(n):
    return make_rec(part(n))
r = CompoundTask(build_rec, 4)
# the type of r's value is defined below the line that creates r
Rec = collections.namedtuple('Rec', 'a b')
# building functions whose result is not a single task: plain values of several types (with inner tasks created on the way), containers mixing
# tasks and plain values, a mapped sequence
import numpy as np
from jug.mapreduce import map as jmap
def build_str(n):
    part(n)
    return 'report-%d.txt' % n
def build_arr(n):
    return np.arange(n) * 2
def build_set(n):
    return {1, n}
def build_range(n):
    return range(n)
def build_mixed(n):
    return (part(n), 'label', [part(n + 1), 2.5], {'k': part(n + 2)})
def build_none(n):
    part(n + 10)
    return None
def build_bytes(n):
    return b'ab' * n
def double(x):
    _note('double')
    return 2 * x
def build_map(n):
    return jmap(double, list(range(n)), map_step=2)
v1 = CompoundTask(build_str, 3)
v2 = CompoundTask(build_arr, 3)
v3 = CompoundTask(build_set, 3)
v4 = CompoundTask(build_range, 3)
v5 = CompoundTask(build_mixed, 3)
v6 = CompoundTask(build_none, 3)
v7 = CompoundTask(build_bytes, 2)
v8 = CompoundTask(build_map, 5)
# ordinary tasks that consume compounds: stored under an identifier that must be the same before and after the compounds collapse
@TaskGenerator
def consume(x, tag=0):
    _note('consume')
    return [x, tag]
u1 = consume(c1)
u2 = consume(c3, tag=c2)
'''

KWPROBE = '''import json, sys
import jug, jug.task
from jug.task import value
store, space = jug.init('jugfile.py', 'jugfile.jugdata')
names = sorted(t.name.split('.')[-1] for t in jug.task.alltasks)
vals = {}
for k in ('c1', 'c2', 'c3', 'c4', 'c5', 'r', 'v1', 'v2', 'v3', 'v4', 'v5', 'v6', 'v7', 'v8', 'u1', 'u2'):
    try:
        vals[k] = repr(value(space[k]))
    except Exception as e:
        vals[k] = 'EXC %s' % type(e).__name__
print('PROBE ' + json.dumps({'names': names, 'values': vals, 'stored': len(list(store.list()))}))
'''


def kwargs_and_late_types_family(run, scratch, first_flags=()):
    """compound tasks called with keyword arguments (the value depends on them; two calls that differ only there are different compounds), and a
    compound whose value is of a type the jugfile defines further down; real processes: execute, status, reload, execute again"""
    import subprocess
    import sys
    d = os.path.join(scratch, 'kwcompound' + ''.join(first_flags))
    os.makedirs(d)
    open(os.path.join(d, 'jugfile.py'), 'w').write(KWJUGFILE)
    open(os.path.join(d, 'probe.py'), 'w').write(KWPROBE)
    rp = {'kind': 'kw-compound', 'first_execute_flags': list(first_flags)}
    run.case(('kw-compound',) + tuple(first_flags), nontrivial=True)
    run.count('kw_compound_histories')
    want = {'c1': '3', 'c2': '6', 'c3': '11', 'c4': '11', 'c5': '3', 'r': "Rec(a=4, b='4')",
            'v1': "'report-3.txt'", 'v2': 'array([0, 2, 4])', 'v3': '{1, 3}', 'v4': 'range(0, 3)', 'v5': "(3, 'label', [4, 2.5], {'k': 5})", 'v6': 'None', 'v7': "b'abab'",
            'v8': '[0, 2, 4, 6, 8]', 'u1': '[3, 0]', 'u2': '[11, 6]'}

    def probe():
        env = dict(os.environ, PYTHONPATH=core.REPO + os.pathsep + os.environ.get('PYTHONPATH', ''))
        o = subprocess.run([sys.executable, 'probe.py'], cwd=d, env=env, stdout=subprocess.PIPE, stderr=subprocess.STDOUT, text=True, timeout=120).stdout
        line = [ln for ln in o.splitlines() if ln.startswith('PROBE ')]
        return json.loads(line[-1][6:]) if line else {'names': [], 'values': {'error': o[-300:]}, 'stored': -1}

    def ncalls():
        try:
            return len(open(os.path.join(d, 'calls.log')).read().split())
        except IOError:
            return 0
    common = ['--will-cite', '--nr-wait-cycles', '2', '--wait-cycle-time', '0']
    ex = L.jug_cli(['execute', 'jugfile.py'] + common + list(first_flags), d)
    if ex.returncode != 0:
        run.fail('kw-compound-execute', 'execute of the jugfile with keyword-argument compounds exits %d: %s' % (ex.returncode, ex.stdout[-400:]), rp)
        return
    calls1 = ncalls()
    p1 = probe()
    if p1['values'] != want:
        run.fail('compound-value', 'after execute the compounds have the values %s; their building functions give %s (c2..c5 differ from c1 only in keyword arguments; r is of a type defined below it)' % (p1['values'], want), rp)
        return
    inner = [n for n in p1['names'] if n in ('part', 'total', 'make_rec', 'double', '_jug_map')]
    if inner:
        run.fail('inner-after-collapse', 'after a complete execute, loading the jugfile still creates inner tasks %s' % inner, rp)
    for cmd in (['status', 'jugfile.py', '--will-cite'], ['check', 'jugfile.py', '--will-cite']):
        L.jug_cli(cmd, d)
    p2 = probe()
    if p2 != p1:
        run.fail('compound-lost-on-reload', 'after `jug status` and `jug check` (which only load the jugfile) a load gives tasks %s, values %s, %d stored results; before: tasks %s, values %s, %d stored results'
                 % (p2['names'], p2['values'], p2['stored'], p1['names'], p1['values'], p1['stored']), rp)
    L.jug_cli(['execute', 'jugfile.py'] + common, d)
    if ncalls() != calls1:
        run.fail('rerun-executes', 'a second execute after collapse (the first one ran with %s) called %d more task functions: consumers of a compound are stored under another identifier once it has collapsed' % (' '.join(first_flags) or 'no extra flags', ncalls() - calls1), rp)
    core.rm_rf(d)


def replay(path):
    d0 = json.load(open(path))
    if d0.get('replay', {}).get('kind') == 'kw-compound':
        print(d0['what'])
        sc = core.scratch_dir()
        try:
            return core.replay_family('C18', d0['key'], lambda run_: kwargs_and_late_types_family(run_, sc))
        finally:
            core.rm_rf(sc)
    d = json.load(open(path))
    print(d['what'][:1000])
    print(d['replay'].get('program', ''))
    print({k: v for k, v in d['replay'].items() if k != 'program'})
    return 1
