"""C18 - a compound task equals its expansion and collapses once computed"""
import json
import os

import jug
import jug.task

from jugverif import core, lib, loadercheck as L, jugenv
from jugverif.props import c14

LEVEL = 'proof'
THEOREMS = ['Jug.C18.collapsed_defines_none', 'Jug.C18.expanded_defines_inner', 'Jug.C18.compound_value', 'Jug.C18.cleanup_keeps_compound', 'Jug.C18.collapsed_contributes_one', 'Jug.C18.compound_counts_for_barrier']


def real_cleanup(store, tasks):
    import jug.subcommands.cleanup as cl
    o = jugenv.options()
    o.cleanup_locks_only = o.cleanup_failed_only = o.cleanup_keep_locks = False
    out = []
    o.print_out = lambda *a: out.append(' '.join(str(x) for x in a))
    jug.task.alltasks[:] = tasks
    try:
        cl.cleanup.run(store=store, options=o)
    finally:
        del jug.task.alltasks[:]
    return out


def check(run):
    quick = run.tier == 'quick'
    run.rule = ('generated jugfiles with compound tasks (whose builders create chains of inner tasks; several per file, mixed with barriers/bvalue) x store states at load time (nothing, some inner results, all inner results, '
                'compound value present with and without inner results): task list of the real jug.init vs the Lean loader; sequences execute -> reload -> execute -> real cleanup -> reload -> execute on in-memory, file and '
                'redis-protocol stores: value of the compound = sequential evaluation at every stage, no inner task after collapse, nothing re-executed, cleanup removes the inner results and keeps the compound; '
                'non-trivial = a load in which one compound is collapsed and another expanded; distinct by (program, store state)')
    run.assumptions = ['compound building functions are deterministic and create tasks only', 'stores are sound (values are the reference values)']
    run.trusted = ['Lean 4.33.0 kernel', 'axioms propext, Quot.sound', 'harness/jugverif/loadercheck.py']
    run.lean(['JugModel.Props.C18', 'jugdrv'], theorems_expected=THEOREMS)
    drv = core.Driver() if run.driver_ok else None
    rng = core.rng_for(run.seed, 'c18')
    scratch = core.scratch_dir()
    try:
        nprog = 40 if quick else 300
        for pi in range(nprog):
            G = L.PGen(rng, rng.randint(4, 9), compound=True, barriers=(pi % 3 == 0)).gen()
            comps = [it for it in G.items if it[0] == 'compound']
            if not comps:
                continue
            plain = G.plain_values()
            rp0 = {'kind': 'compound', 'program': G.text()}
            try:
                R = c14.prepare(G, scratch, 'c%d' % pi)
            except Exception as e:
                run.fail('execute-does-not-complete', 'execute failed: %s: %s' % (type(e).__name__, e), rp0)
                continue
            missing_c = [it[1] for it in comps if it[1] not in R['key_hash']]
            if missing_c:
                run.fail('compound-not-in-task-list', 'after a complete execute the collapsed compound tasks %s are not in the task list of the reloaded jugfile (status/cleanup/check do not see them)' % missing_c, rp0)
                continue
            # 1. load against store states
            allkeys = sorted(R['values'])
            inner_of = {it[1]: [ik for ik, _ in it[2]] for it in comps}
            states = [[], allkeys]
            for c, inner in inner_of.items():
                base = [k for k in allkeys if k not in inner and k != c and k not in inner_of]
                states += [base + inner[:1], base + inner, base + inner + [c], base + [c]]
            for _ in range(4 if quick else 12):
                states.append([k for k in allkeys if rng.random() < 0.6])
            lock_states = set()
            for c, inner in inner_of.items():
                base = [k for k in allkeys if k not in inner and k != c and k not in inner_of]
                states.append(base + [c])
                lock_states.add(len(states) - 1)      # ... with a stale lock on the compound (its worker was killed after storing the value)
            for si, S in enumerate(states):
                S = sorted(set(k for k in S if k in R['values']))
                kind = ['dict', 'redis', 'file'][si % 3]
                s = c14.store_with(R, S, kind, scratch)
                if si in lock_states:
                    for c in inner_of:
                        if c in S:
                            s.getlock(R['key_hash'][c]).get()
                rp = {'kind': 'load', 'program': G.text(), 'present': S, 'backend': kind}
                try:
                    tasks, space, flag, marks, notes = L.real_load(R['path'], s)
                except BaseException as e:
                    run.fail('load-raises', 'loading fails with %s: %s (present %s)' % (type(e).__name__, e, S), rp)
                    jug.task.Task.store = None
                    continue
                got_keys = [R['hash_key'].get(t.hash(), -1) for t in tasks]
                collapsed = [c for c in inner_of if c in S and c in got_keys]
                expanded = [c for c in inner_of if c not in S and c in got_keys]
                run.case((pi, tuple(S), run.seed), nontrivial=bool(collapsed) and bool(expanded))
                for c in collapsed:
                    bad = [ik for ik in inner_of[c] if ik in got_keys]
                    if bad:
                        run.fail('inner-after-collapse', 'the value of compound %d is stored but loading still creates its inner tasks %s' % (c, bad), rp)
                for c in expanded:
                    missing = [ik for ik in inner_of[c] if ik not in got_keys]
                    if missing:
                        run.fail('inner-missing', 'compound %d has no stored value but its inner tasks %s are not in the task list' % (c, missing), rp)
                if got_keys.count(-1):
                    run.fail('unknown-task', 'loading created %d tasks that are neither inner nor compound nor ordinary tasks of the program' % got_keys.count(-1), rp)
                if drv is not None:
                    ans = drv.ask({'op': 'load', 'jf': G.model(), 'res': {str(k): lib.canon(R['values'][k]) for k in S}})
                    run.corr_programs += 1
                    if ans.get('tasks') != got_keys or ans.get('stopped') != flag:
                        run.corr_disagreements += 1
                        run.obligation('correspondence loader model=code (compound)', False, 'present %s: model %s code tasks %s flag %s; program %s' % (S, ans, got_keys, flag, json.dumps(G.lines)[:400]))
                if len(run.samples) < 2 and collapsed and expanded:
                    run.sample({'program': G.lines, 'present_keys': S, 'loaded_task_keys': got_keys, 'collapsed': collapsed, 'expanded': expanded})
            # 2. life cycle on a fresh store of each kind
            kind = ['dict', 'file', 'redis'][pi % 3]
            s = c14.store_with(R, [], kind, scratch)
            try:
                phases, tasks, space = L.run_to_completion(R['path'], s)
            except Exception as e:
                run.fail('execute-does-not-complete', 'execute on the %s store failed: %s: %s' % (kind, type(e).__name__, e), rp0)
                continue
            rpl = dict(rp0, kind='lifecycle', backend=kind)

            def values_ok(stage):
                tasks2, space2, flag2, _, _ = L.real_load(R['path'], s)
                jug.task.Task.store = s
                try:
                    for t in tasks2:
                        t.store = s
                    for name, val in plain.items():
                        got = jug.task.value(space2[name])
                        if lib.canon(got) != lib.canon(val):
                            run.fail('compound-value', '%s: %s = %s but the sequential evaluation gives %s' % (stage, name, lib.canon(got)[:100], lib.canon(val)[:100]), rpl)
                            return tasks2
                except Exception as e:
                    run.fail('compound-value', '%s: value() raises %s: %s' % (stage, type(e).__name__, e), rpl)
                finally:
                    jug.task.Task.store = None
                return tasks2
            tasks2 = values_ok('after execute')
            keys2 = [R['hash_key'].get(t.hash(), -1) for t in tasks2]
            leftover_inner = [ik for c in inner_of for ik in inner_of[c] if ik in keys2]
            if leftover_inner:
                run.fail('inner-after-collapse', 'after a complete execute reloading still creates inner tasks %s' % leftover_inner, rpl)
            # execute again: nothing runs
            phases2, _, _ = L.run_to_completion(R['path'], s)
            if any(p['ran'] for p in phases2):
                run.fail('rerun-executes', 'a second execute after collapse ran %d tasks' % sum(len(p['ran']) for p in phases2), rpl)
            # cleanup: inner results go, compound stays
            before = set(s.list())
            out = real_cleanup(s, tasks2)
            after = set(s.list())
            inner_hashes = {R['key_hash'][ik] for c in inner_of for ik in inner_of[c] if ik in R['key_hash']}
            comp_hashes = {R['key_hash'][c] for c in inner_of}
            if not comp_hashes <= after:
                run.fail('cleanup-removes-compound', 'cleanup after collapse removed the compound value (%s)' % out, rpl)
            if inner_hashes & after:
                run.fail('cleanup-keeps-inner', 'cleanup after collapse kept %d inner results (%s)' % (len(inner_hashes & after), out), rpl)
            values_ok('after cleanup')
            phases3, _, _ = L.run_to_completion(R['path'], s)
            if any(p['ran'] for p in phases3):
                run.fail('rerun-after-cleanup', 'execute after cleanup re-ran %d tasks' % sum(len(p['ran']) for p in phases3), rpl)
            run.count('lifecycles')
        if drv is not None and run.corr_disagreements == 0:
            run.obligation('correspondence: %d loads with compound tasks gave the task list of the model' % run.corr_programs, True)
    finally:
        core.rm_rf(scratch)
        if drv is not None:
            drv.close()


def replay(path):
    d = json.load(open(path))
    print(d['what'][:1000])
    print(d['replay'].get('program', ''))
    print({k: v for k, v in d['replay'].items() if k != 'program'})
    return 1
