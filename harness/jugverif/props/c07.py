"""C07 - a task's identifier is a deterministic function of its name and argument values"""
import json
import os
import random
import subprocess
import sys
import tempfile

from jugverif import core

LEVEL = 'proof'
THEOREMS = ['Jug.C07.ser_set_perm', 'Jug.C07.ser_fset_perm', 'Jug.C07.ser_dict_perm', 'Jug.C07.taskId_kwargs_perm', 'Jug.C07.ser_same']


def norm(spec):
    return json.loads(json.dumps(spec))


def real_and_model(drv, enc, spec, order_rng, want_toks=False):
    import jug.task
    from jugverif import hashmodel as hm
    from jug.hash import hash_one
    v = hm.build(spec, order_rng)
    m = hm.to_model(v)            # before hashing: caching replaces __jug_hash__ on Task instances
    real = hash_one(v).decode()
    ans = drv.ask({'op': 'hash', 'enc': enc, 'v': m, 'toks': want_toks}) if drv is not None else None
    del jug.task.alltasks[:]
    return real, ans, v


def check(run):
    import warnings
    warnings.simplefilter('ignore')
    import jug.task
    from jug.backends.dict_store import dict_store
    from jugverif import hashmodel as hm
    jug.task.Task.store = dict_store()
    quick = run.tier == 'quick'
    run.rule = ('random value specs over the universe of C07 (atoms, lists, tuples, sets, frozensets, dicts, ndarrays of 13 dtypes incl. object, NumPy scalars, '
                'tasks with kwargs, tasklets incl. task-valued and lambda indices, CustomHash/NoHash, mapped sequences and their slices), each built in two '
                'representations (shuffled insertion orders, 6 array layouts) in-process and once per fresh interpreter under different PYTHONHASHSEEDs; '
                'non-trivial = contains an unordered container, an array or a nested task; distinct by spec')
    run.assumptions = ['pickle.dumps is deterministic on leaf values (None, bool, numbers, str, bytes, NumPy scalars, dtypes, functions by reference)',
                       'SHA-1 treated as collision free; chunk boundaries are not part of the identifier (byte-level unique decodability not proved)']
    run.trusted = ['Lean 4.33.0 kernel', 'axioms propext, Classical.choice, Quot.sound', 'harness/jugverif/hashmodel.py (translation of live Python objects to model values; '
                   'pickles of labels extracted from the running interpreter)', 'Lean SHA-1 used by the driver (validated: model identifier = real identifier on every case)']
    run.lean(['JugModel.Props.C07', 'jugdrv'], theorems_expected=THEOREMS)
    drv = core.Driver() if run.driver_ok else None
    enc = hm.enc_table()
    rng = core.rng_for(run.seed, 'c07')
    n = 700 if quick else 8000
    specs = []
    kinds = {}
    for i in range(n):
        depth = rng.choice([1, 2, 3, 3, 4])
        s = norm(hm.gen_value(rng, depth))
        specs.append(s)
    # targeted family: unordered containers of strings / nested, arrays in all layouts
    for i in range(60 if quick else 600):
        words = [''.join(rng.choice('abcdefgh') for _ in range(rng.randint(1, 5))) for _ in range(rng.randint(2, 8))]
        words = list(dict.fromkeys(words))
        specs.append(norm(('task', 'f', [('fset', [('str', w) for w in words]), ('set', [('str', w) for w in words])],
                           [['a', ('dict', [[('str', w), ('tuple', [('fset', [('str', w), ('int', 1)]), ('int', 2)])] for w in words])]])))
        specs.append(norm(('task', 'g', [hm.gen_array(rng), ('ndobj', [2], [('str', words[0]), ('fset', [('str', w) for w in words])])], [])))
        # unordered containers of elements that have no total order of their own (frozensets are only partially ordered by `<`,
        # tuples containing them likewise): any shortcut that sorts the elements themselves depends on the iteration order
        specs.append(norm(('task', 'f', [('set', [('fset', [('str', w)]) for w in words]), ('fset', [('fset', [('str', w), ('int', i)]) for i, w in enumerate(words)])],
                           [['a', ('set', [('tuple', [('fset', [('str', w)]), ('int', 0)]) for w in words])]])))
    # values that compare equal in Python but are different values (True/1/1.0, 0.0/-0.0/False/0, tuples thereof) as set elements and
    # dict keys: whatever a process has hashed before must not leak into a later identifier
    ones = [('bool', True), ('int', 1), ('float', (1.0).hex())]
    zeros = [('bool', False), ('int', 0), ('float', (0.0).hex()), ('float', (-0.0).hex())]
    for a in ones:
        for z in zeros:
            specs.append(norm(('task', 'f', [('set', [a, z, ('str', 'k')])], [])))
            specs.append(norm(('task', 'f', [('dict', [[a, ('int', 5)], [z, ('str', 'v')]])], [])))
            specs.append(norm(('task', 'g', [('fset', [('tuple', [z, a]), ('tuple', [a, a])])], [['a', ('dict', [[('tuple', [a, z]), ('none',)]])]])))
    # long flat sequences of scalars with repeated equal strings / bytes (shared objects in one representation, separate ones in the other)
    for i in range(6 if quick else 60):
        ws = [''.join(rng.choice('abcdefgh') for _ in range(rng.randint(2, 6))) for _ in range(3)]
        elems = [('str', rng.choice(ws)) for _ in range(rng.randint(9, 14))] + [('bytes', rng.choice(ws).encode().hex()) for _ in range(3)] + [('int', rng.randint(0, 3)) for _ in range(2)]
        rng.shuffle(elems)
        specs.append(norm(('task', 'f', [('list', elems), ('tuple', elems[:10])], [['a', ('list', elems[3:])]])))
    bad_corr = 0
    for i, s in enumerate(specs):
        text = json.dumps(s)
        nontriv = any(k in text for k in ('"set"', '"fset"', '"dict"', '"nd"', '"ndobj"', '"task"'))
        run.case(text, nontrivial=nontriv)
        for k in ('set', 'fset', 'dict', 'nd', 'ndobj', 'task', 'tasklet', 'custom', 'mapped', 'mapslice'):
            if '"%s"' % k in text:
                kinds[k] = kinds.get(k, 0) + 1
        try:
            realA, ansA, vA = real_and_model(drv, enc, s, None)
            realB, ansB, vB = real_and_model(drv, enc, s, random.Random(run.seed * 7919 + i))
            realC, _, vC = real_and_model(None, enc, s, random.Random(run.seed * 104729 + i))
        except Exception as e:
            run.fail('hash-raises', 'hashing raised %s: %s on %s' % (type(e).__name__, e, text[:300]), {'kind': 'spec', 'spec': s})
            continue
        if not (realA == realB == realC):
            run.fail('representation-dependent', 'identifier depends on insertion order / memory layout: %s vs %s vs %s for %s' % (realA, realB, realC, text[:400]),
                     {'kind': 'spec', 'spec': s, 'order_seeds': [None, run.seed * 7919 + i, run.seed * 104729 + i]})
        # recomputation: hashing again (cached or not) gives the same identifier
        from jug.hash import hash_one
        if hash_one(vA).decode() != realA:
            run.fail('recompute-differs', 'hash_one twice on the same object differs for %s' % text[:300], {'kind': 'spec', 'spec': s})
        if drv is not None:
            run.corr_programs += 2
            for real, ans, tag in ((realA, ansA, 'canonical'), (realB, ansB, 'shuffled')):
                if ans.get('hash_one') != real:
                    bad_corr += 1
                    run.corr_disagreements += 1
                    run.obligation('correspondence model identifier = real identifier', False, '%s representation: model %s real %s spec %s' % (tag, ans.get('hash_one'), real, text[:300]))
        if len(run.samples) < 3 and nontriv and len(text) < 400:
            run.sample({'spec': s, 'identifier': realA})
    # fresh interpreters under different hash seeds (subsample in the quick tier)
    sub = specs if not quick else specs[::3] + specs[-160:]
    d = core.scratch_dir()
    try:
        sf = os.path.join(d, 'specs.json')
        json.dump(sub, open(sf, 'w'))
        outs = []
        procs = []
        seeds = [('0', -1, 'fwd'), ('1', 1, 'rev'), ('4242', 2, 'shuf1'), ('random', 3, 'shuf2')] + ([] if quick else [('77', 4, 'shuf3'), ('random', 5, 'rev'), ('31337', -1, 'shuf4')])
        for hs, order, visit in seeds:
            env = dict(os.environ, PYTHONHASHSEED=hs)
            procs.append(subprocess.Popen([sys.executable, '-m', 'jugverif.hashproc', sf, str(order), visit], stdout=subprocess.PIPE, stderr=subprocess.PIPE, text=True, env=env))
        for p in procs:
            o, e = p.communicate(timeout=1200)
            if p.returncode != 0:
                raise core.InfraError('hashproc failed: ' + e[-500:])
            outs.append(json.loads(o))
        ref = outs[0]
        # in-process values for the same specs
        for j, s in enumerate(sub):
            vals = [o[j] for o in outs]
            run.count('cross_process_cases')
            if len(set(vals)) != 1 or vals[0].startswith('EXC'):
                run.fail('process-dependent', 'identifier differs between interpreter processes (PYTHONHASHSEED, order in which the process hashed the %d values) %s: %s for %s'
                         % (len(sub), [(s_[0], s_[2]) for s_ in seeds], vals, json.dumps(s)[:400]),
                         {'kind': 'spec-xproc', 'spec': s, 'index': j, 'hashseeds': [s_[0] for s_ in seeds], 'visits': [s_[2] for s_ in seeds], 'all_specs': sub if len(json.dumps(sub)) < 400000 else None})
    finally:
        core.rm_rf(d)
    # values outside the modelled universe (record arrays with object fields, lambdas compiled under differently spelled file names):
    # real code only, three representations in this process and one per fresh interpreter
    from jugverif import hashextras as hx
    here = [hx.ids(v) for v in (0, 1, 2)]
    procs = []
    for v, hs in ((0, '0'), (3, '9'), (4, 'random'), (7, '123')):
        procs.append(subprocess.Popen([sys.executable, '-m', 'jugverif.hashextras', str(v)], stdout=subprocess.PIPE, stderr=subprocess.PIPE, text=True, env=dict(os.environ, PYTHONHASHSEED=hs)))
    there = []
    for p in procs:
        o, e = p.communicate(timeout=600)
        if p.returncode != 0:
            raise core.InfraError('hashextras failed: ' + e[-500:])
        there.append([tuple(x) for x in json.loads(o)])
    for j, (label, _) in enumerate(here[0]):
        run.case(('extra', label), nontrivial=True)
        run.count('extra_values')
        a = [h[j][1] for h in here]
        b = [t[j][1] for t in there]
        if len(set(a)) != 1 or a[0].startswith('EXC'):
            run.fail('representation-dependent', 'identifier of "%s" depends on object identity / layout / file-name spelling within one process: %s' % (label, a), {'kind': 'extra', 'label': label, 'index': j})
        elif len(set(a + b)) != 1:
            run.fail('process-dependent', 'identifier of "%s" differs between interpreter processes: here %s, fresh interpreters %s' % (label, a[0], b), {'kind': 'extra', 'label': label, 'index': j})
    # identifiers along histories: computed while objects are being built vs afterwards; before execute, after it, after reloading
    from jugverif import hashhist
    hashhist.order_family(run, 'C07')
    hashhist.history_family(run)
    run.counts['kinds'] = kinds
    if drv is not None:
        if bad_corr == 0:
            run.obligation('correspondence: model identifier (Lean ser + SHA-1) = real identifier on %d built values' % run.corr_programs, True)
        drv.close()


def replay(path):
    import warnings
    warnings.simplefilter('ignore')
    import jug.task
    from jug.backends.dict_store import dict_store
    from jugverif import hashmodel as hm
    jug.task.Task.store = dict_store()
    d = json.load(open(path))
    r = d['replay']
    if r.get('kind') == 'spec':
        hs = []
        for o in r.get('order_seeds', [None, 1, 2]):
            real, _, _ = real_and_model(None, None, r['spec'], None if o is None else random.Random(o))
            hs.append(real)
        print('identifiers for the same value in different representations:', hs)
        ok = len(set(hs)) == 1
    elif r.get('kind') == 'spec-xproc':
        dd = core.scratch_dir()
        try:
            sf = os.path.join(dd, 's.json')
            allspecs = r.get('all_specs') or [r['spec']]
            j = r.get('index', 0) if r.get('all_specs') else 0
            json.dump(allspecs, open(sf, 'w'))
            hs = []
            visits = r.get('visits') or ['fwd'] * len(r['hashseeds'])
            for i, h in enumerate(r['hashseeds']):
                o = subprocess.check_output([sys.executable, '-m', 'jugverif.hashproc', sf, str(i), visits[i]], env=dict(os.environ, PYTHONHASHSEED=h), text=True)
                hs.append(json.loads(o)[j])
        finally:
            core.rm_rf(dd)
        print('identifiers per PYTHONHASHSEED', dict(zip(r['hashseeds'], hs)))
        ok = len(set(hs)) == 1
    elif r.get('kind') == 'extra':
        from jugverif import hashextras as hx
        j = r['index']
        hs = [hx.ids(v)[j][1] for v in (0, 1, 2)]
        for v, h in ((3, '9'), (4, 'random')):
            o = subprocess.check_output([sys.executable, '-m', 'jugverif.hashextras', str(v)], env=dict(os.environ, PYTHONHASHSEED=h), text=True)
            hs.append(json.loads(o)[j][1])
        print('identifiers of "%s" in three representations here and two fresh interpreters:' % r['label'], hs)
        ok = len(set(hs)) == 1 and not hs[0].startswith('EXC')
    else:
        print(d['what'])
        return 1
    print('property holds on this input' if ok else 'property FAILS on this input')
    return 0 if ok else 1
