"""C02 - a task is executed at most once and never by two workers at the same time"""
import os

from jugverif import core, execchecks as X, execengine as E

LEVEL = 'proof'
THEOREMS = ['Jug.C02.at_most_once_general', 'Jug.C02.at_most_once_uninterrupted', 'Jug.C02.mutex_run', 'Jug.C02.mutex_cs', 'Jug.C02.no_rerun_once_stored', 'Jug.C02.result_stable', 'Jug.C02.publish_before_release',
            'Jug.C02.at_most_once', 'Jug.C02.stored_never_started', 'Jug.C02.exactly_once_if_stored']


def run_one(run, drv, P, scratch, params):
    c = X.run_params(P, scratch, params, X.newtag())
    X.faultfree_monitors(run, drv, P, scratch, params, c, do_top=False)
    return c


def check(run):
    quick = run.tier == 'quick'
    run.rule = ('generated jugfiles x backends (dict, file, file+pack, redis protocol) x 2-4 gated workers x random schedules, plus the targeted family "stall worker v between '
                'its first negative can_load(t) and its lock(t) until another worker has stored t" for every task, late joiners and workers that give up early (task limit); '
                'monitors: begin/end intervals of one task never overlap, every task function is started exactly once over the run and a repeated execute; '
                'non-trivial = the schedule contained contention (a lock attempt answered False or a positive re-check under the lock); distinct by (program, params)')
    drv = X.setup(run, THEOREMS)
    from jugverif import seedproc
    seedproc.family(run)
    X.loop_correspondence(run, drv)
    rng = core.rng_for(run.seed, 'c02')
    scratch = core.scratch_dir()
    try:
        nprog = 12 if quick else 120
        for pi in range(nprog):
            P = E.prepare(rng, scratch, rng.choice([3, 6, 9, 12]) if quick else rng.choice([3, 6, 12, 20, 30]))
            cases = []
            for backend in X.BACKENDS:
                nw = rng.choice([2, 2, 3, 4])
                cases.append({'backend': backend, 'nworkers': nw, 'sched_seed': rng.randrange(10 ** 9), 'flags': {w: [False, False, rng.random() < 0.3] for w in range(nw)},
                              'pre_done': max(1, P['n'] // 2) if backend == 'filepack' else 0})
            # targeted stall for every task (quick: a sample), alternating backends
            tasks = list(range(P['n']))
            rng.shuffle(tasks)
            for j, t in enumerate(tasks if not quick else tasks[:5]):
                cases.append({'backend': ['file', 'redis', 'dict'][j % 3], 'nworkers': 2, 'sched_seed': rng.randrange(10 ** 9), 'policy': ['stall', j % 2, t]})
            # an operator command that must not touch held locks (`jug cleanup --keep-locks`, `jug cleanup --failed-only`) runs while a worker is
            # inside a task and the other workers carry on: the task must still run once, by one worker at a time
            for j, t in enumerate(tasks[:2]):
                cases.append({'backend': ['file', 'redis', 'dict', 'filepack'][(pi + j) % 4], 'nworkers': 2, 'sched_seed': rng.randrange(10 ** 9), 'policy': ['hold', 0, t, 200],
                              'operator': [['cleanup-keep-locks', 'cleanup-failed-only'][j % 2], 0, t]})
            # `jug pack` started by somebody else while the workers run, and dying just before its new pack file is in place: what was finished stays finished
            if P['n'] >= 3:
                cases.append({'backend': 'file', 'nworkers': 2, 'sched_seed': rng.randrange(10 ** 9), 'policy': ['hold', 0, max(tasks), 200], 'operator': ['pack-interrupted', 0, max(tasks)]})
            # late joiner / early quitter
            cases.append({'backend': rng.choice(['file', 'redis']), 'nworkers': 3, 'sched_seed': rng.randrange(10 ** 9), 'late': {2: rng.randint(5, 60)}})
            cases.append({'backend': rng.choice(['file', 'redis']), 'nworkers': 3, 'sched_seed': rng.randrange(10 ** 9), 'max_tasks': {0: 1}})
            for params in cases:
                if params['backend'] in ('file', 'filepack') and not params.get('operator'):     # the operator's command runs between store operations of the workers, not inside one
                    params['fs_gates'] = True       # workers also interleave between the file-system primitives of the lock operations
                c = run_one(run, drv, P, scratch, params)
                cont = X.contention(c.trace)
                run.case((pi, str(sorted(params.items())), run.seed), nontrivial=cont > 0)
                run.count('policy_' + (params.get('policy') or ['random'])[0])
                run.count('contention_events', cont)
                if len(run.samples) < 2 and cont > 0 and params.get('policy'):
                    i = next(k for k, e in enumerate(c.trace) if e[0] == 'lock' and not e[3]) if any(e[0] == 'lock' and not e[3] for e in c.trace) else 0
                    run.sample({'params': params, 'events_around_contention': E.to_model_events(c.trace[max(0, i - 8):i + 4])})
            core.rm_rf(scratch)
            os.makedirs(scratch, exist_ok=True)
        if drv is not None and run.corr_disagreements == 0:
            run.obligation('trace validation: %d real multi-worker histories (%d events) accepted by the Lean model' % (run.counts.get('traces_validated', 0), run.counts.get('trace_events_validated', 0)), True)
    finally:
        core.rm_rf(scratch)
        if drv is not None:
            drv.close()


def replay(path):
    return X.replay(path, 'C02')
