"""C11 - a failing task stores nothing, blocks only its dependents, and is accounted for"""
import os
import random

from jugverif import core, execchecks as X, execengine as E, lib, sched

LEVEL = 'proof'
THEOREMS = ['Jug.C11.keep_going_completes_independents', 'Jug.C11.failedT_iff', 'Jug.C11.failure_stores_nothing', 'Jug.C11.failed_cannot_dump', 'Jug.C11.dependents_never_start', 'Jug.C11.exit_nonzero_after_failure',
            'Jug.C11.failed_unlock', 'Jug.C11.failed_mark', 'Jug.C11.failed_lock_blocks', 'Jug.C11.failed_lock_no_begin', 'Jug.C11.failed_lock_persists',
            'Jug.C11.cleanup_failed_reenables', 'Jug.C11.keep_going_continues', 'Jug.C11.failed_cannot_exit_holding', 'Jug.LoopBridge.keep_going_completes_of_loop_workers']


def cleanup_failed_only(backend):
    """the real `jug cleanup --failed-only`"""
    import jug.subcommands.cleanup as cl
    from jugverif import jugenv
    o = jugenv.options()
    o.cleanup_failed_only = True
    o.cleanup_locks_only = False
    out = []
    o.print_out = lambda *a: out.append(' '.join(str(x) for x in a))
    cl.cleanup.run(store=backend.store(), options=o)
    return out


def run_sysexit(run, drv, P, scratch, params):
    """a task function that raises SystemExit (calls sys.exit()): nothing stored, lock released, non-zero exit, retry possible"""
    c = X.run_params(P, scratch, params, X.newtag())
    ks = {int(k) for k in params['faults']}
    failing = {i for i, k in P['ks'].items() if k in ks}
    completed = {e[2] for e in c.trace if e[0] == 'endOk'}
    for t in sorted((failing & set(c.final)) - completed):
        X.fail_case(run, 'failed-task-stored', 'task %d raised SystemExit, never returned normally, but a result is stored for it' % t, P, params)
    if c.locks:
        X.fail_case(run, 'failed-lock-not-released', 'a task function raised SystemExit and locks %s were left behind (a later run never retries the task)' % c.locks, P, params)
    for w, r in c.results.items():
        if any(e[0] == 'stop' and e[1] == w for e in c.trace) and r != ('SystemExit', 1):
            X.fail_case(run, 'failure-not-reported', 'worker %d: task raised SystemExit(1) but the worker ended with %s' % (w, r), P, params)
    X.model_check(run, drv, P, c, 'task function raising SystemExit', params)
    trace3, results3, _ = X.second_execute(P, c.backend, 1, random.Random(params['sched_seed'] + 6), P['index'])
    final3, locks3 = X.final_state(P, c.backend)
    if len(final3) != P['n'] or locks3:
        X.fail_case(run, 'retry-incomplete', 'after a task raised SystemExit a new execute did not complete everything: %d of %d stored, locks %s' % (len(final3), P['n'], locks3), P, params)
    return c


def run_one(run, drv, P, scratch, params):
    if any(v[0] == 'sysexit' for v in params['faults'].values()):
        return run_sysexit(run, drv, P, scratch, params)
    c = X.run_params(P, scratch, params, X.newtag())
    flags = X.norm_flags(params.get('flags'))
    failing_ks = {int(k) for k in params['faults']}
    failing = {i for i, k in P['ks'].items() if k in failing_ks}
    blocked = E.closure_reads(P['info'], failing)
    kg = all(f[0] for f in flags.values()) if flags else False
    kf_all = all(f[1] for f in flags.values()) if flags else False
    kf_any = any(f[1] for f in flags.values()) if flags else False
    # 1. nothing stored for failing tasks, dependents never started, no dump by a failed execution
    for t in sorted(failing):
        if t in c.final:
            X.fail_case(run, 'failed-task-stored', 'task %d (%s) raised but a result is stored for it' % (t, P['info'][t]['name']), P, params)
    started = {e[2] for e in c.trace if e[0] == 'begin'}
    for t in sorted((blocked - failing) & started):
        X.fail_case(run, 'dependent-started', 'task %d (%s) depends on a failed task but was started' % (t, P['info'][t]['name']), P, params)
    for t in sorted(blocked & set(c.final)):
        X.fail_case(run, 'dependent-stored', 'task %d (%s) depends on a failed task but has a stored result' % (t, P['info'][t]['name']), P, params)
    X.check_values_complete(run, P, c, params, expect_complete=False)
    # 2. keep-going completes everything independent
    failed_seen = {e[2] for e in c.trace if e[0] == 'endExc'}
    if kg:
        missing = [t for t in range(P['n']) if t not in blocked and t not in c.final]
        if missing:
            X.fail_case(run, 'keep-going-incomplete', 'with --keep-going tasks %s (%s) do not depend on a failed task but were not completed (results: %s)' % (missing[:5], [P['info'][t]['name'] for t in missing[:3]], c.results), P, params)
    # 3. exit status / failures flag
    saw = {}
    for e in c.trace:
        if e[0] == 'endExc':
            saw[e[1]] = True
    for w, r in c.results.items():
        fl = flags.get(w, (False, False, False))
        if saw.get(w):
            ok = (r == ('ret', True)) if fl[0] else (r[0] == 'raise' and r[1] in [c_.__name__ for c_ in lib.EXC_TYPES])
            if not ok:
                X.fail_case(run, 'failure-not-reported', 'worker %d had a failing task (keep_going=%s) but ended with %s (exit status would be 0)' % (w, fl[0], r), P, params)
        elif r != ('ret', False):
            X.fail_case(run, 'spurious-failure', 'worker %d saw no failure but ended with %s' % (w, r), P, params)
    # 4. lock of the failed task
    for t in sorted(failed_seen):
        st = c.locks.get(t)
        last = [e for e in c.trace if e[0] == 'endExc' and e[2] == t][-1]
        kf = flags.get(last[1], (False, False, False))[1]
        if kf_all and st != 'failed':
            X.fail_case(run, 'failed-lock-not-kept', 'task %d failed under --keep-failed but its lock is %s (expected: marked failed)' % (t, st), P, params)
        if not kf_any and st is not None:
            X.fail_case(run, 'failed-lock-not-released', 'task %d failed without --keep-failed but its lock is still %s' % (t, st), P, params)
    for t, st in c.locks.items():
        if t not in failed_seen:
            X.fail_case(run, 'lock-left', 'lock of task %d left in state %s although it did not fail' % (t, st), P, params)
    # under keep-failed every failing task is executed only once (others skip the failed lock)
    if kf_all:
        bg = E.begins(c.trace)
        for t in failed_seen:
            if len(bg.get(t, [])) > 1:
                X.fail_case(run, 'failed-task-rerun', 'task %d failed under --keep-failed but was started %d times' % (t, len(bg[t])), P, params)
    ans = X.model_check(run, drv, P, c, 'run with failing tasks', params)
    # 5. follow-up: a later run (functions repaired) retries; with kept failed locks only after cleanup --failed-only
    nw0 = params['nworkers']
    rng2 = random.Random(params['sched_seed'] + 5)
    if kf_all and failed_seen:
        trace2, results2, _ = X.second_execute(P, c.backend, 2, rng2, P['index'], flags={0: (True, True, False), 1: (True, True, False)})
        again = {e[2] for e in trace2 if e[0] == 'begin'} & failed_seen
        if again:
            X.fail_case(run, 'failed-lock-ignored', 'tasks %s are locked as failed but a later worker executed them without cleanup' % sorted(again), P, params)
        out = cleanup_failed_only(c.backend)
        final_l = X.final_state(P, c.backend)[1]
        if final_l:
            X.fail_case(run, 'cleanup-failed-only', 'cleanup --failed-only left locks %s (%s)' % (final_l, out), P, params)
        if drv is not None:
            # combined history: first run, second run (new worker ids), cleanup
            shifted = [(e[0], e[1] + nw0) + tuple(e[2:]) for e in trace2]
            X.model_check(run, drv, P, c, 'failed lock blocks later workers', params, extra_events=list(c.trace) + shifted + [('removeFailedLocks',)], nworkers=nw0 + 2,
                          flags={**flags, nw0: (True, True, False), nw0 + 1: (True, True, False)})
    trace3, results3, _ = X.second_execute(P, c.backend, 2, random.Random(params['sched_seed'] + 6), P['index'])
    final3, locks3 = X.final_state(P, c.backend)
    if len(final3) != P['n'] or locks3 or any(final3[i] != P['info'][i]['value'] for i in final3):
        X.fail_case(run, 'retry-incomplete', 'after the failure was repaired a new execute did not complete everything: %d of %d stored, locks %s, results %s' % (len(final3), P['n'], locks3, results3), P, params)
    redone = {e[2] for e in trace3 if e[0] == 'begin'} & set(c.final)
    if redone:
        X.fail_case(run, 'retry-reruns-finished', 'the retry re-executed finished tasks %s' % sorted(redone), P, params)
    return c


def check(run):
    quick = run.tier == 'quick'
    run.rule = ('generated jugfiles x every flag combination (--keep-going, --keep-failed) x subsets (1-3) of failing library tasks x 1-3 gated workers x backends (dict, file, redis '
                'protocol); monitors: nothing stored for failed tasks, dependents (transitively, by the results they really read) never started, independents complete under keep-going, '
                'failures reported (return value / propagated exception = exit status), lock released or kept-and-marked-failed, failed lock blocks later workers until the real '
                '`cleanup --failed-only`, a repaired retry completes without re-running finished tasks; histories (incl. the follow-up runs) replayed through the Lean model; '
                'non-trivial = some task depends on a failing one and some does not; distinct by (program, params)')
    drv = X.setup(run, THEOREMS)
    X.loop_correspondence(run, drv)
    rng = core.rng_for(run.seed, 'c11')
    scratch = core.scratch_dir()
    try:
        nprog = 14 if quick else 120
        for pi in range(nprog):
            P = E.prepare(rng, scratch, rng.choice([5, 8, 12]) if quick else rng.choice([5, 8, 12, 20]))
            if not P['ks']:
                continue
            for rep in range(4 if quick else 8):
                kg, kf = [(False, False), (True, False), (False, True), (True, True)][rep % 4]
                nfail = rng.choice([1, 1, 2, 3])
                ks = rng.sample(sorted(P['ks'].values()), min(nfail, len(P['ks'])))
                nw = rng.choice([1, 2, 3])
                params = {'backend': rng.choice(['dict', 'file', 'redis']), 'nworkers': nw, 'sched_seed': rng.randrange(10 ** 9),
                          'flags': {w: [kg, kf, rng.random() < 0.3] for w in range(nw)}, 'faults': {str(k): ['exc', None] for k in ks}}
                c = run_one(run, drv, P, scratch, params)
                failing = {i for i, k in P['ks'].items() if k in ks}
                blocked = E.closure_reads(P['info'], failing)
                run.case((pi, rep, run.seed), nontrivial=len(blocked) > len(failing) and len(blocked) < P['n'])
                run.count('flags_kg%d_kf%d' % (kg, kf))
                if len(run.samples) < 2 and len(blocked) > len(failing):
                    run.sample({'params': params, 'failing': sorted(failing), 'blocked': sorted(blocked), 'results': {str(k): list(v) for k, v in c.results.items()}, 'locks': c.locks})
            for rep in range(2):
                kg, kf = [(False, False), (True, True)][rep]
                k = rng.choice(sorted(P['ks'].values()))
                params = {'backend': rng.choice(['dict', 'file', 'redis']), 'nworkers': rng.choice([1, 2]), 'sched_seed': rng.randrange(10 ** 9),
                          'flags': {w: [kg, kf, False] for w in range(2)}, 'faults': {str(k): ['sysexit', 1]}}
                run_one(run, drv, P, scratch, params)
                run.case((pi, 'sysexit', rep, run.seed), nontrivial=True)
                run.count('sysexit_cases')
            core.rm_rf(scratch)
            os.makedirs(scratch, exist_ok=True)
        phased_failure_family(run)
        deep_chain_failure(run)
        many_failures_family(run)
        if drv is not None and run.corr_disagreements == 0:
            run.obligation('trace validation: %d real histories with failing tasks (%d events) accepted by the Lean model' % (run.counts.get('traces_validated', 0), run.counts.get('trace_events_validated', 0)), True)
    finally:
        core.rm_rf(scratch)
        if drv is not None:
            drv.close()


PHASED = '''from jug import TaskGenerator, barrier, bvalue
import os
HERE = os.path.dirname(os.path.abspath(__file__))
def _log(s):
    with open(os.path.join(HERE, 'calls.log'), 'a') as f:
        f.write(s + chr(10))
@TaskGenerator
def ok(k, x):
    _log('ok %%d' %% k)
    return x + 1
@TaskGenerator
def boom(k, x):
    _log('boom %%d' %% k)
    raise ValueError('planned failure of task %%d' %% k)
a = ok(1, 1)            # value 2
f = boom(2, a)          # fails in the first pass
g = ok(3, f)            # depends on the failed task: never started
%(phase)s
later = [ok(10 + j, j) for j in range(n)]      # defined in a later pass, independent of the failed task
'''


def phased_failure_family(run):
    """the real `jug execute` command (its reload loop over barrier phases) with a task that fails in an early phase"""
    from jugverif.loadercheck import jug_cli
    for phase, label in (('n = bvalue(a)', 'bvalue'), ('barrier()\nn = 2', 'barrier')):
        for kf in (False, True):
            d = core.scratch_dir()
            try:
                open(os.path.join(d, 'jugfile.py'), 'w').write(PHASED % {'phase': phase})
                args = ['execute', '--will-cite', '--keep-going', '--nr-wait-cycles', '2', '--wait-cycle-time', '0'] + (['--keep-failed'] if kf else []) + ['jugfile.py']
                r = jug_cli(args, d, timeout=60)
                calls = [l.split() for l in open(os.path.join(d, 'calls.log')).read().split('\n') if l.strip()] if os.path.exists(os.path.join(d, 'calls.log')) else []
                ran = sorted(int(c[1]) for c in calls if c[0] == 'ok')
                booms = len([c for c in calls if c[0] == 'boom'])
                lockdir = os.path.join(d, 'jugfile.jugdata', 'locks')
                locks = os.listdir(lockdir) if os.path.isdir(lockdir) else []
                rp = {'kind': 'phased-failure', 'phase': label, 'keep_failed': kf}
                desc = '`jug execute --keep-going%s` on a jugfile whose task f fails before a %s' % (' --keep-failed' if kf else '', label)
                run.case(('phased-failure', label, kf), nontrivial=True)
                run.count('phased_failure_runs')
                if r.returncode == 124:
                    run.fail('execute-does-not-end', '%s: the command did not come to an end within a minute (--nr-wait-cycles 2 --wait-cycle-time 0; the failing task was started %d times)'
                             % (desc, booms), rp)
                    continue
                if r.returncode == 0:
                    run.fail('exit-zero-after-failure', '%s: exit status 0 although a task raised (output: %s)' % (desc, r.stdout.strip()[-200:]), rp)
                if 3 in ran:
                    run.fail('dependent-of-failed-started', '%s: the dependent of the failed task was started' % desc, rp)
                if label == 'bvalue' and ran != [1, 10, 11]:
                    # bvalue(a) only needs a: the tasks of the later phase do not depend on the failed one and must complete
                    run.fail('independent-not-completed', '%s: the tasks defined after bvalue(a) do not depend on the failed task, but the tasks that ran are %s (expected ok(1), ok(10), ok(11))' % (desc, ran), rp)
                if label == 'barrier' and ran != [1]:
                    run.fail('barrier-crossed-with-failure', '%s: barrier() must stay closed while an earlier task has no result; tasks that ran: %s' % (desc, ran), rp)
                if kf and len(locks) != 1:
                    run.fail('failed-lock-not-kept', '%s: lock files %s (expected the lock of the failed task only)' % (desc, locks), rp)
                if not kf and locks:
                    run.fail('lock-left-after-failure', '%s: lock files left: %s' % (desc, locks), rp)
                if not kf and booms < 1:
                    run.fail('failing-task-not-run', '%s: the failing task never ran' % desc, rp)
                if kf:
                    # a later worker (a new process, after the first one has gone) must leave the failed task alone until its lock is cleaned up
                    r2 = jug_cli(args, d)
                    calls2 = [l.split() for l in open(os.path.join(d, 'calls.log')).read().split('\n') if l.strip()]
                    booms2 = len([c for c in calls2 if c[0] == 'boom'])
                    locks2 = os.listdir(lockdir) if os.path.isdir(lockdir) else []
                    if booms2 != booms or len(locks2) != 1:
                        run.fail('failed-task-retried-without-cleanup', '%s, then a second `jug execute` by a new process: the failed task was started %d more time(s), lock files now %s '
                                 '(a failed lock stays until `cleanup --failed-only`)' % (desc, booms2 - booms, locks2), rp)
                    from jugverif.loadercheck import jug_cli as _cli
                    _cli(['cleanup', '--will-cite', '--failed-only', 'jugfile.py'], d)
                    if os.path.isdir(lockdir) and os.listdir(lockdir):
                        run.fail('failed-lock-not-cleaned', '%s: `cleanup --failed-only` left %s' % (desc, os.listdir(lockdir)), rp)
            finally:
                core.rm_rf(d)


MANYFAIL = '''from jug import TaskGenerator
@TaskGenerator
def boom(k):
    raise ValueError(k)
@TaskGenerator
def ok(k):
    return k
bs = [boom(k) for k in range(%(n)d)]
os_ = [ok(k) for k in range(3)]
'''


def many_failures_family(run):
    """the exit status must be non-zero however many tasks failed (256 and 512 failures included: exit statuses are taken modulo 256)"""
    from jugverif.loadercheck import jug_cli
    for nfail in (1, 256, 512):
        d = core.scratch_dir()
        try:
            open(os.path.join(d, 'jugfile.py'), 'w').write(MANYFAIL % {'n': nfail})
            r = jug_cli(['execute', '--will-cite', '--keep-going', '--nr-wait-cycles', '1', '--wait-cycle-time', '0', 'jugfile.py'], d, timeout=600)
            run.case(('many-failures', nfail), nontrivial=True)
            run.count('many_failures_runs')
            if r.returncode == 0:
                run.fail('exit-zero-after-failure', '`jug execute --keep-going` with %d failing tasks: exit status 0' % nfail, {'kind': 'many-failures', 'n': nfail})
        finally:
            core.rm_rf(d)


def deep_chain_failure(run):
    """a failure while a long chain of tasks is still queued (the failure handling must not depend on the depth of the DAG)"""
    import jug.jug
    import jug.task
    from jug import Task
    from jug.backends.dict_store import dict_store
    from jugverif import jugenv, lib
    N = 1500
    for kg, kf in ((True, False), (True, True)):
        jugenv.reset(dict_store())
        lib.FAULTS.clear()
        del lib.CALLS[:]
        lib.FAULTS[7] = ('exc', None)
        bad = Task(lib.RAW['const'], 7)                       # fails
        ok_ = Task(lib.RAW['const'], 8)                       # independent
        chain = [Task(lib.RAW['inc'], 100, ok_)]
        for j in range(N):
            chain.append(Task(lib.RAW['inc'], 101 + j, chain[-1]))
        tail = Task(lib.RAW['add'], 5000, bad, chain[-1])     # depends on the failed one
        o = jugenv.options()
        o.execute_keep_going, o.execute_keep_failed, o.aggressive_unload = kg, kf, False
        o.execute_nr_wait_cycles, o.execute_wait_cycle_time, o.execute_target = 1, 0, None
        rp = {'kind': 'deep-chain-failure', 'keep_failed': kf, 'depth': N}
        run.case(('deep-chain-failure', kf), nontrivial=True)
        run.count('deep_chain_failure_runs')
        import sys as _sys
        try:
            r = jug.jug.execution_loop(list(jug.task.alltasks), o)
        except BaseException as e:
            run.fail('failure-handling-breaks-on-deep-dag', 'a task fails while a chain of %d tasks is queued (--keep-going%s): execution_loop raised %s: %s' % (N, ' --keep-failed' if kf else '', type(e).__name__, str(e)[:100]), rp)
            lib.FAULTS.clear()
            continue
        lib.FAULTS.clear()
        done = sum(1 for t in chain if t.can_load())
        lk = bad.store.getlock(bad.hash())
        if not r:
            run.fail('failure-not-reported', 'deep chain: a task failed but execution_loop reports no failure', rp)
        if done != len(chain) or not ok_.can_load():
            run.fail('independent-not-completed', 'deep chain: %d of %d tasks that do not depend on the failed task completed under --keep-going' % (done, len(chain)), rp)
        if tail.can_load() or bad.can_load():
            run.fail('failed-or-dependent-stored', 'deep chain: the failed task or its dependent has a result', rp)
        if kf != bool(lk.is_locked() and lk.is_failed()):
            run.fail('failed-lock-state', 'deep chain: --keep-failed=%s but the lock of the failed task is locked=%s failed=%s' % (kf, lk.is_locked(), lk.is_failed()), rp)


def replay(path):
    import json
    d = json.load(open(path))
    if d['replay'].get('kind') == 'many-failures':
        print(d['what'])
        return core.replay_family('C11', d['key'], many_failures_family)
    if d['replay'].get('kind') == 'deep-chain-failure':
        print(d['what'])
        return core.replay_family('C11', d['key'], deep_chain_failure)
    if d['replay'].get('kind') == 'phased-failure':
        print(d['what'])
        return core.replay_family('C11', d['key'], phased_failure_family)
    return X.replay(path, 'C11')
