"""C14 - nothing after a barrier runs before everything before it is complete"""
import json
import os

import jug
import jug.task

from jugverif import core, lib, loadercheck as L

LEVEL = 'proof'
THEOREMS = ['Jug.C14.barrier_guard', 'Jug.C14.bvalue_exact', 'Jug.C14.load_prefix', 'Jug.C14.phase_progress', 'Jug.C14.progress_from_clean', 'Jug.C14.check_never_early',
            'Jug.C14.keeps_reloading', 'Jug.C14.completes', 'Jug.C14.done_only_when_open', 'Jug.C14.gaveUp_general', 'Jug.C14.gaveUp_after_idle', 'Jug.C14.loop_passes_le']


def prepare(G, scratch, tag):
    """run the program to completion once (single process, real reload loop); collect key <-> hash, reference values"""
    from jug.backends.dict_store import dict_store
    path = os.path.join(scratch, 'jf_%s.py' % tag)
    open(path, 'w').write(G.text())
    store = dict_store()
    # first load on the empty store sees compounds expanded
    seen = {}
    comp = {}
    phases, tasks, space = None, None, None
    t0, _, _, _, _ = L.real_load(path, store)
    all_tasks = list(t0)
    phases, tasks, space = L.run_to_completion(path, store)
    tf, spacef, flagf, _, _ = L.real_load(path, store)
    all_tasks += list(tf)
    for t in tf:
        if t.name == 'jugverif.loadercheck._comp':
            comp[t.hash()] = t.args[0]
    # inner tasks of compounds defined in later phases: load against stores of intermediate phases is not needed: expand by loading against a store without compound results
    for hc in comp:
        # one compound at a time (a barrier between two compounds would stay closed if both values were missing)
        partial = dict_store()
        for k, v in store.store.items():
            partial.store[k] = v
        partial.remove(hc)
        tp, _, _, _, _ = L.real_load(path, partial)
        all_tasks += list(tp)
    key_hash = {}
    for t in all_tasks:
        k = L.key_of(t, comp)
        if k >= 0:
            key_hash[k] = t.hash()
    values = {k: store.load(h) for k, h in key_hash.items() if store.can_load(h)}
    return {'path': path, 'store': store, 'phases': phases, 'space': spacef, 'comp': comp, 'key_hash': key_hash, 'values': values,
            'hash_key': {h: k for k, h in key_hash.items()}}


_sc = [0]


def store_with(R, keys, kind='dict', scratch=None):
    from jug.backends.dict_store import dict_store
    if kind == 'redis':
        from jugverif import fakeredis
        s = fakeredis.make_store(fakeredis.FakeServer())
    elif kind == 'file':
        from jug.backends.file_store import file_store
        _sc[0] += 1
        s = file_store(os.path.join(scratch, 'ls%d' % _sc[0]))
    else:
        s = dict_store()
    for k in keys:
        s.dump(R['values'][k], R['key_hash'][k])
    return s


def check(run):
    quick = run.tier == 'quick'
    run.rule = ('generated jugfiles with several barrier()/bvalue() calls at random positions whose later shape depends on earlier values (the number of tasks created after `n = bvalue(t)` is the value of t) x store states at load '
                'time (every prefix-closed and many arbitrary subsets of results present): task list and barrier flag of the real jug.init vs the Lean loader; side-effect markers written by the statement after each barrier; '
                'values handed out by bvalue; the real reload loop run to completion (single process) and by real concurrent `jug execute` processes on a file store; the real check walk; the reload loop of one real `jug execute` process driven through scripted passes (progress / idle / end) and compared with Model/Reload.lean; more phases than --nr-wait-cycles; a jugfile that selects its own results location; non-trivial = a load that passes at '
                'least one barrier and stops at a later one; distinct by (program, store state)')
    run.assumptions = ['bvalue arguments are tasks created earlier in the file; stores are sound (values are the reference values)', 'task functions deterministic']
    run.trusted = ['Lean 4.33.0 kernel', 'axioms propext, Quot.sound', 'harness/jugverif/loadercheck.py']
    run.lean(['JugModel.Props.C14', 'jugdrv'], theorems_expected=THEOREMS)
    drv = core.Driver() if run.driver_ok else None
    rng = core.rng_for(run.seed, 'c14')
    scratch = core.scratch_dir()
    try:
        nprog = 40 if quick else 300
        for pi in range(nprog):
            G = L.PGen(rng, rng.randint(5, 10), compound=False).gen()
            if not G.marks:
                continue
            plain = G.plain_values()
            try:
                R = prepare(G, scratch, 'p%d' % pi)
            except Exception as e:
                run.fail('execute-does-not-complete', 'single-process execute with reloads failed: %s: %s' % (type(e).__name__, e), {'kind': 'phases', 'program': G.text()})
                continue
            rp0 = {'kind': 'phases', 'program': G.text()}
            # completion: values equal the sequential evaluation, every phase made progress
            jug.task.Task.store = R['store']
            try:
                for name, val in plain.items():
                    got = jug.task.value(R['space'][name]) if name in R['space'] else 'UNDEFINED'
                    if lib.canon(got) != lib.canon(val):
                        run.fail('phase-values', 'after execute with %d reloads %s = %s, sequential evaluation gives %s' % (len(R['phases']), name, lib.canon(got)[:100], lib.canon(val)[:100]), rp0)
                        break
            finally:
                jug.task.Task.store = None
            sizes = [p['ntasks'] for p in R['phases']]
            # a reload that is still stopped at a barrier although it loaded no more tasks than the (completed) phase before
            stuck = [i for i, (a, b) in enumerate(zip(sizes, sizes[1:])) if b <= a and R['phases'][i + 1]['flag']]
            if stuck:
                run.fail('no-progress', 'reload %s loaded no more tasks than the phase before (sizes %s)' % (stuck, sizes), rp0)
            run.count('phases', len(sizes))
            # store states at load time
            keys = sorted(R['values'])
            order = [k for k in G.keys if k in R['values']]
            subsets = [order[:i] for i in range(len(order) + 1)]
            for _ in range(6 if quick else 20):
                subsets.append([k for k in order if rng.random() < 0.7])
            for si, S in enumerate(subsets):
                kind = ['dict', 'redis', 'file'][si % 3]
                s = store_with(R, S, kind, scratch)
                rp = {'kind': 'load', 'program': G.text(), 'present': S, 'backend': kind}
                try:
                    import contextlib, io
                    with contextlib.redirect_stdout(io.StringIO()):
                        tasks, space, flag, marks, notes = L.real_load(R['path'], s)
                except BaseException as e:
                    if isinstance(e, KeyboardInterrupt):
                        raise
                    run.fail('load-raises', 'loading the jugfile against the %s store with results %s present fails with %s: %s (values handed out by bvalue: %s)' % (kind, S, type(e).__name__, e, dict(L.NOTES)), rp)
                    jug.task.Task.store = None
                    del jug.task.alltasks[:]
                    continue
                got_keys = [R['hash_key'].get(t.hash(), -1) for t in tasks]
                rp = {'kind': 'load', 'program': G.text(), 'present': S, 'backend': kind}
                passed = sum(1 for m in marks)
                run.case((pi, tuple(S), run.seed), nontrivial=flag and passed >= 1)
                # the property, directly: a statement after a barrier ran only if everything created before it is complete
                for m in marks:
                    need = G.marks[m]
                    if m.startswith('b'):
                        missing = [k for k in need if k not in S]
                        if missing:
                            run.fail('ran-past-closed-barrier', 'the statement after barrier %s was executed although tasks %s created before it have no result (present: %s)' % (m, missing, S), rp)
                for lbl, v in notes.items():
                    it = [i for i in G.items if i[0] == 'bvalue']
                    exp = next((i for i in G.items if i[0] == 'bvalue' and ('n%d' % list(G.marks).index(lbl) == lbl)), None)
                # bvalue hands out the stored value (never a placeholder): compare with the reference values
                bv_items = [i for i in G.items if i[0] == 'bvalue']
                bv_labels = [m for m in G.marks if m.startswith('n')]
                for lbl, it in zip(bv_labels, bv_items):
                    if lbl in notes:
                        if it[1] not in S:
                            run.fail('bvalue-without-result', 'bvalue returned %r for a task without stored result' % (notes[lbl],), rp)
                        elif lib.canon(notes[lbl]) != it[2]:
                            run.fail('bvalue-wrong-value', 'bvalue returned %r, the stored value is %s' % (notes[lbl], it[2]), rp)
                # check never reports completion while the barrier is closed (closed stores)
                alltasks_m = [it for it in G.items if it[0] == 'task'] + [b for it in G.items if it[0] == 'bvalue' for b in it[3]]
                closed = all(all(d in S for d in it[2]) for it in alltasks_m if it[1] in S)
                import jug.subcommands.check as ck
                jug.task.alltasks[:] = tasks
                try:
                    rc = ck._check_or_sleep_until(s, False)
                finally:
                    del jug.task.alltasks[:]
                if flag and closed and rc == 0:
                    run.fail('check-early', '`jug check` reports completion while a barrier is closed (present %s)' % S, rp)
                if drv is not None:
                    ans = drv.ask({'op': 'load', 'jf': G.model(), 'res': {str(k): lib.canon(R['values'][k]) for k in S}})
                    run.corr_programs += 1
                    if ans.get('tasks') != got_keys or ans.get('stopped') != flag:
                        run.corr_disagreements += 1
                        run.obligation('correspondence loader model=code', False, 'present %s: model %s code tasks %s flag %s; program %s' % (S, ans, got_keys, flag, json.dumps(G.lines)[:400]))
                if len(run.samples) < 2 and flag and passed >= 1:
                    run.sample({'program': G.lines, 'present_keys': S, 'loaded_task_keys': got_keys, 'barrier_flag': flag, 'markers_executed': marks})
        deep_and_reload_family(run, scratch)
        many_phases_family(run, scratch)
        own_store_family(run, scratch)
        from jugverif import reloadcheck
        reloadcheck.family(run, drv, scratch, 24 if quick else 200)
        # real concurrent processes
        process_family(run, rng, scratch, 2 if quick else 12)
        edge_values_family(run, scratch)
        mutated_bvalue_family(run, scratch)
        from jugverif import execchecks as _X
        _X.loop_correspondence(run, drv)
        if drv is not None and run.corr_disagreements == 0:
            run.obligation('correspondence: %d loads of the real jug.init gave the task list and barrier flag of the model' % run.corr_programs, True)
    finally:
        core.rm_rf(scratch)
        if drv is not None:
            drv.close()


def process_family(run, rng, scratch, n):
    for i in range(n):
        G = L.PGen(rng, rng.randint(6, 10), compound=(i % 2 == 1)).gen()
        d = os.path.join(scratch, 'proc%d' % i)
        os.makedirs(d)
        open(os.path.join(d, 'jugfile.py'), 'w').write(G.text())
        common = ['--will-cite', '--nr-wait-cycles', '30', '--wait-cycle-time', '0']
        ps = [L.jug_cli_popen(['execute', 'jugfile.py'] + common, d) for _ in range(2)]
        outs = [p.communicate(timeout=120)[0] for p in ps]
        rcs = [p.returncode for p in ps]
        chk = L.jug_cli(['check', 'jugfile.py', '--will-cite'], d)
        rp = {'kind': 'processes', 'program': G.text()}
        run.case(('proc', i, run.seed), nontrivial=bool(G.marks))
        run.count('process_runs')
        if any(rcs) or chk.returncode != 0:
            run.fail('processes-incomplete', 'two concurrent `jug execute` processes exited %s, `jug check` then exits %d: %s' % (rcs, chk.returncode, outs[0][-300:]), rp)
            continue
        from jug.backends.file_store import file_store
        s = file_store(os.path.join(d, 'jugfile.jugdata'))
        tasks, space, flag, _, _ = L.real_load(os.path.join(d, 'jugfile.py'), s)
        jug.task.Task.store = s
        try:
            for name, val in G.plain_values().items():
                got = jug.task.value(space[name]) if name in space else 'UNDEFINED'
                if lib.canon(got) != lib.canon(val):
                    run.fail('phase-values', 'after two concurrent `jug execute` processes %s = %s, sequential evaluation gives %s' % (name, lib.canon(got)[:100], lib.canon(val)[:100]), rp)
                    break
        finally:
            jug.task.Task.store = None
        core.rm_rf(d)


DEEP = '''from jug import TaskGenerator, barrier
import sys
sys.path.insert(0, %(harness)r)
from jugverif.loadercheck import MARKS
@TaskGenerator
def nxt(x):
    return x + 1
t = nxt(0)
for _i in range(%(depth)d):
    t = nxt(t)
barrier()
MARKS.append('after')
u = nxt(t)
'''


def deep_and_reload_family(run, scratch):
    """(a) a barrier behind a dependency chain deeper than the recursion limit allows to walk recursively: it must stay closed while any task of the
    chain - in particular the last one - has no result; (b) a result that disappears between two loads by the same process (another
    process invalidated it) closes the barrier again"""
    from jug.backends.dict_store import dict_store
    for depth in (30, 400, 1200):
        path = os.path.join(scratch, 'deep%d.py' % depth)
        open(path, 'w').write(DEEP % {'harness': os.path.join(core.VERIF, 'harness'), 'depth': depth})
        store = dict_store()
        tasks, space, flag, marks, _ = L.real_load(path, store)
        rp = {'kind': 'deep-barrier', 'depth': depth}
        run.case(('deep-barrier', depth), nontrivial=True)
        run.count('deep_barrier_cases')
        if not flag or 'after' in marks:
            run.fail('barrier-open-on-empty-store', 'chain of %d tasks, empty store: the barrier is open' % depth, rp)
            continue
        # compute everything of the first phase except the LAST task before the barrier
        import jug.task
        jug.task.Task.store = store
        for t_ in tasks[:-1]:
            t_.store = store
            if not t_.can_load():
                t_.run()
        tasks2, space2, flag2, marks2, _ = L.real_load(path, store)
        if not flag2 or 'after' in marks2:
            run.fail('barrier-crossed-early', 'chain of %d tasks, every result stored except that of the last task created before barrier(): the barrier opens and the code behind it runs' % depth, rp)
            continue
        # (b) now complete it: the barrier opens; then one result disappears: the same process must see the barrier closed again
        last = tasks2[-1]
        last.store = store
        last.run()
        tasks3, _, flag3, marks3, _ = L.real_load(path, store)
        if flag3 or 'after' not in marks3:
            run.fail('barrier-closed-though-complete', 'chain of %d tasks, all results stored: the barrier stays closed' % depth, rp)
            continue
        victim = tasks3[len(tasks3) // 2]
        store.remove(victim.hash())
        tasks4, _, flag4, marks4, _ = L.real_load(path, store)
        if not flag4 or 'after' in marks4:
            run.fail('barrier-ignores-removed-result', 'chain of %d tasks: after a barrier had been passed, the result of a task before it was removed (invalidate by another process); on the next '
                     'load by the same process (same store object) the barrier is still open' % depth, rp)


PHASES = '''from jug import TaskGenerator, bvalue
@TaskGenerator
def step(x):
    return x + 1
x = 0
for _i in range(%(phases)d):
    x = bvalue(step(x))
final = step(x)
'''


def many_phases_family(run, scratch, cases=((12, 3, 1), (9, 2, 2), (170, None, 1))):
    """more barrier phases than --nr-wait-cycles (explicit small values and the default): as long as a worker makes progress it keeps
    reloading; `phases` iterations of x = bvalue(step(x)), run by 1 or 2 real `jug execute` processes"""
    for phases, cycles, nproc in cases:
        d = os.path.join(scratch, 'phases%d-%s-%d' % (phases, cycles, nproc))
        os.makedirs(d)
        open(os.path.join(d, 'jugfile.py'), 'w').write(PHASES % {'phases': phases})
        args = ['execute', 'jugfile.py', '--will-cite', '--wait-cycle-time', '0'] + (['--nr-wait-cycles', str(cycles)] if cycles is not None else [])
        if nproc > 1:
            # the other workers may give up early when idle; at least one of them is never idle for long
            args[args.index('--wait-cycle-time') + 1] = '1'
        ps = [L.jug_cli_popen(args, d) for _ in range(nproc)]
        outs = [p.communicate(timeout=240)[0] for p in ps]
        rcs = [p.returncode for p in ps]
        chk = L.jug_cli(['check', 'jugfile.py', '--will-cite'], d)
        rp = {'kind': 'many-phases', 'phases': phases, 'nr_wait_cycles': cycles, 'processes': nproc}
        run.case(('many-phases', phases, cycles, nproc), nontrivial=True)
        run.count('many_phase_runs')
        from jug.backends.file_store import file_store
        s_ = file_store(os.path.join(d, 'jugfile.jugdata'))
        nres = len(list(s_.list()))
        if any(rcs):
            run.fail('phases-execute-fails', '%d phases of x = bvalue(step(x)), %d `jug execute` process(es) with --nr-wait-cycles %s: exit statuses %s: %s' % (phases, nproc, cycles, rcs, outs[0][-300:]), rp)
        elif chk.returncode != 0 or nres != phases + 1:
            run.fail('phases-left-unfinished', '%d phases of x = bvalue(step(x)), %d `jug execute` process(es) with --nr-wait-cycles %s: every process exited 0, but only %d of the %d results exist and '
                     '`jug check` exits %d: the reload loop stopped although each pass made progress' % (phases, nproc, cycles or 'default', nres, phases + 1, chk.returncode), rp)
        core.rm_rf(d)


OWNSTORE = '''import os
import jug
from jug import TaskGenerator, bvalue, barrier, value
jug.set_jugdir(os.environ.get('JUGVERIF_RESULTS', 'pipeline.jugdata'))
@TaskGenerator
def nr_parts():
    return 3
@TaskGenerator
def work(i):
    return i * i
@TaskGenerator
def total(vs):
    return sum(vs)
n = bvalue(nr_parts())
parts = [work(i) for i in range(n)]
barrier()
t = total(value(parts))
'''


def own_store_family(run, scratch):
    """a jugfile that selects its results location itself (jug.set_jugdir) while the location named by --jugdir / the default one holds an older
    complete run: barrier(), bvalue() and `jug check` must all look at the location in use"""
    d = os.path.join(scratch, 'ownstore')
    os.makedirs(d)
    open(os.path.join(d, 'pipeline.py'), 'w').write(OWNSTORE)
    common = ['--will-cite', '--nr-wait-cycles', '2', '--wait-cycle-time', '0']
    old = L.jug_cli(['execute', 'pipeline.py'] + common, d)
    chk_old = L.jug_cli(['check', 'pipeline.py', '--will-cite'], d)
    rp = {'kind': 'own-store'}
    run.case(('own-store',), nontrivial=True)
    run.count('own_store_histories')
    if old.returncode != 0 or chk_old.returncode != 0:
        run.fail('own-store-first-run', 'first run (default location): execute exits %d, check exits %d: %s' % (old.returncode, chk_old.returncode, old.stdout[-300:]), rp)
        return
    env = {'JUGVERIF_RESULTS': os.path.join(d, 'run2.jugdata')}
    steps = [('nothing computed in the new location (bvalue closed)', None), ('nr_parts computed (bvalue open, barrier() closed)', ['execute', 'pipeline.py', '--target', 'nr_parts'] + common)]
    for label, cmd in steps:
        if cmd is not None:
            L.jug_cli(cmd, d, env_extra=env)
        chk = L.jug_cli(['check', 'pipeline.py', '--will-cite'], d, env_extra=env)
        if chk.returncode == 0:
            run.fail('check-early', 'jugfile with jug.set_jugdir(<new location>), older complete run in the default location; %s: `jug check` exits 0 (all done) while a barrier is closed' % label, dict(rp, step=label))
            return
    ex = L.jug_cli(['execute', 'pipeline.py'] + common, d, env_extra=env)
    chk = L.jug_cli(['check', 'pipeline.py', '--will-cite'], d, env_extra=env)
    from jug.backends.file_store import file_store
    n2 = len(list(file_store(env['JUGVERIF_RESULTS']).list()))
    if ex.returncode != 0 or chk.returncode != 0 or n2 != 5:
        run.fail('own-store-incomplete', 'jugfile with jug.set_jugdir(<new location>): execute exits %d, check exits %d, %d of 5 results in the new location: %s' % (ex.returncode, chk.returncode, n2, ex.stdout[-300:]), rp)
    core.rm_rf(d)


def replay(path):
    d0 = json.load(open(path)) if True else None
    if d0 and d0.get('replay', {}).get('kind') == 'own-store':
        print(d0['what'])
        sc = core.scratch_dir()
        try:
            return core.replay_family('C14', d0['key'], lambda run_: own_store_family(run_, sc))
        finally:
            core.rm_rf(sc)
    if d0 and d0.get('replay', {}).get('kind') == 'many-phases':
        print(d0['what'])
        sc = core.scratch_dir()
        r_ = d0['replay']
        try:
            return core.replay_family('C14', d0['key'], lambda run_: many_phases_family(run_, sc, ((r_['phases'], r_['nr_wait_cycles'], r_['processes']),)))
        finally:
            core.rm_rf(sc)
    if d0 and d0.get('replay', {}).get('kind') == 'deep-barrier':
        print(d0['what'])
        sc = core.scratch_dir()
        try:
            return core.replay_family('C14', d0['key'], lambda run_: deep_and_reload_family(run_, sc))
        finally:
            core.rm_rf(sc)
    d = json.load(open(path))
    print(d['what'][:1000])
    print(d['replay'].get('program', ''))
    print({k: v for k, v in d['replay'].items() if k != 'program'})
    return 1


EDGE_JUGFILE = '''import os
from jug import TaskGenerator, barrier, bvalue
HERE = os.path.dirname(os.path.abspath(__file__))
def mark(s):
    with open(os.path.join(HERE, 'marks.log'), 'a') as f:
        f.write(s + '\\n')
@TaskGenerator
def good(x):
    return x + 1
@TaskGenerator
def nothing(x):
    return None                 # a task that is run for its effect: its stored value is None
@TaskGenerator
def unstorable(x):
    return (lambda: x)          # the value cannot be pickled: storing the result fails
a = good(1)
n = nothing(a)
v = bvalue(n)                   # a finished task whose value is None: bvalue returns None, it does not stop the file
mark('after-bvalue-of-None %r' % (v,))
b = good(10 if v is None else 20)
%(bad)s
'''


MUT_JUGFILE = """import os
from jug import TaskGenerator, barrier, bvalue, value
HERE = os.path.dirname(os.path.abspath(__file__))
def mark(m):
    open(os.path.join(HERE, 'marks.log'), 'a').write(m + '\\n')
@TaskGenerator
def config():
    return {'scale': 4, 'items': [1, 2, 3], 'extra': [10]}
@TaskGenerator
def names():
    return ['a', 'b', 'c']
@TaskGenerator
def mul(x, k):
    return x * k
@TaskGenerator
def total(xs):
    return sum(xs)
cfg = bvalue(config())
ns = bvalue(names())
# the values bvalue() hands out belong to the jugfile: it takes them apart in place
scale = cfg.pop('scale', 1)
last = ns.pop()
cfg['items'].append(len(ns))
mark('phase-1 scale=%r last=%r items=%r' % (scale, last, cfg['items']))
parts = [mul(x, scale) for x in cfg['items']]
barrier()
mark('phase-2 parts=%r' % (value(parts),))
result = bvalue(total(parts))
mark('phase-3 result=%r' % (result,))
final = mul(result, len(last))
"""


def mutated_bvalue_family(run, scratch):
    """a jugfile that changes the values bvalue() handed to it in place (pop, append): every load - the worker loads the file once per phase, in one process - must
    hand out the stored value again, not an object an earlier load has already taken apart; the final values are those of the sequential run"""
    d = os.path.join(scratch, 'mutated-bvalue')
    os.makedirs(d)
    open(os.path.join(d, 'jugfile.py'), 'w').write(MUT_JUGFILE)
    rp = {'kind': 'mutated-bvalue', 'jugfile': MUT_JUGFILE}
    run.case(('mutated-bvalue',), nontrivial=True)
    run.count('mutated_bvalue_histories')
    common = ['--will-cite', '--nr-wait-cycles', '2', '--wait-cycle-time', '0']
    ex = L.jug_cli(['execute', 'jugfile.py'] + common, d)
    chk = L.jug_cli(['check', 'jugfile.py', '--will-cite'], d)
    try:
        marks = [m for m in open(os.path.join(d, 'marks.log')).read().split('\n') if m]
    except IOError:
        marks = []
    want1, want3 = "phase-1 scale=4 last='c' items=[1, 2, 3, 2]", 'phase-3 result=32'
    wrong1 = sorted(set(m for m in marks if m.startswith('phase-1') and m != want1))
    wrong3 = sorted(set(m for m in marks if m.startswith('phase-3') and m != want3))
    if ex.returncode != 0 or chk.returncode != 0:
        run.fail('mutated-bvalue-incomplete', 'a three-phase jugfile that takes the values of bvalue() apart in place: `jug execute` (one process) exits %d and `jug check` (a fresh process) then %d: %s; marks %s'
                 % (ex.returncode, chk.returncode, ex.stdout[-200:], marks), rp)
    elif wrong1 or wrong3 or want3 not in marks:
        run.fail('bvalue-hands-out-used-object', 'a three-phase jugfile that takes the values of bvalue() apart in place (pop, append): the loads of one `jug execute` process saw %s; every load must see %r and the last %r '
                 '(the stored values, as a sequential run and any fresh process see them)' % ((wrong1 + wrong3) or marks, want1, want3), rp)
    core.rm_rf(d)


def edge_values_family(run, scratch):
    """real `jug execute` / `jug check` on jugfiles whose barrier phases hinge on unusual results: bvalue() of a task whose value is None (a finished task:
    the value None is returned and loading goes on), and a task before a barrier whose result cannot be stored (execute reports the failure, nothing is
    published for it, the barrier stays closed, `jug check` says unfinished)"""
    common = ['--will-cite', '--nr-wait-cycles', '2', '--wait-cycle-time', '0']
    for variant in ('none-value', 'unstorable-before-barrier', 'failure-beside-phases'):
        d = os.path.join(scratch, 'edge-' + variant)
        os.makedirs(d)
        bad = '' if variant == 'none-value' else "u = unstorable(b)\nbarrier()\nmark('after-barrier')\nc = good(30)\n"
        if variant == 'failure-beside-phases':
            # a task that raises, and - independent of it - phases that open one after the other: with --keep-going every pass still runs what can run
            bad = ("@TaskGenerator\ndef boom(x):\n    raise ValueError(x)\nz = boom(0)\nw = bvalue(b)\nmark('phase-2 %r' % (w,))\nc = good(w)\nw2 = bvalue(c)\nmark('phase-3 %r' % (w2,))\nd = good(w2)\n")
        open(os.path.join(d, 'jugfile.py'), 'w').write(EDGE_JUGFILE.replace('%(bad)s', bad))
        rp = {'kind': 'edge-values', 'variant': variant}
        run.case(('edge-values', variant), nontrivial=True)
        run.count('edge_value_histories')
        ex = L.jug_cli(['execute', 'jugfile.py'] + common + (['--keep-going'] if variant != 'none-value' else []), d)
        ex2 = L.jug_cli(['execute', 'jugfile.py'] + common, d)
        chk = L.jug_cli(['check', 'jugfile.py', '--will-cite'], d)
        try:
            marks = open(os.path.join(d, 'marks.log')).read().split('\n')
        except IOError:
            marks = []
        if variant == 'failure-beside-phases':
            if ex.returncode == 0:
                run.fail('exit-zero-after-failure', '`jug execute --keep-going` exits 0 although a task raised: %s' % ex.stdout[-200:], rp)
            if not any(m.startswith('phase-3 12') for m in marks):
                run.fail('phases-not-completed-beside-failure', 'a jugfile with a task that raises and, independent of it, two bvalue() phases: after `jug execute --keep-going` (twice) the marks written are %s - '
                         'the later phases (values 11, 12) were not reached although nothing they need depends on the failing task' % marks, rp)
            core.rm_rf(d)
            continue
        if variant == 'none-value':
            if ex.returncode != 0 or chk.returncode != 0:
                run.fail('bvalue-of-none-stops', 'a jugfile with v = bvalue(t) where the finished task t has the value None: `jug execute` exits %d, a second one %d, `jug check` then %d (the '
                         'loading never gets past bvalue although its task is complete): %s' % (ex.returncode, ex2.returncode, chk.returncode, ex.stdout[-300:]), rp)
            elif not any(m.startswith('after-bvalue-of-None None') for m in marks):
                run.fail('bvalue-of-none-value', 'bvalue(t) of a finished task whose value is None handed out %s' % [m for m in marks if m.startswith('after-bvalue')][-1:], rp)
        else:
            if ex.returncode == 0:
                run.fail('unstorable-result-exit-status', '`jug execute --keep-going` exits 0 although the result of a task could not be stored: %s' % ex.stdout[-300:], rp)
            if 'after-barrier' in marks:
                run.fail('barrier-opens-after-failed-store', 'the result of a task before a barrier could not be stored (its value cannot be pickled), yet a later load of the jugfile ran the statements after the barrier', rp)
            if chk.returncode == 0:
                run.fail('check-reports-complete', 'the result of a task before a barrier could not be stored, yet `jug check` exits 0', rp)
        core.rm_rf(d)
