"""C03 - no task starts before all its dependencies are complete; it sees their results"""
import os

from jugverif import core, execchecks as X, execengine as E

LEVEL = 'proof'
THEOREMS = ['Jug.C03.run_after_deps', 'Jug.C03.blocked_while_dep_missing', 'Jug.C03.args_are_stored_results', 'Jug.C03.result_is_function_of_stored']


def run_one(run, drv, P, scratch, params):
    static_deps(run, P, params)
    c = X.run_params(P, scratch, params, X.newtag())
    X.faultfree_monitors(run, drv, P, scratch, params, c, do_top=False, do_rerun=False)
    return c


def static_deps(run, P, params):
    """what Task.dependencies()/can_run() report vs the results the task really reads (measured by a cache-free sequential run)"""
    for fname, k, got, exp in P.get('seq_arg_diffs', [])[:2]:
        X.fail_case(run, 'wrong-arguments', 'single worker: %s(k=%s) received %s; the stored results of its producers with the tasklet operations applied (= the same text as plain Python) give %s'
                    % (fname, k, got[:200], exp[:200]), P, params)
    for i, inf in enumerate(P['info']):
        missing = sorted(set(inf['reads']) - set(inf['reported']))
        if missing:
            X.fail_case(run, 'dependency-not-reported', 'task %d (%s) reads the stored results of tasks %s (%s) but Task.dependencies() does not report them'
                        % (i, inf['name'], missing, [P['info'][d]['name'] for d in missing]), P, params)
        if inf.get('reported_again', inf['reported']) != inf['reported']:
            X.fail_case(run, 'dependencies-not-idempotent', 'task %d (%s): Task.dependencies() reports %s the first time and %s when asked again' % (i, inf['name'], inf['reported'], inf['reported_again']), P, params)
        if not inf['can_run']:
            X.fail_case(run, 'can_run-false-with-all-deps', 'task %d (%s): can_run() is False although every earlier task has run' % (i, inf['name']), P, params)


def check(run):
    quick = run.tier == 'quick'
    run.rule = ('generated jugfiles covering every way a dependency can be embedded (see coverage.counts.embedding_kinds); per program: Task.dependencies() vs the set of results '
                'the task really loads (cache-free sequential run); random gated schedules on all backends; and *edge tests*: for semantic edges d->c a worker is held inside the '
                'function of d while the other workers run on: c must not begin; the arguments every library function receives are compared with the stored results; '
                'non-trivial = an edge test in which the held dependency blocked a consumer, or a run with >= 2 active workers; distinct by (program, params)')
    drv = X.setup(run, THEOREMS)
    X.loop_correspondence(run, drv)
    rng = core.rng_for(run.seed, 'c03')
    scratch = core.scratch_dir()
    embed_total, edges_tested = {}, 0
    try:
        nprog = 32 if quick else 200
        from jugverif import genprog
        fixed = genprog.single_link_programs() + genprog.late_fill_programs()
        for pi in range(nprog + len(fixed)):
            if pi < len(fixed):
                # every embedding kind as the ONLY link between a producer and a consumer
                P = E.analyse_text(fixed[pi].text, scratch, fixed[pi].embed, plain_ok=not getattr(fixed[pi], 'late', False))
            else:
                P = E.prepare(rng, scratch, rng.choice([6, 9, 12]) if quick else rng.choice([6, 9, 12, 20, 30]), want=genprog.RARE[pi % len(genprog.RARE)])
            for k, v in P['embed'].items():
                embed_total[k] = embed_total.get(k, 0) + v
            cases = []
            for backend in (X.BACKENDS if pi >= len(fixed) else [X.BACKENDS[pi % len(X.BACKENDS)]]):
                nw = rng.choice([2, 3])
                cases.append({'backend': backend, 'nworkers': nw, 'sched_seed': rng.randrange(10 ** 9), 'flags': {w: [False, False, rng.random() < 0.5] for w in range(nw)},
                              'pre_done': max(1, P['n'] // 3) if backend == 'filepack' else 0})
            edges = [(d, c) for c, inf in enumerate(P['info']) for d in inf['reads']]
            rng.shuffle(edges)
            for j, (d, c) in enumerate(edges if not quick else edges[:6]):
                cases.append({'backend': ['dict', 'file', 'redis'][j % 3], 'nworkers': 2 + j % 2, 'sched_seed': rng.randrange(10 ** 9), 'policy': ['hold', 0, d, 150], 'edge': [d, c]})
            for params in cases:
                c = run_one(run, drv, P, scratch, params)
                nontriv = X.workers_active(c.trace) >= 2
                if params.get('edge'):
                    edges_tested += 1
                run.case((pi, str(sorted(params.items())), run.seed), nontrivial=nontriv)
                if len(run.samples) < 2 and params.get('edge') and nontriv:
                    d, cc = params['edge']
                    run.sample({'edge': '%s -> %s' % (P['info'][d]['name'], P['info'][cc]['name']), 'params': params, 'program': P['text'].split('\n')[2:]})
            core.rm_rf(scratch)
            os.makedirs(scratch, exist_ok=True)
        invalidate_race_family(run, scratch, rng, 60 if quick else 400)
        run.counts['embedding_kinds'] = embed_total
        run.counts['edge_tests'] = edges_tested
        if drv is not None and run.corr_disagreements == 0:
            run.obligation('trace validation: %d real multi-worker histories (%d events) accepted by the Lean model (begin only with all dependencies stored)' % (run.counts.get('traces_validated', 0), run.counts.get('trace_events_validated', 0)), True)
    finally:
        core.rm_rf(scratch)
        if drv is not None:
            drv.close()


def invalidate_race_family(run, scratch, rng, n):
    """while one worker is inside a dependency of a consumer and the consumer's other dependency is already complete, ANOTHER PROCESS removes that complete result
    (`jug invalidate` from another terminal: a different store object on the same data). The consumer must not be started on the strength of what a worker saw earlier:
    it starts only if the removed dependency has a result again"""
    from jugverif import genprog
    text = genprog.HEADER + 'a = mk(1, 5)\nb = mk(2, 4)\nc = use(20, [a, b])\ne = inc(21, c)\nz = const(30)\n'
    os.makedirs(scratch, exist_ok=True)
    P = E.analyse_text(text, scratch)
    by_k = {k: i for i, k in P['ks'].items()}
    ia, ib = by_k[1], by_k[2]
    for j in range(n):
        backend = ['file', 'redis', 'file', 'dict', 'filepack', 'file'][j % 6]
        params = {'backend': backend, 'nworkers': 2 + j % 2, 'sched_seed': rng.randrange(10 ** 9), 'policy': ['hold', 0, ib, [6, 15, 40, 120][j % 4]], 'operator': ['remove-result:%d' % ia, 0, ib],
                  'pre_done': 0}
        c = X.run_params(P, scratch, params, X.newtag())
        run.case(('invalidate-race', j, run.seed), nontrivial=any(cl[0] == 'R' for cl in c.calls))
        run.count('invalidate_race_runs')
        pos_r = [p for p, cl in enumerate(c.calls) if cl[0] == 'R']
        if not pos_r:
            continue
        after = c.calls[pos_r[0] + 1:]
        recomputed_before = None
        # a worker that computed or loaded the removed result itself still has the value in memory (Task._result) and may go on with it - that is jug's
        # documented per-process cache, not a claim about the store; the family is about workers that only ever ASKED whether the result exists
        holders = {cl[3] for cl in c.calls[:pos_r[0]] if cl[0] == 'E' and cl[2] == 1} | {e[1] for e in c.trace if e[0] == 'load' and e[2] == ia}
        for cl in after:
            if cl[0] == 'E' and cl[2] == 1:
                recomputed_before = True
            if cl[0] == 'B' and cl[2] == 20:
                if not recomputed_before and cl[3] not in holders:
                    X.fail_case(run, 'started-after-dependency-removed', 'use(k=20) depends on mk(k=1) and mk(k=2); while worker 0 was inside mk(k=2) another process removed the (complete) result of mk(k=1) '
                                'from the %s store; use(k=20) was started afterwards by worker %s although mk(k=1) had no result again (a worker relied on what it had seen before)' % (backend, cl[3]), P, params)
                break
        bad = {w: r for w, r in c.results.items() if r and r[0] == 'raise' and r[1] not in ('SystemExit',)}
        if bad:
            X.fail_case(run, 'worker-dies-after-invalidate', 'after another process removed a result during the run, workers ended with %s' % bad, P, params)


def replay(path):
    return X.replay(path, 'C03')
