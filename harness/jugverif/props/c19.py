"""C19 - keep-alive locks: live workers never reported dead, dead ones eventually are"""
import ast
import inspect
import json
import os
import sys
import time
import types

from jugverif import core

LEVEL = 'proof'
THEOREMS = ['Jug.C19.live_never_failed', 'Jug.C19.start_inv', 'Jug.C19.dead_eventually_failed', 'Jug.C19.terminates_parent_gone', 'Jug.C19.terminates_lock_gone',
            'Jug.C19.constants_safe', 'Jug.C19.loop_matches', 'Jug.C19.exits_match', 'Jug.C19.helper_started_plainly', 'Jug.C19.round_live']


class Done(BaseException):
    pass


class Sim:
    """simulated clock + file state driving the *real* monitor main() and the real is_failed()"""

    def __init__(self, deltas, death=None, removal=None, horizon=None):
        self.t0 = 1_000_000.0
        self.now = self.t0
        self.mtime = self.t0
        self.deltas = deltas            # callable(round) -> overshoot
        self.death, self.removal, self.horizon = death, removal, horizon
        self.calls = []
        self.refreshes = []
        self.exists = True
        self.max_age = 0.0
        self.rounds = 0
        self.parent = 4242

    def sleep(self, s):
        self.calls.append(('sleep', s))
        self.rounds += 1
        if self.rounds > 400000 or (self.horizon is None and self.now - self.t0 > (self.death or 0) + (self.removal or 0) + 20000):
            raise Done()        # never hang: a helper that should have exited long ago counts as 'running'
        self.now += s + self.deltas(self.rounds)
        self.max_age = max(self.max_age, self.now - self.mtime)
        if self.horizon is not None and self.now - self.t0 > self.horizon:
            raise Done()
        if self.removal is not None and self.now - self.t0 >= self.removal:
            self.exists = False

    def getppid(self):
        self.calls.append(('parentCheck',))
        return 1 if (self.death is not None and self.now - self.t0 >= self.death) else self.parent

    def kill(self, pid, sig):
        return None

    def utime(self, path, times):
        self.calls.append(('utime',))
        if not self.exists:
            raise FileNotFoundError(path)
        self.mtime = self.now if times is None else times[1]
        self.refreshes.append(self.now - self.t0)


def run_monitor(sim):
    import jug.backends.file_keepalive_monitor as mon
    saved = (mon.sleep, mon.getppid, mon.kill, mon.utime, mon.argv)
    mon.sleep, mon.getppid, mon.kill, mon.utime = sim.sleep, sim.getppid, sim.kill, sim.utime
    mon.argv = ['x', 'LOCK']
    try:
        mon.main()
        return ('exited', sim.now - sim.t0)
    except Done:
        return ('running', sim.now - sim.t0)
    finally:
        mon.sleep, mon.getppid, mon.kill, mon.utime, mon.argv = saved


def real_is_failed(sim, at):
    """the real file_keepalive_based_lock.is_failed() with time/stat/exists taken from the simulation"""
    import jug.backends.file_store as fs
    lock = fs.file_keepalive_based_lock('JD', 'name')
    saved = (fs.time, fs.os, fs.path, fs.exists)

    class O:
        def __getattr__(self, n):
            return getattr(os, n)

        def stat(self, p):
            return types.SimpleNamespace(st_mtime=sim.mtime)

    class Pth:
        def __getattr__(self, n):
            return getattr(os.path, n)

        def exists(self, p):
            return sim.exists
    fs.time = lambda: sim.t0 + at
    fs.os, fs.path, fs.exists = O(), Pth(), (lambda p: sim.exists)
    try:
        return bool(lock.is_failed())
    finally:
        fs.time, fs.os, fs.path, fs.exists = saved


def collapse(calls):
    # main() reads the parent pid once before the loop: that first getppid() is not part of a round
    if calls and calls[0][0] == 'parentCheck':
        calls = calls[1:]
    out = []
    for c in calls:
        if c[0] == 'sleep':
            out.append('.sleep %d' % c[1])
        elif c[0] == 'parentCheck':
            out.append('.parentCheck')
        else:
            out.append('.utime')
    return '[' + ', '.join(out) + ']'


def extract():
    import jug.backends.file_store as fs
    import jug.backends.file_keepalive_monitor as mon
    # constants: measured from the behaviour of the real loop on the simulated clock
    sim = Sim(lambda r: 0, horizon=700)
    run_monitor(sim)
    sleeps = {c[1] for c in sim.calls if c[0] == 'sleep'}
    period = sorted(sleeps)[0] if len(sleeps) == 1 else -1
    rounds = int(round(sim.refreshes[0] / period)) if sim.refreshes and period > 0 else 0
    # expiry: smallest age at which the real is_failed() says True
    s2 = Sim(lambda r: 0)
    expiry = None
    lo, hi = 0, 10 ** 7
    while lo < hi:
        mid = (lo + hi) // 2
        if real_is_failed(s2, mid):
            hi = mid
        else:
            lo = mid + 1
    expiry = lo
    # traces
    sim = Sim(lambda r: 0, horizon=125 * max(period, 1))
    run_monitor(sim)
    live = sim.calls[:]
    # the horizon check happens inside sleep of round 126: drop that last sleep
    live = live[:-1] if live and live[-1][0] == 'sleep' else live
    pg = Sim(lambda r: 0, death=0)
    run_monitor(pg)
    # lock gone: start the real loop so that the next round refreshes -> needs `rounds` rounds; take the last round's calls
    lg = Sim(lambda r: 0, removal=0)
    run_monitor(lg)
    lg_last = lg.calls[-3:] if len(lg.calls) >= 3 else lg.calls
    # how the helper is started / stopped
    seen = {}

    class FakePopen:
        def __init__(self, argv, **kw):
            seen['argv'], seen['kw'] = list(argv), dict(kw)
            seen['killed'] = 0

        def kill(self):
            seen['killed'] += 1
    saved = fs.Popen
    fs.Popen = FakePopen
    d = core.scratch_dir()
    try:
        lk = fs.file_keepalive_based_lock(os.path.join(d, 'jd'), 'name')
        lk.get()
        path_ok = seen.get('argv', [None])[-1] == lk.fullname
        k0 = seen.get('killed', 0)
        lk.release()
        rel_kills = seen.get('killed', 0) > k0
        lk.get()
        k1 = seen.get('killed', 0)
        lk.fail()
        fail_kills = seen.get('killed', 0) > k1
        lk.release()
    finally:
        fs.Popen = saved
        core.rm_rf(d)
    txt = 'import JugModel.Model.KeepAlive\nnamespace Jug.Generated.KeepAlive\nopen Jug.KeepAlive\n'
    txt += 'def consts : Consts := { period := %d, rounds := %d, expiry := %d }\n' % (period, rounds, expiry)
    txt += 'def liveTrace : List Call := %s\n' % collapse(live)
    txt += 'def parentGoneTrace : List Call := %s\n' % collapse(pg.calls)
    txt += 'def lockGoneTrace : List Call := %s\n' % collapse(lg_last)
    txt += 'def popenExtraKwargs : List String := [%s]\n' % ', '.join('"%s"' % k for k in sorted(seen.get('kw', {})))
    txt += 'def popenPathIsLockPath : Bool := %s\n' % ('true' if path_ok else 'false')
    txt += 'def releaseKillsHelper : Bool := %s\ndef failKillsHelper : Bool := %s\n' % ('true' if rel_kills else 'false', 'true' if fail_kills else 'false')
    txt += 'end Jug.Generated.KeepAlive\n'
    core.write_generated('KeepAliveConsts', txt)
    return {'period': period, 'rounds': rounds, 'expiry': expiry}


def check(run):
    quick = run.tier == 'quick'
    run.rule = ('the real monitor main() and the real is_failed() driven on a simulated clock: task durations from seconds to 10 days, random and adversarial round overshoots up to the bound of the theorem, '
                'worker death at every offset of the refresh schedule, external lock removal, plus a real helper process started by the real lock with a relative jug directory (time.sleep scaled); '
                'model state (mtime, exit round) compared with the real run; non-trivial = the run crossed at least one refresh; distinct by parameters')
    run.assumptions = ['a round of the helper overshoots its 5 s sleep by less than the bound Δ of live_never_failed (24 s with today\'s constants, incl. the start-up delay of the helper)',
                       'getppid()/kill(pid, 0) report the death of the worker at the next wake-up', 'a refresh in flight while the helper is being SIGKILLed is not modelled']
    run.trusted = ['Lean 4.33.0 kernel', 'axioms propext, Classical.choice, Quot.sound', 'harness/jugverif/props/c19.py (simulated clock; constants and call order are measured from the behaviour of the real loop)']
    k = extract()
    run.lean(['JugModel.Props.C19', 'jugdrv'], theorems_expected=THEOREMS)
    rng = core.rng_for(run.seed, 'c19')
    P, R, E = k['period'], k['rounds'], k['expiry']
    if P <= 0 or R <= 0:
        run.obligation('constants extracted', False, str(k))
        return
    DELTA = 24
    # 1. live workers: never failed
    horizons = [30, 301, 3000, 86400, 10 * 86400] if quick else [30, 301, 3000, 20000, 86400, 3 * 86400, 10 * 86400, 30 * 86400]
    for hz in horizons:
        for mode in ('zero', 'max', 'random', 'alternating'):
            f = {'zero': lambda r: 0, 'max': lambda r: DELTA, 'random': (lambda r, g=core.rng_for(run.seed, 'c19', hz): g.uniform(0, DELTA)), 'alternating': lambda r: DELTA if r % 2 else 0}[mode]
            sim = Sim(f, horizon=hz)
            st = run_monitor(sim)
            run.case(('live', hz, mode), nontrivial=len(sim.refreshes) >= 1)
            rp = {'kind': 'live', 'horizon': hz, 'mode': mode}
            if st[0] != 'running':
                run.fail('monitor-exits-while-live', 'the helper of a live worker exited after %.0f s (overshoot mode %s)' % (st[1], mode), rp)
            if sim.max_age + 59 >= E:
                run.fail('live-lock-expires', 'live worker, rounds overshooting by <= %d s (%s): the lock reached age %.0f s >= expiry %d (would be reported failed)' % (DELTA, mode, sim.max_age + 59, E), rp)
            # the real is_failed at the worst instant seen
            worst = sim.t0 + sim.max_age
            if real_is_failed(Sim(lambda r: 0), sim.max_age) and sim.max_age < E:
                run.fail('is_failed-wrong', 'is_failed() reports a lock of age %.0f s < %d as failed' % (sim.max_age, E), rp)
            # model: refresh every R rounds exactly
            exp_refreshes = sim.rounds // R if st[0] == 'running' else None
            if exp_refreshes is not None and abs(len(sim.refreshes) - exp_refreshes) > 1:
                run.corr_disagreements += 1
                run.obligation('correspondence monitor model=code (refresh count)', False, 'rounds %d refreshes %d expected %d' % (sim.rounds, len(sim.refreshes), exp_refreshes))
            run.corr_programs += 1
            if len(run.samples) < 2 and hz == 3000:
                run.sample({'live_worker_s': hz, 'overshoot': mode, 'refreshes_at': sim.refreshes[:4], 'max_age_seen': sim.max_age})
    # 2. death at every offset of the refresh schedule
    offsets = list(range(0, R * P + 3 * P, 7 if quick else 1)) + [R * P - 1, R * P, R * P + 1, 2 * R * P - 1, 2 * R * P, 5 * R * P + 3]
    for death in offsets:
        for delta in ((0, 3.5) if quick else (0, 1, 3.5, 12, DELTA)):
            sim = Sim(lambda r, d=delta: d, death=death)
            st = run_monitor(sim)
            run.case(('death', death, delta), nontrivial=death >= R * P)
            rp = {'kind': 'death', 'death': death, 'delta': delta}
            if st[0] != 'exited':
                run.fail('monitor-survives-worker', 'worker died at +%d s but its helper kept running' % death, rp)
                continue
            if st[1] > death + P + delta + 1e-6:
                run.fail('monitor-exits-late', 'worker died at +%d s, helper exited only at +%.1f s (more than one round later)' % (death, st[1]), rp)
            late = [r for r in sim.refreshes if r > death + 1e-9]
            if late:
                run.fail('refresh-after-death', 'worker died at +%d s but the helper refreshed the lock at %s' % (death, late[:3]), rp)
            last = sim.mtime - sim.t0
            if not real_is_failed(sim, death + E):
                run.fail('dead-not-failed', 'worker died at +%d s (last refresh +%.0f): is_failed() is still False at death + expiry' % (death, last), rp)
            if real_is_failed(sim, last + E - 1):
                run.fail('failed-too-early', 'lock last refreshed at +%.0f reported failed already at age %d' % (last, E - 1), rp)
            run.corr_programs += 1
    # 3. external removal of the lock file
    for removal in ([10, 299, 300, 301, 1000] if quick else list(range(0, 2 * R * P, 13))):
        sim = Sim(lambda r: 0.5, removal=removal)
        st = run_monitor(sim)
        run.case(('removal', removal), nontrivial=True)
        if st[0] != 'exited' or st[1] > removal + R * (P + 0.5) + P + 1:
            run.fail('monitor-survives-lock-removal', 'lock file removed at +%d s: helper state %s' % (removal, st), {'kind': 'removal', 'removal': removal})
    # 4. the real helper process, started by the real lock with a relative jug directory
    real_helper(run, quick)
    if run.corr_disagreements == 0:
        run.obligation('correspondence: %d simulated-clock runs of the real monitor/is_failed agree with the model' % run.corr_programs, True)


SITE = '''
import time as _t
_real = _t.sleep
_t.sleep = lambda s: _real(s / %d.0)
'''


def real_helper(run, quick):
    """a real helper process (time.sleep scaled by 100): refreshes a lock given by a *relative* path; dies with release; exits when the worker dies"""
    import subprocess
    d = core.scratch_dir()
    try:
        with open(os.path.join(d, 'sitecustomize.py'), 'w') as f:
            f.write(SITE % 100)
        code = r'''
import os, sys, time
os.chdir(%r)
import jug.backends.file_store as fs
lk = fs.file_keepalive_based_lock('rel.jugdata', 'abcd')
assert lk.get()
m0 = os.stat(lk.fullname).st_mtime
os.utime(lk.fullname, (m0 - 1000, m0 - 1000))
pid = lk.monitor.pid
t0 = time.time()
refreshed = False
while time.time() - t0 < 8:
    if os.stat(lk.fullname).st_mtime > m0 - 900:
        refreshed = True
        break
    time.sleep(0.1)
print('REFRESHED', refreshed, flush=True)
mode = sys.argv[1]
if mode == 'release':
    lk.release()
    time.sleep(0.3)
    alive = os.path.exists('/proc/%%d' %% pid) and 'Z' not in open('/proc/%%d/stat' %% pid).read().split()[2]
    print('HELPER_ALIVE_AFTER_RELEASE', alive, flush=True)
else:
    print('HELPERPID', pid, flush=True)
    os.kill(os.getpid(), 9)
''' % d
        env = dict(os.environ, PYTHONPATH=d + os.pathsep + core.REPO + os.pathsep + os.environ.get('PYTHONPATH', ''))
        for mode in (['release'] if quick else ['release', 'die']):
            p = subprocess.run([sys.executable, '-c', code, mode], stdout=subprocess.PIPE, stderr=subprocess.PIPE, text=True, env=env, timeout=60, cwd=d)
            out = p.stdout
            run.case(('real-helper', mode), nontrivial=True)
            run.count('real_helper_runs')
            rp = {'kind': 'real-helper', 'mode': mode}
            if 'REFRESHED True' not in out:
                run.fail('helper-does-not-refresh', 'real helper process started by the real lock (relative jug directory): lock not refreshed within 1.5 refresh periods: %s %s' % (out.strip(), p.stderr[-300:]), rp)
            if mode == 'release' and 'HELPER_ALIVE_AFTER_RELEASE False' not in out:
                run.fail('helper-survives-release', 'the helper process is still alive after release(): %s' % out.strip(), rp)
            if mode == 'die':
                import re
                m = re.search(r'HELPERPID (\d+)', out)
                if m:
                    pid = int(m.group(1))
                    t0 = time.time()
                    gone = False
                    while time.time() - t0 < 3:
                        if not os.path.exists('/proc/%d' % pid):
                            gone = True
                            break
                        time.sleep(0.05)
                    if not gone:
                        run.fail('helper-survives-worker', 'worker was SIGKILLed, its helper (pid %d) is still running after 300 scaled seconds' % pid, rp)
                        try:
                            os.kill(pid, 9)
                        except OSError:
                            pass
    finally:
        core.rm_rf(d)


def replay(path):
    d = json.load(open(path))
    print(d['what'])
    r = d['replay']
    run = core.Run('C19', 'quick')
    if r.get('kind') == 'real-helper':
        real_helper(run, r.get('mode') == 'release')
    elif r.get('kind') == 'death':
        sim = Sim(lambda rr: r['delta'], death=r['death'])
        print('monitor:', run_monitor(sim), 'refreshes', sim.refreshes[-3:])
        return 1
    for f in run.failures:
        print('FAILS:', f['what'])
    return 1 if run.failures else 0
