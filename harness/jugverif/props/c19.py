"""C19 - keep-alive locks: live workers never reported dead, dead ones eventually are"""
import ast
import inspect
import json
import os
import sys
import time
import types

from jugverif import core

LEVEL = 'proof'
THEOREMS = ['Jug.C19.live_never_failed', 'Jug.C19.start_inv', 'Jug.C19.dead_eventually_failed', 'Jug.C19.terminates_parent_gone', 'Jug.C19.terminates_lock_gone',
            'Jug.C19.constants_safe', 'Jug.C19.loop_matches', 'Jug.C19.exits_match', 'Jug.C19.helper_started_plainly', 'Jug.C19.round_live',
            'Jug.C19.run_mtime_le_now', 'Jug.C19.lock_gone_stops', 'Jug.C19.dead_worker_run', 'Jug.C19.stopped_is_final', 'Jug.C19.runEnv_live', 'Jug.C19.live_never_failed_code', 'Jug.C19.dead_worker_code',
            'Jug.KALockProps.held_lock_has_helper', 'Jug.KALockProps.get_spec', 'Jug.KALockProps.let_go_stops_helper', 'Jug.KALockProps.no_orphans_without_interference']


class Done(BaseException):
    pass


_REAL = {'utime': os.utime, 'exists': os.path.exists, 'stat': os.stat, 'unlink': os.unlink, 'getppid': os.getppid, 'kill': os.kill}


class Sim:
    """simulated clock driving the *real* monitor main() and the real is_failed() on a REAL lock file: whatever way the code refreshes the
    file (utime, touch, rewriting it ...) ends up in the interposed os.utime / the real file system, so the harness does not depend on
    the names the module happens to import"""

    def __init__(self, deltas, death=None, removal=None, horizon=None, parent=4242):
        import tempfile
        self.t0 = 1_000_000.0
        self.now = self.t0
        self.dir = tempfile.mkdtemp(prefix='jugverif-c19-')
        Sim.ALL.append(self)
        # the lock file is made by the real lock class (whatever it writes into it: today the pid and host name of the process that took it). That process - this
        # one - is alive throughout, as is any process that happens to have got the pid of a worker that died long ago
        import jug.backends.file_store as _fs
        _saved_popen = _fs.Popen

        class _NoHelper:
            def __init__(self, *a, **k):
                pass

            def kill(self):
                pass
        _fs.Popen = _NoHelper
        try:
            _lk = _fs.file_keepalive_based_lock(self.dir, 'b' * 40)
            if not _lk.get():
                raise core.InfraError('cannot take a fresh keep-alive lock')
            _lk.monitor = None
            self.path = _lk.fullname
        finally:
            _fs.Popen = _saved_popen
        _REAL['utime'](self.path, (self.t0, self.t0))
        self.deltas = deltas            # callable(round) -> overshoot
        self.death, self.removal, self.horizon = death, removal, horizon
        self.calls = []
        self.refreshes = []
        self.removed = False
        self.max_age = 0.0
        self.rounds = 0
        self.parent = parent       # the worker's pid as the helper sees it (1: the worker is the first process of a container / PID namespace)

    @property
    def exists(self):
        return _REAL['exists'](self.path)

    @property
    def mtime(self):
        try:
            return _REAL['stat'](self.path).st_mtime
        except OSError:
            return self.t0

    ALL = []

    def close(self):
        import shutil
        shutil.rmtree(self.dir, ignore_errors=True)

    @classmethod
    def close_all(cls):
        for s_ in cls.ALL:
            s_.close()
        del cls.ALL[:]

    def sleep(self, s):
        self.calls.append(('sleep', s))
        self.rounds += 1
        if self.rounds > 400000 or (self.horizon is None and self.now - self.t0 > (self.death or 0) + (self.removal or 0) + 20000):
            raise Done()        # never hang: a helper that should have exited long ago counts as 'running'
        self.now += s + self.deltas(self.rounds)
        if self.exists:
            self.max_age = max(self.max_age, self.now - self.mtime)
        if self.horizon is not None and self.now - self.t0 > self.horizon:
            raise Done()
        if self.removal is not None and self.now - self.t0 >= self.removal and not self.removed:
            self.removed = True
            try:
                _REAL['unlink'](self.path)      # `jug cleanup --locks-only`, release by somebody else ...
            except OSError:
                pass

    def getppid(self):
        self.calls.append(('parentCheck',))
        return 1 if (self.death is not None and self.now - self.t0 >= self.death) else self.parent

    def kill(self, pid, sig):
        return None

    def utime(self, path, times=None, **kw):
        if os.path.abspath(str(path)) != os.path.abspath(self.path):
            return _REAL['utime'](path, times, **kw)
        self.calls.append(('utime',))
        _REAL['utime'](self.path, (self.now, self.now) if times is None else times)      # raises FileNotFoundError if the lock is gone
        self.refreshes.append(self.now - self.t0)


def helper_argv(sim):
    """the command line the real lock class gives its helper (the worker's pid as the worker sees it is `sim.parent`), with the lock path replaced by the simulated one"""
    import jug.backends.file_store as fs
    captured = {}

    class FakeP:
        def __init__(self, args, *a, **kw):
            captured['args'] = [str(x) for x in args]

        def kill(self):
            pass
    saved_popen, saved_getpid = fs.Popen, os.getpid
    fs.Popen = FakeP
    os.getpid = lambda: sim.parent
    try:
        lk = fs.file_keepalive_based_lock(sim.dir, 'name-of-the-lock')
        lk.start_monitor()
        lk.monitor = None
    finally:
        fs.Popen = saved_popen
        os.getpid = saved_getpid
    args = captured.get('args', [])
    tail = []
    for i, a in enumerate(args):
        if a.endswith('file_keepalive_monitor') or a.endswith('file_keepalive_monitor.py'):
            tail = args[i + 1:]
    tail = [sim.path if (j == 0 or a == getattr(lk, 'fullname', None)) else a for j, a in enumerate(tail)] or [sim.path]
    return ['x'] + tail


def run_monitor(sim):
    import time as _time
    import jug.backends.file_keepalive_monitor as mon
    hargv = helper_argv(sim)
    patched = []

    def patch(obj, name, val):
        if hasattr(obj, name):
            patched.append((obj, name, getattr(obj, name)))
            setattr(obj, name, val)
    # the names the module may have bound at import time, and the library functions themselves
    for name, val in (('sleep', sim.sleep), ('getppid', sim.getppid), ('kill', sim.kill), ('utime', sim.utime)):
        patch(mon, name, val)
    patch(os, 'utime', sim.utime)
    patch(os, 'getppid', sim.getppid)
    patch(os, 'kill', sim.kill)
    patch(_time, 'sleep', sim.sleep)
    patch(_time, 'time', lambda: sim.now)
    patch(mon, 'time', lambda: sim.now)
    import sys as _sys
    saved_argv = (mon.argv if hasattr(mon, 'argv') else None, list(_sys.argv))
    if hasattr(mon, 'argv'):
        mon.argv = list(hargv)
    _sys.argv[:] = list(hargv)
    try:
        mon.main()
        return ('exited', sim.now - sim.t0)
    except Done:
        return ('running', sim.now - sim.t0)
    finally:
        for obj, name, val in reversed(patched):
            setattr(obj, name, val)
        if saved_argv[0] is not None:
            mon.argv = saved_argv[0]
        _sys.argv[:] = saved_argv[1]


def real_is_failed(sim, at):
    """the real file_keepalive_based_lock.is_failed() of another client on the simulation's real lock file, with the clock at `at` seconds"""
    import jug.backends.file_store as fs
    lock = fs.file_keepalive_based_lock(sim.dir, 'b' * 40)
    assert os.path.abspath(lock.fullname) == os.path.abspath(sim.path)
    saved = fs.time
    fs.time = lambda: sim.t0 + at
    try:
        return bool(lock.is_failed())
    finally:
        fs.time = saved


def collapse(calls):
    # main() reads the parent pid once before the loop: that first getppid() is not part of a round
    if calls and calls[0][0] == 'parentCheck':
        calls = calls[1:]
    out = []
    for c in calls:
        if c[0] == 'sleep':
            out.append('.sleep %d' % c[1])
        elif c[0] == 'parentCheck':
            out.append('.parentCheck')
        else:
            out.append('.utime')
    return '[' + ', '.join(out) + ']'


def extract():
    import jug.backends.file_store as fs
    import jug.backends.file_keepalive_monitor as mon
    # constants: measured from the behaviour of the real loop on the simulated clock
    sim = Sim(lambda r: 0, horizon=700)
    run_monitor(sim)
    if not sim.refreshes:
        # no refresh within 700 s: look further (a helper that refreshes rarely - or never - must still be measured, not skipped)
        sim = Sim(lambda r: 0, horizon=40000)
        run_monitor(sim)
    sleeps = {c[1] for c in sim.calls if c[0] == 'sleep'}
    period = sorted(sleeps)[0] if len(sleeps) == 1 else -1
    rounds = int(round(sim.refreshes[0] / period)) if sim.refreshes and period > 0 else 0
    # expiry: smallest age at which the real is_failed() says True
    s2 = Sim(lambda r: 0)
    expiry = None
    lo, hi = 0, 10 ** 7
    while lo < hi:
        mid = (lo + hi) // 2
        if real_is_failed(s2, mid):
            hi = mid
        else:
            lo = mid + 1
    expiry = lo
    # traces
    sim = Sim(lambda r: 0, horizon=125 * max(period, 1))
    run_monitor(sim)
    live = sim.calls[:]
    # the horizon check happens inside sleep of round 126: drop that last sleep
    live = live[:-1] if live and live[-1][0] == 'sleep' else live
    pg = Sim(lambda r: 0, death=0)
    run_monitor(pg)
    # lock gone: start the real loop so that the next round refreshes -> needs `rounds` rounds; take the last round's calls
    lg = Sim(lambda r: 0, removal=0)
    run_monitor(lg)
    lg_last = lg.calls[-3:] if len(lg.calls) >= 3 else lg.calls
    # how the helper is started / stopped
    seen = {}

    class FakePopen:
        def __init__(self, argv, **kw):
            seen['argv'], seen['kw'] = list(argv), dict(kw)
            seen['killed'] = 0

        def kill(self):
            seen['killed'] += 1
    saved = fs.Popen
    fs.Popen = FakePopen
    d = core.scratch_dir()
    try:
        lk = fs.file_keepalive_based_lock(os.path.join(d, 'jd'), 'name')
        lk.get()
        path_ok = lk.fullname in [str(a_) for a_ in seen.get('argv', [])[1:]]      # among the helper's arguments, spelled exactly as the lock uses it
        k0 = seen.get('killed', 0)
        lk.release()
        rel_kills = seen.get('killed', 0) > k0
        lk.get()
        k1 = seen.get('killed', 0)
        lk.fail()
        fail_kills = seen.get('killed', 0) > k1
        lk.release()
        # fail() racing a refresh: the helper is in the middle of a refresh when it is told to stop (its last utime lands at the
        # instant of the kill). The failed mark must survive that.
        lk2 = fs.file_keepalive_based_lock(os.path.join(d, 'jd'), 'name2')
        lk2.get()
        mon = lk2.monitor
        if mon is not None:
            real_kill = mon.kill

            def kill_with_last_refresh(mon=mon, real_kill=real_kill, path=lk2.fullname):
                try:
                    os.utime(path, None)
                except OSError:
                    pass
                return real_kill()
            mon.kill = kill_with_last_refresh
        lk2.fail()
        other = fs.file_keepalive_based_lock(os.path.join(d, 'jd'), 'name2')
        seen['mark_survives_refresh'] = bool(other.is_failed())
        lk2.release()
    finally:
        fs.Popen = saved
        core.rm_rf(d)
    txt = 'import JugModel.Model.KeepAlive\nnamespace Jug.Generated.KeepAlive\nopen Jug.KeepAlive\n'
    txt += 'def consts : Consts := { period := %d, rounds := %d, expiry := %d }\n' % (period, rounds, expiry)
    txt += 'def liveTrace : List Call := %s\n' % collapse(live)
    txt += 'def parentGoneTrace : List Call := %s\n' % collapse(pg.calls)
    txt += 'def lockGoneTrace : List Call := %s\n' % collapse(lg_last)
    txt += 'def popenExtraKwargs : List String := [%s]\n' % ', '.join('"%s"' % k for k in sorted(seen.get('kw', {})))
    txt += 'def popenPathIsLockPath : Bool := %s\n' % ('true' if path_ok else 'false')
    txt += 'def releaseKillsHelper : Bool := %s\ndef failKillsHelper : Bool := %s\n' % ('true' if rel_kills else 'false', 'true' if fail_kills else 'false')
    txt += '/-- a refresh that lands while the helper is being stopped by fail() does not undo the failed mark (the helper is stopped first) -/\n'
    txt += 'def failMarkSurvivesRacingRefresh : Bool := %s\n' % ('true' if seen.get('mark_survives_refresh') else 'false')
    txt += 'end Jug.Generated.KeepAlive\n'
    core.write_generated('KeepAliveConsts', txt)
    return {'period': period, 'rounds': rounds, 'expiry': expiry, 'mark_survives_refresh': bool(seen.get('mark_survives_refresh'))}


def check(run):
    quick = run.tier == 'quick'
    run.rule = ('the real monitor main() and the real is_failed() driven on a simulated clock: task durations from seconds to 10 days, random and adversarial round overshoots up to the bound of the theorem, '
                'worker death at every offset of the refresh schedule, external lock removal, plus a real helper process started by the real lock with a relative jug directory (time.sleep scaled); '
                'the lock object under every sequence of up to four owner / environment operations (helper replaced by a stand-in) vs Model/KeepAliveLock.lean; model state (mtime, exit round) compared with the real run; non-trivial = the run crossed at least one refresh; distinct by parameters')
    run.assumptions = ['a wake-up of the helper is late by at most 10 s and the helper starts within 59 s of get() (environment assumption, fixed independently of the constants of the code; today\'s constants would tolerate 24 s)',
                       'getppid()/kill(pid, 0) report the death of the worker at the next wake-up', 'a refresh in flight while the helper is being SIGKILLed is not modelled']
    run.trusted = ['Lean 4.33.0 kernel', 'axioms propext, Classical.choice, Quot.sound', 'harness/jugverif/props/c19.py (simulated clock; constants and call order are measured from the behaviour of the real loop; the stand-in for Popen in the lock-object family behaves as Popen does for kill() / poll())']
    k = extract()
    run.lean(['JugModel.Props.C19', 'JugModel.Props.KALock', 'jugdrv'], theorems_expected=THEOREMS)
    run.case(('fail-racing-refresh',), nontrivial=True)
    if not k.get('mark_survives_refresh', True):
        run.fail('failed-mark-lost-to-refresh', 'keep-alive lock: the holder calls fail() while its helper is in the middle of a refresh (the last utime lands as the helper is stopped): '
                 'afterwards another client sees is_failed() = False - the lock marked failed is reported as an ordinary live lock', {'kind': 'fail-racing-refresh'})
    rng = core.rng_for(run.seed, 'c19')
    P, R, E = k['period'], k['rounds'], k['expiry']
    if P <= 0 or R <= 0:
        run.obligation('constants extracted', False, str(k))
        return
    DELTA = 10   # the environment assumption of constants_safe, not derived from the constants of the code
    # 1. live workers: never failed
    horizons = [30, 301, 3000, 86400, 10 * 86400] if quick else [30, 301, 3000, 20000, 86400, 3 * 86400, 10 * 86400, 30 * 86400]
    for hz in horizons:
        for mode in ('zero', 'max', 'random', 'alternating'):
            f = {'zero': lambda r: 0, 'max': lambda r: DELTA, 'random': (lambda r, g=core.rng_for(run.seed, 'c19', hz): g.uniform(0, DELTA)), 'alternating': lambda r: DELTA if r % 2 else 0}[mode]
            sim = Sim(f, horizon=hz)
            st = run_monitor(sim)
            run.case(('live', hz, mode), nontrivial=len(sim.refreshes) >= 1)
            rp = {'kind': 'live', 'horizon': hz, 'mode': mode}
            if st[0] != 'running':
                run.fail('monitor-exits-while-live', 'the helper of a live worker exited after %.0f s (overshoot mode %s)' % (st[1], mode), rp)
            if sim.max_age + 59 >= E:
                run.fail('live-lock-expires', 'live worker, rounds overshooting by <= %d s (%s): the lock reached age %.0f s >= expiry %d (would be reported failed)' % (DELTA, mode, sim.max_age + 59, E), rp)
            # the real is_failed at the worst instant seen
            worst = sim.t0 + sim.max_age
            if real_is_failed(Sim(lambda r: 0), sim.max_age) and sim.max_age < E:
                run.fail('is_failed-wrong', 'is_failed() reports a lock of age %.0f s < %d as failed' % (sim.max_age, E), rp)
            # model: refresh every R rounds exactly
            exp_refreshes = sim.rounds // R if st[0] == 'running' else None
            if exp_refreshes is not None and abs(len(sim.refreshes) - exp_refreshes) > 1:
                run.corr_disagreements += 1
                run.obligation('correspondence monitor model=code (refresh count)', False, 'rounds %d refreshes %d expected %d' % (sim.rounds, len(sim.refreshes), exp_refreshes))
            run.corr_programs += 1
            if len(run.samples) < 2 and hz == 3000:
                run.sample({'live_worker_s': hz, 'overshoot': mode, 'refreshes_at': sim.refreshes[:4], 'max_age_seen': sim.max_age})
    # 2. death at every offset of the refresh schedule
    offsets = list(range(0, R * P + 3 * P, 7 if quick else 1)) + [R * P - 1, R * P, R * P + 1, 2 * R * P - 1, 2 * R * P, 5 * R * P + 3]
    for death in offsets:
        for delta in ((0, 3.5) if quick else (0, 1, 3.5, 12, DELTA)):
            sim = Sim(lambda r, d=delta: d, death=death)
            st = run_monitor(sim)
            run.case(('death', death, delta), nontrivial=death >= R * P)
            rp = {'kind': 'death', 'death': death, 'delta': delta}
            if st[0] != 'exited':
                run.fail('monitor-survives-worker', 'worker died at +%d s but its helper kept running' % death, rp)
                continue
            if st[1] > death + P + delta + 1e-6:
                run.fail('monitor-exits-late', 'worker died at +%d s, helper exited only at +%.1f s (more than one round later)' % (death, st[1]), rp)
            late = [r for r in sim.refreshes if r > death + 1e-9]
            if late:
                run.fail('refresh-after-death', 'worker died at +%d s but the helper refreshed the lock at %s' % (death, late[:3]), rp)
            last = sim.mtime - sim.t0
            if not real_is_failed(sim, death + E):
                run.fail('dead-not-failed', 'worker died at +%d s (last refresh +%.0f): is_failed() is still False at death + expiry' % (death, last), rp)
            if real_is_failed(sim, last + E - 1):
                run.fail('failed-too-early', 'lock last refreshed at +%.0f reported failed already at age %d' % (last, E - 1), rp)
            if death in offsets[:3] or death % 35 == 0:
                # once failed, failed at every later instant (hours, days, months after the last refresh) until somebody removes the lock
                for age in (E + 1, 2 * E, 86400 - 1, 86400, 86400 + 60, 86400 + E - 1, 2 * 86400 + 900, 10 * 86400 + 5, 400 * 86400 + 1234):
                    run.count('old_lock_ages')
                    if not real_is_failed(sim, last + age):
                        run.fail('dead-not-failed', 'worker died at +%d s (last refresh +%.0f): is_failed() is False %d s (%.1f days) after the last refresh' % (death, last, age, age / 86400.0), dict(rp, age=age))
                        break
            run.corr_programs += 1
    # 2b. a worker that is process 1 of its PID namespace (`jug execute` as the entry point of a container): alive all the time - its lock must be
    #     refreshed like anybody else's and never be reported failed
    sim = Sim(lambda r: 0.5, horizon=3 * E, parent=1)
    st = run_monitor(sim)
    run.case(('live-worker-pid1',), nontrivial=True)
    run.count('pid1_worker_runs')
    if st[0] != 'running' or sim.max_age >= E:
        run.fail('live-worker-reported-dead:pid1', 'a live worker whose pid is 1 (first process of a container): its keep-alive helper %s; the lock was %s and reached an age of %d s (expiry %d s), so the '
                 'worker is reported failed although it is alive and `cleanup --failed-only` would hand its task to somebody else'
                 % ('ended after %d s' % st[1] if st[0] == 'exited' else 'runs', 'refreshed %d times' % len(sim.refreshes) if sim.refreshes else 'never refreshed', sim.max_age, E),
                 {'kind': 'pid1-worker', 'horizon': 3 * E})
    # 2c. the helper cannot be started (no more processes / memory at that moment): a lock that nobody will refresh must not be handed out as if nothing had happened -
    #     get() reports the error (the worker does not start the task), or it does not claim the lock
    import errno as _errno
    import jug.backends.file_store as _fs
    _saved_popen = _fs.Popen

    def _no_fork(*a, **k):
        raise OSError(_errno.EAGAIN, 'Resource temporarily unavailable')
    _d = core.scratch_dir()
    try:
        _fs.Popen = _no_fork
        _lk = _fs.file_keepalive_based_lock(_d, 'c' * 40)
        try:
            got = bool(_lk.get())
            err = None
        except OSError as e:
            got, err = None, e
        run.case(('helper-cannot-start',), nontrivial=True)
        run.count('helper_spawn_failures')
        if got is True and getattr(_lk, 'monitor', None) is None:
            run.fail('lock-without-helper', 'the keep-alive helper could not be started (fork fails with EAGAIN): get() nevertheless returns True - the worker goes on with a lock that '
                     'nobody refreshes, is reported failed after %d s although it is alive, and `cleanup --failed-only` hands its task to somebody else' % E, {'kind': 'helper-cannot-start'})
    finally:
        _fs.Popen = _saved_popen
        core.rm_rf(_d)
    # 3. external removal of the lock file
    for removal in ([10, 299, 300, 301, 1000] if quick else list(range(0, 2 * R * P, 13))):
        sim = Sim(lambda r: 0.5, removal=removal)
        st = run_monitor(sim)
        run.case(('removal', removal), nontrivial=True)
        if st[0] != 'exited' or st[1] > removal + R * (P + 0.5) + P + 1:
            run.fail('monitor-survives-lock-removal', 'lock file removed at +%d s: helper state %s' % (removal, st), {'kind': 'removal', 'removal': removal})
        if sim.exists:
            run.fail('helper-recreates-lock', 'lock file removed at +%d s (cleanup / release by somebody else): the helper created it again - the task looks locked by a worker that does not hold it' % removal, {'kind': 'removal', 'removal': removal})
    # 4. the real helper process, started by the real lock with a relative jug directory
    Sim.close_all()
    # 3b. the lock object's bookkeeping of its helper (who refers to whom), against Model/KeepAliveLock.lean
    drv = core.Driver() if run.driver_ok else None
    try:
        lock_object_family(run, drv, quick)
        whole_life_family(run, drv, quick, k)
    finally:
        if drv is not None:
            drv.close()
    real_helper(run, quick)
    dead_worker_cleanup(run, E)
    if run.corr_disagreements == 0:
        run.obligation('correspondence: %d simulated-clock runs of the real monitor/is_failed agree with the model' % run.corr_programs, True)


SITE = '''
import time as _t
_real = _t.sleep
_t.sleep = lambda s: _real(s / %d.0)
'''


KA_OPS = ['get', 'release', 'fail', 'extRemove', 'helperNotices', 'otherTakes']


class _FakeProc:
    """stands for the helper process in the lock-object family: what the lock object does with its Popen, without processes"""
    live = []

    def __init__(self, argv, *a, **k):
        self.argv = argv
        self.state = 'running'
        self.pid = 100000 + len(_FakeProc.live)
        _FakeProc.live.append(self)

    def kill(self):
        self.state = 'killed'

    def poll(self):
        return None if self.state == 'running' else 0

    def wait(self, *a, **k):
        return 0


def drive_lock_object(ops, d):
    """the real file_keepalive_based_lock under a sequence of owner / environment operations; returns the observation after each one"""
    import jug.backends.file_store as fs
    saved = fs.Popen
    fs.Popen = _FakeProc
    _FakeProc.live = []
    trace = []
    try:
        lk = fs.file_keepalive_based_lock(os.path.join(d, 'j.jugdata'), 'ab' * 20)
        for op in ops:
            ret = True
            if op == 'get':
                ret = bool(lk.get())
            elif op == 'release':
                lk.release()
            elif op == 'fail':
                ret = bool(lk.fail())
            elif op == 'extRemove':
                if os.path.exists(lk.fullname):
                    os.unlink(lk.fullname)
            elif op == 'helperNotices':
                m = getattr(lk, 'monitor', None)
                if not os.path.exists(lk.fullname) and isinstance(m, _FakeProc) and m.state == 'running':
                    m.state = 'exited'
            elif op == 'otherTakes':
                if not os.path.exists(lk.fullname):
                    os.makedirs(os.path.dirname(lk.fullname), exist_ok=True)
                    open(lk.fullname, 'w').write('PID 1 on HOSTNAME elsewhere\n')
            m_ = getattr(lk, 'monitor', None)
            if m_ is not None and not isinstance(m_, _FakeProc):
                # the helper is started in a way this family does not intercept: a real process - end it and leave the family out (no verdict)
                try:
                    lk.release()
                except Exception:
                    pass
                return None
            f = None
            if os.path.exists(lk.fullname):
                f = 'mine' if ('PID %d ' % os.getpid()) in open(lk.fullname).read() else 'other'
            m = getattr(lk, 'monitor', None)
            mon = 'none' if m is None else ('running' if m.state == 'running' else 'exited')
            orphans = len([p for p in _FakeProc.live if p.state == 'running' and p is not m])
            trace.append({'ret': ret, 'file': f, 'failed': bool(f is not None and lk.is_failed()), 'mon': mon, 'orphans': orphans})
        return trace
    finally:
        fs.Popen = saved
        _FakeProc.live = []


def lock_object_family(run, drv, quick):
    """every sequence of up to four operations (owner: get / release / fail; others: remove the file, take the free lock; the helper notices the missing file) and random longer ones on the real
    keep-alive lock object, its helper replaced by a stand-in for Popen: state after every step = Model/KeepAliveLock.lean; and, independent of the model, the statement of
    held_lock_has_helper on the real object: a lock it holds (its file is there, not marked failed) has a running helper it refers to"""
    import itertools
    rng = core.rng_for(run.seed, 'c19-lockobj')
    seqs = [list(s) for r in (1, 2, 3, 4) for s in itertools.product(KA_OPS, repeat=r)]
    for _ in range(150 if quick else 1500):
        seqs.append([rng.choice(KA_OPS) for _ in range(rng.randint(5, 10))])
    scratch = core.scratch_dir('jugverif-c19obj-')
    bad_model = 0
    try:
        for i, ops in enumerate(seqs):
            d = os.path.join(scratch, 's%d' % i)
            os.makedirs(d)
            real = drive_lock_object(ops, d)
            core.rm_rf(d)
            if real is None:
                run.count('lock_object_family_not_intercepted')
                return
            run.case(('lock-object', tuple(ops)), nontrivial=('get' in ops and len(set(ops)) > 1))
            run.count('lock_object_sequences')
            rp = {'kind': 'lock-object', 'ops': ops}
            for k, st in enumerate(real):
                if st['file'] == 'mine' and not st['failed'] and st['mon'] != 'running':
                    run.fail('held-lock-without-helper', 'keep-alive lock object after %s: it holds the lock (its own lock file is there, not marked failed) but %s - nobody refreshes the lock of a live worker, it is '
                             'reported failed after the expiry' % (ops[:k + 1], 'refers to no helper' if st['mon'] == 'none' else 'the helper it refers to has ended'), rp)
                    break
                if ops[k] in ('release', 'fail') and st['mon'] != 'none':
                    run.fail('helper-survives-release', 'keep-alive lock object after %s: %s() left the object referring to a helper (%s)' % (ops[:k + 1], ops[k], st['mon']), rp)
                    break
            if drv is not None:
                ans = drv.ask({'op': 'kalock', 'ops': ops})
                run.corr_programs += 1
                if ans.get('trace') != real:
                    bad_model += 1
                    if bad_model <= 3:
                        kbad = next((k for k in range(len(real)) if k >= len(ans.get('trace', [])) or ans['trace'][k] != real[k]), 0)
                        run.corr_disagreements += 1
                        run.obligation('correspondence keep-alive lock object model=code', False, 'after %s: model %s, code %s' % (ops[:kbad + 1], (ans.get('trace') or [None] * (kbad + 1))[kbad], real[kbad]))
    finally:
        core.rm_rf(scratch)


class SimRec(Sim):
    """Sim that records, per completed round, the overshoot and what the helper could see at that wake-up"""

    def __init__(self, *a, **k):
        Sim.__init__(self, *a, **k)
        self.sched = []
        self.round_now = 0.0

    def sleep(self, s):
        before = self.now
        Sim.sleep(self, s)          # raises Done when the horizon is passed: that round is not completed and not recorded
        delta = self.now - before - s
        if self.death is not None and self.now - self.t0 >= self.death:
            env = 'parentGone'
        elif not self.exists:
            env = 'lockGone'
        else:
            env = 'ok'
        self.sched.append([int(delta), env, s])
        self.round_now = self.now - self.t0


def whole_life_family(run, drv, quick, k):
    """whole lives of the real helper main() on the simulated clock - integer overshoots (also beyond the bound of the theorem), the worker dying and/or the lock
    file disappearing at arbitrary instants, observation stopped at an arbitrary horizon - against Jug.KeepAlive.runEnv: still running or not, the instant of the
    last wake-up, the lock's modification time, and the real is_failed() of another client one second before / at the instant the model says the lock expires"""
    if drv is None:
        return
    rng = core.rng_for(run.seed, 'c19-life')
    P, R, E = k['period'], k['rounds'], k['expiry']
    bad = 0
    for i in range(60 if quick else 600):
        span = rng.choice([3 * P, R * P, 3 * R * P, 12 * R * P])
        death = rng.randint(0, span) if rng.random() < 0.45 else None
        removal = rng.randint(0, span) if rng.random() < 0.45 else None
        hi = rng.choice([0, 1, 10, 10, 40])
        seq = [rng.randint(0, hi) for _ in range(64)]
        sim = SimRec(lambda r, seq=seq: seq[r % 64], death=death, removal=removal, horizon=span + rng.randint(0, R * P))
        st = run_monitor(sim)
        if any(x[2] != P for x in sim.sched):
            run.count('whole_life_rounds_with_other_sleep')     # the helper does not sleep `period` every round: outside this model (loop_matches reports it)
            continue
        ans = drv.ask({'op': 'karun', 'period': P, 'rounds': R, 'expiry': E, 'sched': [x[:2] for x in sim.sched]})
        run.corr_programs += 1
        run.case(('whole-life', death is not None, removal is not None, st[0], len(sim.refreshes) > 0), nontrivial=True)
        run.count('whole_life_' + st[0])
        real = {'running': st[0] == 'running', 'now': int(sim.round_now)}
        if sim.exists:
            real['mtime'] = int(sim.mtime - sim.t0)
        model = {kk: ans.get(kk) for kk in real}
        detail = None
        if 'error' in ans or model != real:
            detail = 'model %s, code %s' % (ans if 'error' in ans else model, real)
        elif sim.exists:
            for at in (ans['failedAt'] - 1, ans['failedAt']):
                if real_is_failed(sim, at) != (at >= ans['failedAt']):
                    detail = 'is_failed() at +%d s: code %s, model %s (mtime +%d, expiry %d)' % (at, real_is_failed(sim, at), at >= ans['failedAt'], ans['mtime'], E)
        if detail is not None:
            bad += 1
            if bad <= 3:
                run.corr_disagreements += 1
                run.obligation('correspondence keep-alive helper whole life model=code', False,
                               'death %s removal %s horizon %s overshoots %s...: %s' % (death, removal, sim.horizon, seq[:8], detail))
        sim.close()


def real_helper(run, quick):
    """a real helper process (time.sleep scaled by 100): refreshes a lock given by a *relative* path; dies with release; exits when the worker dies"""
    import subprocess
    d = core.scratch_dir()
    try:
        with open(os.path.join(d, 'sitecustomize.py'), 'w') as f:
            f.write(SITE % 100)
        code = r'''
import os, sys, time
os.chdir(%r)
import jug.backends.file_store as fs
lk = fs.file_keepalive_based_lock('rel.jugdata', 'abcd')
assert lk.get()
m0 = os.stat(lk.fullname).st_mtime
os.utime(lk.fullname, (m0 - 1000, m0 - 1000))
pid = lk.monitor.pid
t0 = time.time()
refreshed = False
while time.time() - t0 < 40:
    if os.stat(lk.fullname).st_mtime > m0 - 900:
        refreshed = True
        break
    time.sleep(0.1)
print('REFRESHED', refreshed, flush=True)
mode = sys.argv[1]
if mode in ('remove-release', 'remove-fail'):
    # the lock file is removed by somebody else (jug cleanup) before the owner lets go: the owner's release()/fail() still ends the helper at once
    os.unlink(lk.fullname)
    try:
        lk.release() if mode == 'remove-release' else lk.fail()
    except Exception as e:
        print('RELEASE_RAISED', type(e).__name__, flush=True)
    # the helper must be gone well before its next refresh (scaled: 3 s of real time, and the last one was a moment ago): poll for at most 1.5 s of REAL time
    t1 = time.time()
    alive = True
    while alive and time.time() - t1 < 1.5:
        try:
            alive = os.path.exists('/proc/%%d' %% pid) and 'Z' not in open('/proc/%%d/stat' %% pid).read().split()[2]
        except OSError:
            alive = False
    print('HELPER_ALIVE_AFTER_RELEASE', alive, flush=True)
elif mode == 'release':
    lk.release()
    t1 = time.time()
    alive = True
    while alive and time.time() - t1 < 20:
        time.sleep(0.1)
        try:
            alive = os.path.exists('/proc/%%d' %% pid) and 'Z' not in open('/proc/%%d/stat' %% pid).read().split()[2]
        except OSError:
            alive = False
    print('HELPER_ALIVE_AFTER_RELEASE', alive, flush=True)
elif mode == 'remove-reget':
    # somebody removes the lock file while the worker lives (jug cleanup --locks-only); the helper notices at its next refresh and ends; the worker
    # takes the lock again through the same lock object: it must be kept alive again
    os.unlink(lk.fullname)
    t1 = time.time()
    alive = True
    while alive and time.time() - t1 < 25:
        time.sleep(0.1)
        try:
            alive = os.path.exists('/proc/%%d' %% pid) and 'Z' not in open('/proc/%%d/stat' %% pid).read().split()[2]
        except OSError:
            alive = False
    print('OLD_HELPER_ENDED', not alive, flush=True)
    got = lk.get()
    time.sleep(0.3)
    mon = getattr(lk, 'monitor', None)
    print('REGET', got, 'NEW_HELPER_ALIVE', bool(mon is not None and mon.poll() is None), flush=True)
    if got:
        lk.release()
else:
    print('HELPERPID', pid, flush=True)
    os.kill(os.getpid(), 9)
''' % d
        env = dict(os.environ, PYTHONPATH=d + os.pathsep + core.REPO + os.pathsep + os.environ.get('PYTHONPATH', ''))
        for mode in (['release', 'remove-release', 'remove-fail', 'remove-reget'] if quick else ['release', 'remove-release', 'remove-fail', 'remove-reget', 'die']):
            p = subprocess.run([sys.executable, '-c', code, mode], stdout=subprocess.PIPE, stderr=subprocess.PIPE, text=True, env=env, timeout=300, cwd=d)
            out = p.stdout
            run.case(('real-helper', mode), nontrivial=True)
            run.count('real_helper_runs')
            rp = {'kind': 'real-helper', 'mode': mode}
            if 'REFRESHED True' not in out:
                run.fail('helper-does-not-refresh', 'real helper process started by the real lock (relative jug directory): lock not refreshed within 1.5 refresh periods: %s %s' % (out.strip(), p.stderr[-300:]), rp)
            if mode == 'release' and 'HELPER_ALIVE_AFTER_RELEASE False' not in out:
                run.fail('helper-survives-release', 'the helper process is still alive after release(): %s' % out.strip(), rp)
            if mode in ('remove-release', 'remove-fail') and 'HELPER_ALIVE_AFTER_RELEASE False' not in out:
                run.fail('helper-survives-release', 'the lock file was removed by somebody else, then the owner called %s(): the helper process is still alive afterwards (it would go on refreshing a lock '
                         'of the same name taken by another worker): %s %s' % (mode.split('-')[1], out.strip(), p.stderr[-300:]), rp)
            if mode == 'remove-reget' and 'OLD_HELPER_ENDED True' in out and 'REGET True' in out and 'NEW_HELPER_ALIVE True' not in out:
                run.fail('no-helper-after-reacquire', 'the lock file was removed by somebody else, the helper ended at its next refresh, and the worker took the lock again through the same lock object: get() returned True '
                         'but no helper process is running - a live worker holds a lock nobody refreshes (reported failed after the expiry): %s' % out.strip(), rp)
            if mode == 'die':
                import re
                m = re.search(r'HELPERPID (\d+)', out)
                if m:
                    pid = int(m.group(1))
                    t0 = time.time()
                    gone = False
                    while time.time() - t0 < 30:
                        if not os.path.exists('/proc/%d' % pid):
                            gone = True
                            break
                        time.sleep(0.05)
                    if not gone:
                        run.fail('helper-survives-worker', 'worker was SIGKILLed, its helper (pid %d) is still running after 300 scaled seconds' % pid, rp)
                        try:
                            os.kill(pid, 9)
                        except OSError:
                            pass
    finally:
        core.rm_rf(d)


KA_JUGFILE = '''from jug import TaskGenerator
import os, time
HERE = os.path.dirname(os.path.abspath(__file__))
@TaskGenerator
def slow(x):
    open(os.path.join(HERE, 'inside'), 'w').close()
    while os.path.exists(os.path.join(HERE, 'block')):
        time.sleep(0.02)
    return x + 1
@TaskGenerator
def after(y):
    return y * 2
r = after(slow(%(arg)d))
'''


def dead_worker_cleanup(run, expiry, mode='failed-only'):
    """end to end on the keep-alive backend with real processes: a worker is SIGKILLed inside a task; its lock, once older than the expiry,
    is reported failed; `jug cleanup --failed-only` removes it (and only then); a new worker completes the computation"""
    import signal
    import subprocess
    from jugverif.loadercheck import jug_cli, jug_cli_popen
    d = core.scratch_dir()
    rp = {'kind': 'dead-worker-cleanup', 'mode': mode}
    try:
        # an argument for which the hash of the locked task ends in 'c' (the ending naive suffix handling of lock file names gets wrong)
        arg = 20
        for cand in range(20, 400):
            open(os.path.join(d, 'jugfile.py'), 'w').write(KA_JUGFILE % {'arg': cand})
            h_ = core.fresh_python("import jug, jug.task; jug.init('jugfile.py', 'dict_store'); print([t.hash().decode() for t in jug.task.alltasks if t.name.endswith('slow')][0])", cwd=d).stdout.strip()
            if h_.endswith('c'):
                arg = cand
                break
        open(os.path.join(d, 'jugfile.py'), 'w').write(KA_JUGFILE % {'arg': arg})
        open(os.path.join(d, 'block'), 'w').close()
        jd = 'file_keepalive:' + os.path.join(d, 'ka.jugdata')
        common = ['--jugdir', jd, '--will-cite']
        p = jug_cli_popen(['execute'] + common + ['--nr-wait-cycles', '1', '--wait-cycle-time', '0', 'jugfile.py'], d)
        t0 = time.time()
        while not os.path.exists(os.path.join(d, 'inside')):
            if p.poll() is not None or time.time() - t0 > 240:
                raise core.InfraError('keep-alive worker never reached the task: ' + (p.communicate()[0] or '')[-300:])
            time.sleep(0.02)
        lockdir = os.path.join(d, 'ka.jugdata', 'locks')
        locks = os.listdir(lockdir)
        p.send_signal(signal.SIGKILL)
        try:
            # the helper holds the worker's output pipe: end of file = the helper has ended too (it looks for its parent every few seconds)
            p.communicate(timeout=40)
        except subprocess.TimeoutExpired:
            run.fail('helper-survives-worker', 'the keep-alive helper of a worker that was killed (SIGKILL) inside a task is still running 40 s later (it checks for its parent every '
                     'few seconds and must end when the worker has disappeared); lock files: %s' % locks, rp)
            subprocess.run(['pkill', '-f', os.path.join(d, 'ka.jugdata')], stdout=subprocess.DEVNULL, stderr=subprocess.DEVNULL)
            p.communicate()
        os.unlink(os.path.join(d, 'block'))
        run.case(('dead-worker-cleanup',), nontrivial=True)
        run.count('dead_worker_cleanup_runs')
        if len(locks) != 1:
            run.fail('keepalive-lock-missing', 'worker inside a task on the keep-alive backend: lock files %s' % locks, rp)
            return
        lf = os.path.join(lockdir, locks[0])
        # wait for the orphaned helper to notice (it must not refresh the lock any more), then let the lock age
        time.sleep(0.5)
        # (a) young lock of the dead worker: not failed yet -> --failed-only must leave it, a new worker must skip the task
        r = jug_cli(['cleanup'] + common + ['--failed-only', 'jugfile.py'], d)
        if not os.path.exists(lf):
            run.fail('cleanup-removes-live-lock', 'keep-alive lock of age < 1 min was removed by `cleanup --failed-only`: %s' % r.stdout.strip()[-200:], rp)
            return
        now = time.time()
        os.utime(lf, (now - expiry - 60, now - expiry - 60))
        st = jug_cli(['status'] + common + ['jugfile.py'], d).stdout
        r = jug_cli(['cleanup'] + common + ['--' + mode, 'jugfile.py'], d)
        if os.path.exists(lf):
            run.fail('expired-lock-not-cleaned', 'the lock of a dead worker, not refreshed for expiry + 60 s, is still there after `jug cleanup --%s` (which printed %r)' % (mode, r.stdout.strip().split('\n')[-1]), dict(rp, mode=mode))
            return
        r2 = jug_cli(['execute'] + common + ['--nr-wait-cycles', '1', '--wait-cycle-time', '0', 'jugfile.py'], d)
        chk = jug_cli(['check'] + common + ['jugfile.py'], d)
        if r2.returncode != 0 or chk.returncode != 0 or os.listdir(lockdir):
            run.fail('task-cannot-run-again', 'after the cleanup of the expired lock a new worker did not complete the computation: execute rc %s, check rc %s, locks %s' % (r2.returncode, chk.returncode, os.listdir(lockdir)), rp)
    finally:
        # the orphaned helper of the killed worker ends by itself within one period; make sure nothing is left behind
        subprocess.run(['pkill', '-f', os.path.join(d, 'ka.jugdata')], stdout=subprocess.DEVNULL, stderr=subprocess.DEVNULL)
        core.rm_rf(d)


def replay(path):
    d = json.load(open(path))
    print(d['what'])
    r = d['replay']
    run = core.Run('C19', 'quick')
    if r.get('kind') == 'dead-worker-cleanup':
        return core.replay_family('C19', d['key'], lambda run_: dead_worker_cleanup(run_, extract()['expiry'], r.get('mode', 'failed-only')))
    if r.get('kind') == 'real-helper':
        real_helper(run, r.get('mode') == 'release')
    elif r.get('kind') == 'death':
        sim = Sim(lambda rr: r['delta'], death=r['death'])
        print('monitor:', run_monitor(sim), 'refreshes', sim.refreshes[-3:])
        return 1
    for f in run.failures:
        print('FAILS:', f['what'])
    return 1 if run.failures else 0
