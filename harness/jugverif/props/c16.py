"""C16 - tasklets and wrappers are transparent views that carry their dependencies"""
import itertools
import json
import re

from jugverif import core

LEVEL = 'proof'
THEOREMS = ['Jug.C16.view_value', 'Jug.C16.deps_complete', 'Jug.C16.eval_reads_only_deps', 'Jug.C16.wrap_transparent', 'Jug.C16.return_tuple_value', 'Jug.C16.views_have_no_entry']


# ---- value universe <-> JSON of the model
def to_pyv(v):
    if v is None:
        return None
    if isinstance(v, bool):
        return int(v)
    if isinstance(v, int):
        return v
    if isinstance(v, str):
        return v
    if isinstance(v, list):
        return {'l': [to_pyv(x) for x in v]}
    if isinstance(v, tuple):
        return {'t': [to_pyv(x) for x in v]}
    if isinstance(v, dict):
        return {'d': [[k, to_pyv(x)] for k, x in v.items()]}
    raise ValueError(v)


def gen_val(rng, depth=3):
    r = rng.random()
    if depth <= 0 or r < 0.25:
        return rng.choice([0, 1, 2, 5, -3, 'a', 'xy', None])
    if r < 0.55:
        return [gen_val(rng, depth - 1) for _ in range(rng.randint(0, 4))]
    if r < 0.8:
        return tuple(gen_val(rng, depth - 1) for _ in range(rng.randint(0, 4)))
    return {k: gen_val(rng, depth - 1) for k in rng.sample(['k', 'x', 'y', 'zz'], rng.randint(1, 3))}


class Builder:
    """random argument expressions over tasks with known values; each node: (model json, builder of the real jug object, plain-python value or EXC)"""

    def __init__(self, rng, values, malformed):
        self.rng, self.values, self.malformed = rng, values, malformed

    def leaf_task(self):
        i = self.rng.randrange(len(self.values))
        return {'task': i}, (lambda T, i=i: T[i]), self.values[i]

    def gen(self, depth):
        r = self.rng
        c = r.random()
        if depth <= 0 or c < 0.12:
            if r.random() < 0.3:
                v = r.choice([0, 1, 'a', [1, 2], (3,), None])
                return {'c': to_pyv(v)}, (lambda T, v=v: v), v
            return self.leaf_task()
        if c < 0.5:
            m, b, v = self.view(depth)
            return m, b, v
        if c < 0.62:
            parts = [self.gen(depth - 1) for _ in range(r.randint(1, 3))]
            return {'list': [p[0] for p in parts]}, (lambda T, ps=parts: [p[1](T) for p in ps]), self.comb(list, parts)
        if c < 0.74:
            parts = [self.gen(depth - 1) for _ in range(r.randint(1, 3))]
            return {'tuple': [p[0] for p in parts]}, (lambda T, ps=parts: tuple(p[1](T) for p in ps)), self.comb(tuple, parts)
        if c < 0.86:
            keys = r.sample(['k', 'x', 'y'], r.randint(1, 2))
            parts = [self.gen(depth - 1) for _ in keys]
            val = self.comb(list, parts)
            return ({'dict': [[k, p[0]] for k, p in zip(keys, parts)]}, (lambda T, ks=keys, ps=parts: {k: p[1](T) for k, p in zip(ks, ps)}),
                    (dict(zip(keys, val)) if not isinstance(val, Exception) else val))
        # wrappers
        kind = r.choice(['identity', 'CustomHash', 'NoHash'])
        if kind == 'identity':
            m, b, v = self.view(depth)

            def bb(T, b=b):
                from jug.utils import identity
                return identity(b(T))
            return {'wrap': m}, bb, v
        pv = r.choice([0, 'p', [1, 'q'], (2, 3), {'k': 1}, None])
        if kind == 'NoHash':
            self.used_nohash = True     # NoHash removes its value from the identifier by design (jug.unsafe): collisions are the user's choice

        def bw(T, pv=pv, kind=kind):
            from jug.utils import CustomHash
            from jug.unsafe import NoHash
            from jug.hash import hash_one
            return CustomHash(pv, hash_one) if kind == 'CustomHash' else NoHash(pv)
        return {'wrap': {'c': to_pyv(pv)}}, bw, pv

    def comb(self, typ, parts):
        for p in parts:
            if isinstance(p[2], Exception):
                return p[2]
        return typ(p[2] for p in parts)

    def view(self, depth):
        """task or tasklet (possibly nested): always a Task/Tasklet object on the jug side"""
        r = self.rng
        m, b, v = self.leaf_task()
        for _ in range(r.randint(0, 3)):
            if isinstance(v, Exception):
                break
            c = r.random()
            if isinstance(v, (list, tuple)):
                n = len(v)
                if c < 0.5:
                    i = r.randint(-n - 1, n) if self.malformed else (r.randrange(-n, n) if n else 0)
                    if not n and not self.malformed:
                        break
                    try:
                        nv = v[i]
                    except Exception as e:
                        nv = e
                    m, b, v = {'item': [m, {'c': i}]}, (lambda T, b=b, i=i: b(T)[i]), nv
                elif c < 0.7:
                    lo, hi = r.choice([None, 0, 1, -1, -2, 3]), r.choice([None, 0, 2, -1, 5])
                    m, b, v = {'slice': [m, lo, hi]}, (lambda T, b=b, lo=lo, hi=hi: b(T)[lo:hi]), v[lo:hi]
                elif c < 0.85:
                    # task-valued index
                    cands = [j for j, w in enumerate(self.values) if isinstance(w, int) and not isinstance(w, bool) and (-n <= w < n or self.malformed)]
                    if not cands:
                        continue
                    j = r.choice(cands)
                    try:
                        nv = v[self.values[j]]
                    except Exception as e:
                        nv = e
                    m, b, v = {'item': [m, {'task': j}]}, (lambda T, b=b, j=j: b(T)[T[j]]), nv
                else:
                    # return_tuple style element with length check
                    nn = n if (n and not (self.malformed and r.random() < 0.5)) else n + 1
                    if nn == 0:
                        continue
                    i = r.randrange(nn)
                    try:
                        nv = v[i] if len(v) == nn else ValueError('len')
                    except Exception as e:
                        nv = e

                    def bc(T, b=b, i=i, nn=nn):
                        from functools import partial
                        from jug.task import Tasklet, _get_check
                        return Tasklet(b(T), partial(_get_check, i=i, n=nn))
                    m, b, v = {'chk': [m, i, nn]}, bc, nv
            elif isinstance(v, dict):
                ks = list(v) + (['missing'] if self.malformed else [])
                k = r.choice(ks)
                try:
                    nv = v[k]
                except Exception as e:
                    nv = e
                m, b, v = {'item': [m, {'c': k}]}, (lambda T, b=b, k=k: b(T)[k]), nv
            else:
                break
        return m, b, v


def dep_hashes(task):
    """identifiers of the tasks `task.dependencies()` reports; a view among them (the documented result is tasks) counts for the tasks it reports itself"""
    out, stack, seen = [], list(task.dependencies()), 0
    while stack and seen < 10000:
        d = stack.pop()
        seen += 1
        if hasattr(d, 'hash'):
            out.append(d.hash())
        elif hasattr(d, 'dependencies'):
            stack.extend(d.dependencies())
    return out


def model_deps(m):
    """tasks occurring anywhere in the model expression (independent re-implementation of `occurs`)"""
    out = set()
    if isinstance(m, dict):
        for k, v in m.items():
            if k == 'task':
                out.add(v)
            elif k == 'c':
                continue
            else:
                out |= model_deps(v)
    elif isinstance(m, list):
        for x in m:
            out |= model_deps(x)
    return out


def check(run):
    import jug.task
    from jug.task import Task, value
    from jugverif import jugenv, lib
    from jug.backends.dict_store import dict_store
    quick = run.tier == 'quick'
    run.rule = ('random argument expressions over tasks whose values are nested lists/tuples/dicts: indexing (incl. negative), slicing, task-valued indices, tasklets of tasklets up to depth 4, return_tuple-style checked '
                'elements, containers, identity/CustomHash/NoHash, plus a malformed stream (out-of-range indices, missing keys, wrong tuple length); for each: value() of the real object vs the model vs plain Python '
                'evaluation; dependencies reported for a consumer task vs the tasks occurring in the expression; can_run false while any of them is missing; nothing but task results in the store; CPython indexing '
                'and slicing of the model validated exhaustively on a box; non-trivial = a view of depth >= 2 or with a task-valued index; distinct by expression')
    run.assumptions = ['wrappers (CustomHash, NoHash) are applied to plain values, identity to tasks/tasklets (their documented use)', 'task functions deterministic']
    run.trusted = ['Lean 4.33.0 kernel', 'axioms propext, Quot.sound', 'harness/jugverif/props/c16.py']
    run.lean(['JugModel.Props.C16', 'jugdrv'], theorems_expected=THEOREMS)
    drv = core.Driver() if run.driver_ok else None
    rng = core.rng_for(run.seed, 'c16')
    try:
        # 1. CPython indexing/slicing vs the model, exhaustively on a box
        if drv is not None:
            reqs, exps = [], []
            for n in range(0, 6):
                xs = list(range(10, 10 + n))
                for typ in (list, tuple):
                    base = {'c': to_pyv(typ(xs))}
                    for i in range(-8, 9):
                        try:
                            e = {'ok': True, 'value': to_pyv(typ(xs)[i])}
                        except IndexError:
                            e = {'ok': False}
                        reqs.append({'op': 'view', 'res': [], 'arg': {'item': [base, {'c': i}]}})
                        exps.append(e)
                    for lo, hi in itertools.product([None] + list(range(-7, 8)), repeat=2):
                        reqs.append({'op': 'view', 'res': [], 'arg': {'slice': [base, lo, hi]}})
                        exps.append({'ok': True, 'value': to_pyv(typ(xs)[lo:hi])})
            answers = drv.ask_many(reqs)
            bad = [(r, a, e) for r, a, e in zip(reqs, answers, exps) if a.get('ok') != e['ok'] or (e['ok'] and a.get('value') != e['value'])]
            run.corr_programs += len(reqs)
            run.counts['cpython_indexing_cases'] = len(reqs)
            if bad:
                run.corr_disagreements += len(bad)
                run.obligation('correspondence: model indexing/slicing = CPython', False, json.dumps(bad[0])[:400])
        # 2. random expressions
        ncase = 1500 if quick else 20000
        store = dict_store()
        for ci in range(ncase):
            malformed = ci % 5 == 4
            jugenv.reset(store)
            nt = rng.randint(2, 5)
            values = [gen_val(rng) for _ in range(nt)]
            if rng.random() < 0.7:
                values[rng.randrange(nt)] = rng.randint(-2, 3)     # something usable as a task-valued index
            T = [Task(lib.lit, 1000 * ci + i, v) for i, v in enumerate(values)]
            hashes = [t.hash() for t in T]
            B = Builder(rng, values, malformed)
            m, build, pv = B.gen(3)
            rp = {'kind': 'view', 'values': [to_pyv(v) for v in values], 'arg': m}
            try:
                obj = build(T)
            except Exception as e:
                run.fail('view-construction-raises', 'building the view raised %s: %s for %s' % (type(e).__name__, e, json.dumps(m)[:300]), rp)
                continue
            consumer = Task(lib.lit, 1000 * ci + 999, obj)
            from jug.hash import hash_one
            try:
                h_before = hash_one(obj)
            except Exception:
                h_before = None
            depth = len(re.findall(r'"item"|"slice"|"chk"', json.dumps(m)))
            nontriv = depth >= 2 or '"item": [{' in json.dumps(m) and '{"task"' in json.dumps(m.get('item', [None, None])[1] if isinstance(m, dict) and 'item' in m else '')
            run.case(json.dumps([rp['values'], m]), nontrivial=nontriv)
            run.count('malformed' if malformed else 'wellformed')
            # dependencies
            reported = sorted({hashes.index(h_) for h_ in dep_hashes(consumer) if h_ in hashes})
            occ = sorted(model_deps(m))
            if set(occ) - set(reported):
                run.fail('view-dependency-missing', 'a consumer of %s does not depend on tasks %s that occur underneath it (reported %s)' % (json.dumps(m)[:300], sorted(set(occ) - set(reported)), reported), rp)
            # waits: with one dependency missing the consumer cannot run
            for t in T:
                t.run()
            for miss in occ[:2]:
                store.remove(hashes[miss])
                T[miss].unload()
                if consumer.can_run():
                    run.fail('consumer-does-not-wait', 'consumer of %s can_run() although task %d underneath it has no result' % (json.dumps(m)[:300], miss), rp)
                T[miss].run()
            # value
            for t in T:
                t.unload()
            try:
                got = value(obj)
                gerr = None
            except Exception as e:
                got, gerr = None, type(e).__name__
            perr = type(pv).__name__ if isinstance(pv, Exception) else None
            if (gerr is None) != (perr is None) or (gerr is None and (lib.canon(got) != lib.canon(pv))):
                run.fail('view-value', 'value(%s) = %s/%s, plain Python gives %s/%s; task values %s' % (json.dumps(m)[:300], lib.canon(got)[:100], gerr, lib.canon(pv)[:100] if perr is None else None, perr, [lib.canon(v)[:40] for v in values]), rp)
            # evaluating a view must not change what it is: same identifier, same dependencies for a consumer created afterwards
            try:
                h_after = hash_one(obj)
            except Exception:
                h_after = None
            consumer2 = Task(lib.lit, 1000 * ci + 998, obj)
            reported2 = sorted({hashes.index(h_) for h_ in dep_hashes(consumer2) if h_ in hashes})
            if h_after != h_before:
                run.fail('view-hash-changes', 'the identifier of the view %s changed after it was evaluated' % json.dumps(m)[:300], rp)
            if reported2 != reported:
                run.fail('view-deps-change', 'after evaluating the view %s a consumer depends on %s instead of %s' % (json.dumps(m)[:300], reported2, reported), rp)
            # two consumers that differ only in the view they receive are different invocations: the second must not be taken for the first
            if gerr is None and ci % 2 == 0 and not getattr(B, 'used_nohash', False):
                try:
                    m2, build2, pv2 = B.gen(3)
                    obj2 = build2(T)
                    v2 = value(obj2)
                except Exception:
                    obj2 = None
                # containers are left out here: undelimited nested sequences are the known finding K1 of C08
                plain_views = not any(k in json.dumps([m, m2]) for k in ('"list"', '"tuple"', '"dict"'))
                if obj2 is not None and not isinstance(pv2, Exception) and lib.canon(v2) != lib.canon(got) and not getattr(B, 'used_nohash', False) and plain_views:
                    run.count('sibling_consumer_pairs')
                    c1, c2 = Task(lib.same, obj), Task(lib.same, obj2)
                    c1.run()
                    rp2 = dict(rp, arg2=m2)
                    if c2.can_load():
                        v_loaded = value(c2)
                        run.fail('consumer-takes-sibling-result', 'same(%s) was executed; same(%s) - a different view with a different value - is reported as already computed and loads %s instead of %s'
                                 % (json.dumps(m)[:200], json.dumps(m2)[:200], lib.canon(v_loaded)[:80], lib.canon(['same', v2])[:80]), rp2)
                    else:
                        c2.run()
                        if lib.canon(value(c2)) != lib.canon(['same', v2]) or lib.canon(value(c1)) != lib.canon(['same', got]):
                            run.fail('consumer-value', 'consumers of the views %s / %s hold %s / %s' % (json.dumps(m)[:150], json.dumps(m2)[:150], lib.canon(value(c1))[:80], lib.canon(value(c2))[:80]), rp2)
                    for c_ in (c1, c2):
                        try:
                            store.remove(c_.hash())
                        except Exception:
                            pass
            # not stored
            keys = set(store.list())
            if keys - set(hashes):
                run.fail('view-stored', 'evaluating views left %d store entries that are not task results' % len(keys - set(hashes)), rp)
            if drv is not None:
                ans = drv.ask({'op': 'view', 'res': [{'v': to_pyv(v)} for v in values], 'arg': m})
                run.corr_programs += 1
                mv_ok = ans.get('ok')
                if mv_ok != (gerr is None) or (mv_ok and ans.get('value') != to_pyv(got)) or ans.get('deps') != reported:
                    run.corr_disagreements += 1
                    run.obligation('correspondence views model=code', False, 'model %s code value %s/%s deps %s; case %s' % (json.dumps(ans)[:200], lib.canon(got)[:100], gerr, reported, json.dumps(rp)[:400]))
            if len(run.samples) < 3 and nontriv and gerr is None:
                run.sample({'task_values': [lib.canon(v) for v in values], 'expression': m, 'value': lib.canon(got), 'dependencies': reported})
            for h in hashes:
                store.remove(h)
        # 2a'. chains that differ in ONE step (first, intermediate or last) over the same root: consumers must be different invocations
        for ci in range(120 if quick else 1500):
            jugenv.reset(store)
            kind = rng.choice(['ll', 'dl', 'lll', 'sl', 'dk', 'dk', 'ti'])
            base = [[rng.randint(0, 99) for _ in range(3)] for _ in range(3)]
            if kind == 'll':
                V = base
                steps = lambda: [rng.randrange(3), rng.randrange(3)]
            elif kind == 'dl':
                V = {'a': base[0], 'b': base[1], 'c': base[2]}
                steps = lambda: [rng.choice('abc'), rng.randrange(3)]
            elif kind == 'dk':
                # keys of different types that print alike (1 / '1', (1,) / '(1,)', None / 'None', -1 / '-1')
                ks_ = [1, '1', 2, '2', (1,), '(1,)', None, 'None', -1, '-1', b'1', "b'1'"]
                V = {k_: [rng.randint(0, 99) for _ in range(3)] for k_ in ks_}
                steps = lambda: [rng.choice(ks_), rng.randrange(3)]
            elif kind == 'ti':
                # the index is itself a task: two index tasks made by the same function with different arguments
                V = base
                steps = lambda: [Task(lib.lit, 7000000 + rng.randrange(10 ** 6), rng.randrange(3)), rng.randrange(3)]
            elif kind == 'lll':
                V = [base, [list(reversed(r_)) for r_ in base], [[x + 100 for x in r_] for r_ in base]]
                steps = lambda: [rng.randrange(3), rng.randrange(3), rng.randrange(3)]
            else:
                V = base + [[rng.randint(0, 99) for _ in range(3)]]
                steps = lambda: [slice(*sorted(rng.sample(range(5), 2))), 0, rng.randrange(3)]
            s1 = steps()
            s2 = list(s1)
            pos = rng.randrange(len(s1))
            s2[pos] = steps()[pos]

            def apply(x, ss):
                for st_ in ss:
                    x = x[st_]
                return x

            def plainsteps(ss):
                return [st_.args[1] if isinstance(st_, Task) else st_ for st_ in ss]
            try:
                e1, e2 = apply(V, plainsteps(s1)), apply(V, plainsteps(s2))
            except Exception:
                continue
            if plainsteps(s1) == plainsteps(s2) or lib.canon(e1) == lib.canon(e2):
                continue
            root = Task(lib.lit, 5000000 + ci, V)
            root.run()
            for st_ in s1 + s2:
                if isinstance(st_, Task):
                    st_.run()
            c1, c2 = Task(lib.same, apply(root, s1)), Task(lib.same, apply(root, s2))
            run.count('one_step_chain_pairs')
            run.case(('chain-pair', ci, run.seed), nontrivial=True)
            rp = {'kind': 'chain-pair', 'value': repr(V), 'steps1': [repr(x) for x in plainsteps(s1)], 'steps2': [repr(x) for x in plainsteps(s2)]}
            c1.run()
            if c2.can_load():
                run.fail('consumer-takes-sibling-result', 'root value %s: same(root%s) was executed; same(root%s), whose argument is %s instead of %s, is reported as already computed (identifiers %s / %s)'
                         % (V, ''.join('[%r]' % x for x in s1), ''.join('[%r]' % x for x in s2), e2, e1, c1.hash()[:10], c2.hash()[:10]), rp)
            else:
                c2.run()
                if lib.canon(value(c2)) != lib.canon(['same', e2]) or lib.canon(value(c1)) != lib.canon(['same', e1]):
                    run.fail('consumer-value', 'consumers of root%s / root%s hold %s / %s' % (s1, s2, lib.canon(value(c1))[:80], lib.canon(value(c2))[:80]), rp)
            for t_ in (root, c1, c2):
                try:
                    store.remove(t_.hash())
                except Exception:
                    pass
        # 2a'-. the index of t[i] is itself a view (a tasklet: p['lo'], p[0], Tasklet(p, len) ...): the consumer depends on the task under the index too
        from jug.task import Tasklet as _Tasklet
        for ci in range(12 if quick else 120):
            jugenv.reset(store)
            Rv = [rng.randint(0, 99) for _ in range(5)]
            pos = rng.randrange(0, 4)
            Rt = Task(lib.lit, 9000000 + ci, Rv)
            form = ci % 4
            if form == 0:
                Pt_ = Task(lib.lit, 9100000 + ci, {'lo': pos, 'hi': 4})
                idx, label = Pt_['lo'], "r[p['lo']]"
            elif form == 1:
                Pt_ = Task(lib.lit, 9100000 + ci, [pos, 7])
                idx, label = Pt_[0], 'r[p[0]]'
            elif form == 2:
                Pt_ = Task(lib.lit, 9100000 + ci, list(range(pos)))
                idx, label = _Tasklet(Pt_, len), 'r[Tasklet(p, len)]'
            else:
                Pt_ = Task(lib.lit, 9100000 + ci, [[0, pos]])
                idx, label = Pt_[0][1], 'r[p[0][1]]'
            view_ = Rt[idx]
            cons_ = Task(lib.same, view_)
            rp_ = {'kind': 'tasklet-index', 'form': label, 'values': Rv, 'pos': pos}
            run.case(('tasklet-index', ci, run.seed), nontrivial=True)
            run.count('tasklet_index_cases')
            deps_all = set()
            stack_ = list(cons_.dependencies())
            while stack_:
                d_ = stack_.pop()
                if isinstance(d_, _Tasklet):
                    stack_.extend(d_.dependencies())
                else:
                    deps_all.add(d_.hash())
            if Pt_.hash() not in deps_all or Rt.hash() not in deps_all:
                run.fail('view-dependency-missing', 'a consumer of %s does not depend on %s (tasks underneath it: r and p)' % (label, 'p, the task under the index' if Pt_.hash() not in deps_all else 'r'), rp_)
                continue
            Rt.run()
            if cons_.can_run():
                run.fail('consumer-does-not-wait', 'consumer of %s can_run() although p, the task under the index, has no result' % label, rp_)
                continue
            Pt_.run()
            got_ = value(view_)
            if got_ != Rv[pos]:
                run.fail('view-value', 'value(%s) = %r, Python gives %r' % (label, got_, Rv[pos]), rp_)
            for t_ in (Rt, Pt_):
                store.remove(t_.hash())
        # 2a'+. elements handed out by return_tuple / iteratetask: consumers of different elements are different invocations with their own values
        from jug import TaskGenerator
        from jug.task import return_tuple, iteratetask
        for ci in range(6 if quick else 60):
            jugenv.reset(store)
            vals3 = tuple(rng.sample(range(100), 3))
            root = Task(lib.lit, 8000000 + ci, vals3)
            elems = list(return_tuple(3)(TaskGenerator(lib.lit))(8100000 + ci, vals3)) + list(iteratetask(root, 3))
            for t_ in list(jug.task.alltasks):
                if not t_.can_load():
                    t_.run()
            consumers = [Task(lib.same, e_) for e_ in elems]
            exp_vals = list(vals3) + list(vals3)
            seen_h = {}
            for j, (c_, ev_) in enumerate(zip(consumers, exp_vals)):
                run.count('element_consumers')
                if not c_.can_load():
                    c_.run()
                got_ = value(c_)
                if lib.canon(got_) != lib.canon(['same', ev_]):
                    run.fail('consumer-takes-sibling-result', 'elements %s of a task returning %s (return_tuple / iteratetask): the consumer same(element %d) holds %s instead of %s'
                             % (list(range(3)), vals3, j % 3, lib.canon(got_), lib.canon(['same', ev_])), {'kind': 'element-consumers', 'values': list(vals3), 'index': j})
                    break
            run.case(('element-consumers', ci, run.seed), nontrivial=True)
            for t_ in list(jug.task.alltasks) + consumers:
                try:
                    store.remove(t_.hash())
                except Exception:
                    pass
        # 2a''. results that are container *subclasses* (namedtuple-like, dict/list subclasses): a view hands over exactly what the operation gives in Python
        from jug.utils import identity
        for ci in range(40 if quick else 400):
            jugenv.reset(store)
            inner = [rng.randint(0, 9), lib.Pt(rng.randint(0, 9), 'q'), lib.LL([1, rng.randint(0, 9)])]
            V = rng.choice([lib.Pt(inner, 5, lib.OD(a=inner[1])), lib.OD(a=lib.Pt(1, inner), b=inner), lib.LL([lib.Pt(3, 4), inner, lib.OD(z=inner[2])]), [lib.Pt(*inner)], (lib.OD(k=lib.LL(inner)),)])
            root = Task(lib.lit, 7000000 + ci, V)
            root.run()
            root.unload()
            if isinstance(V, dict):
                k0 = rng.choice(sorted(V))
                views = [('root[%r]' % k0, root[k0], V[k0])]
            else:
                j0 = rng.randrange(len(V))
                views = [('root[%d]' % j0, root[j0], V[j0]), ('root[0:2]', root[0:2], V[0:2])]
            views += [('root', root, V), ('identity(root)', identity(root), V)]
            for label, obj_, exp_ in views:
                run.count('typed_container_views')
                try:
                    got_ = value(obj_)
                except Exception as e:
                    got_ = 'EXC %s' % type(e).__name__
                if lib.canon(got_) != lib.canon(exp_):
                    run.fail('view-type-fidelity', 'task value %s: value(%s) = %s, the same operation in Python gives %s' % (lib.canon(V)[:120], label, lib.canon(got_)[:120], lib.canon(exp_)[:120]),
                             {'kind': 'typed-view', 'value': lib.canon(V), 'view': label})
            run.case(('typed-container', ci, run.seed), nontrivial=True)
            store.remove(root.hash())
        # 2b. mapped sequences and their slices as views
        from jug.mapreduce import map as jmap
        for n, step in itertools.product(range(0, 10), (2, 3, 4)):
            jugenv.reset(store)
            mseq = jmap(lib.dbl, list(range(n)), map_step=step)
            blocks = list(jug.task.alltasks)
            bh = [b.hash() for b in blocks]
            ref = [lib.dbl(x) for x in range(n)]
            sls = [slice(a, b, c) for a in (None, 0, 2, -1, -3) for b in (None, 1, 5, -1) for c in (None, 1, 2, -1, -2)]
            if quick:
                sls = rng.sample(sls, 12)
            for sl in sls:
                view = mseq[sl]
                consumer = Task(lib.lit, 77, view)
                reported = {bh.index(h_) for h_ in dep_hashes(consumer) if h_ in bh}
                reads = {i // step for i in range(n)[sl]}
                run.case(('mapslice', n, step, sl.start, sl.stop, sl.step), nontrivial=len(reads) >= 2)
                rp = {'kind': 'mapslice', 'n': n, 'step': step, 'slice': [sl.start, sl.stop, sl.step]}
                if reads - reported:
                    run.fail('view-dependency-missing', 'a consumer of map(f, range(%d), %d)[%s:%s:%s] reads blocks %s but depends only on %s' % (n, step, sl.start, sl.stop, sl.step, sorted(reads), sorted(reported)), rp)
                for b in blocks:
                    b.run()
                if lib.canon(value(view)) != lib.canon(ref[sl]):
                    run.fail('view-value', 'value of mapped slice differs: %s vs %s' % (value(view), ref[sl]), rp)
                for miss in sorted(reads)[:1]:
                    store.remove(bh[miss])
                    blocks[miss].unload()
                    if consumer.can_run():
                        run.fail('consumer-does-not-wait', 'consumer of a mapped slice can_run() although block %d it reads has no result' % miss, rp)
                    blocks[miss].run()
            # integer items, negative ones included: the element of the list, carried by the block that holds it
            for b in blocks:
                if not b.can_load():
                    b.run()
            for pidx in range(-n, n):
                item = mseq[pidx]
                consumer = Task(lib.lit, 78, item)
                reported = {bh.index(h_) for h_ in dep_hashes(consumer) if h_ in bh}
                want_block = (pidx % n) // step
                run.count('mapped_int_items')
                rp = {'kind': 'mapitem', 'n': n, 'step': step, 'index': pidx}
                if want_block not in reported:
                    run.fail('view-dependency-missing', 'a consumer of map(f, range(%d), %d)[%d] reads block %d but depends on %s' % (n, step, pidx, want_block, sorted(reported)), rp)
                try:
                    gv = value(item)
                except Exception as e:
                    gv = 'EXC %s' % type(e).__name__
                if gv != ref[pidx]:
                    run.fail('view-value', 'value(map(f, range(%d), %d)[%d]) = %r, the list gives %r' % (n, step, pidx, gv, ref[pidx]), rp)
            for h in bh:
                store.remove(h)
        # 3. iteratetask
        from jug import iteratetask
        jugenv.reset(store)
        t = Task(lib.lit, 5, [7, 8, 9])
        t.run()
        it = iteratetask(t, 2)
        ok = [value(x) for x in it] == [7, 8]
        try:
            it[2]
            ok = False
        except IndexError:
            pass
        run.case('iteratetask', nontrivial=True)
        if not ok:
            run.fail('iteratetask', 'iteratetask(t, 2) does not yield t[0], t[1] and stop', {'kind': 'iteratetask'})
        # every kind of view and wrapper as the ONLY link between a producer and a consumer, in a whole jugfile (items, slices, task-valued indices, dict keys, mapped
        # sequences and their slices, iterated / unpacked elements, identity and CustomHash around tasks, containers and views, function-wrapped views of tasks, containers and
        # mapped sequences): the consumer receives the operation applied to the producers' values (= the same text as plain Python) and reports every task underneath
        from jugverif import genprog, execengine as E_
        sc_ = core.scratch_dir()
        try:
            for fp in genprog.single_link_programs():
                jug.task.Task.store = None
                del jug.task.alltasks[:]
                rp = {'kind': 'single-link', 'program': fp.text}
                core.CURRENT_INPUT.clear()
                core.CURRENT_INPUT.update({'kind': 'jugfile', 'text': fp.text})
                P_ = E_.analyse_text(fp.text, sc_, fp.embed)
                run.case(('single-link', fp.text), nontrivial=True)
                run.count('single_link_programs')
                for k_ in sorted(P_['plain']):
                    if lib.canon(P_['top'][k_]) != lib.canon(P_['plain'][k_]):
                        run.fail('view-value', 'value(%s) = %s, plain Python evaluation of the same text gives %s; jugfile: %s' % (k_, lib.canon(P_['top'][k_])[:150], lib.canon(P_['plain'][k_])[:150],
                                                                                                                                  ' ; '.join(fp.text.split('\n')[2:])[:300]), rp)
                        break
                for fname, kk, got_, exp_ in P_.get('seq_arg_diffs', [])[:1]:
                    run.fail('view-argument', '%s(k=%s) received %s, the operation applied to the producers\' values gives %s; jugfile: %s' % (fname, kk, got_[:150], exp_[:150], ' ; '.join(fp.text.split('\n')[2:])[:300]), rp)
                for i_, inf in enumerate(P_['info']):
                    missing = sorted(set(inf['reads']) - set(inf['reported']))
                    if missing:
                        run.fail('view-dependency-missing', 'task %s reads the results of %s but does not report them as dependencies (it would not wait for them, nor be invalidated with them); jugfile: %s'
                                 % (inf['name'], [P_['info'][d_]['name'] for d_ in missing], ' ; '.join(fp.text.split('\n')[2:])[:300]), rp)
                        break
        finally:
            core.CURRENT_INPUT.clear()
            core.rm_rf(sc_)
        # views are objects created anew by every load of the jugfile: their identifiers along a history of loads (fresh interpreters, one interpreter loading 150 times)
        from jugverif import hashhist
        hashhist.history_family(run)
        if drv is not None and run.corr_disagreements == 0:
            run.obligation('correspondence: %d view evaluations / dependency sets / indexing cases equal the model' % run.corr_programs, True)
    finally:
        jug.task.Task.store = None
        del jug.task.alltasks[:]
        if drv is not None:
            drv.close()


def replay(path):
    d = json.load(open(path))
    print(d['what'][:1000])
    print(json.dumps(d['replay'])[:2000])
    return 1
