"""C06 - the store is a faithful key-value map for every picklable value and history"""
from jugverif import core

LEVEL = 'proof'
THEOREMS = ['Jug.C06.step_refines', 'Jug.C06.store_refines_map', 'Jug.C06.list_nodup', 'Jug.C06.reopen_id', 'Jug.C06.pack_id', 'Jug.C06.pack_threshold']


def extract():
    import jug.backends.file_store as fs
    core.write_generated('StoreConsts', 'namespace Jug.Generated.Store\ndef maxFilesizeInPack : Nat := %d\nend Jug.Generated.Store\n' % int(fs.MAX_FILESIZE_IN_PACK))


def check(run):
    from jugverif import storecheck
    quick = run.tier == 'quick'
    run.rule = ('random histories (5-40 operations over 5 keys: dump/load/can_load/remove/remove_many/list/pack/close+reopen/cleanup) x values from a generated universe (None, bools, ints incl. big, '
                'floats incl. nan/inf/-0.0 by bit pattern, complex, str/bytes incl. sizes around the 8 KiB streaming block, empty and nested containers, sets, NumPy scalars, arrays of 13 dtypes incl. '
                'object/structured/datetime, 0-d, empty, F-order, strided, reversed) x backends (file, file with NumPy compression, in-memory, in-memory with backing file, redis protocol); every answer '
                'compared with the Lean store model and with a plain dict; equality = same type and content; non-trivial = a history with dumps and at least one of pack/reopen/remove/cleanup; distinct by history')
    run.assumptions = ['values are compared by type and content (arrays: dtype, shape, bytes; floats by bit pattern)', 'redis through an in-memory stand-in', 'pickle/zlib/NumPy .npy I/O are taken as given: that they round-trip every value of the universe is what this correspondence samples']
    run.trusted = ['Lean 4.33.0 kernel', 'axioms propext, Quot.sound', 'harness/jugverif/storecheck.py']
    extract()
    run.lean(['JugModel.Props.C06', 'jugdrv'], theorems_expected=THEOREMS)
    drv = core.Driver() if run.driver_ok else None
    try:
        storecheck.history_family(run, drv, n=(300 if quick else 6000))
        storecheck.stale_client_family(run, n=(6 if quick else 40))
        storecheck.large_value_family(run, quick)
        if drv is not None and run.corr_disagreements == 0:
            run.obligation('correspondence: %d histories on the real stores answered exactly like the model' % run.corr_programs, True)
    finally:
        if drv is not None:
            drv.close()


def replay(path):
    from jugverif import storecheck
    return storecheck.replay(path, 'C06')
