"""C04 - locks are mutually exclusive on every backend; failed locks stay failed"""
import itertools
import json
import os

from jugverif import core, lockrun

LEVEL = 'proof'
THEOREMS = ['Jug.C04.file_wellTyped', 'Jug.C04.keepalive_wellTyped', 'Jug.C04.redis_wellTyped', 'Jug.C04.dict_wellTyped', 'Jug.C04.file_fail_on_free', 'Jug.C04.keepalive_fail_on_free', 'Jug.C04.redis_fail_on_free', 'Jug.C04.mutex', 'Jug.C04.held_excludes',
            'Jug.C04.get_truthful', 'Jug.C04.failed_stays', 'Jug.C04.race_one_winner', 'Jug.C04.solo_behaviour', 'Jug.C04.failed_window', 'Jug.C04.failed_window_idle', 'Jug.Lock.lstep_inv2']
BACKENDS = ['file', 'keepalive', 'redis', 'dict']


def extract():
    from jugverif import extract_locks as L
    core.write_generated('LockTrees', L.emit(L.all_trees()))


def monitor(results_in_order, scripts, pre):
    """the property on the observed return values. results_in_order: list of (client, op, result, seq_call, seq_ret) is not available at
    primitive granularity, so the monitor works on what is certain: per-client program order and the global order of *completions*."""
    return []


def judge(run, backend, scripts, pre, decisions, events, results, other_locked, drv, family):
    rp = {'kind': 'locks', 'backend': backend, 'scripts': scripts, 'pre': pre, 'choices': [d[0] for d in decisions]}
    # ---- monitors on the real behaviour (independent of the model)
    # completion order: reconstruct from decisions: an operation of client c completes at its last decision before its next 'call' (or the end)
    order = []          # (client, op index) in completion order
    cur = {}
    count = {i: -1 for i in range(len(scripts))}
    for c, runnable, kind, detail in decisions:
        if kind == 'call':
            if c in cur:
                order.append(cur[c])
            count[c] += 1
            cur[c] = (c, count[c])
        # a primitive step keeps the op current; completion happens at its last step: approximated by the next call/end of that client
        # so re-append lazily
        if c in cur:
            # move to the end: it is the most recently progressing operation
            pass
    # simpler and exact: sequential consistency at primitive level means the results must be explainable by the model; the direct monitors below
    # use only facts that hold for every linearisation
    winners = [(i, k) for i in range(len(scripts)) for k, (op, r) in enumerate(results[i]) if op == 'get' and r is True]
    # (1) a client that won and has not released since: nobody else may win meanwhile -> count overlapping holds using per-client program order
    #     conservative check: if nobody ever releases, at most one True in total
    any_release = any(op == 'release' for i in range(len(scripts)) for op, _ in results[i])
    prelude_holds = bool(pre) and 'get' in pre and 'release' not in pre
    if not any_release:
        total = len(winners) + (1 if prelude_holds else 0)
        if total > 1:
            run.fail('two-winners', '%s lock: %d clients hold the lock at the same time (gets answered True without any release); scripts %s, prelude %s, schedule %s'
                     % (backend, total, scripts, pre, [d[0] for d in decisions]), rp)
        gets = [r for i in range(len(scripts)) for op, r in results[i] if op == 'get']
        if gets and not prelude_holds and not pre and total == 0:
            run.fail('no-winner', '%s lock: clients raced for a free lock and none of %d get() calls succeeded' % (backend, len(gets)), rp)
    # (2) failed lock: prelude get+fail by client 0 (which then does nothing else): every op of the others must see locked+failed, no get succeeds
    if pre == ['get', 'fail']:
        for i in range(len(scripts)):
            for op, r in results[i]:
                if (op == 'get' and r is not False) or (op in ('is_locked', 'is_failed') and r is not True):
                    run.fail('failed-not-sticky', '%s lock marked failed by its holder: another client got %s() = %r; schedule %s' % (backend, op, r, [d[0] for d in decisions]), rp)
    # (2') a lock that its holder has released (after holding it, or after marking it failed) is free: the next get() of anybody succeeds
    if pre and pre[0] == 'get' and pre[-1] == 'release' and scripts == [['get']]:
        if results[0] and results[0][0][1] is not True:
            run.fail('not-reacquirable', '%s lock: after %s by its holder the lock cannot be acquired (get() = %r)' % (backend, ' -> '.join(pre), results[0][0][1]), rp)
    # (3) raised exceptions are never expected with the owner discipline
    for i in range(len(scripts)):
        for op, r in results[i]:
            if isinstance(r, str) and r.startswith('raised'):
                run.fail('lock-op-raises', '%s lock: %s() raised %s under the owner discipline' % (backend, op, r), rp)
    # (4) another name is never affected
    if other_locked:
        run.fail('names-interfere', '%s lock: operations on one name left another name locked' % backend, rp)
    # ---- correspondence with the model (generated trees interpreted by the driver)
    if drv is not None:
        pre_events = [['solo', 0, lockrun.MODEL_OP[op]] for op in (pre or [])]
        ans = drv.ask({'op': 'locks', 'backend': backend, 'events': pre_events + events})
        run.corr_programs += 1
        if 'error' in ans:
            run.corr_disagreements += 1
            run.obligation('correspondence lock model=code (%s)' % backend, False, '%s: %s' % (ans['error'], json.dumps(rp)))
            return
        model = {}
        for c, op, r in ans['outs'][len(pre or []):]:
            model.setdefault(c, []).append((op, r))
        real = {i: [(lockrun.MODEL_OP[op], (r if not (isinstance(r, str) and r.startswith('raised')) else 'raised')) for op, r in results[i]] for i in range(len(scripts)) if results[i]}
        if model != real:
            run.corr_disagreements += 1
            run.obligation('correspondence lock model=code (%s)' % backend, False, 'model %s code %s case %s' % (model, real, json.dumps(rp)))


def check(run):
    quick = run.tier == 'quick'
    run.rule = ('for each backend (file, keep-alive file, redis protocol, in-memory): the lock operations are re-extracted as decision trees over shared-state primitives and checked by the kernel to be '
                'well typed; then EVERY interleaving (stateless DFS) of small client sets is executed on the real lock classes with every shared-state primitive gated (real directory / in-memory redis '
                'stand-in): races of 2 and 3 clients for a free lock, get/release/get sequences, holder marks failed while others probe, plus random longer histories; return values compared with '
                'the model interpreting the extracted trees under the same schedule, and with the property directly; non-trivial = a schedule with >= 2 clients interleaved inside operations; '
                'distinct by (backend, scripts, schedule)')
    run.assumptions = ['POSIX: O_CREAT|O_EXCL is atomic, unlink/utime/stat act on the current directory entry (semantics `sem` of the primitives is trusted)',
                       'Redis executes single commands atomically (in-memory stand-in; no server in the sandbox)', 'owner discipline: only the current holder calls release()/fail() (documented precondition of Task.unlock)',
                       'the in-memory dict_store is used by one process: its operations do not interleave']
    run.trusted = ['Lean 4.33.0 kernel', 'axioms propext, Quot.sound', 'harness/jugverif/extract_locks.py (scripted exploration of the real lock classes)', 'harness/jugverif/lockrun.py + fsgate.py (gated execution on a real directory)']
    extract()
    run.lean(['JugModel.Props.C04', 'jugdrv'], theorems_expected=THEOREMS)
    drv = core.Driver() if run.driver_ok else None
    rng = core.rng_for(run.seed, 'c04')
    scratch = core.scratch_dir()
    try:
        families = [
            ('race2', [['get'], ['get']], None),
            ('race3', [['get'], ['get'], ['get']], None),
            ('get-release-get', [['get', 'release?', 'get'], ['get', 'release?']], None),
            ('failed-probe', [[], ['get', 'is_failed'], ['is_locked', 'get']], ['get', 'fail']),
            ('fail-while-probing', [['get', 'fail?'], ['is_failed', 'get']], None),
            ('held-probe', [[], ['get', 'is_locked', 'is_failed']], ['get']),
            ('reacquire', [['get']], ['get', 'release']),
            ('reacquire-after-fail', [['get']], ['get', 'fail', 'release']),
            # fail() by a client whose lock is gone (removed by `cleanup --locks-only` while its task ran: jug/jug.py then calls fail() on a free
            # name): the lock stays free - of the clients racing for it exactly one wins
            ('fail-on-free', [['fail', 'is_failed'], ['get'], ['get']], None),
        ]
        if not quick:
            families += [('race3-release', [['get', 'release?'], ['get', 'release?'], ['get']], None),
                         ('fail-release-get', [['get', 'fail?', 'release?'], ['get', 'is_failed'], ['get']], None)]
        for backend in BACKENDS:
            for fam, scripts, pre in families:
                if fam == 'fail-on-free' and backend == 'dict':
                    continue    # one process, no operator: nothing removes a lock under a running task (release() has the same precondition there)
                n = 0
                for decisions, events, results, other in lockrun.explore_all(backend, scripts, scratch, limit=(400 if quick else 20000), pre=pre):
                    n += 1
                    interleaved = len({d[0] for d in decisions if d[2] == 'prim'}) >= 2
                    run.case((backend, fam, tuple(d[0] for d in decisions)), nontrivial=interleaved)
                    judge(run, backend, scripts, pre, decisions, events, results, other, (None if fam == 'fail-on-free' else drv), fam)   # the model assumes the owner discipline: that family is judged on the real code only
                    if len(run.samples) < 3 and interleaved and fam in ('race2', 'get-release-get') and backend == 'file':
                        run.sample({'backend': backend, 'scripts': scripts, 'schedule': [[d[0], d[2], d[3]] for d in decisions], 'results': results})
                run.counts['schedules_%s_%s' % (backend, fam)] = n
            # the read-only memoizing wrapper (`jug status` looks at locks through it): whatever the order and number of its queries, a lock that is
            # free / held / marked failed underneath is reported as such (locked iff held or failed; failed iff failed)
            if backend != 'keepalive':
                memoized_observers(run, backend, scratch)
            if backend == 'redis':
                lost_reply_release(run)
            # random longer histories
            for k in range(20 if quick else 300):
                nc = rng.choice([2, 3, 4])
                scripts = [[rng.choice(['get', 'release?', 'fail?', 'is_locked', 'is_failed', 'get']) for _ in range(rng.randint(2, 5))] for _ in range(nc)]
                decisions, events, results, other = lockrun.run_once(backend, scripts, scratch, rng=rng)
                run.case((backend, 'random', k, run.seed), nontrivial=True)
                judge_random(run, backend, scripts, decisions, events, results, other, drv)
        long_hold_family(run, scratch)
        expired_keepalive_family(run, scratch)
        fail_racing_refresh(run, scratch)
        run.exhaustive = False
        if drv is not None and run.corr_disagreements == 0:
            run.obligation('correspondence: %d schedules on the real lock classes give exactly the results of the model interpreting the extracted trees' % run.corr_programs, True)
    finally:
        core.rm_rf(scratch)
        if drv is not None:
            drv.close()


def long_hold_family(run, scratch):
    """the model has no clock: elapsed time is a stutter step, so a held (or failed) lock must answer the same after any amount of time.
    redis: the stand-in's clock is advanced (keys with a TTL expire); file: the clock file_store.py reads (`time`) is advanced.
    (The keep-alive lock's deliberate age rule is C19's subject.)"""
    import os as _os
    for backend in ('redis', 'file', 'dict'):
        for failed in (False, True):
            w = lockrun.World(backend, 3, scratch, lambda *a: None)
            try:
                A, B, C = w.locks
                got = [A.get()]
                if failed:
                    A.fail()
                elapsed = 0
                for dt in (3600, 86400 - 3600, 86400, 10 * 86400, 400 * 86400):
                    elapsed += dt
                    if backend == 'redis':
                        w.server.advance(dt)
                    elif backend == 'file':
                        import time as _time
                        import jug.backends.file_store as _fs
                        if not any(getattr(u, 'jv_clock', False) for u in w.undo):
                            saved_time = _fs.time

                            def _undo(saved_time=saved_time):
                                _fs.time = saved_time
                            _undo.jv_clock = True
                            w.undo.append(_undo)
                        _fs.time = lambda e=elapsed: _time.time() + e
                    obs = {'B.get': B.get(), 'B.is_locked': B.is_locked(), 'B.is_failed': B.is_failed(), 'A.is_locked': A.is_locked()}
                    exp = {'B.get': False, 'B.is_locked': True, 'B.is_failed': failed, 'A.is_locked': True}
                    run.case((backend, 'long-hold', failed, elapsed), nontrivial=True)
                    run.count('long_hold_points')
                    if obs != exp:
                        run.fail('expires-while-held', '%s lock %s by client A and not released: %d s later client B observes %s, expected %s (a lock must exclude until its holder releases it)'
                                 % (backend, 'marked failed' if failed else 'held', elapsed, obs, exp), {'kind': 'long-hold', 'backend': backend, 'failed': failed, 'elapsed': elapsed})
                        break
                A.release()
                if not C.get():
                    run.fail('not-reacquirable', '%s lock released by its holder after a long hold cannot be acquired' % backend, {'kind': 'long-hold', 'backend': backend, 'failed': failed})
            finally:
                w.close()


def expired_keepalive_family(run, scratch):
    """keep-alive backend: the lock of a worker whose helper stopped refreshing it (time stamp older than the expiry, not the explicit
    failed mark) is reported locked and failed - and, like every failed lock, cannot be acquired until it is released / cleaned up"""
    import os as _os
    import time as _time
    for age in (1801, 7200, 10 ** 6):
        w = lockrun.World('keepalive', 3, scratch, lambda *a: None)
        try:
            A, B, C = w.locks
            if not A.get():
                continue
            now = _time.time()
            _os.utime(w.lockpath, (now - age, now - age))
            obs = {'B.is_locked': B.is_locked(), 'B.is_failed': B.is_failed(), 'B.get': B.get(), 'C.get': C.get(), 'still B.is_locked': B.is_locked()}
            exp = {'B.is_locked': True, 'B.is_failed': True, 'B.get': False, 'C.get': False, 'still B.is_locked': True}
            run.case(('keepalive', 'expired', age), nontrivial=True)
            run.count('expired_keepalive_points')
            if obs != exp:
                run.fail('expired-lock-acquired', 'keep-alive lock held by client A, not refreshed for %d s (reported locked and failed) and not released: other clients observe %s, expected %s '
                         '(a failed lock cannot be acquired until it is released)' % (age, obs, exp), {'kind': 'expired-keepalive', 'age': age})
                continue
            A.release()
            if not C.get():
                run.fail('not-reacquirable', 'keep-alive lock released by its holder cannot be acquired', {'kind': 'expired-keepalive', 'age': age})
        finally:
            w.close()


def fail_racing_refresh(run, scratch):
    """keep-alive lock: fail() while the helper process is in the middle of a refresh (its last utime lands as it is being stopped): the failed
    mark must survive, i.e. the helper has to be stopped before the mark is written"""
    import os as _os
    import jug.backends.file_store as fs

    class FakePopen:
        def __init__(self, *a, **k):
            self.path = None

        def kill(self):
            if self.path:
                try:
                    _os.utime(self.path, None)      # the refresh that was in flight
                except OSError:
                    pass
    saved = fs.Popen
    fs.Popen = FakePopen
    d = _os.path.join(scratch, 'frr')
    try:
        lk = fs.file_keepalive_based_lock(d, 'e' * 40)
        if not lk.get() or lk.monitor is None:
            return
        lk.monitor.path = lk.fullname
        lk.fail()
        other = fs.file_keepalive_based_lock(d, 'e' * 40)
        run.case(('keepalive', 'fail-racing-refresh'), nontrivial=True)
        if not (other.is_locked() and other.is_failed()) or other.get():
            run.fail('failed-mark-lost-to-refresh', 'keep-alive lock: the holder calls fail() while its helper is in the middle of a refresh: afterwards another client observes is_locked=%s is_failed=%s'
                     ' (a lock marked failed stays failed until released)' % (other.is_locked(), other.is_failed()), {'kind': 'fail-racing-refresh'})
        lk.release()
    finally:
        fs.Popen = saved
        core.rm_rf(d)


def lost_reply_release(run):
    """redis: the holder's release() is executed by the server but the reply is lost (the connection drops); whatever the client then does - report the error, try again -
    a lock that another client has taken in the meantime stays that client's: nobody else gets it"""
    import redis as _redis
    import jug.backends.redis_store as rs
    from jugverif import fakeredis
    for when in ('before-any-retry', 'no-interleaving'):
        srv = fakeredis.FakeServer()
        name = 'f' * 40
        A, B, C = [rs.redis_lock(fakeredis.FakeRedis(srv), name) for _ in range(3)]
        if not A.get():
            raise core.InfraError('fresh redis lock not acquired')
        st = {'lost': 0, 'b': None, 'busy': False}

        def lost(cmd, key, client, st=st, A=A):
            if client is A.redis and st['lost'] == 0:
                st['lost'] = 1
                return True
            return False

        def hook(cmd, key, st=st, B=B, when=when):
            # the next command after the lost reply (a second DEL, if the client tries again): client B gets in first
            if when == 'before-any-retry' and st['lost'] == 1 and st['b'] is None and not st['busy']:
                st['busy'] = True
                try:
                    st['b'] = bool(B.get())
                finally:
                    st['busy'] = False
        srv.reply_lost = lost
        srv.hook = hook
        raised = None
        try:
            A.release()
        except (_redis.ConnectionError, _redis.TimeoutError) as e:
            raised = e
        srv.hook = None
        srv.reply_lost = None
        if st['b'] is None:
            st['b'] = bool(B.get())
        c = bool(C.get())
        run.case(('lost-reply-release', when), nontrivial=True)
        run.count('lost_reply_cases')
        if st['b'] and c:
            run.fail('two-holders-after-lost-reply', 'redis lock: the holder\'s release() was executed by the server but its reply was lost; client B then acquired the lock (get() = True) %s; afterwards '
                     'client C also acquires it (get() = True) while B holds it (release() %s)' % ('before the first client tried again' if when == 'before-any-retry' else '',
                                                                                               'raised %s' % type(raised).__name__ if raised else 'returned normally'),
                     {'kind': 'lost-reply-release', 'when': when})


def memoized_observers(run, backend, scratch):
    import itertools
    from jug.backends.memoize_store import memoize_store
    from jugverif import storecheck
    for state in ('free', 'held', 'failed'):
        for list_base in (False, True):
            d = os.path.join(scratch, 'memo-%s-%s-%s' % (backend, state, list_base))
            os.makedirs(d, exist_ok=True)
            cfg = storecheck.Cfg({'file': 'file', 'redis': 'redis', 'dict': 'dict'}[backend], d)
            base = cfg.open()
            name = b'e' * 40
            if state != 'free':
                assert base.getlock(name).get()
            if state == 'failed':
                lk0 = base.getlock(name) if backend == 'dict' else None
                holder = base.getlock(name)
                # the holder marks it failed (the lock object that took it, where the backend keeps state per object)
                if backend == 'file':
                    holder.fail()
                else:
                    holder.fail()
            want = {'is_locked': state != 'free', 'is_failed': state == 'failed'}
            for seq in itertools.chain.from_iterable(itertools.product(('is_locked', 'is_failed'), repeat=r) for r in (1, 2, 3)):
                ms = memoize_store(cfg.open(), list_base=list_base)
                lk = ms.getlock(name)
                got = [(op, bool(getattr(lk, op)())) for op in seq]
                run.case(('memoized', backend, state, list_base, seq), nontrivial=state != 'free')
                run.count('memoized_observer_sequences')
                bad = [(op, r) for op, r in got if r != want[op]]
                if bad:
                    run.fail('memoized-lock-misreported', '%s lock that is %s, seen through the memoizing store (list_base=%s): the queries %s answer %s; %s() must be %s'
                             % (backend, state, list_base, list(seq), [r for _, r in got], bad[0][0], want[bad[0][0]]),
                             {'kind': 'memoized', 'backend': backend, 'state': state, 'list_base': list_base, 'sequence': list(seq)})
                    return


def judge_random(run, backend, scripts, decisions, events, results, other, drv):
    """random histories with releases: the monitor is the model-free holder count along the completion order given by the schedule"""
    rp = {'kind': 'locks', 'backend': backend, 'scripts': scripts, 'pre': None, 'choices': [d[0] for d in decisions]}
    for i in range(len(scripts)):
        for op, r in results[i]:
            if isinstance(r, str) and r.startswith('raised'):
                run.fail('lock-op-raises', '%s lock: %s() raised %s under the owner discipline' % (backend, op, r), rp)
    if other:
        run.fail('names-interfere', '%s lock: operations on one name left another name locked' % backend, rp)
    # holder intervals: client i holds from the completion of its winning get to the *call* of its release. Both instants are decisions of the
    # schedule: call = the 'call' decision; completion = the last decision of that client before its next call (or the end).
    ops_of = {i: [] for i in range(len(scripts))}
    for pos, (c, runnable, kind, detail) in enumerate(decisions):
        if kind == 'call':
            ops_of[c].append({'op': detail, 'call': pos, 'last': pos})
        else:
            ops_of[c][-1]['last'] = pos
    intervals = []
    for i in range(len(scripts)):
        start = None
        for k, (op, r) in enumerate(results[i]):
            if op == 'get' and r is True:
                start = ops_of[i][k]['last']
            if op == 'release' and start is not None:
                intervals.append((start, ops_of[i][k]['call'], i))
                start = None
        if start is not None:
            intervals.append((start, len(decisions), i))
    intervals.sort()
    for a, b in zip(intervals, intervals[1:]):
        if b[0] < a[1]:
            run.fail('two-holders', '%s lock: clients %d and %d hold the lock at the same time (intervals %s, %s in schedule positions)' % (backend, a[2], b[2], a[:2], b[:2]), rp)
    if drv is not None:
        ans = drv.ask({'op': 'locks', 'backend': backend, 'events': events})
        run.corr_programs += 1
        model = {}
        if 'error' in ans:
            run.corr_disagreements += 1
            run.obligation('correspondence lock model=code (%s)' % backend, False, '%s: %s' % (ans['error'], json.dumps(rp)))
            return
        for c, op, r in ans['outs']:
            model.setdefault(c, []).append((op, r))
        real = {i: [(lockrun.MODEL_OP[op], (r if not (isinstance(r, str) and r.startswith('raised')) else 'raised')) for op, r in results[i]] for i in range(len(scripts)) if results[i]}
        if model != real:
            run.corr_disagreements += 1
            run.obligation('correspondence lock model=code (%s)' % backend, False, 'model %s code %s case %s' % (model, real, json.dumps(rp)))


def replay(path):
    d = json.load(open(path))
    r = d['replay']
    if r.get('kind') != 'locks':
        print(d['what'])
        return 1
    scratch = core.scratch_dir()
    try:
        decisions, events, results, other = lockrun.run_once(r['backend'], r['scripts'], scratch, r['choices'], pre=r.get('pre'))
        print('backend', r['backend'], 'scripts', r['scripts'], 'prelude', r.get('pre'))
        print('schedule', [(d_[0], d_[2], d_[3]) for d_ in decisions])
        print('results per client', results)
        run = core.Run('C04', 'quick')
        if r.get('pre') is not None or True:
            judge(run, r['backend'], r['scripts'], r.get('pre'), decisions, events, results, other, None, 'replay')
            judge_random(run, r['backend'], r['scripts'], decisions, events, results, other, None)
        for f in run.failures:
            print('FAILS:', f['what'][:400])
        print('property FAILS on this input' if run.failures else 'property holds on this input')
        return 1 if run.failures else 0
    finally:
        core.rm_rf(scratch)
