"""C09 - invalidation removes exactly the results that depend on the target"""
import json
import os
import re

from jugverif import core, graphcheck as G, genprog, jugenv

LEVEL = 'proof'
THEOREMS = ['Jug.C09.cli_eq_spec', 'Jug.C09.aff_sound', 'Jug.C09.aff_complete', 'Jug.C09.shell_union_eq_cli', 'Jug.C09.shellLoop_spec', 'Jug.C09.shell_eq_spec', 'Jug.C09.shell_in_range', 'Jug.C09.shell_terminates', 'Jug.C09.shell_total', 'Jug.C09.store_after', 'Jug.C09.invalidate_keeps_closed',
            'Jug.C09.occursIn_iff', 'Jug.C09.bare_hits_function', 'Jug.C09.bare_needs_component', 'Jug.C09.dotted_iff']


def matching(P, target):
    from jug.utils import prepare_task_matcher
    m = prepare_task_matcher(target)
    return [bool(m(nm)) for nm in P['names']]


def matching_bounds(P, target):
    """what any reading of "the task's name matches the target" has to respect, stated without the code's matcher: a task whose function is
    called `target` (bare name), or whose qualified name ends in `target` (dotted name), matches; a task in whose qualified name the target does
    not even occur as (the beginning of) a dotted component after the first does not"""
    names = P['names']
    if '.' in target:
        return [nm == target or nm.endswith('.' + target) for nm in names], [target in nm for nm in names]
    # (tasks with an unqualified name, like jug.utils.identity's 'identity', are left to the code: the unchanged matcher never matches them by bare name)
    return [nm.endswith('.' + target) for nm in names], [('.' + target) in nm or ('.' not in nm and nm.startswith(target)) for nm in names]


MODULE_TARGETS = ['jugverif', 'lib', 'jug', 'lib.mk', 'jugverif.lib.inc', 'mapreduce', 'jugverif.lib']


def check(run):
    quick = run.tier == 'quick'
    run.rule = ('generated DAGs (every embedding kind) x every task-function name in them as target x prior store states (fully run, partially run, packed) x backends (file, file+pack, in-memory, redis protocol): '
                'the real `jug invalidate` command and the interactive-shell invalidate function; removed set compared with the Lean closure model (over the dependencies the code reports) and with the property (every '
                'task that really reads an invalidated result is gone, nothing outside the reported closure is touched); then a real execute must re-run exactly the removed tasks and restore the sequential values; '
                'targets also include names of (prefixes of) module components and dotted names: the tasks the real matcher selects are compared with the Lean matcher (Model/Target.lean) and with bounds stated without either; '
                'the invalidation made by one `jug invalidate` process and looked at by the next (`jug check`, `jug execute`) on the file store, the packed file store and `dict_store:<file>`; non-trivial = the target has dependents and non-dependents with stored results; distinct by (program, target, state, backend)')
    run.assumptions = ['dependencies: lower bound = results a task really reads (cache-free sequential run), upper bound = what Task.dependencies() reports (jug may invalidate conservatively, e.g. a slice of a mapped sequence with all its blocks)',
                       'the shell work list is modelled as coded (shellLoop: reverse-edge table, pop from the end, seen set) and proved totally correct (shell_total); hashes are modelled as task indices (equal-hash duplicates of a task are one task)']
    run.trusted = ['Lean 4.33.0 kernel', 'axioms propext, Quot.sound', 'harness/jugverif/graphcheck.py']
    run.lean(['JugModel.Props.C09', 'jugdrv'], theorems_expected=THEOREMS)
    drv = core.Driver() if run.driver_ok else None
    rng = core.rng_for(run.seed, 'c09')
    scratch = core.scratch_dir()
    try:
        nprog = 48 if quick else 300
        # every way a consumer can be linked to a producer as the only link (deterministic), then generated programs
        progs = list(genprog.single_link_programs()) + list(genprog.late_fill_programs())
        nfixed = len(progs)
        for pi in range(nprog + nfixed):
            prog = progs[pi] if pi < nfixed else genprog.generate(rng, rng.choice([6, 9, 12]), want=genprog.RARE[pi % len(genprog.RARE)])
            d = os.path.join(scratch, 'p%d' % pi)
            os.makedirs(d)
            P = G.analyse_with_values(prog.text, d)
            n = P['n']
            targets = sorted({nm.split('.')[-1] for nm in P['names']})
            if quick and pi < nfixed:
                # single-link program: the producers of the link
                targets = [t for t in targets if t not in ('use', 'inc', 'const')][:3]
            elif quick:
                # always the producers whose consumers are easiest to lose (map blocks, index tasks), plus a sample of the others
                must = [t for t in targets if t in ('_jug_map', 'idx', 'mk')]
                rest = [t for t in targets if t not in must]
                targets = must + rng.sample(rest, min(3, len(rest)))
            # a target that names (a prefix of) a module component, or a qualified name
            targets = targets + [MODULE_TARGETS[pi % len(MODULE_TARGETS)]] + ([] if quick else [MODULE_TARGETS[(pi + 3) % len(MODULE_TARGETS)]])
            for ti, target in enumerate(targets):
                for variant in ('cli', 'shell'):
                    kind = ['file', 'dict', 'redis', 'filepack'][(ti + (variant == 'shell')) % 4]
                    be = G.GBackend(kind, d, 't%d%s' % (ti, variant))
                    state = rng.choice(['full', 'full', 'partial', 'holes'])
                    if state == 'full':
                        present = set(range(n))
                    elif state == 'partial':
                        present = set(range(rng.randint(1, n)))
                    else:
                        # results with holes: an upstream result is missing (single-task invalidate, interrupted invalidate, manual removal)
                        present = {i for i in range(n) if rng.random() < 0.7}
                    G.put_state(P, be, present, {})
                    hit = matching(P, target)
                    mlow, mup = matching_bounds(P, target)
                    if drv is not None and variant == 'cli' and re.fullmatch(r'[A-Za-z0-9_.]+', target):
                        ans = drv.ask({'op': 'match', 'target': target, 'names': P['names']})
                        run.corr_programs += 1
                        if ans.get('hits') != hit:
                            run.corr_disagreements += 1
                            run.obligation('correspondence target matching model=code', False, 'target %r names %s: model %s code %s' % (target, P['names'], ans.get('hits'), hit))
                    bad = [i for i in range(n) if (mlow[i] and not hit[i]) or (hit[i] and not mup[i])]
                    if bad and variant == 'cli':
                        run.fail('target-matching', 'target %r: %s' % (target, '; '.join('task %s is %s' % (P['names'][i], 'matched although the target is no component of its name' if hit[i] else 'not matched') for i in bad[:3])),
                                 {'kind': 'matching', 'program': prog.text, 'target': target})
                    roots = [i for i in range(n) if hit[i]]
                    low = G.closure(P, roots, 'reads')
                    up = G.closure(P, roots, 'reported') | low
                    rp = {'kind': 'invalidate', 'program': prog.text, 'target': target, 'variant': variant, 'backend': kind, 'present': sorted(present)}
                    try:
                        if variant == 'cli':
                            G.real_invalidate_cli(P, be, target)
                        else:
                            G.real_invalidate_shell(P, be, roots)
                    except Exception as e:
                        run.fail('invalidate-raises', '%s invalidate of %s raised %s: %s' % (variant, target, type(e).__name__, e), rp)
                        continue
                    res, _ = G.observe(P, be)
                    removed = {i for i in present if not res[i]}
                    stale = sorted(i for i in low if res[i])
                    extra = sorted(removed - up)
                    nontriv = bool(low - set(roots)) and bool(present - up) and bool(low & present)
                    run.case((pi, target, variant, run.seed), nontrivial=nontriv)
                    if stale:
                        run.fail('stale-result', 'after %s-invalidating %s on the %s store, tasks %s (%s) still have a stored result although they depend on an invalidated task' % (variant, target, kind, stale, [P['names'][i] for i in stale[:3]]), rp)
                    if extra:
                        run.fail('unrelated-removed', 'after %s-invalidating %s, results of tasks %s (%s) were removed although they do not depend on the target' % (variant, target, extra, [P['names'][i] for i in extra[:3]]), rp)
                    if drv is not None:
                        ans = drv.ask({'op': 'graph', 'n': n, 'deps': [inf['reported'] for inf in P['info']], 'hit': hit, 'res': [i in present for i in range(n)], 'locks': ['free'] * n, 'prev': ['unknown'] * n})
                        run.corr_programs += 1
                        if variant == 'shell':
                            if ans.get('shell') is None or set(ans['shell']) != set(ans['aff']):
                                run.corr_disagreements += 1
                                run.obligation('model: work list of the shell = closure (fuel n*n+n+2 suffices)', False, 'shell %s aff %s' % (ans.get('shell'), ans['aff']))
                            run.count('shell_worklist_runs')
                        model_removed = set(ans['shell'] if variant == 'shell' and ans.get('shell') is not None else ans['aff']) & present
                        if model_removed != removed:
                            run.corr_disagreements += 1
                            run.obligation('correspondence invalidate model=code (%s)' % variant, False, 'model removes %s, code removed %s; %s' % (sorted(set(ans['aff']) & present), sorted(removed), json.dumps(rp)[:300]))
                    # re-execute: exactly the tasks without result run, values restored
                    from jugverif import sched
                    s = be.store()
                    tasks, space = sched.load_jugfile(P['path'], s)
                    index, order = sched.index_tasks(tasks, {h: i for i, h in enumerate(P['hashes'])})
                    for t in tasks:
                        t.store = s
                    ran = []
                    for i, t in enumerate(order):
                        if not t.can_load():
                            t.run()
                            ran.append(i)
                    exp_run = sorted(set(range(n)) - {i for i in range(n) if res[i]})
                    if ran != exp_run:
                        run.fail('reexecute-set', 'execute after invalidation ran %s, expected exactly the tasks without result %s' % (ran, exp_run), rp)
                    from jugverif import lib
                    wrong = [i for i, t in enumerate(order) if lib.canon(s.load(t.hash())) != P['info'][i]['value']]
                    if wrong:
                        run.fail('reexecute-values', 'after invalidate + execute tasks %s have wrong values' % wrong, rp)
                    if len(run.samples) < 2 and nontriv:
                        run.sample({'program': prog.text.split('\n')[2:], 'target': target, 'variant': variant, 'backend': kind, 'removed': sorted(removed), 'kept': sorted(present - removed)})
            # one shell session, several invalidations with recomputation in between (the reverse-edge table is built once per session)
            if pi % 3 == 0 or pi < nfixed:
                names = sorted({nm.split('.')[-1] for nm in P['names']})
                tg1, tg2 = rng.choice(names), rng.choice(names)
                r1 = [i for i in range(n) if matching(P, tg1)[i]]
                r2 = [i for i in range(n) if matching(P, tg2)[i]]
                be = G.GBackend(['dict', 'file', 'redis'][pi % 3], d, 'sess')
                G.put_state(P, be, set(range(n)), {})
                rp = {'kind': 'shell-session', 'program': prog.text, 'targets': [tg1, tg2]}
                try:
                    G.real_shell_session(P, be, [r1, r2])
                except Exception as e:
                    run.fail('invalidate-raises', 'shell session invalidate(%s); recompute; invalidate(%s) raised %s: %s' % (tg1, tg2, type(e).__name__, e), rp)
                else:
                    res, _ = G.observe(P, be)
                    low = G.closure(P, r2, 'reads')
                    up = G.closure(P, r2, 'reported') | low
                    stale = sorted(i for i in low if res[i])
                    extra = sorted(i for i in range(n) if not res[i] and i not in up)
                    run.case((pi, 'session', tg1, tg2, run.seed), nontrivial=bool(low - set(r2)))
                    run.count('shell_sessions')
                    if stale:
                        run.fail('stale-result', 'one shell session: invalidate(%s), recompute, invalidate(%s): tasks %s (%s) still have a stored result although they depend on the second target'
                                 % (tg1, tg2, stale, [P['names'][i] for i in stale[:3]]), rp)
                    if extra:
                        run.fail('unrelated-removed', 'one shell session: invalidate(%s), recompute, invalidate(%s): tasks %s (%s) have no result although they do not depend on the second target'
                                 % (tg1, tg2, extra, [P['names'][i] for i in extra[:3]]), rp)
            core.rm_rf(d)
        # a key that exists packed and loose (stale worker): invalidate must remove both copies
        from jugverif import storecheck
        storecheck.stale_client_family(run, n=(4 if quick else 20))
        next_process_family(run, quick)
        if drv is not None and run.corr_disagreements == 0:
            run.obligation('correspondence: %d real invalidations (command line and shell) removed exactly the set of the model' % run.corr_programs, True)
    finally:
        core.rm_rf(scratch)
        if drv is not None:
            drv.close()


NEXT_JUGFILE = """from jug import TaskGenerator
import os
HERE = os.path.dirname(os.path.abspath(__file__))
def _note(n):
    open(os.path.join(HERE, 'calls.log'), 'a').write(n + '\\n')
@TaskGenerator
def src(x):
    _note('src%d' % x); return x + 1
@TaskGenerator
def mid(x):
    _note('mid%d' % x); return x * 2
@TaskGenerator
def join(a, b):
    _note('join'); return [a, b]
@TaskGenerator
def side(x):
    _note('side'); return -x
s1 = src(1)
s2 = src(2)
m1 = mid(s1)
m2 = mid(s2)
j = join(m1, m2)
o = side(7)
"""
# target -> the invocations a following execute must make again (the target's tasks and all that is built on them), nothing else
NEXT_EXPECT = {'mid': ['join', 'mid2', 'mid3'], 'join': ['join'], 'side': ['side'], 'src': ['join', 'mid2', 'mid3', 'src1', 'src2']}


def next_process_family(run, quick):
    """the invalidation is made by one process (`jug invalidate`) and looked at by the next one (`jug check`, `jug execute`): on every backend that outlives a process -
    the file store, the file store with a pack, and the in-memory store with a backing file - the removed results stay removed and exactly they are computed again"""
    from jugverif.loadercheck import jug_cli
    fast = ['--nr-wait-cycles', '1', '--wait-cycle-time', '0']
    for backend in ('file', 'dictfile', 'filepack'):
        for target in (['mid'] if quick else sorted(NEXT_EXPECT)):
            d = core.scratch_dir('jugverif-c09next-')
            try:
                open(os.path.join(d, 'jugfile.py'), 'w').write(NEXT_JUGFILE)
                jd = ['--will-cite', '--jugdir', 'dict_store:project.store' if backend == 'dictfile' else 'store.jugdata']
                rp = {'kind': 'invalidate-next-process', 'backend': backend, 'target': target, 'jugfile': NEXT_JUGFILE}
                run.case(('next-process', backend, target), nontrivial=True)
                run.count('next_process_invalidations')

                def calls():
                    try:
                        return open(os.path.join(d, 'calls.log')).read().split()
                    except IOError:
                        return []
                ex = jug_cli(['execute'] + jd + fast + ['jugfile.py'], d)
                if backend == 'filepack':
                    jug_cli(['pack'] + jd + ['jugfile.py'], d)
                n0 = len(calls())
                if ex.returncode != 0 or n0 != 6:
                    run.fail('next-process-execute', '`jug execute` on the %s backend exits %s after %d of 6 invocations: %s' % (backend, ex.returncode, n0, ex.stdout[-300:]), rp)
                    continue
                inv = jug_cli(['invalidate'] + jd + ['--target', target, 'jugfile.py'], d)
                chk = jug_cli(['check'] + jd + ['jugfile.py'], d)
                ex2 = jug_cli(['execute'] + jd + fast + ['jugfile.py'], d)
                again = sorted(calls()[n0:])
                chk2 = jug_cli(['check'] + jd + ['jugfile.py'], d)
                if inv.returncode != 0:
                    run.fail('invalidate-fails', '`jug invalidate --target %s` on the %s backend exits %s: %s' % (target, backend, inv.returncode, inv.stdout[-300:]), rp)
                elif chk.returncode == 0 or again != NEXT_EXPECT[target]:
                    missing = [x for x in NEXT_EXPECT[target] if x not in again]
                    extra = [x for x in again if x not in NEXT_EXPECT[target]]
                    run.fail('stale-result' if missing or chk.returncode == 0 else 'unrelated-removed',
                             '%s backend: after `jug invalidate --target %s` (its own process, exit 0) the next process: `jug check` exits %s and `jug execute` invokes %s again; '
                             'the invalidated tasks and what is built on them are %s%s%s' % (backend, target, chk.returncode, again, NEXT_EXPECT[target],
                                                                                           ' - still served from the store: %s' % missing if missing else '', ' - removed although unrelated: %s' % extra if extra else ''), rp)
                elif ex2.returncode != 0 or chk2.returncode != 0:
                    run.fail('next-process-execute', '%s backend: execute after invalidate exits %s, check afterwards %s' % (backend, ex2.returncode, chk2.returncode), rp)
            finally:
                core.rm_rf(d)


def replay(path):
    d = json.load(open(path))
    r = d['replay']
    if r.get('kind') == 'matching':
        scratch = core.scratch_dir()
        try:
            P = G.analyse_with_values(r['program'], scratch)
            hit = matching(P, r['target'])
            low, up = matching_bounds(P, r['target'])
            bad = [P['names'][i] for i in range(P['n']) if (low[i] and not hit[i]) or (hit[i] and not up[i])]
            print('program:\n' + r['program'])
            print('target %r matches %s' % (r['target'], [P['names'][i] for i in range(P['n']) if hit[i]]))
            print('property FAILS on this input: wrongly (un)matched %s' % bad if bad else 'property holds on this input')
            return 1 if bad else 0
        finally:
            core.rm_rf(scratch)
    print(d['what'][:1000])
    print(json.dumps(d['replay'])[:2000])
    return 1
