"""C01 - distributed execution computes what plain sequential Python would compute"""
import random

from jugverif import core, execchecks as X, execengine as E

LEVEL = 'proof'
THEOREMS = ['Jug.C01.exec_sound', 'Jug.C01.loads_are_reference', 'Jug.C01.load_enabled', 'Jug.C01.rerun_noop', 'Jug.C01.exec_complete_partial',
            'Jug.C01.started_tasks_have_reference_value', 'Jug.C01.exec_complete', 'Jug.C01.exec_complete_reference', 'Jug.WorkerBridge.worker_scans_all', 'Jug.LoopBridge.loop_scans_all', 'Jug.LoopBridge.loop_fuel_sufficient', 'Jug.LoopBridge.loop_conforms', 'Jug.LoopBridge.scanRun_of_workers', 'Jug.LoopBridge.exec_complete_of_loop_workers']


def extract():
    from jugverif import extract_worker as W
    core.write_generated('WorkerPaths', W.emit(W.all_paths(thorough=True)))


def run_one(run, drv, P, scratch, params):
    c = X.run_params(P, scratch, params, X.newtag())
    X.faultfree_monitors(run, drv, P, scratch, params, c)
    return c


def check(run):
    quick = run.tier == 'quick'
    run.rule = ('generated jugfiles (every embedding kind: positional/keyword/list/tuple/dict/nested containers, t[i], t[a:b], t[u] with u a task, tasklet of tasklet, '
                'iteratetask, return_tuple, identity, CustomHash/NoHash, map/currymap/mapreduce/reduce with all steps, items and slices of mapped sequences) x backends '
                '(dict, file, file with packed prior state, redis protocol) x 1-4 gated workers x aggressive unloading per worker x schedules; each run: history replayed through the '
                'Lean model, every stored result = sequential value, value() of every top-level variable = plain-Python evaluation of the same text, second execute runs nothing; '
                'non-trivial = at least two workers executed tasks; distinct by (program, backend, workers, flags, schedule)')
    drv = X.setup(run, THEOREMS)
    from jugverif import seedproc
    seedproc.family(run)
    X.loop_correspondence(run, drv)
    rng = core.rng_for(run.seed, 'c01')
    scratch = core.scratch_dir()
    embed_total = {}
    try:
        nprog = 40 if quick else 300
        from jugverif import genprog
        fixed = genprog.single_link_programs()
        for pi in range(nprog + len(fixed)):
            ntasks = rng.choice([4, 8, 10, 14]) if quick else rng.choice([4, 8, 12, 20, 30, 40])
            if pi < len(fixed):
                # every embedding kind as the only link between a producer and a consumer (deterministic part of the input space)
                P = E.analyse_text(fixed[pi].text, scratch, fixed[pi].embed)
            else:
                P = E.prepare(rng, scratch, ntasks, want=genprog.RARE[pi % len(genprog.RARE)])
            for k, v in P['embed'].items():
                embed_total[k] = embed_total.get(k, 0) + v
            # sequential jug vs plain python
            for k in P['top']:
                from jugverif import lib
                if lib.canon(P['top'][k]) != lib.canon(P['plain'][k]):
                    X.fail_case(run, 'sequential-differs-from-python', 'single worker: value(%s) = %s, plain Python gives %s' % (k, lib.canon(P['top'][k])[:200], lib.canon(P['plain'][k])[:200]), P, {'backend': 'dict', 'nworkers': 1, 'sched_seed': 0})
            for backend in (X.BACKENDS if pi >= len(fixed) else [X.BACKENDS[pi % len(X.BACKENDS)]]):
                for rep in range(1 if quick else 2):
                    nw = rng.choice([1, 2, 2, 3, 4])
                    flags = {w: [False, False, rng.random() < 0.5] for w in range(nw)}
                    params = {'backend': backend, 'nworkers': nw, 'sched_seed': rng.randrange(10 ** 9), 'flags': flags,
                              'pre_done': rng.choice([0, 0, P['n'] // 3]) if backend != 'filepack' else max(1, P['n'] // 2)}
                    c = run_one(run, drv, P, scratch, params)
                    run.case((pi, backend, rep, run.seed), nontrivial=X.workers_active(c.trace) >= 2)
                    run.count('runs_' + backend)
                    if len(run.samples) < 2 and X.workers_active(c.trace) >= 2:
                        run.sample({'program': P['text'].split('\n')[2:], 'params': params, 'events': len(c.trace), 'first_events': E.to_model_events(c.trace[:12])})
            core.rm_rf(scratch)
            import os
            os.makedirs(scratch, exist_ok=True)
        run.counts['embedding_kinds'] = embed_total
        if drv is not None and run.corr_disagreements == 0:
            run.obligation('trace validation: %d real multi-worker histories (%d events) accepted by the Lean model with equal final store' % (run.counts.get('traces_validated', 0), run.counts.get('trace_events_validated', 0)), True)
    finally:
        core.rm_rf(scratch)
        if drv is not None:
            drv.close()


def replay(path):
    return X.replay(path, 'C01')
