"""C15 - status and check tell the truth about every task"""
import json
import os

from jugverif import core, graphcheck as G, genprog

LEVEL = 'proof'
THEOREMS = ['Jug.C15.classify_spec', 'Jug.C15.totals_add_up', 'Jug.C15.cached_eq_uncached', 'Jug.C15.check_iff', 'Jug.C15.classifier_table_matches', 'Jug.C15.graph_classifier_eq',
            'Jug.C15.short_all_complete_iff', 'Jug.C15.short_all_complete_count',
            'Jug.MemoProps.memo_truthful', 'Jug.MemoProps.lock_seen_through_wrapper', 'Jug.MemoProps.classify_through_wrappers', 'Jug.MemoProps.locked_answers_constant', 'Jug.MemoProps.failed_sticky', 'Jug.MemoProps.canLoad_truthful', 'Jug.MemoProps.canLoadRun_truthful', 'Jug.MemoProps.canLoadRun_asks_once', 'Jug.MemoProps.canLoadRun_lookups_le']


def extract():
    from jugverif import extract_status as X
    core.write_generated('StatusTable', X.emit(X.rows()))


def check(run):
    quick = run.tier == 'quick'
    run.rule = ('generated DAGs x store states (arbitrary subsets of results present - closed under dependencies or not - and arbitrary held/failed locks) x backends (file, file+pack, in-memory, redis protocol): the '
                'table printed by the real `jug status` (all five columns per task name and the Total row) uncached and cached, and the exit status of the real check walk, compared with the Lean model and with the '
                'property; the memoizing lock wrapper of the cached mode under every query sequence up to length 3 and random longer ones, with the base lock unchanged and changing between queries, vs Model/Memo.lean; cached mode along monotone histories of 3-5 states with an on-disk cache file; the stores `jug invalidate` leaves behind (all complete but one task and what is built on it, the runnable ones marked failed or not) for the check walk and the tables; the one-line summary of --short (cached and uncached) on every state; non-trivial = the state has complete, waiting and at least one locked runnable task; distinct by (program, state)')
    run.assumptions = ['direct dependencies = what Task.dependencies() reports (its agreement with the results a task really reads is C03)', 'between cached calls results are only added and the jugfile is unchanged',
                       'check: stores closed under dependencies (what execute/invalidate/cleanup produce)']
    run.trusted = ['Lean 4.33.0 kernel', 'axioms propext, Classical.choice, Quot.sound', 'harness/jugverif/extract_status.py (exhaustive table of the real update_status)', 'harness/jugverif/graphcheck.py', 'harness/jugverif/storecheck.py (drives the real memoize_store / cache_lock over the backends)']
    extract()
    run.lean(['JugModel.Props.C15', 'JugModel.Props.Memo', 'jugdrv'], theorems_expected=THEOREMS)
    drv = core.Driver() if run.driver_ok else None
    rng = core.rng_for(run.seed, 'c15')
    scratch = core.scratch_dir()
    try:
        nprog = 25 if quick else 150
        for pi in range(nprog):
            prog = genprog.generate(rng, rng.choice([5, 8, 12]))
            d = os.path.join(scratch, 'p%d' % pi)
            os.makedirs(d)
            P = G.analyse_with_values(prog.text, d)
            n = P['n']
            for si in range(6 if quick else 14):
                kind = ['file', 'dict', 'redis', 'filepack'][si % 4]
                be = G.GBackend(kind, d, 's%d' % si)
                mode = rng.choice(['closed', 'closed', 'arbitrary'])
                if mode == 'closed':
                    cut = rng.randint(0, n)
                    present = set(range(cut))
                    # drop some maximal ones keeping closure
                    for i in sorted(present, reverse=True):
                        if rng.random() < 0.3 and not any(i in P['info'][j]['reported'] or i in P['info'][j]['reads'] for j in present if j != i):
                            present.discard(i)
                else:
                    present = {i for i in range(n) if rng.random() < 0.6}
                locks = {}
                for i in range(n):
                    if i not in present and rng.random() < 0.35:
                        locks[i] = rng.choice(['held', 'failed'])
                G.put_state(P, be, present, locks)
                res, lk = G.observe(P, be)
                spec = [G.spec_status(P, res, lk, i) for i in range(n)]
                exp_rows, exp_total = G.expected_counts(P, spec)
                rp = {'kind': 'status', 'program': prog.text, 'backend': kind, 'present': sorted(present), 'locks': {str(k): v for k, v in locks.items()}}
                nontriv = len({'finished', 'waiting'} & set(spec)) == 2 and any(s in ('running', 'failed') for s in spec)
                run.case((pi, si, run.seed), nontrivial=nontriv)
                # uncached, as printed
                header, rows, total, out = G.real_status(P, be, cached=False)
                if header != ['Failed', 'Waiting', 'Ready', 'Complete', 'Active']:
                    run.fail('status-columns', 'status table has columns %s' % header, rp)
                elif rows != exp_rows or total != exp_total:
                    bad = {k: (rows.get(k), exp_rows.get(k)) for k in set(rows) | set(exp_rows) if rows.get(k) != exp_rows.get(k)}
                    run.fail('status-wrong', '`jug status` on the %s store prints (Failed, Waiting, Ready, Complete, Active) %s / Total %s; the store state implies %s / Total %s' % (kind, {k: v[0] for k, v in bad.items()}, total, {k: v[1] for k, v in bad.items()}, exp_total), rp)
                # cached, fresh cache
                cf = os.path.join(d, 'cache-%d.sqlite' % si)
                h2, rows2, total2, _ = G.real_status(P, be, cached=True, cache_file=cf)
                if rows2 != exp_rows or total2 != exp_total:
                    run.fail('status-cached-wrong', '`jug status --cache` (new cache) prints %s / Total %s, uncached semantics give %s / Total %s' % (rows2, total2, exp_rows, exp_total), rp)
                # the one-line summary (`--short`), uncached and cached: the same five numbers, folded
                sh_unc = None
                for cached_short in (False, True):
                    _, _, sh, sh_out = G.real_status(P, be, cached=cached_short, cache_file=os.path.join(d, 'cache-short-%d.sqlite' % si), short=True)
                    if not cached_short:
                        sh_unc = (sh, ' '.join(sh_out))
                    exp_sh = (exp_total[0], exp_total[1] + exp_total[2], exp_total[3], exp_total[4])
                    if sh is None:
                        run.count('short_lines_not_understood')
                    else:
                        run.count('short_lines')
                        if sh != exp_sh:
                            run.fail('status-short-wrong', '`jug status --short%s` on the %s store prints %r, i.e. (failed, waiting to be run, complete, active) = %s; the store state implies %s'
                                     % (' --cache' if cached_short else '', kind, ' '.join(sh_out)[:200], sh, exp_sh), rp)
                            break
                # `jug graph` carries its own copy of the classifier: the counters in the dot file
                try:
                    grows = G.real_graph_counts(P, be)
                    run.count('graph_dot_files')
                    if grows != exp_rows:
                        badg = {k: (grows.get(k), exp_rows.get(k)) for k in set(grows) | set(exp_rows) if grows.get(k) != exp_rows.get(k)}
                        run.fail('graph-status-wrong', '`jug graph` on the %s store labels the nodes (Failed, Waiting, Ready, Complete, Active) %s; the store state implies %s'
                                 % (kind, {k: v[0] for k, v in list(badg.items())[:3]}, {k: v[1] for k, v in list(badg.items())[:3]}), rp)
                except Exception as e:
                    if type(e).__name__ not in ('ImportError', 'ModuleNotFoundError'):
                        raise
                # check
                closed = all(all(res[dd] for dd in P['info'][i]['reported']) for i in range(n) if res[i])
                rc = G.real_check(P, be)
                if closed and (rc == 0) != all(res):
                    run.fail('check-wrong', '`jug check` exits %d on the %s store although %d of %d tasks are complete (closed state)' % (rc, kind, sum(res), n), rp)
                if rc == 0 and not all(res) and closed:
                    pass
                # model
                if drv is not None:
                    ans = drv.ask({'op': 'graph', 'n': n, 'deps': [inf['reported'] for inf in P['info']], 'hit': [False] * n, 'res': res, 'locks': lk, 'prev': ['unknown'] * n, 'counted': list(P['alltasks_idx'])})
                    run.corr_programs += 1
                    m_rows, m_total = G.expected_counts(P, ans['status'])
                    if sh_unc is not None and sh_unc[0] is not None and 'short' in ans:
                        import re as _re
                        real_kind = 'all' if _re.search(r'all tasks complete', sh_unc[1], _re.I) else 'pending'
                        if [real_kind] + list(sh_unc[0]) != ans['short']:
                            run.corr_disagreements += 1
                            run.obligation('correspondence --short summary model=code', False, 'model %s; code prints %r; case %s' % (ans['short'], sh_unc[1][:120], json.dumps(rp)[:300]))
                    if m_rows != rows or m_total != total or ans['check'] != (rc == 0):
                        run.corr_disagreements += 1
                        run.obligation('correspondence status/check model=code', False, 'model rows %s check %s; code rows %s rc %s; case %s' % (m_rows, ans['check'], rows, rc, json.dumps(rp)[:300]))
                # monotone history with the on-disk cache: add results step by step, release/keep locks
                cur = set(present)
                for step in range(2 if quick else 4):
                    runnable = [i for i in range(n) if i not in cur and all(dd in cur for dd in P['info'][i]['reported']) and i not in locks]
                    if not runnable:
                        break
                    add = set(rng.sample(runnable, rng.randint(1, len(runnable))))
                    # sometimes several levels of the DAG complete between two looks at the status
                    for _lvl in range(rng.choice([0, 0, 1, 2])):
                        nxt = [i for i in range(n) if i not in cur and i not in add and all(dd in cur or dd in add for dd in P['info'][i]['reported']) and i not in locks]
                        if not nxt:
                            break
                        add |= set(rng.sample(nxt, rng.randint(1, len(nxt))))
                    s = be.store()
                    for i in add:
                        s.dump(P['values'][i], P['hashes'][i])
                    if rng.random() < 0.5 and locks:
                        # somebody clears a lock (e.g. cleanup --failed-only, or a worker finished)
                        i = rng.choice(sorted(locks))
                        s.getlock(P['hashes'][i]).release()
                        del locks[i]
                    cur |= add
                    res2, lk2 = G.observe(P, be)
                    spec2 = [G.spec_status(P, res2, lk2, i) for i in range(n)]
                    e_rows, e_total = G.expected_counts(P, spec2)
                    _, r_unc, t_unc, _ = G.real_status(P, be, cached=False)
                    _, r_c, t_c, _ = G.real_status(P, be, cached=True, cache_file=cf)
                    run.count('cached_history_steps')
                    rp2 = dict(rp, kind='status-history', added=sorted(cur - present), locks_now={str(k): v for k, v in locks.items()})
                    if (r_c, t_c) != (r_unc, t_unc):
                        run.fail('cached-differs', '`jug status --cache` (existing cache) reports %s / Total %s but uncached reports %s / Total %s after results %s were added' % (r_c, t_c, r_unc, t_unc, sorted(add)), rp2)
                    if (r_unc, t_unc) != (e_rows, e_total):
                        run.fail('status-wrong', '`jug status` prints %s / %s, state implies %s / %s' % (r_unc, t_unc, e_rows, e_total), rp2)
                if len(run.samples) < 2 and nontriv:
                    run.sample({'program': prog.text.split('\n')[2:], 'backend': kind, 'present': sorted(present), 'locks': locks, 'printed_rows': rows, 'total': total})
            # the stores `jug invalidate` leaves behind: everything complete except one task and all that is built on it
            # (the incomplete tasks may sit anywhere in definition order, e.g. before a covered ancestor of a later sink)
            for vi in (range(n) if not quick else rng.sample(range(n), min(n, 4))):
                gone = {vi}
                grew = True
                while grew:
                    grew = False
                    for j in range(n):
                        if j not in gone and (set(P['info'][j]['reported']) | set(P['info'][j]['reads'])) & gone:
                            gone.add(j)
                            grew = True
                be = G.GBackend(['dict', 'file'][vi % 2], d, 'inv%d' % vi)
                present = set(range(n)) - gone
                # ... and (every other time) the tasks that could run next were tried under --keep-failed and failed: the end state of `execute --keep-failed --keep-going`
                flocks = {j: 'failed' for j in gone if all(dd in present for dd in P['info'][j]['reported'])} if vi % 2 else {}
                G.put_state(P, be, present, flocks)
                res, lk = G.observe(P, be)
                rc = G.real_check(P, be)
                spec_i = [G.spec_status(P, res, lk, i) for i in range(n)]
                e_rows_i, e_total_i = G.expected_counts(P, spec_i)
                _, _, sh, sh_out = G.real_status(P, be, cached=False, short=True)
                _, r_i, t_i, _ = G.real_status(P, be, cached=False)
                rp_i = {'kind': 'status-after-invalidate', 'program': prog.text, 'invalidated': vi, 'present': sorted(present), 'locks': {str(k): v for k, v in flocks.items()}}
                if (r_i, t_i) != (e_rows_i, e_total_i):
                    run.fail('status-wrong', '`jug status` prints %s / %s, the store state (all complete but task #%d and what is built on it%s) implies %s / %s'
                             % (r_i, t_i, vi, '; the runnable ones marked failed' if flocks else '', e_rows_i, e_total_i), rp_i)
                exp_sh = (e_total_i[0], e_total_i[1] + e_total_i[2], e_total_i[3], e_total_i[4])
                if sh is not None and sh != exp_sh:
                    run.fail('status-short-wrong', '`jug status --short` prints %r, i.e. (failed, waiting to be run, complete, active) = %s; the store state (all complete but task #%d and what is built on it%s) implies %s'
                             % (' '.join(sh_out)[:200], sh, vi, '; the runnable ones marked failed' if flocks else '', exp_sh), rp_i)
                run.case(('after-invalidate', pi, vi, run.seed), nontrivial=0 < len(present) < n)
                run.count('after_invalidate_states')
                rp = {'kind': 'check-after-invalidate', 'program': prog.text, 'invalidated': vi, 'present': sorted(present)}
                if (rc == 0) != all(res):
                    run.fail('check-wrong', '`jug check` exits %d after task #%d (%s) and what is built on it were invalidated: %d of %d tasks are complete (status would show the rest as not complete)'
                             % (rc, vi, P['names'][vi], sum(res), n), rp)
                if drv is not None:
                    ans = drv.ask({'op': 'graph', 'n': n, 'deps': [inf['reported'] for inf in P['info']], 'hit': [False] * n, 'res': res, 'locks': lk, 'prev': ['unknown'] * n})
                    run.corr_programs += 1
                    if ans['check'] != (rc == 0):
                        run.corr_disagreements += 1
                        run.obligation('correspondence status/check model=code', False, 'model check %s; code rc %s; case %s' % (ans['check'], rc, json.dumps(rp)[:300]))
            core.rm_rf(d)
        memo_family(run, drv, scratch, rng, quick)
        canload_family(run, drv, scratch, rng, quick)
        if drv is not None and run.corr_disagreements == 0:
            run.obligation('correspondence: %d printed status tables / check exit codes equal the model' % run.corr_programs, True)
    finally:
        core.rm_rf(scratch)
        if drv is not None:
            drv.close()


class _CountingBase:
    """the wrapped backend with its can_load calls recorded (everything else goes straight through)"""

    def __init__(self, base):
        self._base = base
        self.asked = []

    def can_load(self, name):
        self.asked.append(name)
        return self._base.can_load(name)

    def __getattr__(self, a):
        return getattr(self._base, a)


def canload_family(run, drv, scratch, rng, quick):
    """whole runs of can_load() through the memoizing wrapper on real backends against Jug.Memo.canLoadRun: the answers, and the names for which the wrapped
    backend was asked, in order. Independent of the model: every answer is the backend's (canLoadRun_truthful). Which names the wrapped backend is asked for (canLoadRun_asks_once: none twice) is compared and counted in the evidence, but a difference there alone is not reported: on a store that does not change a second look cannot change a count"""
    from jug.backends.memoize_store import memoize_store
    from jugverif import storecheck
    kinds = ['file', 'dict', 'redis']
    bad = 0
    for i in range(45 if quick else 450):
        kind = kinds[i % 3]
        d = os.path.join(scratch, 'canload-%d' % i)
        os.makedirs(d, exist_ok=True)
        cfg = storecheck.Cfg(kind, d)
        base = cfg.open()
        universe = list(range(rng.randint(1, 6)))
        present = [n for n in universe if rng.random() < 0.5]
        nm = lambda n: ('%02x' % (n * 37 % 256) + 'c0ffee%032d' % n).encode()
        for n in present:
            base.dump({'v': n}, nm(n))
        list_base = rng.random() < 0.4
        names = [rng.choice(universe) for _ in range(rng.randint(1, 12))]
        cb = _CountingBase(cfg.open() if cfg.can_reopen else base)
        ms = memoize_store(cb, list_base=list_base)
        del cb.asked[:]
        got = [bool(ms.can_load(nm(n))) for n in names]
        back = {nm(n): n for n in universe}
        asked = [back.get(a, -1) for a in cb.asked]
        run.case(('canload', kind, list_base, len(set(names)) < len(names), bool(present)), nontrivial=True)
        run.count('canload_runs')
        rp = {'kind': 'memoized-can-load', 'backend': kind, 'list_base': list_base, 'present': present, 'names': names}
        want = [n in present for n in names]
        if got != want:
            run.fail('memoized-can-load-misreported', '%s store seen through the memoizing store of `jug status` (list_base=%s): results present for %s; can_load of %s answers %s, the truth is %s'
                     % (kind, list_base, present, names, got, want), rp)
        if len(set(asked)) != len(asked):
            # not a violation of C15 (the store does not change during this run, a second look gives the same answer): recorded, and the model's `asked` is compared below for the record only
            run.count('canload_runs_with_repeated_lookup')
        if drv is not None:
            ans = drv.ask({'op': 'canloadrun', 'present': present, 'listing': bool(list_base and hasattr(base, 'list')), 'names': names})
            run.corr_programs += 1
            if ans.get('asked') != asked:
                run.count('canload_runs_where_lookups_differ_from_model')
            if ans.get('answers') != got:
                bad += 1
                if bad <= 3:
                    run.corr_disagreements += 1
                    run.obligation('correspondence memoizing can_load model=code', False, 'model %s / asked %s, code %s / asked %s; case %s' % (ans.get('answers'), ans.get('asked'), got, asked, json.dumps(rp)[:300]))
        core.rm_rf(d)


def memo_family(run, drv, scratch, rng, quick):
    """the memoizing read-only wrapper `jug status --cache` looks at the locks through (jug/backends/memoize_store.py) against Model/Memo.lean: sequences of
    is_locked() / is_failed() on one wrapped lock while the base lock stays as it is (the answers must be the truth: memo_truthful) and while other clients take,
    fail and release it between the queries (the answers must be those of the model: one look per lock, locked_answers_constant)"""
    import itertools
    from jug.backends.memoize_store import memoize_store
    from jugverif import storecheck
    name = b'ab' * 20
    kinds = ['file', 'dict', 'redis']
    seqs = []
    for r in (1, 2, 3):
        for qs in itertools.product('LF', repeat=r):
            for st in ('free', 'held', 'failed'):
                seqs.append([(st, q) for q in qs])
    for _ in range(60 if quick else 600):
        seqs.append([(rng.choice(['free', 'held', 'failed']), rng.choice('LF')) for _ in range(rng.randint(2, 6))])
    for si, seq in enumerate(seqs):
        kind = kinds[si % 3]
        for list_base in (False, True):
            d = os.path.join(scratch, 'memo-%d-%s' % (si, list_base))
            os.makedirs(d, exist_ok=True)
            cfg = storecheck.Cfg(kind, d)
            base = cfg.open()
            holder = [None]

            def put(st):
                # bring the base lock into state st, as its holder would
                if holder[0] is not None:
                    holder[0].release()
                    holder[0] = None
                if st != 'free':
                    holder[0] = base.getlock(name)
                    assert holder[0].get()
                    if st == 'failed':
                        holder[0].fail()
            put(seq[0][0])
            ms = memoize_store(cfg.open() if cfg.can_reopen else base, list_base=list_base)
            lk = ms.getlock(name)
            got = []
            for st, q in seq:
                put(st)
                got.append(bool(lk.is_locked() if q == 'L' else lk.is_failed()))
            static = len({st for st, _ in seq}) == 1
            run.case(('memo', kind, list_base, tuple(seq)), nontrivial=not static or seq[0][0] != 'free')
            run.count('memo_query_sequences')
            rp = {'kind': 'memoized-lock', 'backend': kind, 'list_base': list_base, 'sequence': seq}
            if static:
                st = seq[0][0]
                want = [(st != 'free') if q == 'L' else (st == 'failed') for _, q in seq]
                if got != want:
                    run.fail('memoized-lock-misreported', '%s lock that is %s, seen through the memoizing store of `jug status` (list_base=%s): the queries %s answer %s, the truth is %s'
                             % (kind, st, list_base, [q for _, q in seq], got, want), rp)
            if drv is not None:
                ans = drv.ask({'op': 'memo', 'listing': (seq[0][0] != 'free') if list_base else None, 'qs': [[st, q] for st, q in seq]})
                run.corr_programs += 1
                if ans.get('answers') != got:
                    run.corr_disagreements += 1
                    run.obligation('correspondence memoizing lock wrapper model=code', False, 'model %s code %s; case %s' % (ans.get('answers'), got, json.dumps(rp)[:300]))
                    if not static:
                        # the model is what the theorem locked_answers_constant is about: judge the real answers by the statement itself
                        first = None
                        for (st, q), a in zip(seq, got):
                            if q == 'L':
                                if first is None:
                                    first = a
                                elif a != first and not list_base:
                                    run.fail('memoized-lock-unstable', '%s lock seen through the memoizing store: is_locked() answered %s and later %s within one wrapper (one status table mixes two looks at the lock); sequence %s'
                                             % (kind, first, a, seq), rp)
                                    break
            core.rm_rf(d)


def replay(path):
    d = json.load(open(path))
    print(d['what'][:1000])
    print(json.dumps(d['replay'])[:2000])
    return 1
