"""C10 - cleanup never deletes a needed result, and lock-only variants touch only locks"""
import itertools
import json
import os

from jugverif import core

LEVEL = 'proof'
THEOREMS = ['Jug.C10.cleanup_results', 'Jug.C10.needed_kept', 'Jug.C10.unneeded_removed', 'Jug.C10.keep_locks', 'Jug.C10.locks_only', 'Jug.C10.failed_only',
            'Jug.C10.default_locks', 'Jug.C10.cleanup_wf', 'Jug.C10.dispatch_matches']
MODES = ['default', 'keepLocks', 'locksOnly', 'failedOnly']


def extract():
    """mode dispatch of CleanupCommand.run for all 8 option combinations against a scripted store"""
    import jug.subcommands.cleanup as cl
    from jugverif import jugenv
    rows = []
    for lo, fo, kl in itertools.product([False, True], repeat=3):
        calls = []

        class L:
            def __init__(self, n):
                self.n = n

            def is_failed(self):
                calls.append('is_failed:' + self.n)
                return self.n == 'F'

            def is_locked(self):
                calls.append('is_locked:' + self.n)
                return True

            def release(self):
                calls.append('release:' + self.n)

        class S:
            def remove_locks(self):
                calls.append('remove_locks')
                return 2

            def listlocks(self):
                calls.append('listlocks')
                return ['F', 'H']

            def getlock(self, n):
                return L(n)

            def cleanup(self, tasks, keeplocks=False):
                calls.append('cleanup:keeplocks=%s' % bool(keeplocks))
                return 0

            def __getattr__(self, n):
                def f(*a, **k):
                    calls.append('other:' + n)
                return f
        o = jugenv.options()
        o.cleanup_locks_only, o.cleanup_failed_only, o.cleanup_keep_locks = lo, fo, kl
        o.print_out = lambda *a: None
        try:
            cl.cleanup.run(store=S(), options=o)
        except Exception as e:
            calls.append('raised:' + type(e).__name__)
        rows.append((lo, fo, kl, calls))
    b = lambda x: 'true' if x else 'false'
    txt = 'namespace Jug.Generated.Cleanup\n'
    txt += '/-- (locks_only, failed_only, keep_locks, store methods called) for all option combinations -/\n'
    txt += 'def dispatchTable : List (Bool × Bool × Bool × List String) := [\n'
    txt += ',\n'.join('  (%s, %s, %s, [%s])' % (b(lo), b(fo), b(kl), ', '.join('"%s"' % c for c in calls)) for lo, fo, kl, calls in rows)
    txt += ']\nend Jug.Generated.Cleanup\n'
    core.write_generated('CleanupDispatch', txt)


def check(run):
    from jugverif import storecheck
    quick = run.tier == 'quick'
    run.rule = ('random store contents (active results, results of other/older jugfiles, packed and loose entries, free/held/failed locks, stray temporary files) x the four modes of the real '
                'CleanupCommand x backends (file, file+pack, dict, redis protocol); the state after cleanup (loadable keys with values, lock states, temp files) is compared with the Lean model and with the '
                'property directly; non-trivial = the store held both needed and unneeded results and at least one lock; distinct by (backend, mode, contents)')
    run.assumptions = ['the active set is the set of task hashes the loaded jugfile defines (task.alltasks)', 'redis through the in-memory stand-in']
    run.trusted = ['Lean 4.33.0 kernel', 'axioms propext, Quot.sound', 'harness/jugverif/storecheck.py (store histories on the real backends)']
    extract()
    run.lean(['JugModel.Props.C10', 'jugdrv'], theorems_expected=THEOREMS)
    drv = core.Driver() if run.driver_ok else None
    try:
        storecheck.cleanup_family(run, drv, n=(120 if quick else 1200))
        storecheck.stale_cleanup_family(run, n=(4 if quick else 16))
        storecheck.many_keys_lock_cleanup(run)
        storecheck.tidy_store_cleanup(run)
        storecheck.large_store_cleanup(run, 2600 if quick else 12000)
        if drv is not None and run.corr_disagreements == 0:
            run.obligation('correspondence: %d cleanup runs of the real command agree with the model' % run.corr_programs, True)
    finally:
        if drv is not None:
            drv.close()


def replay(path):
    from jugverif import storecheck
    return storecheck.replay(path, 'C10')
